//! single-instruction transitions driven by instruction NAME through the InstructionSet
use crate::codec::*;
use crate::rng::Rng;
use crate::stategen::*;
use pushr::push::instructions::InstructionSet;
use pushr::push::interpreter::PushInterpreter;
use pushr::push::state::PushState;
use std::panic::{catch_unwind, AssertUnwindSafe};

pub fn exec_by_name(iset: &mut InstructionSet, name: &str, s: &mut PushState) -> bool {
    let icache = iset.cache();
    let r = catch_unwind(AssertUnwindSafe(|| {
        if let Some(instruction) = iset.get_instruction(name) {
            (instruction.execute)(s, &icache);
        }
    }));
    r.is_ok()
}

/// value the process-global node counter will hand out next
pub fn next_node_id() -> usize {
    pushr::push::graph::Graph::new().add_node(0) + 1
}

pub fn observe_exec(iset: &mut InstructionSet, name: &str, mut s: PushState) -> String {
    let pre = enc_state(&s);
    let nid = next_node_id();
    crate::mark(&format!("( exec {} {} ? {} )", name, pre, nid));
    let ok = exec_by_name(iset, name, &mut s);
    if ok {
        format!("( exec {} {} {} {} )", name, pre, enc_state(&s), nid)
    } else {
        format!("( exec {} {} PANIC {} )", name, pre, nid)
    }
}

pub fn observe_step(iset: &mut InstructionSet, mut s: PushState) -> (String, Option<(bool, PushState)>) {
    let pre = enc_state(&s);
    let icache = iset.cache();
    let nid = next_node_id();
    crate::mark(&format!("( step {} ? ? {} )", pre, nid));
    let r = catch_unwind(AssertUnwindSafe(|| {
        let done = PushInterpreter::step(&mut s, iset, &icache);
        (done, s)
    }));
    match r {
        Ok((done, s)) => (format!("( step {} {} {} {} )", pre, enc_bool(done), enc_state(&s), nid), Some((done, s))),
        Err(_) => (format!("( step {} F PANIC {} )", pre, nid), None),
    }
}

/// instructions whose allocation / iteration count is taken from an INTEGER operand
pub fn is_size_operand(name: &str) -> bool {
    name.ends_with(".ONES")
        || name.ends_with(".ZEROS")
        || name.ends_with("VECTOR.RAND")
        || name == "FLOATVECTOR.SINE"
        || name.starts_with("LIST.NEIGHBOR")
        || name == "CODE.RAND"
}

pub fn cap_ints(s: &mut PushState, cap: i32) {
    let n = s.int_stack.size();
    for i in 0..n {
        if let Some(v) = s.int_stack.get_mut(i) {
            if *v > cap {
                *v %= cap;
            }
        }
    }
}

pub fn matches_filter(name: &str, filter: &str) -> bool {
    matches(name, filter)
}
fn matches(name: &str, filter: &str) -> bool {
    // filter: comma separated prefixes or exact names; "*" = everything; "!X" excludes prefix X
    if filter == "*" {
        return true;
    }
    let mut pos = false;
    let mut any_pos = false;
    for f in filter.split(',') {
        if let Some(ex) = f.strip_prefix('!') {
            if name.starts_with(ex) {
                return false;
            }
        } else {
            any_pos = true;
            if let Some(exact) = f.strip_prefix('=') {
                if name == exact {
                    pos = true;
                }
            } else if name.starts_with(f) {
                pos = true;
            }
        }
    }
    pos || !any_pos
}

/// `exec` scenario: every instruction matching `filter` x `n` generated states
pub fn run(seed: u64, tier: &str, filter: &str, count: Option<u64>, out: &mut dyn FnMut(String)) {
    let names = instruction_names();
    let n = count.unwrap_or(if tier == "thorough" { 1500 } else { 150 });
    let mut iset = make_iset(false);
    for name in names.iter().filter(|n| matches(n, filter)) {
        for case in 0..n {
            let mut r = Rng::for_case(seed, &format!("exec:{}", name), case);
            let rich = r.chance(3, 5);
            let mut st = gen_state(&mut r, &GenOpts { instrs: &names, rich, item_depth: 3 });
            if is_size_operand(name) {
                // resource envelope (C01 / C15): operand-controlled allocation sizes are bounded
                cap_ints(&mut st, 2000);
                if name == "CODE.RAND" {
                    // the size operand of CODE.RAND is used by absolute value
                    let n = st.int_stack.size();
                    let cfg_small = (st.configuration.max_points_in_random_expressions as i64).abs() <= 3000;
                    for i in 0..n {
                        if let Some(v) = st.int_stack.get_mut(i) {
                            // i32::MIN itself stays when the configured maximum bounds it on a correct tree
                            if *v < -2000 && !(*v == i32::MIN && cfg_small) {
                                *v = -((*v as i64).abs() % 2000) as i32;
                            }
                        }
                    }
                    if case % 4 == 1 {
                        // directed: a NEGATIVE configured maximum (used by absolute value) far below a large operand of
                        // either sign - the item must follow the configured maximum, not the operand
                        st.configuration.max_points_in_random_expressions = -(1 + r.below(30) as i32);
                        let big = 1200 + r.below(800) as i32;
                        st.int_stack.push(if r.chance(1, 2) { big } else { -big });
                    }
                }
            }
            if name.ends_with("VECTOR.RAND") && case % 5 == 2 {
                // directed: the documented guards of the RAND instructions at their boundary - size exactly 0 / -1 / 1
                // combined with an empty, reversed or valid value range and an out-of-range, NaN or valid parameter
                let (a, b) = *r.pick(&[(5, 1), (4, 4), (-3, -9), (1, 5), (0, 0), (-2, 7)]);
                st.int_stack.push(a);
                st.int_stack.push(b);
                st.int_stack.push(*r.pick(&[0, 0, -1, 1]));
                st.float_stack.push(*r.pick(&[1.5f32, -0.1, f32::NAN, 0.0, 1.0, -1.0, 0.5]));
                st.float_stack.push(*r.pick(&[1.5f32, -0.1, f32::NAN, 0.0, 1.0, -1.0, 0.5]));
            }
            if name.starts_with("LIST.NEIGHBOR") && name.ends_with("VALS") && r.chance(3, 4) {
                // well-formed use: one record per cell, each a list with values of all three types before, inside and
                // after a sub-list; a small position operand; size around the number of records
                use crate::gen::gen_float;
                use pushr::push::item::Item;
                let nrec = 4 + r.below(9) as i32;
                st.code_stack.flush();
                for k in 0..nrec {
                    let lit = |r: &mut Rng, k: i32| match r.below(3) {
                        0 => Item::int(10 * k + r.below(10) as i32),
                        1 => Item::float(gen_float(r)),
                        _ => Item::bool(r.chance(1, 2)),
                    };
                    let mut v = vec![];
                    for _ in 0..r.below(3) {
                        v.push(lit(&mut r, k));
                    }
                    let sub: Vec<Item> = (0..1 + r.below(3)).map(|_| lit(&mut r, k)).collect();
                    v.push(Item::list(sub));
                    for _ in 0..1 + r.below(3) {
                        v.push(lit(&mut r, k));
                    }
                    st.code_stack.push(Item::list(v));
                }
                let size = nrec + *r.pick(&[-2i32, -1, 0, 0, 0, 1, 3]);
                st.float_stack.push(*r.pick(&[0.0f32, 1.0, 1.5, 2.0]));
                st.int_stack.push(1 + r.below(2) as i32); // dimensions
                st.int_stack.push(r.below(size.max(1) as u64) as i32); // centre
                st.int_stack.push(size);
                st.int_stack.push(r.below(5) as i32); // position of the value inside a record
            }
            if name.starts_with("FLOATVECTOR.SORT") && r.chance(1, 2) {
                // total_cmp orders negative NaNs first and positive ones last: exercise both
                if let Some(v) = st.float_vector_stack.get_mut(0) {
                    for x in v.values.iter_mut() {
                        if x.is_nan() && r.chance(1, 2) {
                            *x = f32::from_bits(0xffc0_0000);
                        }
                    }
                }
            }
            out(observe_exec(&mut iset, name, st));
        }
    }
}

/// `pairs` scenario: the same instruction twice IN A ROW on one InstructionSet, on two states that differ in exactly
/// one operand (an integer, a float, a boolean near the top of its stack). Both executions are reported: a result
/// remembered from the first one under a key that ignores the changed operand shows in the second.
pub fn run_pairs(seed: u64, tier: &str, filter: &str, count: Option<u64>, out: &mut dyn FnMut(String)) {
    let names = instruction_names();
    let n = count.unwrap_or(if tier == "thorough" { 200 } else { 20 });
    for name in names.iter().filter(|n| matches(n, filter)) {
        if crate::scen_prog::is_rand(name) || name == "EXEC.CMD" {
            continue;
        }
        for case in 0..n {
            let mut r = Rng::for_case(seed, &format!("pairs:{}", name), case);
            let mut st = gen_state(&mut r, &GenOpts { instrs: &names, rich: true, item_depth: 2 });
            if is_size_operand(name) {
                cap_ints(&mut st, 300);
            }
            // a fresh InstructionSet per pair: whatever it remembers comes from the first execution
            let mut iset = make_iset(false);
            let pre = enc_state(&st);
            let mut b = match parse_line(&pre).and_then(|v| dec_state(&v[0])) {
                Some(s) => s,
                None => continue,
            };
            // the changed operand: uniformly one of the slots near the tops of the INTEGER, FLOAT and BOOLEAN stacks
            let ni = b.int_stack.size().min(4);
            let nf = b.float_stack.size().min(4);
            let nb = b.bool_stack.size().min(1);
            let tot = ni + nf + nb;
            if tot > 0 {
                let k = r.below(tot as u64) as usize;
                if k < nf {
                    if let Some(x) = b.float_stack.get_mut(k) {
                        *x = if x.is_finite() { *x + *r.pick(&[0.25f32, 0.5, 1.0, 1.5707964, -0.75]) } else { 1.0 };
                    }
                } else if k < nf + ni {
                    if let Some(x) = b.int_stack.get_mut(k - nf) {
                        *x = x.wrapping_add(*r.pick(&[1i32, -1, 2, 3])).min(300);
                    }
                } else if let Some(x) = b.bool_stack.get_mut(0) {
                    *x = !*x;
                }
            }
            out(observe_exec(&mut iset, name, st));
            out(observe_exec(&mut iset, name, b));
        }
    }
}

pub fn replay_exec(xs: &[Sx]) -> Option<String> {
    let name = match xs.get(0)? {
        Sx::Atom(a) => a.clone(),
        _ => return None,
    };
    let st = dec_state(xs.get(1)?)?;
    let mut iset = make_iset(false);
    Some(observe_exec(&mut iset, &name, st))
}

pub fn replay_step(xs: &[Sx]) -> Option<String> {
    let st = dec_state(xs.get(0)?)?;
    let mut iset = make_iset(false);
    Some(observe_step(&mut iset, st).0)
}

/// C08: CODE instructions on tree-rich states; the second / third CODE items are often points of the top one
pub fn run_codeops(seed: u64, tier: &str, filter: &str, out: &mut dyn FnMut(String)) {
    use crate::gen::gen_item;
    use pushr::push::item::Item;
    let names = instruction_names();
    let n = if tier == "thorough" { 3000 } else { 400 };
    let mut iset = make_iset(false);
    let inert: Vec<String> = vec!["NOOP".to_string(), "INTEGER.+".to_string(), "CODE.DUP".to_string()];
    for name in names.iter().filter(|n| matches(n, filter)) {
        for case in 0..n {
            let mut r = Rng::for_case(seed, &format!("codeops:{}", name), case);
            let rich = r.chance(1, 2);
            let mut st = gen_state(&mut r, &GenOpts { instrs: &inert, rich, item_depth: 2 });
            st.code_stack.flush();
            let depth = 1 + r.below(4) as u32;
            let top = match r.below(8) {
                0 => crate::gen::gen_atom(&mut r, &inert),
                1 | 2 => gen_item(&mut r, depth, &inert),
                _ => crate::gen::gen_tree(&mut r, depth, &inert),
            };
            let size = Item::size(&top) as i64;
            let sub = |r: &mut Rng, t: &Item| -> Item {
                let k = r.below(Item::size(t) as u64) as usize;
                Item::traverse(t, k).unwrap_or(Item::int(0))
            };
            let ncode = r.below(4);
            if ncode >= 3 {
                let third = if r.chance(1, 2) { sub(&mut r, &top) } else { gen_item(&mut r, 1, &inert) };
                st.code_stack.push(third);
            }
            if ncode >= 2 {
                let second = match r.below(10) {
                    0..=4 => sub(&mut r, &top),
                    5 => crate::gen::print_alike(&mut r, &top),
                    6 => top.clone(),
                    7 => { let p = sub(&mut r, &top); crate::gen::print_alike(&mut r, &p) }
                    _ => gen_item(&mut r, 2, &inert),
                };
                st.code_stack.push(second);
            }
            if ncode >= 1 {
                st.code_stack.push(top);
            }
            if r.chance(9, 10) {
                let i = match r.below(6) {
                    0 => *r.pick(&[i32::MIN, i32::MAX, -1, 0]),
                    _ => r.range(-2 * size, 2 * size) as i32,
                };
                st.int_stack.push(i);
            }
            if name == "CODE.SUBST" && r.chance(1, 3) {
                // self-similar operands: the substitute S occurs inside the pattern P, and the target holds P wrapped in
                // the shape of P itself (P with S replaced by P). Exactly the inner P is a structural match; the
                // wrapper only LOOKS like the pattern after the replacement and must not be replaced again.
                let sv = crate::gen::gen_atom(&mut r, &inert);
                let mut shape = vec![];
                for _ in 0..r.below(3) {
                    shape.push(crate::gen::gen_atom(&mut r, &inert));
                }
                let at = r.below(shape.len() as u64 + 1) as usize;
                let mut pv = shape.clone();
                pv.insert(at, sv.clone());
                let pat = Item::list(pv);
                let mut lv = shape.clone();
                lv.insert(at, pat.clone());
                let wrapper = Item::list(lv);
                let target = match r.below(3) {
                    0 => wrapper,
                    1 => Item::list(vec![wrapper, Item::int(5)]),
                    _ => Item::list(vec![Item::int(7), Item::list(vec![wrapper.clone(), pat.clone()])]),
                };
                st.code_stack.flush();
                st.code_stack.push(pat);
                st.code_stack.push(sv);
                st.code_stack.push(target);
            }
            out(observe_exec(&mut iset, name, st));
        }
    }
}

/// C09: element-wise vector instructions on an exhaustive grid of length pairs and offsets
pub fn run_vecgrid(seed: u64, tier: &str, out: &mut dyn FnMut(String)) {
    use crate::gen::{gen_float, gen_int};
    use pushr::push::vector::{BoolVector, FloatVector, IntVector};
    let names = ["BOOLVECTOR.AND", "BOOLVECTOR.OR", "BOOLVECTOR.NOT", "INTVECTOR.+", "INTVECTOR.-", "FLOATVECTOR.+",
        "FLOATVECTOR.-", "FLOATVECTOR.*", "FLOATVECTOR./"];
    let maxlen = if tier == "thorough" { 9 } else { 6 };
    let mut iset = make_iset(false);
    let mut case = 0u64;
    for name in names.iter() {
        for la in 0..=maxlen {
            for lb in 0..=maxlen {
                let mut offs: Vec<i32> = (-(maxlen as i32) - 2..=(maxlen as i32) + 2).collect();
                offs.extend_from_slice(&[i32::MIN, i32::MIN + 1, i32::MAX - 1, i32::MAX]);
                for off in offs {
                    case += 1;
                    let mut r = Rng::for_case(seed, "vecgrid", case);
                    let mut st = PushState::new();
                    st.int_stack.push(77);
                    st.int_stack.push(off);
                    match &name[..4] {
                        // equal lengths: one case in three has EQUAL vectors (the second pushed as a copy of the first)
                        "BOOL" => {
                            let a: Vec<bool> = (0..la).map(|_| r.chance(1, 2)).collect();
                            let b: Vec<bool> = if la == lb && r.chance(1, 3) { a.clone() } else { (0..lb).map(|_| r.chance(1, 2)).collect() };
                            st.bool_vector_stack.push(BoolVector::new(a));
                            st.bool_vector_stack.push(BoolVector::new(b));
                        }
                        "INTV" => {
                            let a: Vec<i32> = (0..la).map(|_| gen_int(&mut r)).collect();
                            let b: Vec<i32> = if la == lb && r.chance(1, 3) { a.clone() } else { (0..lb).map(|_| gen_int(&mut r)).collect() };
                            st.int_vector_stack.push(IntVector::new(a));
                            st.int_vector_stack.push(IntVector::new(b));
                        }
                        _ => {
                            st.float_vector_stack.push(FloatVector::new((0..la).map(|_| gen_float(&mut r)).collect()));
                            st.float_vector_stack.push(FloatVector::new(
                                (0..lb).map(|_| if r.chance(1, 6) { 0.0 } else { gen_float(&mut r) }).collect(),
                            ));
                        }
                    }
                    out(observe_exec(&mut iset, name, st));
                }
            }
        }
    }
}

/// C19: LIST.* on states with stack-id vectors and records on the CODE stack
pub fn run_listops(seed: u64, tier: &str, out: &mut dyn FnMut(String)) {
    use crate::gen::{gen_float, gen_int, gen_item};
    use pushr::push::item::Item;
    use pushr::push::vector::IntVector;
    let names = ["LIST.ADD", "LIST.BVAL", "LIST.FVAL", "LIST.GET", "LIST.IVAL", "LIST.REMOVE", "LIST.SET"];
    let all = instruction_names();
    let inert: Vec<String> = vec!["NOOP".to_string(), "INTEGER.+".to_string()];
    let n = if tier == "thorough" { 6000 } else { 700 };
    let mut iset = make_iset(false);
    for name in names.iter() {
        for case in 0..n {
            let mut r = Rng::for_case(seed, &format!("listops:{}", name), case);
            let rich = r.chance(1, 2);
            let mut st = gen_state(&mut r, &GenOpts { instrs: &all, rich, item_depth: 2 });
            // records: lists of literals, some nested
            st.code_stack.flush();
            for _ in 0..r.below(5) {
                let k = r.below(6);
                let v: Vec<Item> = (0..k)
                    .map(|_| match r.below(6) {
                        0 => Item::bool(r.chance(1, 2)),
                        1 | 2 => Item::int(gen_int(&mut r)),
                        3 => Item::float(gen_float(&mut r)),
                        4 => gen_item(&mut r, 2, &inert),
                        _ => Item::list(vec![Item::int(gen_int(&mut r)), Item::bool(true), Item::float(gen_float(&mut r))]),
                    })
                    .collect();
                st.code_stack.push(if r.chance(1, 8) { Item::int(5) } else { Item::list(v) });
            }
            // stack-id vector on top of INTVECTOR
            let k = r.below(7);
            let ids: Vec<i32> = (0..k)
                .map(|_| if r.chance(5, 6) { *r.pick(&[1, 2, 3, 4, 5, 6, 9, 10, 11, 9, 1, 5]) } else { *r.pick(&[0, 7, 8, 12, 13, -1, 99]) })
                .collect();
            if r.chance(9, 10) {
                st.int_vector_stack.push(IntVector::new(ids));
            }
            // (n, position) operands
            let depth = st.code_stack.size() as i64;
            st.int_stack.push(r.range(-2, depth + 2) as i32);
            if name.ends_with("VAL") {
                st.int_stack.push(if r.chance(1, 8) { *r.pick(&[-1, i32::MIN, i32::MAX, 50]) } else { r.range(0, 4) as i32 });
            }
            if r.chance(1, 12) {
                st.int_stack.flush();
            }
            if *name == "LIST.SET" && case % 6 == 5 {
                // directed: the addressed record PRINTS like the new record but differs from it (a float beyond the
                // printed decimals, a name spelled like a boolean): the replacement must still happen
                let k = 1 + r.below(4) as usize;
                let ids: Vec<i32> = (0..k).map(|_| *r.pick(&[1, 5, 11, 5])).collect();
                let mut items = vec![];
                for &sid in ids.iter().rev() {
                    // pushed in reverse so that load_items pops them in id order
                    match sid {
                        1 => {
                            let b = r.chance(1, 2);
                            st.bool_stack.push(b);
                            items.push(Item::bool(b));
                        }
                        5 => {
                            let f = (r.range(-5000, 5000) as f32) / 8.0;
                            st.float_stack.push(f);
                            items.push(Item::float(f));
                        }
                        _ => {
                            let n = crate::gen::gen_name(&mut r);
                            st.name_stack.push(n.clone());
                            items.push(Item::name(n));
                        }
                    }
                }
                items.reverse();
                let old = crate::gen::print_alike(&mut r, &Item::list(items));
                st.code_stack.flush();
                if r.chance(1, 2) {
                    st.code_stack.push(Item::int(gen_int(&mut r)));
                }
                st.code_stack.push(old);
                // position 0 is the top of CODE; a negative position is clamped to it
                st.int_vector_stack.push(IntVector::new(ids));
                st.int_stack.push(if r.chance(1, 2) { 0 } else { -2 });
            }
            out(observe_exec(&mut iset, name, st));
        }
    }
}

fn truncate_stack(st: &mut PushState, which: usize, keep: usize) {
    macro_rules! trunc {
        ($s:expr) => {{
            while $s.size() > keep {
                $s.pop();
            }
        }};
    }
    match which {
        0 => trunc!(st.bool_stack),
        1 => trunc!(st.int_stack),
        2 => trunc!(st.float_stack),
        3 => trunc!(st.name_stack),
        4 => trunc!(st.code_stack),
        5 => trunc!(st.exec_stack),
        6 => trunc!(st.index_stack),
        7 => trunc!(st.bool_vector_stack),
        8 => trunc!(st.int_vector_stack),
        9 => trunc!(st.float_vector_stack),
        10 => {
            while st.input_stack.size() > keep {
                st.input_stack.pop();
            }
        }
        _ => {
            while st.graph_stack.size() > keep {
                st.graph_stack.pop();
            }
        }
    }
}

/// C10: every instruction on rich states in which one or two stacks have been made too short
pub fn run_starve(seed: u64, tier: &str, out: &mut dyn FnMut(String)) {
    let names = instruction_names();
    let nstates = if tier == "thorough" { 8 } else { 2 };
    let mut iset = make_iset(false);
    for name in names.iter() {
        for k in 0..nstates {
            let mut case = 0u64;
            let mut variants: Vec<(usize, usize, Option<(usize, usize)>)> = vec![];
            for which in 0..12 {
                for keep in 0..3 {
                    variants.push((which, keep, None));
                }
            }
            let mut r0 = Rng::for_case(seed, &format!("starve-pairs:{}", name), k);
            for _ in 0..12 {
                variants.push((r0.below(12) as usize, r0.below(2) as usize, Some((r0.below(12) as usize, r0.below(2) as usize))));
            }
            for (which, keep, second) in variants {
                case += 1;
                // the same rich state for every variant of this (instruction, k)
                let mut r = Rng::for_case(seed, &format!("starve:{}", name), k);
                let mut st = gen_state(&mut r, &GenOpts { instrs: &names, rich: true, item_depth: 2 });
                if st.index_stack.size() == 0 {
                    st.index_stack.push(pushr::push::index::Index::new(3));
                }
                if st.graph_stack.size() == 0 {
                    st.graph_stack.push(crate::stategen::gen_graph(&mut r));
                    st.graph_stack.push(crate::stategen::gen_graph(&mut r));
                }
                // a missing operand must change no binding either: half of the states have the NAME on top already bound
                // (as after NAME.QUOTE of a defined name), so that a DEFINE that gives up half-way has something to spoil
                if case % 2 == 0 {
                    if let Some(nm) = st.name_stack.get(0).cloned() {
                        st.name_bindings.insert(nm, pushr::push::item::Item::int(41));
                    }
                }
                truncate_stack(&mut st, which, keep);
                if let Some((w2, k2)) = second {
                    truncate_stack(&mut st, w2, k2);
                }
                if is_size_operand(name) {
                    cap_ints(&mut st, 2000);
                    if name == "CODE.RAND" {
                        let n = st.int_stack.size();
                        for i in 0..n {
                            if let Some(v) = st.int_stack.get_mut(i) {
                                // i32::MIN itself stays: the configured maximum bounds it on a correct tree
                            if *v < -2000 && *v != i32::MIN {
                                    *v = -((*v as i64).abs() % 2000) as i32;
                                }
                            }
                        }
                    }
                }
                out(format!("#c starve {} {}", name, case));
                out(observe_exec(&mut iset, name, st));
            }
        }
    }
}

/// C01: the real EXEC.CMD on a handful of harmless operand tuples (each spawn costs the hard-coded 1 s sleep)
pub fn run_cmd(out: &mut dyn FnMut(String)) {
    let mut iset = make_iset(true);
    let cases: Vec<(Vec<i32>, Vec<&str>)> = vec![
        (vec![i32::MAX], vec!["true", "x"]),
        (vec![-1], vec!["true"]),
        (vec![i32::MIN], vec!["true"]),
        (vec![5], vec!["true", "a"]),
        (vec![], vec!["true"]),
        (vec![0], vec![]),
        (vec![0], vec!["true"]),
    ];
    for (ints, names) in cases {
        let mut st = PushState::new();
        for n in names.iter().rev() {
            st.name_stack.push(n.to_string());
        }
        for i in ints {
            st.int_stack.push(i);
        }
        out(observe_exec(&mut iset, "EXEC.CMD", st));
    }
}

/// `unreg` scenario: the instruction functions the crate ships without registering them (`int_vector_multiply`,
/// `int_vector_divide`: their two lines in `load_vector_instructions` are commented out), registered here with the
/// public `InstructionSet::add` under their README names and driven by NAME on the length-pair x offset grid with
/// zeros among the divisors, plus generated states.
pub fn run_unreg(seed: u64, tier: &str, out: &mut dyn FnMut(String)) {
    use crate::gen::gen_int;
    use pushr::push::instructions::Instruction;
    use pushr::push::vector::{int_vector_divide, int_vector_multiply, IntVector};
    let mut iset = make_iset(false);
    iset.add("INTVECTOR.*".to_string(), Instruction::new(int_vector_multiply));
    iset.add("INTVECTOR./".to_string(), Instruction::new(int_vector_divide));
    let observe = |iset: &mut InstructionSet, name: &str, mut s: PushState| -> String {
        let pre = enc_state(&s);
        let nid = next_node_id();
        // exec_by_name catches a panic of the instruction itself and reports it through its result
        if exec_by_name(iset, name, &mut s) {
            format!("( unreg {} {} {} {} )", name, pre, enc_state(&s), nid)
        } else {
            format!("( unreg {} {} PANIC {} )", name, pre, nid)
        }
    };
    let maxlen = if tier == "thorough" { 7 } else { 4 };
    let mut case = 0u64;
    for name in ["INTVECTOR.*", "INTVECTOR./"].iter() {
        for la in 0..=maxlen {
            for lb in 0..=maxlen {
                let mut offs: Vec<i32> = (-(maxlen as i32) - 1..=(maxlen as i32) + 1).collect();
                offs.extend_from_slice(&[i32::MIN, i32::MAX]);
                for off in offs {
                    for zeros in 0..3 {
                        case += 1;
                        let mut r = Rng::for_case(seed, "unreg", case);
                        let mut st = PushState::new();
                        st.int_stack.push(77);
                        st.int_stack.push(off);
                        st.int_vector_stack.push(IntVector::new((0..la).map(|_| gen_int(&mut r)).collect()));
                        // the top vector (the divisors): no zero, one zero at a random place, or mostly zeros
                        let top: Vec<i32> = (0..lb)
                            .map(|_| match zeros {
                                0 => { let v = gen_int(&mut r); if v == 0 { 3 } else { v } }
                                1 => if r.chance(1, 3) { 0 } else { 1 + r.below(9) as i32 },
                                _ => if r.chance(2, 3) { 0 } else { -1 },
                            })
                            .collect();
                        st.int_vector_stack.push(IntVector::new(top));
                        out(format!("#c unreg {} la={} lb={} off={}", name, la, lb, off));
                        out(observe(&mut iset, name, st));
                    }
                }
            }
        }
        let names = instruction_names();
        for k in 0..(if tier == "thorough" { 2000 } else { 200 }) {
            let mut r = Rng::for_case(seed, &format!("unreg:{}", name), k);
            let rich = r.chance(1, 2);
            let st = gen_state(&mut r, &GenOpts { instrs: &names, rich, item_depth: 2 });
            out(observe(&mut iset, name, st));
        }
    }
    // `input_flush` (doc comment: INPUT.FLUSH) is public but not registered either
    iset.add("INPUT.FLUSH".to_string(), Instruction::new(pushr::push::io::input_flush));
    let names = instruction_names();
    for k in 0..(if tier == "thorough" { 2000 } else { 300 }) {
        let mut r = Rng::for_case(seed, "unreg:INPUT.FLUSH", k);
        let st = gen_state(&mut r, &GenOpts { instrs: &names, rich: k % 2 == 0, item_depth: 2 });
        out(observe(&mut iset, "INPUT.FLUSH", st));
    }
}
