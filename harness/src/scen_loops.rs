//! C06: loop programs run to completion.
use crate::codec::*;
use crate::rng::Rng;
use crate::scen_exec::next_node_id;
use crate::stategen::*;
use pushr::push::instructions::InstructionSet;
use pushr::push::interpreter::PushInterpreter;
use pushr::push::item::Item;
use pushr::push::state::PushState;
use pushr::push::vector::IntVector;
use std::panic::{catch_unwind, AssertUnwindSafe};

fn ins(n: &str) -> Item {
    Item::instruction(n.to_string())
}

/// items of the program, first executed first
fn program(kind: &str, body: &str, n: i32, m: i32, v: &[i32]) -> Vec<Item> {
    let body_item = match body {
        "cur" => ins("INDEX.CURRENT"),
        // Item::list takes bottom-first: the LAST vector element is executed first
        "acc" => Item::list(vec![ins("INTEGER.+"), ins("INDEX.CURRENT")]),
        "nest" => Item::list(vec![ins("INDEX.CURRENT"), ins("EXEC.LOOP"), ins("INDEX.DEFINE"), Item::int(m)]),
        // the body looks at the INTVECTOR stack: while it runs, the iterated vector must not be there
        "depth" => ins("INTVECTOR.STACKDEPTH"),
        _ => ins("CODE.FROMINTEGER"),
    };
    match kind {
        "exec" => vec![Item::int(n), ins("INDEX.DEFINE"), ins("EXEC.LOOP"), body_item],
        "code" => vec![ins("CODE.QUOTE"), body_item, Item::int(n), ins("INDEX.DEFINE"), ins("CODE.LOOP")],
        _ => vec![Item::intvec(IntVector::new(v.to_vec())), ins("INTVECTOR.LOOP"), body_item],
    }
}

pub fn observe(iset: &mut InstructionSet, kind: &str, body: &str, n: i32, m: i32, v: &[i32], mut st: PushState) -> String {
    let prog = program(kind, body, n, m, v);
    for it in prog.into_iter().rev() {
        st.exec_stack.push(it);
    }
    let pre = enc_state(&st);
    let nid = next_node_id();
    let icache = iset.cache();
    let r = catch_unwind(AssertUnwindSafe(|| {
        for _ in 0..50000 {
            if PushInterpreter::step(&mut st, iset, &icache) {
                break;
            }
        }
        st
    }));
    match r {
        Ok(s) => format!("( loop {} {} {} {} {} {} {} )", kind, body, n, m, pre, enc_state(&s), nid),
        Err(_) => format!("( loop {} {} {} {} {} PANIC {} )", kind, body, n, m, pre, nid),
    }
}

pub fn run(seed: u64, tier: &str, out: &mut dyn FnMut(String)) {
    let names = instruction_names();
    let mut iset = make_iset(false);
    let maxn = if tier == "thorough" { 60 } else { 25 };
    let mut case = 0u64;
    for kind in ["exec", "code", "ivec"].iter() {
        let bodies: &[&str] = if *kind == "ivec" { &["from", "depth"] } else { &["cur", "acc", "nest"] };
        for body in bodies {
            for n in 0..maxn {
                for rep in 0..2 {
                    case += 1;
                    let mut r = Rng::for_case(seed, "loops", case);
                    let mut st = gen_state(&mut r, &GenOpts { instrs: &names, rich: rep == 1, item_depth: 2 });
                    st.exec_stack.flush();
                    if rep == 0 {
                        // a clean frame: nothing else on EXEC / INDEX
                        st.index_stack.flush();
                    }
                    if *kind == "code" {
                        // CODE.LOOP takes its body from the CODE stack: keep the bystanders inert
                        st.code_stack.flush();
                        for j in 0..r.below(4) {
                            st.code_stack.push(Item::float(j as f32));
                        }
                    }
                    if *body == "acc" {
                        st.int_stack.push(0);
                    }
                    let m = r.below(4) as i32;
                    let v: Vec<i32> = (0..n).map(|_| r.range(-9, 9) as i32).collect();
                    out(observe(&mut iset, kind, body, n, m, &v, st));
                }
            }
        }
    }
}
