#![allow(dead_code)]
//! pvh: correspondence harness. `pvh gen <scenario> <seed> <tier>` drives the real pushr in-process on
//! generated cases and prints one request line (with the observed outcome) per transition;
//! `pvh replay` re-executes request lines read from stdin against the current code.
mod codec;
mod gen;
mod rng;
mod scen_stack;

use std::io::{BufRead, Write};

fn main() {
    // panics inside pushr are caught per case; keep stderr quiet
    std::panic::set_hook(Box::new(|_| {}));
    let args: Vec<String> = std::env::args().collect();
    let stdout = std::io::stdout();
    let mut w = std::io::BufWriter::with_capacity(1 << 20, stdout.lock());
    let mut out = |s: String| {
        let _ = writeln!(w, "{}", s);
    };
    match args.get(1).map(|s| s.as_str()) {
        Some("gen") => {
            let scen = args.get(2).expect("scenario");
            let seed: u64 = args.get(3).and_then(|s| s.parse().ok()).unwrap_or(0);
            let tier = args.get(4).map(|s| s.as_str()).unwrap_or("quick");
            match scen.as_str() {
                "stack" => scen_stack::run(seed, tier, &mut out),
                "stack-exh" => scen_stack::run_exhaustive(if tier == "thorough" { 4 } else { 3 }, &mut out),
                _ => {
                    eprintln!("unknown scenario {}", scen);
                    std::process::exit(2);
                }
            }
        }
        Some("replay") => {
            let stdin = std::io::stdin();
            for line in stdin.lock().lines() {
                let line = line.unwrap();
                let r = codec::parse_line(&line).and_then(|v| match v.into_iter().next()? {
                    codec::Sx::List(xs) => {
                        let kind = match xs.get(0)? {
                            codec::Sx::Atom(a) => a.clone(),
                            _ => return None,
                        };
                        match kind.as_str() {
                            "stackop" => scen_stack::replay(&xs[1..]),
                            _ => None,
                        }
                    }
                    _ => None,
                });
                out(r.unwrap_or_else(|| "( bad-replay )".to_string()));
            }
        }
        _ => {
            eprintln!("usage: pvh gen <scenario> <seed> <tier> | pvh replay");
            std::process::exit(2);
        }
    }
}
