#![allow(dead_code)]
//! pvh: correspondence harness. `pvh gen <scenario> <seed> <tier>` drives the real pushr in-process on
//! generated cases and prints one request line (with the observed outcome) per transition;
//! `pvh replay` re-executes request lines read from stdin against the current code.
mod codec;
mod gen;
mod rng;
mod scen_buf;
mod scen_det;
mod scen_exec;
mod scen_gens;
mod scen_graph;
mod scen_grid;
mod scen_loops;
mod scen_parse;
mod scen_prog;
mod scen_stack;
mod scen_topo;
mod stategen;

use std::io::{BufRead, Write};

#[repr(C)]
struct RLimit {
    cur: u64,
    max: u64,
}
extern "C" {
    fn setrlimit(resource: i32, rlim: *const RLimit) -> i32;
}
const RLIMIT_AS: i32 = 9;

/// `#c` marker written (appended and visible at once) BEFORE a case is executed: if the case aborts the
/// process or never returns, the check attributes it to this line, which carries the whole request
pub fn mark(s: &str) {
    if let Ok(p) = std::env::var("PVH_OUT") {
        if let Ok(mut f) = std::fs::OpenOptions::new().append(true).open(p) {
            let _ = writeln!(f, "#c {}", s);
        }
    }
}

fn main() {
    // address-space limit: an operand-sized allocation must fail fast instead of exhausting the host
    let gb: u64 = std::env::var("PVH_MEM_GB").ok().and_then(|s| s.parse().ok()).unwrap_or(4);
    let lim = RLimit { cur: gb << 30, max: gb << 30 };
    unsafe {
        setrlimit(RLIMIT_AS, &lim);
    }
    // panics inside pushr are caught per case; keep stderr quiet
    std::panic::set_hook(Box::new(|_| {}));
    let args: Vec<String> = std::env::args().collect();
    // protocol lines go to the file named by PVH_OUT (pushr itself prints to stdout in places)
    let sink: Box<dyn Write> = match std::env::var("PVH_OUT") {
        Ok(p) => {
            // truncate, then append only: `mark` appends to the same file through its own handle
            drop(std::fs::File::create(&p).expect("PVH_OUT"));
            Box::new(std::fs::OpenOptions::new().append(true).open(p).expect("PVH_OUT"))
        }
        Err(_) => Box::new(std::io::stdout()),
    };
    let mut w = std::io::BufWriter::with_capacity(1 << 20, sink);
    let mut out = |s: String| {
        let _ = writeln!(w, "{}", s);
        // every line reaches the reader at once: the check's stall watchdog and the attribution of an
        // abort / hang to a case rely on it
        let _ = w.flush();
    };
    match args.get(1).map(|s| s.as_str()) {
        Some("gen") => {
            let scen = args.get(2).expect("scenario");
            let seed: u64 = args.get(3).and_then(|s| s.parse().ok()).unwrap_or(0);
            let tier = args.get(4).map(|s| s.as_str()).unwrap_or("quick");
            match scen.as_str() {
                "stack" => scen_stack::run(seed, tier, &mut out),
                "exec" => scen_exec::run(
                    seed,
                    tier,
                    args.get(5).map(|s| s.as_str()).unwrap_or("*"),
                    args.get(6).and_then(|s| s.parse().ok()),
                    &mut out,
                ),
                "unreg" => scen_exec::run_unreg(seed, tier, &mut out),
                "pairs" => scen_exec::run_pairs(
                    seed,
                    tier,
                    args.get(5).map(|s| s.as_str()).unwrap_or("*"),
                    args.get(6).and_then(|s| s.parse().ok()),
                    &mut out,
                ),
                "steps" => scen_prog::run_steps(seed, tier, args.get(5).map(|s| s.as_str()).unwrap_or("*"), &mut out),
                "det" => scen_det::run(seed, tier, &mut out),
                "cli" => scen_det::run_cli(seed, tier, &mut out),
                "srcscan" => scen_det::run_srcscan(&mut out),
                "gencode" => scen_gens::run_code(seed, tier, &mut out),
                "genvals" => scen_gens::run_values(seed, tier, &mut out),
                "graph" => scen_graph::run(seed, tier, &mut out),
                "graph-exh" => scen_graph::run_exhaustive(if tier == "thorough" { 4 } else { 3 }, &mut out),
                "topo" => scen_topo::run(seed, tier, &mut out),
                "parse" => scen_parse::run(seed, tier, &mut out),
                "parsebound" => scen_parse::run_parsebound(seed, tier, &mut out),
                "parsecustom" => scen_parse::run_parsecustom(seed, tier, &mut out),
                "roundtrip" => scen_parse::run_rt(seed, tier, &mut out),
                "fsweep" => scen_parse::run_fsweep(tier, &mut out),
                "loops" => scen_loops::run(seed, tier, &mut out),
                "run" => scen_prog::run_runs(seed, tier, &mut out),
                "runt" => scen_prog::run_timeouts(seed, tier, &mut out),
                "growth" => scen_prog::run_growth(seed, tier, &mut out),
                "buf" => scen_buf::run(seed, tier, &mut out),
                "buf-exh" => {
                    if tier == "thorough" {
                        scen_buf::run_exhaustive(9, 4, &mut out)
                    } else {
                        scen_buf::run_exhaustive(7, 4, &mut out)
                    }
                }
                "cmd" => scen_exec::run_cmd(&mut out),
                "starve" => scen_exec::run_starve(seed, tier, &mut out),
                "listops" => scen_exec::run_listops(seed, tier, &mut out),
                "vecgrid" => scen_exec::run_vecgrid(seed, tier, &mut out),
                "codeops" => scen_exec::run_codeops(seed, tier, args.get(5).map(|s| s.as_str()).unwrap_or("CODE."), &mut out),
                "stkgrid" => scen_grid::run(&mut out),
                "registry" => out(format!(
                    "( registry {} {} )",
                    args.get(5).map(|s| s.as_str()).unwrap_or("C01"),
                    stategen::instruction_names().join(" ")
                )),
                "scalargrid" => scen_grid::run_scalar(args.get(5).map(|s| s.as_str()).unwrap_or("INTEGER."), &mut out),
                "stack-exh" => scen_stack::run_exhaustive(if tier == "thorough" { 4 } else { 3 }, &mut out),
                _ => {
                    eprintln!("unknown scenario {}", scen);
                    std::process::exit(2);
                }
            }
        }
        Some("names") => {
            for n in stategen::instruction_names() {
                out(n);
            }
        }
        Some("replay") => {
            let stdin = std::io::stdin();
            for line in stdin.lock().lines() {
                let line = line.unwrap();
                let r = codec::parse_line(&line).and_then(|v| match v.into_iter().next()? {
                    codec::Sx::List(xs) => {
                        let kind = match xs.get(0)? {
                            codec::Sx::Atom(a) => a.clone(),
                            _ => return None,
                        };
                        match kind.as_str() {
                            "stackop" => scen_stack::replay(&xs[1..]),
                            "topo" => scen_topo::replay(&xs[1..]),
                            "parse" => scen_parse::replay_parse(&xs[1..]),
                            "parsec" => scen_parse::replay_parsec(&xs[1..]),
                            "roundtrip" => scen_parse::replay_rt(&xs[1..]),
                            "bufseq" => scen_buf::replay(&xs[1..]),
                            "exec" => scen_exec::replay_exec(&xs[1..]),
                            "step" => scen_exec::replay_step(&xs[1..]),
                            "growth" => scen_prog::replay_growth(&xs[1..]),
                            _ => None,
                        }
                    }
                    _ => None,
                });
                out(r.unwrap_or_else(|| "( bad-replay )".to_string()));
            }
        }
        _ => {
            eprintln!("usage: pvh gen <scenario> <seed> <tier> | pvh replay");
            std::process::exit(2);
        }
    }
}
