//! C16: operation sequences over the whole public API of `PushStack`.
use crate::codec::*;
use crate::gen::*;
use crate::rng::Rng;
use pushr::push::item::Item;
use pushr::push::stack::PushStack;
use std::panic::{catch_unwind, AssertUnwindSafe};

pub const OPS: [&str; 21] = [
    "size", "to_string", "last_eq", "equal_at", "bottom", "flush", "replace", "remove", "reverse", "get", "get_mut",
    "copy", "push", "push_front", "yank", "shove", "pop_front", "pop", "pop_vec", "copy_vec", "push_vec",
];

fn opt_item(o: Option<Item>) -> String {
    match o {
        None => "none".to_string(),
        Some(x) => enc_item(&x),
    }
}
fn opt_vec(o: Option<Vec<Item>>) -> String {
    match o {
        None => "none".to_string(),
        Some(v) => enc_tag("l", &v.iter().map(enc_item).collect::<Vec<_>>()),
    }
}

/// run one operation on the real stack; returns the canonical result
pub fn apply(s: &mut PushStack<Item>, op: &str, args: &[Sx]) -> Option<String> {
    let pos = |k: usize| dec_usize(args.get(k)?);
    let item = |k: usize| dec_item(args.get(k)?);
    Some(match op {
        "size" => s.size().to_string(),
        "to_string" => enc_name(&s.to_string()),
        "last_eq" => enc_bool(s.last_eq(&item(0)?)).to_string(),
        "equal_at" => match s.equal_at(pos(0)?, &item(1)?) {
            None => "none".to_string(),
            Some(b) => enc_bool(b).to_string(),
        },
        "bottom" => opt_item(s.bottom_mut().map(|x| x.clone())),
        "flush" => {
            s.flush();
            "-".to_string()
        }
        "replace" => match s.replace(pos(0)?, item(1)?) {
            Ok(()) => "ok".to_string(),
            Err(k) => enc_tag("err", &[k.to_string()]),
        },
        "remove" => {
            s.remove(pos(0)?);
            "-".to_string()
        }
        "reverse" => {
            s.reverse();
            "-".to_string()
        }
        "get" => opt_item(s.get(pos(0)?).cloned()),
        "get_mut" => opt_item(s.get_mut(pos(0)?).map(|x| x.clone())),
        "copy" => opt_item(s.copy(pos(0)?)),
        "push" => {
            s.push(item(0)?);
            "-".to_string()
        }
        "push_front" => {
            s.push_front(item(0)?);
            "-".to_string()
        }
        "yank" => {
            s.yank(pos(0)?);
            "-".to_string()
        }
        "shove" => {
            s.shove(pos(0)?);
            "-".to_string()
        }
        "pop_front" => opt_item(s.pop_front()),
        "pop" => opt_item(s.pop()),
        "pop_vec" => opt_vec(s.pop_vec(pos(0)?)),
        "copy_vec" => opt_vec(s.copy_vec(pos(0)?)),
        "push_vec" => {
            s.push_vec(dec_items_top_first(args.get(0)?)?);
            "-".to_string()
        }
        _ => return None,
    })
}

/// executes `op` on a stack holding `pre` (top first); emits the request line with the observation
pub fn observe(pre: &[Item], op: &str, args: &[Sx]) -> (String, Option<Vec<Item>>) {
    let mut bottom_first: Vec<Item> = pre.to_vec();
    bottom_first.reverse();
    let mut s = PushStack::from_vec(bottom_first);
    let r = catch_unwind(AssertUnwindSafe(|| apply(&mut s, op, args)));
    let args_s = enc_list(&args.iter().map(sx_str).collect::<Vec<_>>());
    match r {
        Ok(Some(res)) => {
            let post = stack_items(&s);
            (
                format!("( stackop {} {} {} {} {} )", enc_items_top_first(pre), op, args_s, res, enc_items_top_first(&post)),
                Some(post),
            )
        }
        Ok(None) => (format!("( bad-args {} )", op), None),
        Err(_) => (format!("( stackop {} {} {} PANIC - )", enc_items_top_first(pre), op, args_s), None),
    }
}

fn gen_elem(r: &mut Rng, nested: bool) -> Item {
    if nested {
        gen_item(r, 2, &["NOOP".to_string(), "INTEGER.+".to_string()])
    } else {
        Item::int(r.range(-3, 9) as i32)
    }
}

fn gen_args(r: &mut Rng, op: &str, cur: &[Item], nested: bool) -> Vec<Sx> {
    let len = cur.len();
    let p = |r: &mut Rng| Sx::Atom((r.below(len as u64 + 3)).to_string());
    let sx = |i: &Item| parse_line(&enc_item(i)).unwrap().remove(0);
    // comparisons are probed with the element that is there, and with an element that only PRINTS like it
    if (op == "equal_at" || op == "last_eq") && len > 0 && r.chance(1, 2) {
        let k = if op == "last_eq" { 0 } else { r.below(len as u64) as usize };
        let probe = if r.chance(1, 2) { cur[k].clone() } else { crate::gen::print_alike(r, &cur[k]) };
        return if op == "last_eq" { vec![sx(&probe)] } else { vec![Sx::Atom(k.to_string()), sx(&probe)] };
    }
    let it = |r: &mut Rng| parse_line(&enc_item(&gen_elem(r, nested))).unwrap().remove(0);
    match op {
        "last_eq" | "push" | "push_front" => vec![it(r)],
        "equal_at" | "replace" => vec![p(r), it(r)],
        "remove" | "get" | "get_mut" | "copy" | "yank" | "shove" | "pop_vec" | "copy_vec" => vec![p(r)],
        "push_vec" => {
            let n = r.below(4);
            let v: Vec<String> = (0..n).map(|_| enc_item(&gen_elem(r, nested))).collect();
            vec![parse_line(&enc_list(&v)).unwrap().remove(0)]
        }
        _ => vec![],
    }
}

/// random operation sequences; every transition is one request line
pub fn run(seed: u64, tier: &str, out: &mut dyn FnMut(String)) {
    let (nseq, maxlen) = if tier == "thorough" { (6000, 200) } else { (600, 120) };
    for case in 0..nseq {
        let mut r = Rng::for_case(seed, "stack", case);
        let nested = case % 3 == 2;
        let n0 = r.below(7);
        let mut cur: Vec<Item> = (0..n0).map(|_| gen_elem(&mut r, nested)).collect();
        let len = 1 + r.below(maxlen);
        for _ in 0..len {
            // bias towards growth so that deep stacks are reached
            let op = if r.chance(1, 4) { *r.pick(&["push", "push_front", "push_vec"]) } else { *r.pick(&OPS) };
            let args = gen_args(&mut r, op, &cur, nested);
            let (line, post) = observe(&cur, op, &args);
            out(line);
            match post {
                Some(p) => cur = p,
                None => break,
            }
        }
    }
}

/// every sequence of length <= k over a reduced alphabet (thorough tier)
pub fn run_exhaustive(k: usize, out: &mut dyn FnMut(String)) {
    // alphabet: ops with small fixed arguments
    let mut alpha: Vec<(String, Vec<Sx>)> = vec![];
    let a = |s: &str| Sx::Atom(s.to_string());
    for op in ["pop", "pop_front", "reverse", "flush", "bottom"].iter() {
        alpha.push((op.to_string(), vec![]));
    }
    for x in ["1", "2"].iter() {
        alpha.push(("push".to_string(), vec![a(x)]));
    }
    alpha.push(("push_front".to_string(), vec![a("3")]));
    for i in 0..4 {
        let p = a(&i.to_string());
        for op in ["yank", "shove", "remove", "get", "copy", "pop_vec", "copy_vec"].iter() {
            alpha.push((op.to_string(), vec![p.clone()]));
        }
        alpha.push(("replace".to_string(), vec![p.clone(), a("7")]));
        alpha.push(("equal_at".to_string(), vec![p.clone(), a("1")]));
    }
    alpha.push(("push_vec".to_string(), vec![Sx::List(vec![a("4"), a("5")])]));
    alpha.push(("to_string".to_string(), vec![]));
    fn rec(pre: &[Item], depth: usize, k: usize, alpha: &[(String, Vec<Sx>)], out: &mut dyn FnMut(String)) {
        if depth == k {
            return;
        }
        for (op, args) in alpha {
            let (line, post) = observe(pre, op, args);
            out(line);
            if let Some(p) = post {
                rec(&p, depth + 1, k, alpha, out);
            }
        }
    }
    rec(&[], 0, k, &alpha, out);
}

/// replay of one request line: re-execute PRE OP ARGS on the current code
pub fn replay(xs: &[Sx]) -> Option<String> {
    let pre = dec_items_top_first(xs.get(0)?)?;
    let op = match xs.get(1)? {
        Sx::Atom(a) => a.clone(),
        _ => return None,
    };
    let args = match xs.get(2)? {
        Sx::List(v) => v.clone(),
        _ => return None,
    };
    Some(observe(&pre, &op, &args).0)
}
