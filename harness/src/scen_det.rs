//! C14: determinism, isolation, id uniqueness, CLI vs library, source inventory of global state.
use crate::codec::*;
use crate::rng::Rng;
use crate::scen_exec::next_node_id;
use crate::scen_prog::*;
use crate::stategen::*;
use pushr::push::graph::Graph;
use pushr::push::interpreter::PushInterpreter;
use pushr::push::item::Item;
use pushr::push::state::PushState;
use std::sync::{Arc, Barrier};

/// wall-clock time of the slowest `run_once` since the last reset (ms): a timed case whose run really took
/// that long is inconclusive
static SLOWEST_MS: std::sync::atomic::AtomicU64 = std::sync::atomic::AtomicU64::new(0);

fn run_once(pre: &str) -> String {
    let t0 = std::time::Instant::now();
    let r = run_once_inner(pre);
    SLOWEST_MS.fetch_max(t0.elapsed().as_millis() as u64, std::sync::atomic::Ordering::SeqCst);
    r
}
/// one run on a given (possibly already used) InstructionSet
fn run_with(iset: &mut pushr::push::instructions::InstructionSet, pre: &str) -> String {
    let t0 = std::time::Instant::now();
    let r = std::panic::catch_unwind(std::panic::AssertUnwindSafe(|| {
        let mut st = dec_state(&parse_line(pre).unwrap()[0]).unwrap();
        PushInterpreter::run(&mut st, iset);
        enc_state(&st)
    }));
    SLOWEST_MS.fetch_max(t0.elapsed().as_millis() as u64, std::sync::atomic::Ordering::SeqCst);
    r.unwrap_or("PANIC".to_string())
}
fn run_once_inner(pre: &str) -> String {
    let r = std::panic::catch_unwind(|| {
        let mut st = dec_state(&parse_line(pre).unwrap()[0]).unwrap();
        let mut iset = make_iset(false);
        PushInterpreter::run(&mut st, &mut iset);
        enc_state(&st)
    });
    r.unwrap_or("PANIC".to_string())
}

pub fn run(seed: u64, tier: &str, out: &mut dyn FnMut(String)) {
    let names: Vec<String> = instruction_names()
        .into_iter()
        .filter(|n| !is_rand(n) && !exposes_ids(n) && !crate::scen_exec::is_size_operand(n) && n != "EXEC.CMD")
        .collect();
    let ncase = if tier == "thorough" { 2000 } else { 250 };
    for case in 0..ncase {
        let mut r = Rng::for_case(seed, "det", case);
        let rich = r.chance(1, 3);
        let mut st = gen_state(&mut r, &GenOpts { instrs: &names, rich, item_depth: 2 });
        st.exec_stack.flush();
        st.graph_stack.flush();
        crate::scen_exec::cap_ints(&mut st, 2000);
        let o = ProgOpts { names: &names, clean: true, focus: &[], no_alloc: true };
        for it in gen_program(&mut r, &o, &st) {
            st.exec_stack.push(it);
        }
        st.configuration.eval_push_limit = *r.pick(&[50, 200, 1000]);
        st.configuration.eval_time_limit = 600_000;
        // timed cases: several ms of work under a 2 s limit (read in milliseconds): a run cut short by the clock
        // ends in a scheduling-dependent state
        let timed = case % 25 == 24;
        if timed {
            st.exec_stack.flush();
            st.exec_stack.push(Item::list(vec![Item::instruction("INTEGER.+".to_string()), Item::instruction("INTEGER.DUP".to_string())]));
            st.exec_stack.push(Item::instruction("EXEC.Y".to_string()));
            st.exec_stack.push(Item::int(1));
            st.configuration.eval_push_limit = 4000;
            st.configuration.eval_time_limit = 2000;
        }
        SLOWEST_MS.store(0, std::sync::atomic::Ordering::SeqCst);
        let pre = enc_state(&st);
        let nid = next_node_id();
        let mut posts = vec![run_once(&pre)];
        // an unrelated run in between (different program, touches the global counter and the RNG)
        {
            let mut other = PushState::new();
            let mut g = Graph::new();
            g.add_node(1);
            other.graph_stack.push(g);
            other.exec_stack.push(Item::instruction("INTEGER.RAND".to_string()));
            other.exec_stack.push(Item::instruction("GRAPH.NODE*ADD".to_string()));
            other.exec_stack.push(Item::int(3));
            let mut iset = make_iset(false);
            PushInterpreter::run(&mut other, &mut iset);
        }
        posts.push(run_once(&pre));
        // concurrently on several threads, released together
        let nthreads = *r.pick(&[2usize, 4, 8, 16]);
        let barrier = Arc::new(Barrier::new(nthreads));
        let pre_arc = Arc::new(pre.clone());
        let mut hs = vec![];
        for _ in 0..nthreads {
            let b = barrier.clone();
            let p = pre_arc.clone();
            hs.push(std::thread::spawn(move || {
                b.wait();
                run_once(&p)
            }));
        }
        for h in hs {
            posts.push(h.join().unwrap_or("PANIC".to_string()));
        }
        if timed && SLOWEST_MS.load(std::sync::atomic::Ordering::SeqCst) >= 1000 {
            // the host really was that slow: nothing can be concluded from this case
            continue;
        }
        out(format!("( detrun {} {} {} )", pre, enc_list(&posts), nid));
    }
    // history independence per instruction: a fresh thread first, then the same thread after the SAME
    // instruction ran on perturbed operands (a cache keyed by part of the operands would be warm), then again
    // a fresh thread afterwards (process-global state would be warm)
    let all_names: Vec<String> = instruction_names()
        .into_iter()
        .filter(|n| !is_rand(n) && !exposes_ids(n) && n != "EXEC.CMD" && !n.ends_with(".PRINT") && n != "GRAPH.EDGE*HISTORY")
        .collect();
    let per = if tier == "thorough" { 120 } else { 24 };
    for name in all_names.iter() {
        let heavy = crate::scen_exec::is_size_operand(name);
        for case in 0..(if heavy { per * 6 } else { per }) {
            let mut r = Rng::for_case(seed, &format!("dethist:{}", name), case);
            let rich = r.chance(1, 2);
            let mut st = gen_state(&mut r, &GenOpts { instrs: &names, rich, item_depth: 2 });
            st.exec_stack.flush();
            st.graph_stack.flush();
            crate::scen_exec::cap_ints(&mut st, 2000);
            if heavy && r.chance(3, 4) {
                // well-formed operands of the computation-heavy instructions (radius; dimensions, index, size, position)
                let size = 2 + r.below(400) as i32;
                st.float_stack.push(*r.pick(&[0.0f32, 1.0, 1.5, 2.0, 3.0]));
                st.int_stack.push(1 + r.below(4) as i32);
                st.int_stack.push(if r.chance(1, 2) { size - 1 } else { r.below(size as u64) as i32 });
                st.int_stack.push(size);
                if name.ends_with("VALS") {
                    st.int_stack.push(r.below(3) as i32);
                }
            }
            st.exec_stack.push(Item::instruction(name.clone()));
            st.configuration.eval_push_limit = 40;
            st.configuration.eval_time_limit = 600_000;
            if !crate::scen_prog::state_within_envelope(&st) {
                continue;
            }
            let pre = enc_state(&st);
            let nid = next_node_id();
            let fresh = |p: String| std::thread::spawn(move || run_once(&p)).join().unwrap_or("PANIC".to_string());
            let mut posts = vec![fresh(pre.clone())];
            // six perturbed states: ONE operand changed each (an integer or a float near the top of its stack)
            let mut perturbed: Vec<String> = vec![];
            for _ in 0..6 {
                let mut v = dec_state(&parse_line(&pre).unwrap()[0]).unwrap();
                let ni = v.int_stack.size();
                let nf = v.float_stack.size();
                if nf > 0 && (ni == 0 || r.chance(1, 2)) {
                    let pos = r.below(nf.min(4) as u64) as usize;
                    let d = *r.pick(&[-1.5f32, -0.5, 0.25, 0.5, 1.0, 1.5707964]);
                    if let Some(x) = v.float_stack.get_mut(pos) {
                        *x += d;
                    }
                } else if ni > 0 {
                    let pos = r.below(ni.min(4) as u64) as usize;
                    let d = *r.pick(&[-8i32, -5, -3, -2, -1, 1, 2, 3, 5, 8]);
                    if let Some(x) = v.int_stack.get_mut(pos) {
                        *x = x.saturating_add(d).min(2000);
                    }
                }
                perturbed.push(enc_state(&v));
            }
            // one thread and ONE InstructionSet for the whole warm sequence: each perturbed state runs first, then the
            // original again - anything remembered from the perturbed run (a cache in a static, a thread-local, or a
            // registered closure, keyed by only part of the operands) would show in the original's outcome
            let pre2 = pre.clone();
            let warm: Vec<String> = std::thread::spawn(move || {
                let mut iset = make_iset(false);
                let mut outv = vec![];
                for p in perturbed.iter() {
                    let _ = run_with(&mut iset, p);
                    outv.push(run_with(&mut iset, &pre2));
                }
                outv
            })
            .join()
            .unwrap_or_else(|_| vec!["PANIC".to_string()]);
            posts.extend(warm);
            posts.push(fresh(pre.clone()));
            out(format!("( detrun {} {} {} )", pre, enc_list(&posts), nid));
        }
    }
    // node ids under concurrent creation
    // (one thread too: creation interleaved with REMOVAL of the newest node - a removed node's id stays used)
    for &threads in [1usize, 2, 8, 16].iter() {
        let per = if tier == "thorough" { 100_000 } else { 20_000 };
        let barrier = Arc::new(Barrier::new(threads));
        let mut hs = vec![];
        for t in 0..threads {
            let b = barrier.clone();
            hs.push(std::thread::spawn(move || {
                let mut ids = Vec::with_capacity(per);
                let mut g = Graph::new();
                let mut st = PushState::new();
                st.graph_stack.push(Graph::new());
                let mut iset = make_iset(false);
                let icache = iset.cache();
                b.wait();
                for k in 0..per {
                    if (k + t) % 2 == 0 {
                        let id = g.add_node(0);
                        ids.push(id);
                        if k % 5 == 0 {
                            g.remove_node(id);
                        }
                    } else {
                        // through the instruction
                        st.int_stack.push(0);
                        if let Some(ins) = iset.get_instruction("GRAPH.NODE*ADD") {
                            (ins.execute)(&mut st, &icache);
                        }
                        if let Some(id) = st.int_stack.pop() {
                            ids.push(id as usize);
                            if k % 7 == 1 {
                                // (no instruction removes a node: the API is used on the graph of the state)
                                if let Some(gr) = st.graph_stack.get_mut(0) {
                                    gr.remove_node(id as usize);
                                }
                            }
                        }
                        if k % 1000 == 999 {
                            st.graph_stack.flush();
                            st.graph_stack.push(Graph::new());
                        }
                    }
                }
                ids
            }));
        }
        let mut all: Vec<usize> = vec![];
        for h in hs {
            all.extend(h.join().unwrap());
        }
        let count = all.len();
        all.sort();
        all.dedup();
        out(format!("( ids {} {} {} )", count, all.len(), threads));
    }
}

/// the `pushr` binary (path in PUSHR_BIN) against the model
pub fn run_cli(seed: u64, tier: &str, out: &mut dyn FnMut(String)) {
    let bin = match std::env::var("PUSHR_BIN") {
        Ok(b) => b,
        Err(_) => return,
    };
    let names: Vec<String> = instruction_names()
        .into_iter()
        .filter(|n| !is_rand(n) && !exposes_ids(n) && !crate::scen_exec::is_size_operand(n) && n != "EXEC.CMD" && n != "EXEC.Y" && !n.ends_with("LOOP"))
        .collect();
    let ncase = if tier == "thorough" { 400 } else { 60 };
    for case in 0..ncase {
        let mut r = Rng::for_case(seed, "cli", case);
        // a program text from the token grammar: ints, bools, instructions, nested lists
        let mut toks: Vec<String> = vec![];
        fn gen(r: &mut Rng, names: &[String], depth: u32, toks: &mut Vec<String>) {
            for _ in 0..(1 + r.below(6)) {
                match r.below(10) {
                    0 if depth > 0 => {
                        toks.push("(".to_string());
                        gen(r, names, depth - 1, toks);
                        toks.push(")".to_string());
                    }
                    1..=4 => toks.push(r.range(-5, 9).to_string()),
                    5 => toks.push(if r.chance(1, 2) { "TRUE".to_string() } else { "FALSE".to_string() }),
                    6 => toks.push(r.pick(&["a", "foo", "x1"]).to_string()),
                    _ => toks.push(r.pick(names).clone()),
                }
            }
        }
        gen(&mut r, &names, 2, &mut toks);
        let prog = toks.join(" ");
        let o = std::process::Command::new(&bin).arg(&prog).output();
        if let Ok(o) = o {
            let text = String::from_utf8_lossy(&o.stdout).to_string();
            let mut e = None;
            let mut c = None;
            let mut i = None;
            let mut lines = 0usize;
            for l in text.lines() {
                lines += 1;
                if lines > 200_000 {
                    break;
                }
                if let Some(x) = l.strip_prefix("> EXEC  : ") {
                    e = Some(x.to_string());
                } else if l == "> EXEC  :" {
                    e = Some(String::new());
                } else if let Some(x) = l.strip_prefix("> CODE  : ") {
                    c = Some(x.to_string());
                } else if l == "> CODE  :" {
                    c = Some(String::new());
                } else if let Some(x) = l.strip_prefix("> INT   : ") {
                    i = Some(x.to_string());
                } else if l == "> INT   :" {
                    i = Some(String::new());
                }
            }
            if !text.contains("Done.") {
                continue; // did not terminate normally within the output budget: outside the statement
            }
            if let (Some(e), Some(c), Some(i)) = (e, c, i) {
                out(format!("( cli {} {} {} {} )", enc_name(&prog), enc_name(e.trim_end()), enc_name(c.trim_end()), enc_name(i.trim_end())));
            }
        }
    }
}

/// inventory of process-global mutable state and of randomness sources in /repo/src
pub fn run_srcscan(out: &mut dyn FnMut(String)) {
    let root = std::env::var("PUSHR_SRC").unwrap_or("/repo/src".to_string());
    let mut findings: Vec<String> = vec![];
    let mut fetch_adds = 0usize;
    fn walk(dir: &std::path::Path, files: &mut Vec<std::path::PathBuf>) {
        if let Ok(rd) = std::fs::read_dir(dir) {
            for e in rd.flatten() {
                let p = e.path();
                if p.is_dir() {
                    walk(&p, files);
                } else if p.extension().map(|x| x == "rs").unwrap_or(false) {
                    files.push(p);
                }
            }
        }
    }
    let mut files = vec![];
    walk(std::path::Path::new(&root), &mut files);
    files.sort();
    for f in files {
        let name = f.file_name().unwrap().to_string_lossy().to_string();
        let text = std::fs::read_to_string(&f).unwrap_or_default();
        for line in text.lines() {
            let t: String = line.split_whitespace().collect::<Vec<_>>().join(" ");
            if t.starts_with("//") {
                continue;
            }
            // a `static` is process-global MUTABLE state only if it is `static mut` or its type has interior
            // mutability; an immutable table (`static NAMES: [&str; 3] = [..]`) is a constant
            let is_static = t.starts_with("static ") || t.starts_with("pub static ") || t.starts_with("pub(crate) static ");
            let interior = ["Atomic", "Mutex", "RwLock", "Cell<", "RefCell", "UnsafeCell", "OnceCell", "OnceLock", "Lazy<", "Once<", "Condvar"];
            let typed_on_line = t.contains(':') && t.contains('=');
            let global = (is_static && (!typed_on_line || interior.iter().any(|m| t.contains(m))))
                || t.contains("static mut ")
                || t.contains("thread_local!")
                || t.contains("lazy_static")
                || t.contains("OnceCell")
                || t.contains("OnceLock")
                || t.contains("Lazy<")
                || t.contains("unsafe ")
                || t.contains("RefCell")
                || t.contains("UnsafeCell")
                || t.contains("Mutex")
                || t.contains("RwLock");
            if global {
                findings.push(format!("{}: {}", name, t));
            }
            if t.contains("NODE_COUNTER") && !t.starts_with("static NODE_COUNTER") {
                if t.contains("NODE_COUNTER.fetch_add(1, Ordering::") {
                    fetch_adds += 1;
                } else {
                    findings.push(format!("{}: {}", name, t));
                }
            }
            if (t.contains("thread_rng") || t.contains("rand::random")) && name != "random.rs" && name != "boolean.rs" {
                findings.push(format!("{}: {}", name, t));
            }
        }
    }
    if fetch_adds != 1 {
        findings.push(format!("graph.rs: {} fetch_add sites on NODE_COUNTER (expected exactly one)", fetch_adds));
    }
    out(format!("( srcscan {} )", findings.iter().map(|f| enc_name(f)).collect::<Vec<_>>().join(" ")));
}
