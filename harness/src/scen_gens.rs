//! C12 / C13: the generators of random.rs called directly.
use crate::codec::*;
use crate::gen::*;
use crate::rng::Rng;
use pushr::push::instructions::{InstructionCache, InstructionSet};
use pushr::push::item::Item;
use pushr::push::random::CodeGenerator;
use pushr::push::state::PushState;
use std::panic::{catch_unwind, AssertUnwindSafe};

fn caches() -> Vec<(&'static str, String, InstructionCache)> {
    let mut iset = InstructionSet::new();
    iset.load();
    vec![
        ("full", "-".to_string(), iset.cache()),
        ("empty", "-".to_string(), InstructionCache::new(vec![])),
        ("one", "INTEGER.+".to_string(), InstructionCache::new(vec!["INTEGER.+".to_string()])),
    ]
}

fn state_with(r: &mut Rng, nbind: u64, pnew: f32) -> (PushState, Vec<String>) {
    let mut st = PushState::new();
    let mut names = vec![];
    for i in 0..nbind {
        // every third key contains a blank, as the names NAME.CAT builds do
        let k = if i % 3 == 2 { format!("v{} w", i) } else { format!("v{}", i) };
        st.name_bindings.insert(k.clone(), Item::int(r.range(0, 9) as i32));
        names.push(k);
    }
    st.configuration.new_erc_name_probability = pnew;
    (st, names)
}

pub fn run_code(seed: u64, tier: &str, out: &mut dyn FnMut(String)) {
    let cs = caches();
    let maxn = if tier == "thorough" { 300 } else { 120 };
    let reps = if tier == "thorough" { 12 } else { 4 };
    let mut case = 0u64;
    for (kind, one, cache) in cs.iter() {
        for n in 1..=maxn {
            for _ in 0..reps {
                case += 1;
                let mut r = Rng::for_case(seed, "gencode", case);
                let pnew = *r.pick(&[0.0f32, 0.001, 0.5, 1.0]);
                let nb = r.below(4);
                let (st, names) = state_with(&mut r, nb, pnew);
                let bound = enc_list(&names.iter().map(|n| enc_name(n)).collect::<Vec<_>>());
                let pz = enc_bool(pnew == 0.0);
                let res = catch_unwind(AssertUnwindSafe(|| CodeGenerator::random_code_with_size(&st, cache, n)));
                out(format!("( gen size {} {} {} {} {} {} )", n, kind, one, bound, pz,
                    res.map(|it| enc_item(&it)).unwrap_or("PANIC".to_string())));
                let m = n - 1 + (case % 3) as usize; // bounds 0..
                let res = catch_unwind(AssertUnwindSafe(|| CodeGenerator::random_code(&st, cache, m)));
                out(format!("( gen bound {} {} {} {} {} {} )", m, kind, one, bound, pz,
                    match res { Ok(Some(it)) => enc_item(&it), Ok(None) => "none".to_string(), Err(_) => "PANIC".to_string() }));
                let res = catch_unwind(AssertUnwindSafe(|| {
                    let mut v = vec![];
                    CodeGenerator::decompose(&mut v, n);
                    v
                }));
                if let Ok(v) = res {
                    out(format!("( gen decompose {} {} )", n, enc_list(&v.iter().map(|x| x.to_string()).collect::<Vec<_>>())));
                }
            }
        }
    }
    // smallest bounds explicitly
    let (st, _) = state_with(&mut Rng::for_case(seed, "gencode", 0), 0, 0.001);
    for m in 0..4usize {
        let res = catch_unwind(AssertUnwindSafe(|| CodeGenerator::random_code(&st, &cs[0].2, m)));
        out(format!("( gen bound {} full - ( ) F {} )", m,
            match res { Ok(Some(it)) => enc_item(&it), Ok(None) => "none".to_string(), Err(_) => "PANIC".to_string() }));
    }
}

pub fn run_values(seed: u64, tier: &str, out: &mut dyn FnMut(String)) {
    let reps = if tier == "thorough" { 40 } else { 6 };
    let sparsities: [f32; 16] = [0.0, 0.004, 0.01, 0.1, 0.25, 0.333, 0.5, 0.501, 0.66, 0.9, 0.995, 1.0, -0.1, 1.1, f32::NAN, f32::INFINITY];
    let mut case = 0u64;
    for size in (-2i32..=64).chain([100, 1000].iter().cloned()) {
        for sp in sparsities.iter() {
            for _ in 0..reps {
                case += 1;
                let res = catch_unwind(AssertUnwindSafe(|| CodeGenerator::random_bool_vector(size, *sp)));
                out(format!("( gen boolvec {} {} {} )", size, enc_f32(*sp),
                    match res { Ok(Some(v)) => enc_bv(&v.values), Ok(None) => "none".to_string(), Err(_) => "PANIC".to_string() }));
            }
        }
    }
    // every position must be able to flip: histogram over many draws
    for size in [1usize, 2, 3, 4, 7, 16, 33] {
        for sp in [0.3f32, 0.5, 0.7] {
            let draws = 400 * size;
            let mut counts = vec![0usize; size];
            let dflt = sp > 0.5;
            let mut any = false;
            for _ in 0..draws {
                if let Some(v) = CodeGenerator::random_bool_vector(size as i32, sp) {
                    for (i, b) in v.values.iter().enumerate() {
                        if *b != dflt {
                            counts[i] += 1;
                            any = true;
                        }
                    }
                }
            }
            if any {
                out(format!("( gen boolhist {} {} {} {} )", size, enc_f32(sp), draws, enc_list(&counts.iter().map(|c| c.to_string()).collect::<Vec<_>>())));
            }
        }
    }
    for _ in 0..(reps * 200) {
        case += 1;
        let mut r = Rng::for_case(seed, "genvals", case);
        let size = r.range(-2, 40) as i32;
        let (mn, mx) = match r.below(5) {
            0 => (gen_int(&mut r), gen_int(&mut r)),
            1 => { let a = gen_int(&mut r); (a, a) }
            2 => (i32::MIN, i32::MAX),
            _ => { let a = r.range(-50, 50) as i32; (a, a + r.range(-3, 30) as i32) }
        };
        let res = catch_unwind(AssertUnwindSafe(|| CodeGenerator::random_int_vector(size, mn, mx)));
        out(format!("( gen intvec {} {} {} {} )", size, mn, mx,
            match res { Ok(Some(v)) => enc_iv(&v.values), Ok(None) => "none".to_string(), Err(_) => "PANIC".to_string() }));
        let mean = gen_float(&mut r);
        let sd = *r.pick(&[0.0f32, 1.0, 0.5, -1.0, -0.0, f32::INFINITY, f32::NEG_INFINITY, f32::NAN, 1e30, 1e-30]);
        let res = catch_unwind(AssertUnwindSafe(|| CodeGenerator::random_float_vector(size, mean, sd)));
        out(format!("( gen floatvec {} {} {} {} )", size, enc_f32(mean), enc_f32(sd),
            match res { Ok(Some(v)) => enc_fv(&v.values), Ok(None) => "none".to_string(), Err(_) => "PANIC".to_string() }));
    }
}
