//! C03: strings through the parser; C11: print -> parse round trips.
use crate::codec::*;
use crate::gen::*;
use crate::rng::Rng;
use crate::scen_exec::next_node_id;
use crate::stategen::*;
use pushr::push::item::Item;
use pushr::push::parser::PushParser;
use pushr::push::state::PushState;
use std::panic::{catch_unwind, AssertUnwindSafe};

const WS: [&str; 10] = [" ", "  ", "\t", "\n", "\r\n", "\u{a0}", "\u{2003}", "\u{3000}", "\u{85}", "\u{2028}"];

const ODD_TOKENS: [&str; 44] = [
    "INT[", "INT[]", "INT[1", "INT[1,", "INT[1,2]", "INT[ü]", "INT[1]ü", "INT[1,2x", "INT[+5,-0]", "INT[2147483648]",
    "FLOAT[", "FLOAT[]", "FLOAT[NaN]", "FLOAT[1.5,inf,-Infinity,1e-50]", "FLOAT[1..2]", "FLOAT[.5,5.,1e3]", "BOOL[",
    "BOOL[2]", "BOOL[1,0,true,false]", "BOOL[TRUE]", "BOOL[1,]", "(", ")", "((", "()", ")(", "TRUE", "FALSE", "true",
    "+5", "-0", "007", "2147483647", "2147483648", "-2147483649", "1e3", "1.", ".5", ".", "+", "nan", "-inf", "ü", "日本語",
];

fn gen_token(r: &mut Rng, names: &[String]) -> String {
    match r.below(12) {
        0..=2 => r.pick(&ODD_TOKENS).to_string(),
        3 => r.pick(names).clone(),
        // a name that differs from a registered instruction only by case is a NAME
        4 => if r.chance(1, 3) { r.pick(names).to_lowercase() } else { r.pick(names).clone() },
        5 => gen_int(r).to_string(),
        6 => format!("{}", gen_float(r)),
        7 => format!("{:.3}", gen_float(r)),
        8 => gen_name(r),
        9 => {
            // arbitrary characters incl. multi-byte, never white space
            let n = 1 + r.below(6);
            (0..n)
                .map(|_| *r.pick(&['a', 'Z', '0', '[', ']', ',', '.', '-', '+', 'e', '(', ')', 'ü', '日', '\u{1F600}', '_']))
                .collect()
        }
        10 => {
            let k = r.below(3);
            match k {
                0 => format!("INT[{}]", (0..r.below(4)).map(|_| gen_int(r).to_string()).collect::<Vec<_>>().join(",")),
                1 => format!("BOOL[{}]", (0..r.below(4)).map(|_| r.pick(&["1", "0", "true", "false"]).to_string()).collect::<Vec<_>>().join(",")),
                _ => format!("FLOAT[{}]", (0..r.below(4)).map(|_| format!("{}", gen_float(r))).collect::<Vec<_>>().join(",")),
            }
        }
        _ => {
            let m = if r.chance(1, 50) { 10000 } else { 12 };
            "x".repeat(1 + r.below(m) as usize)
        }
    }
}

/// balanced program text with random white space
fn gen_balanced(r: &mut Rng, names: &[String], depth: u32, out: &mut Vec<String>) {
    let n = r.below(6);
    for _ in 0..n {
        if depth > 0 && r.chance(1, 4) {
            out.push("(".to_string());
            gen_balanced(r, names, depth - 1, out);
            out.push(")".to_string());
        } else {
            let t = gen_token(r, names);
            if t != "(" && t != ")" {
                out.push(t);
            }
        }
    }
}

pub fn observe(code: &str, mut st: PushState) -> String {
    let pre = enc_state(&st);
    let nid = next_node_id();
    let iset = make_iset(false);
    let r = catch_unwind(AssertUnwindSafe(|| {
        PushParser::parse_program(&mut st, &iset, code);
        st
    }));
    match r {
        Ok(s) => format!("( parse {} {} {} {} )", enc_name(code), pre, enc_state(&s), nid),
        Err(_) => format!("( parse {} {} PANIC {} )", enc_name(code), pre, nid),
    }
}

pub fn run(seed: u64, tier: &str, out: &mut dyn FnMut(String)) {
    let names = instruction_names();
    let n = if tier == "thorough" { 60000 } else { 6000 };
    for case in 0..n {
        let mut r = Rng::for_case(seed, "parse", case);
        let mut toks: Vec<String> = vec![];
        let balanced = r.chance(3, 5);
        if case % 60 == 59 {
            // deep nesting: a chain of d open lists with tokens on the way down, at the bottom and on the way up
            let d = *r.pick(&[60u64, 99, 100, 101, 102, 128, 150, 257, 300]);
            for _ in 0..d {
                toks.push("(".to_string());
                if r.chance(1, 2) {
                    toks.push(gen_int(&mut r).to_string());
                }
            }
            for _ in 0..1 + r.below(3) {
                let t = gen_token(&mut r, &names);
                if t != "(" && t != ")" {
                    toks.push(t);
                }
            }
            for _ in 0..d {
                toks.push(")".to_string());
                if r.chance(1, 2) {
                    toks.push(gen_name(&mut r));
                }
            }
        } else if balanced {
            gen_balanced(&mut r, &names, 4, &mut toks);
        } else {
            for _ in 0..r.below(12) {
                toks.push(gen_token(&mut r, &names));
            }
        }
        let mut code = String::new();
        if r.chance(1, 3) {
            code.push_str(*r.pick(&WS));
        }
        for t in toks {
            code.push_str(&t);
            code.push_str(*r.pick(&WS));
        }
        let st = if r.chance(1, 4) {
            let mut s = gen_state(&mut r, &GenOpts { instrs: &names, rich: false, item_depth: 2 });
            if r.chance(1, 2) {
                s.exec_stack.flush();
            }
            s
        } else {
            PushState::new()
        };
        out(observe(&code, st));
    }
}

/// C07 (and C03): program text that mentions names ALREADY BOUND in the state it is parsed into - the state a second
/// program meets after a first one has run. The text interleaves use, quote, define and redefine of those names; a
/// name in program text is a NAME item until the interpreter encounters it (the lookup happens at run time).
pub fn run_parsebound(seed: u64, tier: &str, out: &mut dyn FnMut(String)) {
    let n = if tier == "thorough" { 6000 } else { 600 };
    for case in 0..n {
        let mut r = Rng::for_case(seed, "parsebound", case);
        let mut st = PushState::new();
        let k = 1 + r.below(3) as usize;
        let mut bound: Vec<String> = vec![];
        for _ in 0..k {
            let nm = gen_name(&mut r);
            if nm.chars().any(|c| c.is_whitespace() || c == '(' || c == ')') || nm.is_empty() {
                continue;
            }
            let v = match r.below(7) {
                0 | 1 => Item::int(gen_int(&mut r)),
                2 => Item::bool(r.chance(1, 2)),
                3 => Item::float((r.range(-400, 400) as f32) / 4.0),
                4 => Item::list(vec![Item::int(1), Item::instruction("INTEGER.+".to_string())]),
                5 => Item::name("other".to_string()),
                _ => Item::instruction("INTEGER.DUP".to_string()),
            };
            st.name_bindings.insert(nm.clone(), v);
            bound.push(nm);
        }
        if bound.is_empty() {
            continue;
        }
        let mut toks: Vec<String> = vec![];
        for _ in 0..2 + r.below(8) {
            let t = match r.below(10) {
                0 | 1 | 2 | 3 => r.pick(&bound).clone(),
                4 => "NAME.QUOTE".to_string(),
                5 => format!("{} {}", gen_int(&mut r), *r.pick(&["INTEGER.DEFINE", "INTEGER.DUP"])),
                6 => "CODE.DEFINITION".to_string(),
                7 => format!("( NAME.QUOTE {} TRUE BOOLEAN.DEFINE {} )", r.pick(&bound), r.pick(&bound)),
                8 => "fresh".to_string(),
                _ => format!("( {} )", r.pick(&bound)),
            };
            toks.push(t);
        }
        let code = format!("( {} )", toks.join(" "));
        if r.chance(1, 3) {
            st.exec_stack.push(Item::int(3));
        }
        out(observe(&code, st));
    }
}

/// C03: the lexical rules are ORDERED (vector literal, registered instruction, integer, float, TRUE/FALSE, name).
/// With the shipped instruction names no token falls under two rules; a host may register more (`InstructionSet::add`),
/// and then the order decides: an instruction called `7`, `2.5`, `inf` or `TRUE` is an instruction, one called `INT[1]`
/// is still a vector literal. `( parsec ( extra names ) code PRE POST NID )`.
pub fn run_parsecustom(seed: u64, tier: &str, out: &mut dyn FnMut(String)) {
    const EXTRA: [&str; 14] = ["7", "-1", "+3", "2.5", "1e3", "inf", "nan", "-0", "TRUE", "FALSE", "SQUARE", "x", "INT[1]", "BOOL[2]"];
    let names = instruction_names();
    let n = if tier == "thorough" { 4000 } else { 400 };
    for case in 0..n {
        let mut r = Rng::for_case(seed, "parsecustom", case);
        let mut extra: Vec<String> = vec![];
        for e in EXTRA.iter() {
            if r.chance(1, 2) {
                extra.push(e.to_string());
            }
        }
        let mut toks: Vec<String> = vec!["(".to_string()];
        let mut open = 1;
        for _ in 0..3 + r.below(10) {
            match r.below(10) {
                0 | 1 | 2 | 3 => toks.push(r.pick(&EXTRA).to_string()),
                4 => toks.push(r.pick(&["8", "7.0", "07", "-1.0", "infinity", "true", "NOOP", "INTEGER.+"]).to_string()),
                5 => {
                    toks.push("(".to_string());
                    open += 1;
                }
                6 if open > 1 => {
                    toks.push(")".to_string());
                    open -= 1;
                }
                _ => {
                    let t = gen_token(&mut r, &names);
                    if t != "(" && t != ")" {
                        toks.push(t);
                    }
                }
            }
        }
        for _ in 0..open {
            toks.push(")".to_string());
        }
        let code = toks.join(" ");
        out(observe_custom(&extra, &code, PushState::new()));
    }
}

fn nothing(_s: &mut PushState, _c: &pushr::push::instructions::InstructionCache) {}

pub fn observe_custom(extra: &[String], code: &str, mut st: PushState) -> String {
    use pushr::push::instructions::Instruction;
    let mut iset = make_iset(false);
    for e in extra.iter() {
        iset.add(e.clone(), Instruction::new(nothing));
    }
    let pre = enc_state(&st);
    let nid = next_node_id();
    let ex = enc_list(&extra.iter().map(|e| enc_name(e)).collect::<Vec<_>>());
    let res = catch_unwind(AssertUnwindSafe(|| {
        PushParser::parse_program(&mut st, &iset, code);
        st
    }));
    match res {
        Ok(s) => format!("( parsec {} {} {} {} {} )", ex, enc_name(code), pre, enc_state(&s), nid),
        Err(_) => format!("( parsec {} {} {} PANIC {} )", ex, enc_name(code), pre, nid),
    }
}

pub fn replay_parsec(xs: &[Sx]) -> Option<String> {
    let extra: Vec<String> = match xs.get(0)? {
        Sx::List(l) => l.iter().filter_map(|x| dec_name(x)).collect(),
        _ => return None,
    };
    let code = dec_name(xs.get(1)?)?;
    let st = dec_state(xs.get(2)?)?;
    Some(observe_custom(&extra, &code, st))
}

fn rt_item(r: &mut Rng, depth: u32, names: &[String], floats: bool) -> Item {
    if depth > 0 && r.chance(2, 5) {
        let n = r.below(5);
        return Item::list((0..n).map(|_| rt_item(r, depth - 1, names, floats)).collect());
    }
    match r.below(if floats { 6 } else { 5 }) {
        0 | 1 => Item::int(gen_int(r)),
        2 => Item::bool(r.chance(1, 2)),
        3 => Item::instruction(r.pick(names).clone()),
        4 => {
            if r.chance(1, 4) {
                // a name spelled like an instruction in another letter case is still a name
                let n = r.pick(names);
                Item::name(if r.chance(1, 2) { n.to_lowercase() } else { let mut c = n.to_lowercase(); c.replace_range(0..1, &n[0..1]); c })
            } else {
                Item::name(r.pick(&["a", "foo", "x1", "ü", "k]", "a.b", "x(y", "1x", "e5", "--", "T", "true", "x[", "cell[0]", "[", "INTX[1]", "a[b]c", "IN[T", "BOOL", "[]"]).to_string())
            }
        }
        _ => Item::float(gen_float(r)),
    }
}

pub fn observe_rt(it: &Item) -> String {
    let printed = it.to_string();
    let mut st = PushState::new();
    let iset = make_iset(false);
    let r = catch_unwind(AssertUnwindSafe(|| {
        PushParser::parse_program(&mut st, &iset, &printed);
        st
    }));
    match r {
        Ok(s) => {
            // the implementation's own print of what it parsed back (the property is about this text)
            let reprint = catch_unwind(AssertUnwindSafe(|| s.exec_stack.to_string()));
            match reprint {
                Ok(rp) => format!("( roundtrip {} {} {} {} )", enc_item(it), enc_name(&printed), enc_items_top_first(&stack_items(&s.exec_stack)), enc_name(&rp)),
                Err(_) => format!("( roundtrip {} {} {} PANIC )", enc_item(it), enc_name(&printed), enc_items_top_first(&stack_items(&s.exec_stack))),
            }
        }
        Err(_) => format!("( roundtrip {} {} PANIC )", enc_item(it), enc_name(&printed)),
    }
}

pub fn run_rt(seed: u64, tier: &str, out: &mut dyn FnMut(String)) {
    use pushr::push::instructions::InstructionSet;
    use pushr::push::random::CodeGenerator;
    let names = instruction_names();
    let n = if tier == "thorough" { 40000 } else { 5000 };
    let mut iset = InstructionSet::new();
    iset.load();
    let icache = iset.cache();
    for case in 0..n {
        let mut r = Rng::for_case(seed, "roundtrip", case);
        let it = match case % 4 {
            // one tree in 50 is a deep chain (depth 60..300) with items beside every nested list
            0 if case % 200 == 0 => {
                let d = *r.pick(&[60u64, 99, 100, 101, 102, 150, 300]);
                let mut t = rt_item(&mut r, 1, &names, false);
                for _ in 0..d {
                    let mut v = vec![];
                    if r.chance(1, 2) {
                        v.push(Item::int(gen_int(&mut r)));
                    }
                    v.push(t);
                    if r.chance(1, 2) {
                        v.push(Item::bool(r.chance(1, 2)));
                    }
                    t = Item::list(v);
                }
                t
            }
            0 => rt_item(&mut r, 4, &names, false),
            1 => rt_item(&mut r, 3, &names, true),
            2 => gen_item(&mut r, 3, &names),
            _ => {
                // trees emitted by pushr's own generator
                let st = PushState::new();
                match CodeGenerator::random_code(&st, &icache, 2 + r.below(40) as usize) {
                    Some(c) => c,
                    None => Item::int(0),
                }
            }
        };
        out(observe_rt(&it));
    }
}

pub fn replay_parse(xs: &[Sx]) -> Option<String> {
    let code = dec_name(xs.get(0)?)?;
    let st = dec_state(xs.get(1)?)?;
    Some(observe(&code, st))
}
pub fn replay_rt(xs: &[Sx]) -> Option<String> {
    Some(observe_rt(&dec_item(xs.get(0)?)?))
}

/// C11, the per-leaf hypothesis FloatPrintStable: print (parse (print x)) = print x for f32 bit patterns, with the
/// std functions pushr itself calls (`format!("{:.3}")`, `str::parse::<i32>` first, then `str::parse::<f32>`).
/// quick: every 1024th pattern (2^22 of them) + a window around every power of two; thorough: all 2^32 patterns on all
/// cores. One pattern in 4096 of those visited additionally goes through pushr's own printer and parser.
pub fn run_fsweep(tier: &str, out: &mut dyn FnMut(String)) {
    use pushr::push::instructions::InstructionSet;
    let stride: u64 = if tier == "thorough" { 1 } else { 1024 };
    let nthreads: u64 = 16;
    let total: u64 = 1u64 << 32;
    let check_std = |b: u32| -> bool {
        let x = f32::from_bits(b);
        let t1 = format!("{:.3}", x);
        if t1.parse::<i32>().is_ok() {
            return false; // a printed float must not read back as an integer
        }
        match t1.parse::<f32>() {
            Ok(y) => format!("{:.3}", y) == t1,
            Err(_) => false,
        }
    };
    // 64 blocks, each split over the threads; a marker line after every block keeps the stall watchdog informed
    let (mut n, mut bad, mut first) = (0u64, 0u64, None);
    let nblocks: u64 = 64;
    let block = total / nblocks;
    for blk in 0..nblocks {
        let chunk = block / nthreads;
        let results: Vec<(u64, u64, Option<u32>)> = std::thread::scope(|sc| {
            let hs: Vec<_> = (0..nthreads)
                .map(|t| {
                    sc.spawn(move || {
                        let mut iset = InstructionSet::new();
                        iset.load();
                        let (mut n, mut bad, mut first) = (0u64, 0u64, None);
                        let mut b = blk * block + t * chunk;
                        let end = blk * block + (t + 1) * chunk;
                        // keep the stride grid aligned over the whole range
                        if b % stride != 0 {
                            b += stride - b % stride;
                        }
                        while b < end {
                            let bits = b as u32;
                            n += 1;
                            let mut ok = check_std(bits);
                            if ok && (b / stride) % 4096 == 0 {
                                // the implementation's own path
                                let it = Item::float(f32::from_bits(bits));
                                let t1 = it.to_string();
                                let mut st = PushState::new();
                                PushParser::parse_program(&mut st, &iset, &t1);
                                ok = st.exec_stack.size() == 1 && st.exec_stack.get(0).map(|i| i.to_string()) == Some(t1);
                            }
                            if !ok {
                                bad += 1;
                                if first.is_none() {
                                    first = Some(bits);
                                }
                            }
                            b += stride;
                        }
                        (n, bad, first)
                    })
                })
                .collect();
            hs.into_iter().map(|h| h.join().unwrap_or((0, 1, Some(0)))).collect()
        });
        for (a, b, f) in results {
            n += a;
            bad += b;
            if first.is_none() {
                first = f;
            }
        }
        out(format!("#p fsweep block {} of {}", blk + 1, nblocks));
    }
    // windows around the powers of two and of ten, where the printed precision and the float spacing cross
    let mut extra: Vec<u32> = vec![];
    for e in 0..=254u32 {
        for d in -40i64..=40 {
            let b = ((e << 23) as i64 + d).clamp(0, 0x7f7f_ffff) as u32;
            extra.push(b);
            extra.push(b | 0x8000_0000);
        }
    }
    let mut p = 1e-6f64;
    while p < 1e39 {
        let c = (p as f32).to_bits();
        for d in -40i64..=40 {
            let b = (c as i64 + d).clamp(0, 0x7f7f_ffff) as u32;
            extra.push(b);
            extra.push(b | 0x8000_0000);
        }
        p *= 10.0;
    }
    for b in extra {
        n += 1;
        if !check_std(b) {
            bad += 1;
            if first.is_none() {
                first = Some(b);
            }
        }
    }
    out(format!("( fsweep {} {} {} )", n, bad, first.map(|b| format!("{:08x}", b)).unwrap_or_else(|| "-".to_string())));
}
