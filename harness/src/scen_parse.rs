//! C03: strings through the parser; C11: print -> parse round trips.
use crate::codec::*;
use crate::gen::*;
use crate::rng::Rng;
use crate::scen_exec::next_node_id;
use crate::stategen::*;
use pushr::push::item::Item;
use pushr::push::parser::PushParser;
use pushr::push::state::PushState;
use std::panic::{catch_unwind, AssertUnwindSafe};

const WS: [&str; 10] = [" ", "  ", "\t", "\n", "\r\n", "\u{a0}", "\u{2003}", "\u{3000}", "\u{85}", "\u{2028}"];

const ODD_TOKENS: [&str; 44] = [
    "INT[", "INT[]", "INT[1", "INT[1,", "INT[1,2]", "INT[ü]", "INT[1]ü", "INT[1,2x", "INT[+5,-0]", "INT[2147483648]",
    "FLOAT[", "FLOAT[]", "FLOAT[NaN]", "FLOAT[1.5,inf,-Infinity,1e-50]", "FLOAT[1..2]", "FLOAT[.5,5.,1e3]", "BOOL[",
    "BOOL[2]", "BOOL[1,0,true,false]", "BOOL[TRUE]", "BOOL[1,]", "(", ")", "((", "()", ")(", "TRUE", "FALSE", "true",
    "+5", "-0", "007", "2147483647", "2147483648", "-2147483649", "1e3", "1.", ".5", ".", "+", "nan", "-inf", "ü", "日本語",
];

fn gen_token(r: &mut Rng, names: &[String]) -> String {
    match r.below(12) {
        0..=2 => r.pick(&ODD_TOKENS).to_string(),
        3 => r.pick(names).clone(),
        // a name that differs from a registered instruction only by case is a NAME
        4 => if r.chance(1, 3) { r.pick(names).to_lowercase() } else { r.pick(names).clone() },
        5 => gen_int(r).to_string(),
        6 => format!("{}", gen_float(r)),
        7 => format!("{:.3}", gen_float(r)),
        8 => gen_name(r),
        9 => {
            // arbitrary characters incl. multi-byte, never white space
            let n = 1 + r.below(6);
            (0..n)
                .map(|_| *r.pick(&['a', 'Z', '0', '[', ']', ',', '.', '-', '+', 'e', '(', ')', 'ü', '日', '\u{1F600}', '_']))
                .collect()
        }
        10 => {
            let k = r.below(3);
            match k {
                0 => format!("INT[{}]", (0..r.below(4)).map(|_| gen_int(r).to_string()).collect::<Vec<_>>().join(",")),
                1 => format!("BOOL[{}]", (0..r.below(4)).map(|_| r.pick(&["1", "0", "true", "false"]).to_string()).collect::<Vec<_>>().join(",")),
                _ => format!("FLOAT[{}]", (0..r.below(4)).map(|_| format!("{}", gen_float(r))).collect::<Vec<_>>().join(",")),
            }
        }
        _ => {
            let m = if r.chance(1, 50) { 10000 } else { 12 };
            "x".repeat(1 + r.below(m) as usize)
        }
    }
}

/// balanced program text with random white space
fn gen_balanced(r: &mut Rng, names: &[String], depth: u32, out: &mut Vec<String>) {
    let n = r.below(6);
    for _ in 0..n {
        if depth > 0 && r.chance(1, 4) {
            out.push("(".to_string());
            gen_balanced(r, names, depth - 1, out);
            out.push(")".to_string());
        } else {
            let t = gen_token(r, names);
            if t != "(" && t != ")" {
                out.push(t);
            }
        }
    }
}

pub fn observe(code: &str, mut st: PushState) -> String {
    let pre = enc_state(&st);
    let nid = next_node_id();
    let iset = make_iset(false);
    let r = catch_unwind(AssertUnwindSafe(|| {
        PushParser::parse_program(&mut st, &iset, code);
        st
    }));
    match r {
        Ok(s) => format!("( parse {} {} {} {} )", enc_name(code), pre, enc_state(&s), nid),
        Err(_) => format!("( parse {} {} PANIC {} )", enc_name(code), pre, nid),
    }
}

pub fn run(seed: u64, tier: &str, out: &mut dyn FnMut(String)) {
    let names = instruction_names();
    let n = if tier == "thorough" { 60000 } else { 6000 };
    for case in 0..n {
        let mut r = Rng::for_case(seed, "parse", case);
        let mut toks: Vec<String> = vec![];
        let balanced = r.chance(3, 5);
        if balanced {
            gen_balanced(&mut r, &names, 4, &mut toks);
        } else {
            for _ in 0..r.below(12) {
                toks.push(gen_token(&mut r, &names));
            }
        }
        let mut code = String::new();
        if r.chance(1, 3) {
            code.push_str(*r.pick(&WS));
        }
        for t in toks {
            code.push_str(&t);
            code.push_str(*r.pick(&WS));
        }
        let st = if r.chance(1, 4) {
            let mut s = gen_state(&mut r, &GenOpts { instrs: &names, rich: false, item_depth: 2 });
            if r.chance(1, 2) {
                s.exec_stack.flush();
            }
            s
        } else {
            PushState::new()
        };
        out(observe(&code, st));
    }
}

fn rt_item(r: &mut Rng, depth: u32, names: &[String], floats: bool) -> Item {
    if depth > 0 && r.chance(2, 5) {
        let n = r.below(5);
        return Item::list((0..n).map(|_| rt_item(r, depth - 1, names, floats)).collect());
    }
    match r.below(if floats { 6 } else { 5 }) {
        0 | 1 => Item::int(gen_int(r)),
        2 => Item::bool(r.chance(1, 2)),
        3 => Item::instruction(r.pick(names).clone()),
        4 => {
            if r.chance(1, 4) {
                // a name spelled like an instruction in another letter case is still a name
                let n = r.pick(names);
                Item::name(if r.chance(1, 2) { n.to_lowercase() } else { let mut c = n.to_lowercase(); c.replace_range(0..1, &n[0..1]); c })
            } else {
                Item::name(r.pick(&["a", "foo", "x1", "ü", "k]", "a.b", "x(y", "1x", "e5", "--", "T", "true"]).to_string())
            }
        }
        _ => Item::float(gen_float(r)),
    }
}

pub fn observe_rt(it: &Item) -> String {
    let printed = it.to_string();
    let mut st = PushState::new();
    let iset = make_iset(false);
    let r = catch_unwind(AssertUnwindSafe(|| {
        PushParser::parse_program(&mut st, &iset, &printed);
        st
    }));
    match r {
        Ok(s) => {
            // the implementation's own print of what it parsed back (the property is about this text)
            let reprint = catch_unwind(AssertUnwindSafe(|| s.exec_stack.to_string()));
            match reprint {
                Ok(rp) => format!("( roundtrip {} {} {} {} )", enc_item(it), enc_name(&printed), enc_items_top_first(&stack_items(&s.exec_stack)), enc_name(&rp)),
                Err(_) => format!("( roundtrip {} {} {} PANIC )", enc_item(it), enc_name(&printed), enc_items_top_first(&stack_items(&s.exec_stack))),
            }
        }
        Err(_) => format!("( roundtrip {} {} PANIC )", enc_item(it), enc_name(&printed)),
    }
}

pub fn run_rt(seed: u64, tier: &str, out: &mut dyn FnMut(String)) {
    use pushr::push::instructions::InstructionSet;
    use pushr::push::random::CodeGenerator;
    let names = instruction_names();
    let n = if tier == "thorough" { 40000 } else { 5000 };
    let mut iset = InstructionSet::new();
    iset.load();
    let icache = iset.cache();
    for case in 0..n {
        let mut r = Rng::for_case(seed, "roundtrip", case);
        let it = match case % 4 {
            0 => rt_item(&mut r, 4, &names, false),
            1 => rt_item(&mut r, 3, &names, true),
            2 => gen_item(&mut r, 3, &names),
            _ => {
                // trees emitted by pushr's own generator
                let st = PushState::new();
                match CodeGenerator::random_code(&st, &icache, 2 + r.below(40) as usize) {
                    Some(c) => c,
                    None => Item::int(0),
                }
            }
        };
        out(observe_rt(&it));
    }
}

pub fn replay_parse(xs: &[Sx]) -> Option<String> {
    let code = dec_name(xs.get(0)?)?;
    let st = dec_state(xs.get(1)?)?;
    Some(observe(&code, st))
}
pub fn replay_rt(xs: &[Sx]) -> Option<String> {
    Some(observe_rt(&dec_item(xs.get(0)?)?))
}
