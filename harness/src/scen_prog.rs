//! Programs: generated Push programs executed step by step (every transition validated by the
//! model) and by the bounded run loop (C02: independent accounting of repeated step() calls).
use crate::codec::*;
use crate::gen::*;
use crate::rng::Rng;
use crate::scen_exec::{cap_ints, is_size_operand, next_node_id, observe_step};
use crate::stategen::*;
use pushr::push::instructions::InstructionSet;
use pushr::push::interpreter::{PushInterpreter, PushInterpreterState};
use pushr::push::item::Item;
use pushr::push::random::CodeGenerator;
use pushr::push::state::PushState;
use std::panic::{catch_unwind, AssertUnwindSafe};

pub fn is_rand(name: &str) -> bool {
    name.ends_with(".RAND") || name == "NAME.RANDBOUNDNAME"
}
/// instructions whose outcome exposes process-wide node ids or HashMap order
pub fn exposes_ids(name: &str) -> bool {
    name.starts_with("GRAPH.")
}

pub struct ProgOpts<'a> {
    pub names: &'a [String],
    pub clean: bool,       // no RAND, no graph instructions (C02 / C14 programs)
    pub focus: &'a [&'a str], // instruction-name prefixes drawn more often
    pub no_alloc: bool,
}

fn pick_instr(r: &mut Rng, o: &ProgOpts) -> String {
    for _ in 0..50 {
        let n = if !o.focus.is_empty() && r.chance(3, 5) {
            let f = *r.pick(o.focus);
            let c: Vec<&String> = o
                .names
                .iter()
                .filter(|n| if let Some(suf) = f.strip_prefix('*') { n.ends_with(suf) } else { n.starts_with(f) })
                .collect();
            if c.is_empty() {
                r.pick(o.names).clone()
            } else {
                (*r.pick(&c)).clone()
            }
        } else {
            r.pick(o.names).clone()
        };
        if n == "EXEC.CMD" && r.chance(9, 10) {
            continue;
        }
        if o.clean && (is_rand(&n) || exposes_ids(&n)) {
            continue;
        }
        // whole runs cannot be stopped at the envelope: keep operand-sized allocation out of them
        if o.no_alloc && is_size_operand(&n) {
            continue;
        }
        return n;
    }
    "NOOP".to_string()
}

pub fn gen_prog_item(r: &mut Rng, depth: u32, o: &ProgOpts) -> Item {
    if depth > 0 && r.chance(1, 5) {
        let n = r.below(6);
        let v: Vec<Item> = (0..n).map(|_| gen_prog_item(r, depth - 1, o)).collect();
        return Item::list(v);
    }
    if o.focus.iter().any(|f| *f == "NAME.QUOTE") && r.chance(1, 3) {
        return Item::name(r.pick(&["a", "b", "x1", "foo"]).to_string());
    }
    match r.below(20) {
        0..=8 => Item::instruction(pick_instr(r, o)),
        9..=12 => Item::int(if r.chance(4, 5) { r.range(-3, 8) as i32 } else { gen_int(r) }),
        13 => Item::float(gen_float(r)),
        14 => Item::bool(r.chance(1, 2)),
        15 | 16 => Item::name(r.pick(&["a", "b", "x1", "foo"]).to_string()),
        17 => Item::intvec(pushr::push::vector::IntVector::new(gen_ivec(r, 4))),
        18 => Item::boolvec(pushr::push::vector::BoolVector::new(gen_bvec(r, 4))),
        _ => Item::floatvec(pushr::push::vector::FloatVector::new(gen_fvec(r, 3))),
    }
}

/// a program: the items of the EXEC stack, bottom first
pub fn gen_program(r: &mut Rng, o: &ProgOpts, st: &PushState) -> Vec<Item> {
    if !o.clean && r.chance(1, 6) {
        // pushr's own generator over the full registry
        let mut iset = InstructionSet::new();
        iset.load();
        let icache = iset.cache();
        let n = 2 + r.below(40) as usize;
        if let Some(code) = CodeGenerator::random_code(st, &icache, n) {
            return vec![code];
        }
    }
    let n = 1 + r.below(14);
    let mut prog: Vec<Item> = (0..n).map(|_| gen_prog_item(r, 3, o)).collect();
    if o.focus.iter().any(|f| *f == "NAME.QUOTE") && r.chance(1, 3) {
        // a quote that has to survive a gap: NAME.QUOTE, then 1..3 items that are not names (any registered
        // instruction, NAME.* ones preferred, literals, lists without names), then a name. Bottom first.
        let at = r.below(prog.len() as u64 + 1) as usize;
        let mut frag = vec![Item::name(r.pick(&["a", "b", "x1", "foo"]).to_string())];
        for _ in 0..1 + r.below(3) {
            let it = match r.below(6) {
                0 => Item::int(r.range(-3, 8) as i32),
                1 => Item::list(vec![Item::int(1), Item::bool(true)]),
                2 | 3 => {
                    let c: Vec<&String> = o.names.iter().filter(|n| n.starts_with("NAME.") && *n != "NAME.QUOTE" && !is_rand(n)).collect();
                    if c.is_empty() { Item::instruction("NOOP".to_string()) } else { Item::instruction((*r.pick(&c)).clone()) }
                }
                _ => {
                    let n = pick_instr(r, o);
                    if n == "NAME.QUOTE" || n.ends_with(".DEFINE") || n.starts_with("LIST.") || n.starts_with("CODE.") || n.starts_with("EXEC.") {
                        Item::instruction("NAME.FLUSH".to_string())
                    } else {
                        Item::instruction(n)
                    }
                }
            };
            frag.push(it);
        }
        frag.push(Item::instruction("NAME.QUOTE".to_string()));
        for (k, it) in frag.into_iter().enumerate() {
            prog.insert(at + k, it);
        }
    }
    prog
}

pub fn state_within_envelope(s: &PushState) -> bool {
    within_envelope(s)
}
fn within_envelope(s: &PushState) -> bool {
    // C01 is stated inside a resource envelope: operand-controlled sizes and total code size bounded
    if let Some(Item::InstructionMeta { name }) = s.exec_stack.get(0) {
        if name.starts_with("FLOATVECTOR.SORT") {
            // a NaN with the sign bit set (x86's default NaN) is ordered first by total_cmp; its sign is not
            // observable through the protocol, so such a step is outside what can be compared
            if let Some(v) = s.float_vector_stack.get(0) {
                if v.values.iter().any(|x| x.is_nan() && x.is_sign_negative()) {
                    return false;
                }
            }
        }
        if is_size_operand(name) {
            for i in 0..4 {
                if let Some(v) = s.int_stack.get(i) {
                    if *v > 2000 || (name == "CODE.RAND" && *v < -2000) {
                        return false;
                    }
                }
            }
        }
    }
    for i in 0..s.exec_stack.size().min(50) {
        if Item::size(s.exec_stack.get(i).unwrap()) > 3000 {
            return false;
        }
    }
    for i in 0..s.code_stack.size().min(50) {
        if Item::size(s.code_stack.get(i).unwrap()) > 3000 {
            return false;
        }
    }
    s.exec_stack.size() < 3000 && s.code_stack.size() < 3000
}

fn fresh_state(r: &mut Rng, names: &[String]) -> PushState {
    let rich = r.chance(1, 3);
    let mut st = gen_state(r, &GenOpts { instrs: names, rich, item_depth: 2 });
    st.exec_stack.flush();
    cap_ints(&mut st, 2000);
    st
}

/// `steps`: programs single-stepped, every transition emitted
pub fn run_steps(seed: u64, tier: &str, focus: &str, out: &mut dyn FnMut(String)) {
    let names = instruction_names();
    let ncase = if tier == "thorough" { 6000 } else { 600 };
    let focus_v: Vec<&str> = if focus == "*" { vec![] } else { focus.split(',').collect() };
    let clean = focus.contains("!clean");
    let focus_v: Vec<&str> = focus_v.into_iter().filter(|f| !f.starts_with('!')).collect();
    let mut iset = make_iset(false);
    for case in 0..ncase {
        let mut r = Rng::for_case(seed, &format!("steps:{}", focus), case);
        let mut st = fresh_state(&mut r, &names);
        let o = ProgOpts { names: &names, clean, focus: &focus_v, no_alloc: false };
        let prog = gen_program(&mut r, &o, &st);
        for it in prog {
            st.exec_stack.push(it);
        }
        out(format!("#c steps {} {}", focus, case));
        let mut cur = st;
        for _ in 0..120 {
            if !within_envelope(&cur) {
                out("#envelope".to_string());
                break;
            }
            let (line, next) = observe_step(&mut iset, cur);
            out(line);
            match next {
                Some((done, s2)) => {
                    if done {
                        break;
                    }
                    cur = s2;
                }
                None => break,
            }
        }
    }
}

fn outcome_str(o: &PushInterpreterState) -> &'static str {
    match o {
        PushInterpreterState::NoErrors => "noErrors",
        PushInterpreterState::StepLimitExceeded => "stepLimit",
        PushInterpreterState::TimeLimitExceeded => "timeLimit",
        PushInterpreterState::GrowthCapExceeded => "growthCap",
    }
}

/// the documented accounting of a run, done by hand with repeated step() calls on a second state
fn manual_run(iset: &mut InstructionSet, s: &mut PushState) -> (&'static str, i64) {
    // "first copies the program from the EXEC stack onto the CODE stack": done by hand, item by item, bottom first,
    // so that the copy lies on top of CODE in the order it has on EXEC
    let n = s.exec_stack.size();
    for i in (0..n).rev() {
        if let Some(it) = s.exec_stack.get(i) {
            let it = it.clone();
            s.code_stack.push(it);
        }
    }
    let icache = iset.cache();
    let limit = s.configuration.eval_push_limit as i64;
    let cap = s.configuration.growth_cap;
    let mut k: i64 = 0;
    loop {
        if k > limit {
            return ("stepLimit", k);
        }
        // the accounting is the harness's own: the nine typed stacks the growth cap is documented over
        let items = |s: &PushState| {
            s.bool_stack.size() + s.float_stack.size() + s.int_stack.size() + s.name_stack.size() + s.code_stack.size()
                + s.exec_stack.size() + s.bool_vector_stack.size() + s.float_vector_stack.size() + s.int_vector_stack.size()
        };
        let before = items(s);
        if PushInterpreter::step(s, iset, &icache) {
            return ("noErrors", k);
        }
        if items(s) > before + cap {
            return ("growthCap", k + 1);
        }
        k += 1;
    }
}

/// `run`: RAND-free, id-free programs executed by `run` and by the manual accounting
pub fn run_runs(seed: u64, tier: &str, out: &mut dyn FnMut(String)) {
    let names: Vec<String> = instruction_names()
        .into_iter()
        .filter(|n| !is_rand(n) && !exposes_ids(n) && !is_size_operand(n) && n != "EXEC.CMD")
        .collect();
    let ncase = if tier == "thorough" { 20000 } else { 2500 };
    let mut iset = make_iset(false);
    let mut iset2 = make_iset(false);
    for case in 0..ncase {
        let mut r = Rng::for_case(seed, "run", case);
        let mut st = fresh_state(&mut r, &names);
        st.graph_stack.flush();
        let focus: Vec<&str> = match case % 4 {
            0 => vec!["EXEC.", "CODE."],
            1 => vec!["INTEGER.", "BOOLEAN.", "EXEC.Y", "EXEC.DUP"],
            _ => vec![],
        };
        let o = ProgOpts { names: &names, clean: true, focus: &focus, no_alloc: true };
        let mut prog = gen_program(&mut r, &o, &st);
        // diverging and exploding shapes
        match r.below(8) {
            0 => prog.insert(0, Item::list(vec![Item::int(1), Item::instruction("EXEC.Y".to_string())])),
            1 => {
                let n = r.below(12);
                let v: Vec<Item> = (0..n).map(|_| Item::int(7)).collect();
                prog.push(Item::list(v));
            }
            _ => {}
        }
        for it in prog {
            st.exec_stack.push(it);
        }
        let m = st.exec_stack.size() as i64;
        st.configuration.eval_push_limit = *r.pick(&[-1, 0, 1, 2, 3, 5, 10, 40, 200, m as i32 - 1, m as i32, m as i32 + 1]);
        st.configuration.growth_cap = *r.pick(&[0, 1, 2, 3, 5, 8, 500, 500]);
        st.configuration.eval_time_limit = 600_000;
        // timed cases: a diverging program stopped by a large step budget (several ms of work) under a
        // time limit of 2 s. The limit is read in milliseconds; a run that reports TimeLimitExceeded although
        // far less wall-clock time has passed contradicts the manual accounting (StepLimitExceeded)
        let timed = case % 50 == 49;
        if timed {
            st.exec_stack.flush();
            st.exec_stack.push(Item::list(vec![Item::instruction("INTEGER.+".to_string()), Item::instruction("INTEGER.DUP".to_string())]));
            st.exec_stack.push(Item::instruction("EXEC.Y".to_string()));
            st.exec_stack.push(Item::int(1));
            st.configuration.eval_push_limit = 4000;
            st.configuration.growth_cap = 500;
            st.configuration.eval_time_limit = 2000;
        }
        // the envelope: no size-operand instruction may see a huge operand; keep programs small
        let pre = enc_state(&st);
        let mut st2 = match parse_line(&pre).and_then(|v| dec_state(&v[0])) {
            Some(s) => s,
            None => continue,
        };
        let nid = next_node_id();
        out(format!("#c run {}", case));
        let t0 = std::time::Instant::now();
        let r1 = catch_unwind(AssertUnwindSafe(|| {
            let o = PushInterpreter::run(&mut st, &mut iset);
            (o, st)
        }));
        if timed && t0.elapsed().as_millis() >= 1000 {
            // the host really was that slow: nothing can be concluded from this case
            continue;
        }
        let r2 = catch_unwind(AssertUnwindSafe(|| {
            let (o, k) = manual_run(&mut iset2, &mut st2);
            (o, k, st2)
        }));
        match (r1, r2) {
            (Ok((o, s1)), Ok((o2, k2, s2))) => out(format!(
                "( run {} {} {} {} {} {} {} )",
                pre,
                outcome_str(&o),
                enc_state(&s1),
                o2,
                k2,
                enc_state(&s2),
                nid
            )),
            _ => out(format!("( run {} PANIC - - 0 - {} )", pre, nid)),
        }
    }
}

/// `run` under a wall-clock limit that IS reached: limit 0 (every run stops at the first check) and a few
/// milliseconds on a diverging program with an effectively unlimited step budget. The run's own outcome, final
/// state and measured duration are reported together with the number of single steps after which a second,
/// identically built state equals that final state (-1: never within the cap).
pub fn run_timeouts(seed: u64, tier: &str, out: &mut dyn FnMut(String)) {
    let names: Vec<String> = instruction_names()
        .into_iter()
        .filter(|n| !is_rand(n) && !exposes_ids(n) && !is_size_operand(n) && n != "EXEC.CMD")
        .collect();
    let ncase = if tier == "thorough" { 60 } else { 12 };
    let mut iset = make_iset(false);
    let mut iset2 = make_iset(false);
    // a slow instruction (public InstructionSet::add): it changes nothing, records when it was started and sleeps
    // 4 ms. The run loop reads the clock before every step, so no step may START once the limit has passed.
    let starts: std::sync::Arc<std::sync::Mutex<Vec<std::time::Instant>>> = Default::default();
    {
        let log = starts.clone();
        iset.add(
            "TEST.SLEEP".to_string(),
            pushr::push::instructions::Instruction::new(move |_s: &mut PushState, _c: &pushr::push::instructions::InstructionCache| {
                log.lock().unwrap().push(std::time::Instant::now());
                std::thread::sleep(std::time::Duration::from_millis(4));
            }),
        );
    }
    for case in 0..ncase {
        let mut r = Rng::for_case(seed, "runt", case);
        let mut st = fresh_state(&mut r, &names);
        st.graph_stack.flush();
        st.exec_stack.flush();
        let slow = case % 4 == 3;
        let limit_ms: u64 = if slow { *r.pick(&[10u64, 15, 22]) } else if case % 2 == 0 { 0 } else { *r.pick(&[1u64, 2, 3, 5]) };
        if slow {
            // ( 0 TEST.SLEEP 1 TEST.SLEEP ... ): 100 slow steps, 400 ms of work under a limit of 10-22 ms
            let mut v = vec![];
            for i in 0..100 {
                v.push(Item::int(i));
                v.push(Item::instruction("TEST.SLEEP".to_string()));
            }
            st.exec_stack.push(Item::list(v));
        } else if case % 2 == 0 && case % 4 == 0 {
            let o = ProgOpts { names: &names, clean: true, focus: &[], no_alloc: true };
            for it in gen_program(&mut r, &o, &st) {
                st.exec_stack.push(it);
            }
        } else {
            // diverges without growing: the INTEGER on top changes at every iteration, so every reached state is distinct
            st.exec_stack.push(Item::list(vec![Item::instruction("INTEGER.+".to_string()), Item::int(1)]));
            st.exec_stack.push(Item::instruction("EXEC.Y".to_string()));
            st.exec_stack.push(Item::int(case as i32));
        }
        st.configuration.eval_push_limit = 2_000_000_000;
        st.configuration.growth_cap = 500;
        st.configuration.eval_time_limit = limit_ms;
        let pre = enc_state(&st);
        let mut st2 = match parse_line(&pre).and_then(|v| dec_state(&v[0])) {
            Some(s) => s,
            None => continue,
        };
        let nid = next_node_id();
        out(format!("#c runt {}", case));
        starts.lock().unwrap().clear();
        let t0 = std::time::Instant::now();
        let r1 = catch_unwind(AssertUnwindSafe(|| {
            let o = PushInterpreter::run(&mut st, &mut iset);
            (o, st)
        }));
        let elapsed_us = t0.elapsed().as_micros();
        let (o, s1) = match r1 {
            Ok(x) => x,
            Err(_) => {
                out(format!("( runt {} PANIC - 0 0 0 {} 0 )", pre, nid));
                continue;
            }
        };
        let post = enc_state(&s1);
        // stepping by hand until the same state is reached
        PushInterpreter::copy_to_code_stack(&mut st2);
        let icache = iset2.cache();
        let mut k2: i64 = -1;
        let cap = 3_000_000i64;
        let mut k = 0i64;
        let want_top = s1.int_stack.copy(0);
        loop {
            if st2.int_stack.copy(0) == want_top && st2.exec_stack.size() == s1.exec_stack.size() && enc_state(&st2) == post {
                k2 = k;
                break;
            }
            if k >= cap || PushInterpreter::step(&mut st2, &mut iset2, &icache) {
                break;
            }
            k += 1;
        }
        // the latest start of a slow step, relative to the moment run() was called
        let late_us = starts.lock().unwrap().iter().map(|t| t.duration_since(t0).as_micros()).max().unwrap_or(0);
        out(format!("( runt {} {} {} {} {} {} {} {} )", pre, outcome_str(&o), post, k2, elapsed_us, limit_ms, nid, late_us));
    }
}

/// C15: structure-doubling programs stepped a fixed number of times under the default limits
pub fn run_growth(_seed: u64, tier: &str, out: &mut dyn FnMut(String)) {
    use pushr::push::parser::PushParser;
    let progs = [
        "( CODE.QUOTE ( 1 ) EXEC.Y ( CODE.DUP CODE.LIST ) )",
        "( CODE.QUOTE ( 1 ) EXEC.Y ( CODE.DUP CODE.APPEND ) )",
        "( CODE.QUOTE ( 1 2 ) EXEC.Y ( CODE.DUP CODE.CONS ) )",
        "( EXEC.Y ( CODE.QUOTE ( 1 ) CODE.DUP CODE.LIST CODE.DUP CODE.LIST CODE.POP ) )",
        "( 1 EXEC.Y ( INTEGER.DUP INTEGER.+ ) )",
    ];
    let steps: &[usize] = if tier == "thorough" { &[10, 20, 30, 40, 50, 60, 70] } else { &[10, 30, 45] };
    let mut iset = make_iset(false);
    for p in progs.iter() {
        for &n in steps {
            let mut st = PushState::new();
            PushParser::parse_program(&mut st, &iset, p);
            let pre = enc_state(&st);
            let nid = next_node_id();
            let icache = iset.cache();
            let r = catch_unwind(AssertUnwindSafe(|| {
                for _ in 0..n {
                    PushInterpreter::step(&mut st, &mut iset, &icache);
                }
                st
            }));
            match r {
                Ok(s) => out(format!("( growth {} {} {} {} )", pre, n, enc_state(&s), nid)),
                Err(_) => out(format!("( growth {} {} PANIC {} )", pre, n, nid)),
            }
        }
    }
    // small but DEEP items (a chain of 40 nested lists, 80-odd points): every CODE.* and EXEC.* instruction must still
    // return promptly - work that doubles with the nesting depth is a hang inside one step (stall watchdog)
    let deep = |seedv: i32| -> Item {
        let mut t = Item::list(vec![Item::int(seedv)]);
        for k in 0..40 {
            t = Item::list(vec![Item::int(k), t]);
        }
        t
    };
    let names: Vec<String> = instruction_names().into_iter().filter(|n| (n.starts_with("CODE.") || n.starts_with("EXEC.")) && !is_rand(n) && n != "EXEC.CMD").collect();
    for name in names.iter() {
        let mut st = PushState::new();
        for k in 0..3 {
            st.code_stack.push(deep(k));
            st.exec_stack.push(deep(if k == 0 { 0 } else { 7 }));
        }
        st.int_stack.push(3);
        st.int_stack.push(41);
        st.bool_stack.push(true);
        st.name_stack.push("a".to_string());
        st.index_stack.push(pushr::push::index::Index::new(2));
        out(format!("#c exec {} (deep items)", name));
        out(crate::scen_exec::observe_exec(&mut iset, name, st));
    }
}

/// re-executes a `growth` request (pre-state, number of steps) on the current tree
pub fn replay_growth(xs: &[Sx]) -> Option<String> {
    let mut st = dec_state(xs.get(0)?)?;
    let n: usize = match xs.get(1)? {
        Sx::Atom(a) => a.parse().ok()?,
        _ => return None,
    };
    let pre = enc_state(&st);
    let nid = next_node_id();
    let mut iset = make_iset(false);
    let icache = iset.cache();
    let r = catch_unwind(AssertUnwindSafe(|| {
        for _ in 0..n {
            PushInterpreter::step(&mut st, &mut iset, &icache);
        }
        st
    }));
    Some(match r {
        Ok(s) => format!("( growth {} {} {} {} )", pre, n, enc_state(&s), nid),
        Err(_) => format!("( growth {} {} PANIC {} )", pre, n, nid),
    })
}
