//! Canonical text encoding of pushr values (mirrors /verif/lean/Driver/Codec.lean) and the decoder
//! used by replays.
use pushr::push::buffer::PushBuffer;
use pushr::push::graph::Graph;
use pushr::push::index::Index;
use pushr::push::io::PushMessage;
use pushr::push::item::{Item, PushType};
use pushr::push::stack::PushStack;
use pushr::push::state::PushState;
use pushr::push::vector::{BoolVector, FloatVector, IntVector};

// ---------------------------------------------------------------- encoding

pub fn hex(s: &str) -> String {
    let mut o = String::with_capacity(s.len() * 2);
    for b in s.bytes() {
        o.push_str(&format!("{:02x}", b));
    }
    o
}
pub fn enc_name(s: &str) -> String {
    format!("n{}", hex(s))
}
pub fn enc_f32(x: f32) -> String {
    let b = if x.is_nan() { 0x7fc0_0000 } else { x.to_bits() };
    format!("f{:08x}", b)
}
pub fn enc_bool(b: bool) -> &'static str {
    if b {
        "T"
    } else {
        "F"
    }
}
pub fn enc_list(xs: &[String]) -> String {
    if xs.is_empty() {
        "( )".to_string()
    } else {
        format!("( {} )", xs.join(" "))
    }
}
pub fn enc_tag(t: &str, xs: &[String]) -> String {
    let mut v = vec![t.to_string()];
    v.extend_from_slice(xs);
    enc_list(&v)
}
pub fn enc_bv(v: &[bool]) -> String {
    enc_tag("bv", &v.iter().map(|b| enc_bool(*b).to_string()).collect::<Vec<_>>())
}
pub fn enc_iv(v: &[i32]) -> String {
    enc_tag("iv", &v.iter().map(|i| i.to_string()).collect::<Vec<_>>())
}
pub fn enc_fv(v: &[f32]) -> String {
    enc_tag("fv", &v.iter().map(|f| enc_f32(*f)).collect::<Vec<_>>())
}
pub fn enc_graph(g: &Graph) -> String {
    let mut ns: Vec<(usize, i32)> = g.nodes.iter().map(|(k, n)| (*k, n.get_state())).collect();
    ns.sort();
    let mut es: Vec<(usize, Vec<String>)> = g
        .edges
        .iter()
        .map(|(k, l)| {
            (
                *k,
                l.iter()
                    .map(|e| enc_list(&[e.get_origin_id().to_string(), enc_f32(e.get_weight())]))
                    .collect(),
            )
        })
        .collect();
    es.sort_by_key(|p| p.0);
    enc_tag(
        "g",
        &[
            enc_list(&ns.iter().map(|(a, b)| enc_list(&[a.to_string(), b.to_string()])).collect::<Vec<_>>()),
            enc_list(
                &es.iter()
                    .map(|(d, l)| {
                        let mut v = vec![d.to_string()];
                        v.extend(l.iter().cloned());
                        enc_list(&v)
                    })
                    .collect::<Vec<_>>(),
            ),
        ],
    )
}
pub fn enc_lit(p: &PushType) -> String {
    match p {
        PushType::Bool { val } => enc_bool(*val).to_string(),
        PushType::Int { val } => val.to_string(),
        PushType::Index { val } => enc_tag("x", &[val.current.to_string(), val.destination.to_string()]),
        PushType::Float { val } => enc_f32(*val),
        PushType::BoolVector { val } => enc_bv(&val.values),
        PushType::IntVector { val } => enc_iv(&val.values),
        PushType::FloatVector { val } => enc_fv(&val.values),
        PushType::Graph { val } => enc_graph(val),
    }
}
/// items of a list / stack, top first
pub fn stack_items<T: Clone + std::fmt::Display + PartialEq + pushr::push::stack::PushPrint>(s: &PushStack<T>) -> Vec<T> {
    let mut v = s.copy_vec(s.size()).unwrap_or_default();
    v.reverse();
    v
}
pub fn enc_item(it: &Item) -> String {
    match it {
        Item::List { items } => enc_tag("l", &stack_items(items).iter().map(enc_item).collect::<Vec<_>>()),
        Item::InstructionMeta { name } => format!("I{}", name),
        Item::Literal { push_type } => enc_lit(push_type),
        Item::Identifier { name } => enc_name(name),
    }
}
pub fn enc_items_top_first(v: &[Item]) -> String {
    enc_list(&v.iter().map(enc_item).collect::<Vec<_>>())
}
pub fn enc_msg(m: &PushMessage) -> String {
    enc_tag("m", &[enc_iv(&m.header.values), enc_bv(&m.body.values)])
}
pub fn enc_buf<T, F: Fn(&T) -> String>(b: &PushBuffer<T>, f: F) -> String
where
    T: Clone + std::fmt::Display + Default + PartialEq + std::fmt::Debug,
{
    let mut v = vec![b.capacity().to_string()];
    for x in b.iter() {
        v.push(f(x));
    }
    enc_list(&v)
}
pub fn enc_state(s: &PushState) -> String {
    let mut binds: Vec<(&String, &Item)> = s.name_bindings.iter().collect();
    binds.sort_by(|a, b| a.0.as_bytes().cmp(b.0.as_bytes()));
    let c = &s.configuration;
    enc_tag(
        "S",
        &[
            enc_list(&stack_items(&s.bool_stack).iter().map(|b| enc_bool(*b).to_string()).collect::<Vec<_>>()),
            enc_list(&stack_items(&s.int_stack).iter().map(|i| i.to_string()).collect::<Vec<_>>()),
            enc_list(&stack_items(&s.float_stack).iter().map(|f| enc_f32(*f)).collect::<Vec<_>>()),
            enc_list(&stack_items(&s.name_stack).iter().map(|n| enc_name(n)).collect::<Vec<_>>()),
            enc_items_top_first(&stack_items(&s.code_stack)),
            enc_items_top_first(&stack_items(&s.exec_stack)),
            enc_list(
                &stack_items(&s.index_stack)
                    .iter()
                    .map(|x| enc_list(&[x.current.to_string(), x.destination.to_string()]))
                    .collect::<Vec<_>>(),
            ),
            enc_list(&stack_items(&s.bool_vector_stack).iter().map(|v| enc_bv(&v.values)).collect::<Vec<_>>()),
            enc_list(&stack_items(&s.int_vector_stack).iter().map(|v| enc_iv(&v.values)).collect::<Vec<_>>()),
            enc_list(&stack_items(&s.float_vector_stack).iter().map(|v| enc_fv(&v.values)).collect::<Vec<_>>()),
            enc_buf(&s.input_stack, enc_msg),
            enc_buf(&s.output_stack, enc_msg),
            enc_buf(&s.graph_stack, enc_graph),
            enc_list(&binds.iter().map(|(k, v)| enc_list(&[enc_name(k), enc_item(v)])).collect::<Vec<_>>()),
            enc_tag(
                "cfg",
                &[
                    enc_f32(c.max_random_float),
                    enc_f32(c.min_random_float),
                    c.max_random_integer.to_string(),
                    c.min_random_integer.to_string(),
                    c.eval_push_limit.to_string(),
                    c.eval_time_limit.to_string(),
                    c.growth_cap.to_string(),
                    enc_f32(c.new_erc_name_probability),
                    c.max_points_in_random_expressions.to_string(),
                    c.max_points_in_program.to_string(),
                ],
            ),
            enc_bool(s.quote_name).to_string(),
            enc_bool(s.send_name).to_string(),
        ],
    )
}

// ---------------------------------------------------------------- decoding

#[derive(Debug, Clone)]
pub enum Sx {
    Atom(String),
    List(Vec<Sx>),
}

pub fn parse_line(line: &str) -> Option<Vec<Sx>> {
    let toks: Vec<&str> = line.split(' ').filter(|t| !t.is_empty()).collect();
    let mut pos = 0;
    let v = parse_seq(&toks, &mut pos)?;
    if pos == toks.len() {
        Some(v)
    } else {
        None
    }
}
fn parse_seq(toks: &[&str], pos: &mut usize) -> Option<Vec<Sx>> {
    let mut out = vec![];
    while *pos < toks.len() {
        match toks[*pos] {
            ")" => return Some(out),
            "(" => {
                *pos += 1;
                let inner = parse_seq(toks, pos)?;
                if *pos < toks.len() && toks[*pos] == ")" {
                    *pos += 1;
                    out.push(Sx::List(inner));
                } else {
                    return None;
                }
            }
            t => {
                out.push(Sx::Atom(t.to_string()));
                *pos += 1;
            }
        }
    }
    Some(out)
}
pub fn sx_str(s: &Sx) -> String {
    match s {
        Sx::Atom(a) => a.clone(),
        Sx::List(v) => enc_list(&v.iter().map(sx_str).collect::<Vec<_>>()),
    }
}

pub fn unhex(s: &str) -> Option<String> {
    if s.len() % 2 != 0 {
        return None;
    }
    let mut bytes = vec![];
    let b = s.as_bytes();
    for i in (0..b.len()).step_by(2) {
        bytes.push(u8::from_str_radix(std::str::from_utf8(&b[i..i + 2]).ok()?, 16).ok()?);
    }
    String::from_utf8(bytes).ok()
}
pub fn dec_bool(s: &Sx) -> Option<bool> {
    match s {
        Sx::Atom(a) if a == "T" => Some(true),
        Sx::Atom(a) if a == "F" => Some(false),
        _ => None,
    }
}
pub fn dec_f32(s: &Sx) -> Option<f32> {
    match s {
        Sx::Atom(a) if a.starts_with('f') && a.len() == 9 => Some(f32::from_bits(u32::from_str_radix(&a[1..], 16).ok()?)),
        _ => None,
    }
}
pub fn dec_i32(s: &Sx) -> Option<i32> {
    match s {
        Sx::Atom(a) => a.parse::<i32>().ok(),
        _ => None,
    }
}
pub fn dec_usize(s: &Sx) -> Option<usize> {
    match s {
        Sx::Atom(a) => a.parse::<usize>().ok(),
        _ => None,
    }
}
pub fn dec_name(s: &Sx) -> Option<String> {
    match s {
        Sx::Atom(a) if a.starts_with('n') => unhex(&a[1..]),
        _ => None,
    }
}
fn tagged<'a>(s: &'a Sx, tag: &str) -> Option<&'a [Sx]> {
    match s {
        Sx::List(v) if !v.is_empty() => match &v[0] {
            Sx::Atom(a) if a == tag => Some(&v[1..]),
            _ => None,
        },
        _ => None,
    }
}
pub fn dec_bv(s: &Sx) -> Option<Vec<bool>> {
    tagged(s, "bv")?.iter().map(dec_bool).collect()
}
pub fn dec_iv(s: &Sx) -> Option<Vec<i32>> {
    tagged(s, "iv")?.iter().map(dec_i32).collect()
}
pub fn dec_fv(s: &Sx) -> Option<Vec<f32>> {
    tagged(s, "fv")?.iter().map(dec_f32).collect()
}
pub fn dec_item(s: &Sx) -> Option<Item> {
    match s {
        Sx::Atom(a) => {
            if a == "T" {
                Some(Item::bool(true))
            } else if a == "F" {
                Some(Item::bool(false))
            } else if let Some(r) = a.strip_prefix('I') {
                Some(Item::instruction(r.to_string()))
            } else if a.starts_with('n') {
                Some(Item::name(unhex(&a[1..])?))
            } else if a.starts_with('f') {
                Some(Item::float(dec_f32(s)?))
            } else {
                Some(Item::int(a.parse::<i32>().ok()?))
            }
        }
        Sx::List(_) => {
            if let Some(xs) = tagged(s, "l") {
                // wire order is top first; from_vec wants bottom first
                let mut v: Vec<Item> = xs.iter().map(dec_item).collect::<Option<Vec<_>>>()?;
                v.reverse();
                Some(Item::list(v))
            } else if let Some(xs) = tagged(s, "x") {
                let mut ix = Index::new(dec_usize(xs.get(1)?)?);
                ix.current = dec_usize(xs.get(0)?)?;
                Some(Item::index(ix))
            } else if let Some(v) = dec_bv(s) {
                Some(Item::boolvec(BoolVector::new(v)))
            } else if let Some(v) = dec_iv(s) {
                Some(Item::intvec(IntVector::new(v)))
            } else if let Some(v) = dec_fv(s) {
                Some(Item::floatvec(FloatVector::new(v)))
            } else if tagged(s, "g").is_some() {
                Some(Item::Literal { push_type: PushType::Graph { val: dec_graph(s)? } })
            } else {
                None
            }
        }
    }
}
/// rebuilds a graph with its recorded node ids (needs the cfg(pushr_verif) hook `Node::with_id`)
pub fn dec_graph(s: &Sx) -> Option<Graph> {
    let xs = tagged(s, "g")?;
    let mut g = Graph::new();
    if let Sx::List(ns) = xs.get(0)? {
        for n in ns {
            if let Sx::List(p) = n {
                let id = dec_usize(p.get(0)?)?;
                let st = dec_i32(p.get(1)?)?;
                g.nodes.insert(id, pushr::push::graph::Node::with_id(id, st));
            } else {
                return None;
            }
        }
    }
    if let Sx::List(es) = xs.get(1)? {
        for e in es {
            if let Sx::List(p) = e {
                let d = dec_usize(p.get(0)?)?;
                let mut l = vec![];
                for oe in &p[1..] {
                    if let Sx::List(q) = oe {
                        l.push(pushr::push::graph::Edge::new(dec_usize(q.get(0)?)?, dec_f32(q.get(1)?)?));
                    } else {
                        return None;
                    }
                }
                g.edges.insert(d, l);
            } else {
                return None;
            }
        }
    }
    Some(g)
}

pub fn dec_items_top_first(s: &Sx) -> Option<Vec<Item>> {
    match s {
        Sx::List(v) => v.iter().map(dec_item).collect(),
        _ => None,
    }
}
fn dec_list<T, F: Fn(&Sx) -> Option<T>>(s: &Sx, f: F) -> Option<Vec<T>> {
    match s {
        Sx::List(v) => v.iter().map(|x| f(x)).collect(),
        _ => None,
    }
}
fn to_stack<T: Clone + std::fmt::Display + PartialEq + pushr::push::stack::PushPrint>(mut top_first: Vec<T>) -> PushStack<T> {
    top_first.reverse();
    PushStack::from_vec(top_first)
}
pub fn dec_msg(s: &Sx) -> Option<PushMessage> {
    let xs = tagged(s, "m")?;
    Some(PushMessage::new(IntVector::new(dec_iv(xs.get(0)?)?), BoolVector::new(dec_bv(xs.get(1)?)?)))
}
pub fn dec_state(s: &Sx) -> Option<PushState> {
    let xs = tagged(s, "S")?;
    if xs.len() != 17 {
        return None;
    }
    let mut st = PushState::new();
    st.bool_stack = to_stack(dec_list(&xs[0], dec_bool)?);
    st.int_stack = to_stack(dec_list(&xs[1], dec_i32)?);
    st.float_stack = to_stack(dec_list(&xs[2], dec_f32)?);
    st.name_stack = to_stack(dec_list(&xs[3], dec_name)?);
    st.code_stack = to_stack(dec_items_top_first(&xs[4])?);
    st.exec_stack = to_stack(dec_items_top_first(&xs[5])?);
    st.index_stack = to_stack(dec_list(&xs[6], |p| match p {
        Sx::List(v) if v.len() == 2 => {
            let mut ix = Index::new(dec_usize(&v[1])?);
            ix.current = dec_usize(&v[0])?;
            Some(ix)
        }
        _ => None,
    })?);
    st.bool_vector_stack = to_stack(dec_list(&xs[7], |v| dec_bv(v).map(BoolVector::new))?);
    st.int_vector_stack = to_stack(dec_list(&xs[8], |v| dec_iv(v).map(IntVector::new))?);
    st.float_vector_stack = to_stack(dec_list(&xs[9], |v| dec_fv(v).map(FloatVector::new))?);
    if let Sx::List(v) = &xs[10] {
        for m in &v[1..] {
            st.input_stack.push(dec_msg(m)?);
        }
    }
    if let Sx::List(v) = &xs[11] {
        for m in &v[1..] {
            st.output_stack.push(dec_msg(m)?);
        }
    }
    if let Sx::List(v) = &xs[12] {
        for g in &v[1..] {
            st.graph_stack.push(dec_graph(g)?);
        }
    }
    for kv in dec_list(&xs[13], |p| match p {
        Sx::List(v) if v.len() == 2 => Some((dec_name(&v[0])?, dec_item(&v[1])?)),
        _ => None,
    })? {
        st.name_bindings.insert(kv.0, kv.1);
    }
    let c = tagged(&xs[14], "cfg")?;
    st.configuration.max_random_float = dec_f32(&c[0])?;
    st.configuration.min_random_float = dec_f32(&c[1])?;
    st.configuration.max_random_integer = dec_i32(&c[2])?;
    st.configuration.min_random_integer = dec_i32(&c[3])?;
    st.configuration.eval_push_limit = dec_i32(&c[4])?;
    st.configuration.eval_time_limit = match &c[5] {
        Sx::Atom(a) => a.parse::<u64>().ok()?,
        _ => return None,
    };
    st.configuration.growth_cap = dec_usize(&c[6])?;
    st.configuration.new_erc_name_probability = dec_f32(&c[7])?;
    st.configuration.max_points_in_random_expressions = dec_i32(&c[8])?;
    st.configuration.max_points_in_program = dec_i32(&c[9])?;
    st.quote_name = dec_bool(&xs[15])?;
    st.send_name = dec_bool(&xs[16])?;
    Some(st)
}
