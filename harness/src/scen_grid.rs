//! C05: exhaustive grid over stack types x operations x depths x indices.
use crate::scen_exec::observe_exec;
use crate::stategen::make_iset;
use pushr::push::item::Item;
use pushr::push::state::PushState;
use pushr::push::vector::{BoolVector, FloatVector, IntVector};

const TYPES: [&str; 9] = ["BOOLEAN", "INTEGER", "FLOAT", "NAME", "CODE", "EXEC", "BOOLVECTOR", "INTVECTOR", "FLOATVECTOR"];
const OPS: [&str; 9] = ["DUP", "POP", "SWAP", "ROT", "YANK", "YANKDUP", "SHOVE", "FLUSH", "STACKDEPTH"];

/// `depth` distinguishable elements on the stack of type `ty` (element j from the bottom is "j")
fn fill(s: &mut PushState, ty: &str, depth: usize) {
    for j in 0..depth {
        match ty {
            // booleans cannot all be distinct: use an aperiodic pattern
            "BOOLEAN" => s.bool_stack.push([true, false, false, true, true, true, false][j % 7]),
            "INTEGER" => s.int_stack.push(100 + j as i32),
            "FLOAT" => s.float_stack.push(j as f32 + 0.5),
            "NAME" => s.name_stack.push(format!("n{}", j)),
            "CODE" => s.code_stack.push(Item::list(vec![Item::int(j as i32)])),
            "EXEC" => s.exec_stack.push(Item::int(j as i32)),
            "BOOLVECTOR" => s.bool_vector_stack.push(BoolVector::new(vec![true; j])),
            "INTVECTOR" => s.int_vector_stack.push(IntVector::new(vec![j as i32])),
            "FLOATVECTOR" => s.float_vector_stack.push(FloatVector::new(vec![j as f32])),
            _ => {}
        }
    }
}

pub fn run(out: &mut dyn FnMut(String)) {
    let mut iset = make_iset(false);
    for ty in TYPES.iter() {
        for op in OPS.iter() {
            if *op == "ROT" && ty.ends_with("VECTOR") {
                continue;
            }
            let name = format!("{}.{}", ty, op);
            let uses_index = *op == "YANK" || *op == "YANKDUP" || *op == "SHOVE";
            for depth in 0..7usize {
                let d = depth as i32;
                let indices: Vec<Option<i32>> = if uses_index {
                    let mut v: Vec<Option<i32>> = vec![None];
                    for i in [i32::MIN, -7, -1, 0, 1, 2, d - 2, d - 1, d, d + 1, d + 5, 1000, i32::MAX - 1, i32::MAX].iter() {
                        v.push(Some(*i));
                    }
                    v
                } else {
                    vec![None]
                };
                for idx in indices {
                    let mut s = PushState::new();
                    // bystanders
                    s.bool_stack.push(true);
                    s.float_stack.push(7.25);
                    s.name_stack.push("by".to_string());
                    s.code_stack.push(Item::int(-5));
                    s.exec_stack.push(Item::name("z".to_string()));
                    fill(&mut s, ty, depth);
                    if let Some(i) = idx {
                        s.int_stack.push(i);
                    }
                    out(observe_exec(&mut iset, &name, s));
                }
            }
        }
    }
}

/// C04: every scalar instruction matching `filter` on the full square of the integer boundary pool
/// (256 ordered pairs, so MIN / -1, MIN % -1, MAX + 1, x / 0 ... are always met), with the float
/// operands walking the square of the float boundary pool (484 pairs) and all boolean pairs
pub fn run_scalar(filter: &str, out: &mut dyn FnMut(String)) {
    use crate::gen::{FLOAT_POOL, INT_POOL};
    let mut iset = make_iset(false);
    let names = crate::stategen::instruction_names();
    for name in names.iter().filter(|n| crate::scen_exec::matches_filter(n, filter)) {
        let floaty = name.contains("FLOAT");
        let cases = if floaty { FLOAT_POOL.len() * FLOAT_POOL.len() } else { INT_POOL.len() * INT_POOL.len() };
        for k in 0..cases {
            let mut s = PushState::new();
            s.int_stack.push(777);
            s.float_stack.push(7.25);
            s.bool_stack.push(true);
            s.name_stack.push("by".to_string());
            s.code_stack.push(Item::int(-5));
            s.exec_stack.push(Item::name("z".to_string()));
            let (ia, ib) = (INT_POOL[(k / INT_POOL.len()) % INT_POOL.len()], INT_POOL[k % INT_POOL.len()]);
            let (fa, fb) = (FLOAT_POOL[(k / FLOAT_POOL.len()) % FLOAT_POOL.len()], FLOAT_POOL[k % FLOAT_POOL.len()]);
            s.int_stack.push(ia);
            s.int_stack.push(ib);
            s.float_stack.push(f32::from_bits(fa));
            s.float_stack.push(f32::from_bits(fb));
            s.bool_stack.push(k & 2 != 0);
            s.bool_stack.push(k & 1 != 0);
            s.name_stack.push(["a", "b", "a"][k % 3].to_string());
            s.name_stack.push(["a", "b", "b"][(k / 3) % 3].to_string());
            out(observe_exec(&mut iset, name, s));
        }
    }
}
