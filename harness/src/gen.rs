//! Structured, boundary-biased value generators.
use crate::rng::Rng;
use pushr::push::index::Index;
use pushr::push::item::Item;
use pushr::push::vector::{BoolVector, FloatVector, IntVector};

pub const INT_POOL: [i32; 16] = [
    i32::MIN, i32::MIN + 1, -1000, -3, -2, -1, 0, 1, 2, 3, 4, 7, 100, 1000, i32::MAX - 1, i32::MAX,
];

pub fn gen_int(r: &mut Rng) -> i32 {
    match r.below(10) {
        0..=3 => *r.pick(&INT_POOL),
        4..=7 => r.range(-6, 12) as i32,
        _ => r.next() as i32,
    }
}
/// an integer that is often a useful index for a container of length `len`
pub fn gen_index(r: &mut Rng, len: usize) -> i32 {
    let l = len as i64;
    match r.below(10) {
        0..=4 => r.range(-2, l + 2) as i32,
        5 => (l - 1) as i32,
        6 => l as i32,
        7 => *r.pick(&[i32::MIN, i32::MAX, -1, 0]),
        _ => gen_int(r),
    }
}
pub const FLOAT_POOL: [u32; 22] = [
    0x0000_0000, 0x8000_0000, 0x3f80_0000, 0xbf80_0000, 0x3f00_0000, 0x4000_0000, 0x4040_0000, 0xc020_0000,
    0x0000_0001, 0x8000_0001, 0x007f_ffff, 0x0080_0000, 0x7f7f_ffff, 0xff7f_ffff, 0x7f80_0000, 0xff80_0000,
    0x7fc0_0000, 0x3a83_126f, 0x3dcc_cccd, 0x4f00_0000, 0xcf00_0000, 0x4b80_0000,
];
pub fn gen_float(r: &mut Rng) -> f32 {
    // the sign and payload of a NaN are not observable through the protocol (Lean's Float32.toBits
    // canonicalises NaN): generated NaNs are the canonical positive quiet NaN
    let x = gen_float_raw(r);
    if x.is_nan() {
        f32::from_bits(0x7fc0_0000)
    } else {
        x
    }
}
fn gen_float_raw(r: &mut Rng) -> f32 {
    match r.below(10) {
        0..=3 => f32::from_bits(*r.pick(&FLOAT_POOL)),
        4..=6 => (r.range(-4000, 4000) as f32) / 8.0,
        7 => (r.range(-100_000, 100_000) as f32) / 1000.0,
        _ => f32::from_bits(r.next() as u32),
    }
}
pub const NAME_POOL: [&str; 15] = [
    "a", "b", "x1", "foo", "Var", "BAR_2", "q", "zz", "long-name-with-dashes", "ü", "日本", "a.b", "x(y", "k]",
    "al pha", // a blank inside: NAME.CAT builds such names
];
pub fn gen_name(r: &mut Rng) -> String {
    r.pick(&NAME_POOL).to_string()
}
pub fn gen_bvec(r: &mut Rng, maxlen: u64) -> Vec<bool> {
    let n = r.below(maxlen + 1);
    (0..n).map(|_| r.chance(1, 2)).collect()
}
pub fn gen_ivec(r: &mut Rng, maxlen: u64) -> Vec<i32> {
    let n = r.below(maxlen + 1);
    (0..n).map(|_| gen_int(r)).collect()
}
pub fn gen_fvec(r: &mut Rng, maxlen: u64) -> Vec<f32> {
    let n = r.below(maxlen + 1);
    (0..n).map(|_| gen_float(r)).collect()
}

/// leaf of every kind; `instrs` = instruction-name pool
pub fn gen_atom(r: &mut Rng, instrs: &[String]) -> Item {
    match r.below(12) {
        0 | 1 => Item::int(gen_int(r)),
        2 => Item::float(gen_float(r)),
        3 => Item::bool(r.chance(1, 2)),
        4 | 5 => {
            if instrs.is_empty() {
                Item::noop()
            } else {
                Item::instruction(r.pick(instrs).clone())
            }
        }
        6 | 7 => Item::name(gen_name(r)),
        8 => Item::boolvec(BoolVector::new(gen_bvec(r, 4))),
        9 => Item::intvec(IntVector::new(gen_ivec(r, 4))),
        10 => Item::floatvec(FloatVector::new(gen_fvec(r, 3))),
        _ => {
            let mut ix = Index::new(r.below(5) as usize);
            ix.current = r.below(5) as usize;
            Item::index(ix)
        }
    }
}
/// code tree; nested lists are placed anywhere, including before atoms
pub fn gen_item(r: &mut Rng, depth: u32, instrs: &[String]) -> Item {
    if depth == 0 || r.chance(3, 5) {
        gen_atom(r, instrs)
    } else {
        let n = r.below(5);
        // from_vec is bottom first
        let v: Vec<Item> = (0..n).map(|_| gen_item(r, depth - 1, instrs)).collect();
        Item::list(v)
    }
}
/// code tree whose root is a non-empty list and whose children are often lists themselves
/// (CODE.* point arithmetic only shows on trees with nested lists before atoms)
pub fn gen_tree(r: &mut Rng, depth: u32, instrs: &[String]) -> Item {
    // half of the trees draw their atoms from a tiny alphabet, so that the same item occurs several times
    // (first match vs later match, inside a sublist vs as a direct element)
    let small = r.chance(1, 2);
    gen_tree_with(r, depth, instrs, small)
}
fn gen_tree_with(r: &mut Rng, depth: u32, instrs: &[String], small: bool) -> Item {
    let n = 1 + r.below(4);
    let v: Vec<Item> = (0..n)
        .map(|_| {
            if depth > 1 && r.chance(2, 5) {
                gen_tree_with(r, depth - 1, instrs, small)
            } else if r.chance(1, 12) {
                Item::list(vec![])
            } else if small {
                match r.below(5) {
                    0 | 1 => Item::int(1 + r.below(2) as i32),
                    2 => Item::name("a".to_string()),
                    3 => Item::bool(true),
                    _ => Item::list(vec![Item::int(1)]),
                }
            } else {
                gen_atom(r, instrs)
            }
        })
        .collect();
    Item::list(v)
}
/// a copy of `it` in which one leaf is replaced by a structurally different leaf that PRINTS the same
/// (float differing beyond the printed decimals, name spelled like an integer / boolean / instruction)
pub fn print_alike(r: &mut Rng, it: &Item) -> Item {
    use pushr::push::item::PushType;
    match it {
        Item::List { items } => {
            let mut v = items.copy_vec(items.size()).unwrap_or_default(); // bottom first, as from_vec wants
            if v.is_empty() {
                return it.clone();
            }
            let k = r.below(v.len() as u64) as usize;
            v[k] = print_alike(r, &v[k]);
            Item::list(v)
        }
        Item::Literal { push_type: PushType::Float { val } } => Item::float(*val + if val.abs() < 1000.0 { 0.00001 } else { 0.0 }),
        Item::Literal { push_type: PushType::Int { val } } => Item::name(val.to_string()),
        Item::Literal { push_type: PushType::Bool { val } } => Item::name(if *val { "TRUE".to_string() } else { "FALSE".to_string() }),
        Item::InstructionMeta { name } => Item::name(name.clone()),
        // (an instruction name never contains white space: a name built by NAME.CAT has no instruction look-alike)
        Item::Identifier { name } if !name.chars().any(|c| c.is_whitespace()) => Item::instruction(name.clone()),
        other => other.clone(),
    }
}
