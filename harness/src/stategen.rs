//! Random interpreter states: every typed stack, queues, bindings, flags, configuration.
use crate::gen::*;
use crate::rng::Rng;
use pushr::push::graph::Graph;
use pushr::push::index::Index;
use pushr::push::instructions::{Instruction, InstructionCache, InstructionSet};
use pushr::push::io::PushMessage;
use pushr::push::item::Item;
use pushr::push::state::PushState;
use pushr::push::vector::{BoolVector, FloatVector, IntVector};

/// EXEC.CMD replaced by a stub with the same stack effect (no sleep, no spawn)
fn exec_cmd_stub(push_state: &mut PushState, _c: &InstructionCache) {
    if let Some(num_args) = push_state.int_stack.pop() {
        if num_args > -1 {
            let _ = push_state.name_stack.pop_vec(num_args as usize + 1);
        }
    }
}

pub fn make_iset(real_cmd: bool) -> InstructionSet {
    let mut iset = InstructionSet::new();
    iset.load();
    if !real_cmd {
        iset.add("EXEC.CMD".to_string(), Instruction::new(exec_cmd_stub));
    }
    iset
}

pub fn instruction_names() -> Vec<String> {
    let mut iset = InstructionSet::new();
    iset.load();
    let mut v = iset.cache().list;
    v.sort();
    v
}

fn depth(r: &mut Rng, rich: bool) -> u64 {
    if rich {
        3 + r.below(4)
    } else {
        *r.pick(&[0, 0, 1, 1, 2, 2, 3, 4])
    }
}

/// graph built through the public API: a few nodes, edges between them, sometimes an emptied edge list
pub fn gen_graph(r: &mut Rng) -> Graph {
    let mut g = Graph::new();
    let n = r.below(5);
    let mut ids = vec![];
    for _ in 0..n {
        ids.push(g.add_node(r.range(-1, 3) as i32));
    }
    if !ids.is_empty() {
        for _ in 0..r.below(6) {
            let o = *r.pick(&ids);
            let d = *r.pick(&ids);
            g.add_edge(o, d, gen_float(r));
        }
        if r.chance(1, 5) {
            let o = *r.pick(&ids);
            let d = *r.pick(&ids);
            g.remove_edge(o, d);
        }
        if r.chance(1, 8) {
            let x = *r.pick(&ids);
            g.remove_node(x);
        }
    }
    g
}

pub struct GenOpts<'a> {
    pub instrs: &'a [String],
    pub rich: bool,
    pub item_depth: u32,
}

pub fn gen_state(r: &mut Rng, o: &GenOpts) -> PushState {
    let mut s = PushState::new();
    let rich = o.rich;
    for _ in 0..depth(r, rich) {
        s.bool_stack.push(r.chance(1, 2));
    }
    for _ in 0..depth(r, rich) {
        s.float_stack.push(gen_float(r));
    }
    for _ in 0..depth(r, rich) {
        s.name_stack.push(gen_name(r));
    }
    for _ in 0..depth(r, rich) {
        // CODE items are often related to the ones below them, as programs produce them (DUP, CAR, LIST, QUOTE):
        // a point of an earlier item, or a list that contains an earlier item
        let related = if s.code_stack.size() > 0 && r.chance(2, 5) {
            let k = r.below(s.code_stack.size() as u64) as usize;
            s.code_stack.get(k).cloned()
        } else {
            None
        };
        let it = match related {
            Some(base) => {
                if r.chance(1, 2) {
                    let n = pushr::push::item::Item::size(&base) as u64;
                    pushr::push::item::Item::traverse(&base, r.below(n) as usize).unwrap_or(base)
                } else {
                    let mut v = vec![gen_item(r, 1, o.instrs), base];
                    if r.chance(1, 2) {
                        v.reverse();
                    }
                    pushr::push::item::Item::list(v)
                }
            }
            None => gen_item(r, o.item_depth, o.instrs),
        };
        s.code_stack.push(it);
    }
    for _ in 0..depth(r, rich) {
        s.exec_stack.push(gen_item(r, o.item_depth, o.instrs));
    }
    for _ in 0..depth(r, false) {
        let d = r.below(5) as usize;
        let mut ix = Index::new(d);
        ix.current = if r.chance(4, 5) { r.below(d as u64 + 1) as usize } else { r.below(7) as usize };
        s.index_stack.push(ix);
    }
    // vectors: now and then an item is a COPY of the one below it (as *.DUP leaves them), or differs from it in one
    // element only: equal operands are a relation random generation practically never produces
    for _ in 0..depth(r, rich) {
        let v = match s.bool_vector_stack.get(0) {
            Some(t) if r.chance(1, 4) => {
                let mut c = t.values.clone();
                if !c.is_empty() && r.chance(1, 3) {
                    let k = r.below(c.len() as u64) as usize;
                    c[k] = !c[k];
                }
                c
            }
            _ => gen_bvec(r, 5),
        };
        s.bool_vector_stack.push(BoolVector::new(v));
    }
    for _ in 0..depth(r, rich) {
        let v = match s.int_vector_stack.get(0) {
            Some(t) if r.chance(1, 4) => {
                let mut c = t.values.clone();
                if !c.is_empty() && r.chance(1, 3) {
                    let k = r.below(c.len() as u64) as usize;
                    c[k] = c[k].wrapping_add(1);
                }
                c
            }
            _ => gen_ivec(r, 5),
        };
        s.int_vector_stack.push(IntVector::new(v));
    }
    for _ in 0..depth(r, rich) {
        let v = match s.float_vector_stack.get(0) {
            Some(t) if r.chance(1, 4) => {
                let mut c = t.values.clone();
                if !c.is_empty() && r.chance(1, 3) {
                    let k = r.below(c.len() as u64) as usize;
                    c[k] = if c[k].is_finite() { c[k] + 1.0 } else { 0.0 };
                }
                c
            }
            _ => gen_fvec(r, 4),
        };
        s.float_vector_stack.push(FloatVector::new(v));
    }
    // ring-buffer HISTORY: in a third of the states the three buffers have already been used - messages / graphs were
    // pushed and popped before - so that their read and write cursors stand anywhere in the ring (also on the last
    // slot and wrapped past it) when the instruction under test runs
    if r.chance(1, 3) {
        for _ in 0..r.below(23) {
            s.input_stack.push(PushMessage::new(IntVector::new(vec![]), BoolVector::new(vec![])));
            s.input_stack.pop();
        }
        for _ in 0..r.below(8) {
            s.output_stack.push(PushMessage::new(IntVector::new(vec![]), BoolVector::new(vec![])));
            s.output_stack.pop();
        }
        for _ in 0..r.below(205) {
            s.graph_stack.push(pushr::push::graph::Graph::new());
            s.graph_stack.pop();
        }
    }
    // mostly a few queued messages; now and then the INPUT queue is filled to (and pushed beyond) its capacity of 10
    let n_in = if r.chance(1, 12) { 9 + r.below(3) } else { r.below(4) };
    for _ in 0..n_in {
        s.input_stack.push(PushMessage::new(IntVector::new(gen_ivec(r, 3)), BoolVector::new(gen_bvec(r, 4))));
    }
    for _ in 0..r.below(4) {
        s.output_stack.push(PushMessage::new(IntVector::new(gen_ivec(r, 3)), BoolVector::new(gen_bvec(r, 4))));
    }
    // mostly a few snapshots; now and then the GRAPH stack is filled to (and pushed beyond) its capacity of 100, the
    // only situation in which the ring buffer's write cursor has wrapped
    let n_graphs = if r.chance(1, 40) { 98 + r.below(4) } else { r.below(4) };
    for _ in 0..n_graphs {
        // a later snapshot is often derived from the one below it, as GRAPH.DUP followed by edits produces
        // them: same node ids, edges added, removed and put back (so that incoming lists differ in order)
        let derived = if s.graph_stack.size() > 0 && r.chance(1, 2) { s.graph_stack.get(0).cloned() } else { None };
        match derived {
            Some(mut g) => {
                let mut ids: Vec<usize> = g.nodes.keys().cloned().collect();
                ids.sort();
                if !ids.is_empty() {
                    for _ in 0..r.below(4) {
                        let o = *r.pick(&ids);
                        let d = *r.pick(&ids);
                        match r.below(4) {
                            0 => {
                                g.remove_edge(o, d);
                            }
                            1 => {
                                // take an edge out, add another one to the same destination, put it back
                                let w = g.get_weight(&o, &d);
                                g.remove_edge(o, d);
                                let o2 = *r.pick(&ids);
                                g.add_edge(o2, d, 0.5);
                                if let Some(w) = w {
                                    g.add_edge(o, d, w);
                                }
                            }
                            2 => {
                                g.set_state(&o, r.range(-1, 3) as i32);
                            }
                            _ => {
                                g.add_edge(o, d, gen_float(r));
                            }
                        }
                    }
                }
                s.graph_stack.push(g);
            }
            None => s.graph_stack.push(gen_graph(r)),
        }
    }
    for _ in 0..r.below(4) {
        let k = gen_name(r);
        // a name bound to a name (an alias), sometimes to itself or in a ring: evaluating it must still take one
        // step per alias and stay inside the step budget
        let v = if r.chance(1, 6) { Item::name(if r.chance(1, 3) { k.clone() } else { gen_name(r) }) } else { gen_item(r, 2, o.instrs) };
        s.name_bindings.insert(k, v);
    }
    // integers last: they are often meant as indices into one of the other containers
    let lens: Vec<usize> = vec![
        s.bool_stack.size(), s.float_stack.size(), s.name_stack.size(), s.code_stack.size(), s.exec_stack.size(),
        s.bool_vector_stack.size(), s.int_vector_stack.size(), s.float_vector_stack.size(),
        s.bool_vector_stack.get(0).map(|v| v.values.len()).unwrap_or(0),
        s.int_vector_stack.get(0).map(|v| v.values.len()).unwrap_or(0),
        s.float_vector_stack.get(0).map(|v| v.values.len()).unwrap_or(0),
        s.code_stack.get(0).map(|c| Item::size(c)).unwrap_or(0),
        s.input_stack.peek_oldest().map(|m| m.body.values.len()).unwrap_or(0),
    ];
    let nint = depth(r, rich);
    let mut node_ids: Vec<i32> = vec![];
    for g in s.graph_stack.iter() {
        for k in g.nodes.keys() {
            node_ids.push(*k as i32);
        }
    }
    // HashMap iteration order differs from process to process: keep the generator deterministic
    node_ids.sort();
    for _ in 0..nint {
        if !node_ids.is_empty() && r.chance(1, 3) {
            s.int_stack.push(*r.pick(&node_ids));
        } else {
            let l = if r.chance(1, 6) { nint as usize } else { *r.pick(&lens) };
            s.int_stack.push(gen_index(r, l));
        }
    }
    if !node_ids.is_empty() && r.chance(1, 2) {
        let k = r.below(4);
        let v: Vec<i32> = (0..k).map(|_| *r.pick(&node_ids)).collect();
        s.int_vector_stack.push(IntVector::new(v));
    }
    if r.chance(1, 10) {
        s.quote_name = true;
    }
    if r.chance(1, 20) {
        s.send_name = true;
    }
    if r.chance(1, 4) {
        let a = gen_int(r);
        let b = gen_int(r);
        if a != b {
            s.configuration.min_random_integer = a.min(b);
            s.configuration.max_random_integer = a.max(b);
        }
        let x = gen_float(r);
        let y = gen_float(r);
        if x < y {
            s.configuration.min_random_float = x;
            s.configuration.max_random_float = y;
        }
        if r.chance(1, 6) {
            // two FINITE bounds whose width is not: max - min overflows f32 (documented: no result)
            let (lo, hi) = *r.pick(&[(-3.0e38f32, 3.0e38f32), (f32::MIN, f32::MAX), (-2.0e38, 2.5e38), (-3.4e38, 1.0e37)]);
            s.configuration.min_random_float = lo;
            s.configuration.max_random_float = hi;
        }
        if r.chance(1, 3) {
            // an interval only a few ulps wide, far from zero: the half-open bound must still hold
            let lo = *r.pick(&[1.0e7f32, 16777216.0, -16777220.0, 1.0, 1000.0, -3.0e8]);
            let hi = f32::from_bits(if lo > 0.0 { lo.to_bits() + 1 + r.below(3) as u32 } else { lo.to_bits() - 1 - r.below(3) as u32 });
            s.configuration.min_random_float = lo;
            s.configuration.max_random_float = hi;
        }
        s.configuration.max_points_in_random_expressions = *r.pick(&[25, 1, 2, 0, -7, 60, i32::MIN, i32::MAX]);
        s.configuration.new_erc_name_probability = *r.pick(&[0.001, 0.0, 0.5, 1.0]);
        // limits no instruction is documented to consult while it runs: whatever their value, a single instruction
        // must behave the same (the run loop reads the step / time / growth limits, nothing reads the point limit)
        s.configuration.max_points_in_program = *r.pick(&[100, 0, 1, 3, 7, -5, i32::MAX]);
        s.configuration.growth_cap = *r.pick(&[500, 0, 1, 3]);
        s.configuration.eval_push_limit = *r.pick(&[1000, 0, 1, -1, 5]);
    }
    s
}
