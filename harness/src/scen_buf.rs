//! C17: operation sequences on `PushBuffer<i32>`, both kinds, capacities 1..5.
use crate::codec::*;
use crate::rng::Rng;
use pushr::push::buffer::{BufferType, PushBuffer};
use std::panic::{catch_unwind, AssertUnwindSafe};

const OPS: [&str; 13] = [
    "push", "push_force", "pop", "get", "copy", "peek_oldest", "copy_oldest", "peek_newest", "size", "is_empty",
    "is_full", "flush", "push",
];

fn opt(o: Option<i32>) -> String {
    match o {
        Some(x) => x.to_string(),
        None => "none".to_string(),
    }
}

fn apply(b: &mut PushBuffer<i32>, op: &str, arg: Option<i32>) -> String {
    match op {
        "push" => {
            b.push(arg.unwrap());
            "-".to_string()
        }
        "push_force" => {
            b.push_force(arg.unwrap());
            "-".to_string()
        }
        "pop" => opt(b.pop()),
        "get" => opt(b.get(arg.unwrap() as usize).cloned()),
        "copy" => opt(b.copy(arg.unwrap() as usize)),
        "peek_oldest" => opt(b.peek_oldest().cloned()),
        "copy_oldest" => opt(b.copy_oldest()),
        "peek_newest" => opt(b.peek_newest().cloned()),
        "size" => b.size().to_string(),
        "is_empty" => enc_bool(b.is_empty()).to_string(),
        "is_full" => enc_bool(b.is_full()).to_string(),
        "flush" => {
            b.flush();
            "-".to_string()
        }
        _ => "?".to_string(),
    }
}

fn takes_arg(op: &str) -> bool {
    op == "push" || op == "push_force" || op == "get" || op == "copy"
}

/// run one sequence on a fresh buffer; returns the request line
pub fn observe(kind: &str, cap: usize, seq: &[(String, Option<i32>)]) -> String {
    let bt = if kind == "stack" { BufferType::Stack } else { BufferType::Queue };
    let mut b: PushBuffer<i32> = PushBuffer::new(bt, cap);
    let mut steps = vec![];
    for (op, arg) in seq {
        let a = arg.map(|x| x.to_string()).unwrap_or("-".to_string());
        let r = catch_unwind(AssertUnwindSafe(|| {
            let res = apply(&mut b, op, *arg);
            let items: Vec<String> = b.iter().map(|x| x.to_string()).collect();
            (res, enc_list(&items), enc_name(&b.to_string()))
        }));
        match r {
            Ok((res, items, s)) => steps.push(enc_list(&[op.clone(), a, res, items, s])),
            Err(_) => {
                steps.push(enc_list(&[op.clone(), a, "PANIC".to_string(), "-".to_string(), "-".to_string()]));
                break;
            }
        }
    }
    format!("( bufseq {} {} {} )", kind, cap, enc_list(&steps))
}

pub fn run(seed: u64, tier: &str, out: &mut dyn FnMut(String)) {
    let nseq = if tier == "thorough" { 20000 } else { 2500 };
    for case in 0..nseq {
        let mut r = Rng::for_case(seed, "buf", case);
        let kind = if r.chance(1, 2) { "stack" } else { "queue" };
        let cap = 1 + r.below(5) as usize;
        let len = 1 + r.below(if case % 10 == 0 { 500 } else { 40 });
        let mut next = 1;
        let mut seq = vec![];
        for _ in 0..len {
            let op = *r.pick(&OPS);
            let arg = if op == "push" || op == "push_force" {
                next += 1;
                Some(next)
            } else if takes_arg(op) {
                Some(r.below(cap as u64 + 2) as i32)
            } else {
                None
            };
            seq.push((op.to_string(), arg));
        }
        out(observe(kind, cap, &seq));
    }
}

/// every sequence of length <= k over {push, push_force, pop, flush} followed by a probe of every
/// observer, for capacities 1..=maxcap and both kinds
pub fn run_exhaustive(k: usize, maxcap: usize, out: &mut dyn FnMut(String)) {
    let alpha = ["push", "push_force", "pop", "flush"];
    for kind in ["queue", "stack"].iter() {
        for cap in 1..=maxcap {
            let mut idx = vec![0usize; k];
            // all words of length exactly k (shorter ones are prefixes and are checked step by step)
            loop {
                let mut next = 0;
                let mut seq: Vec<(String, Option<i32>)> = vec![];
                for &a in idx.iter() {
                    let op = alpha[a];
                    let arg = if op == "push" || op == "push_force" {
                        next += 1;
                        Some(next)
                    } else {
                        None
                    };
                    seq.push((op.to_string(), arg));
                }
                for i in 0..(cap as i32 + 1) {
                    seq.push(("get".to_string(), Some(i)));
                }
                seq.push(("peek_oldest".to_string(), None));
                seq.push(("peek_newest".to_string(), None));
                seq.push(("size".to_string(), None));
                out(observe(kind, cap, &seq));
                // increment
                let mut p = 0;
                loop {
                    if p == k {
                        break;
                    }
                    idx[p] += 1;
                    if idx[p] < alpha.len() {
                        break;
                    }
                    idx[p] = 0;
                    p += 1;
                }
                if p == k {
                    break;
                }
            }
        }
    }
}

pub fn replay(xs: &[Sx]) -> Option<String> {
    let kind = match xs.get(0)? {
        Sx::Atom(a) => a.clone(),
        _ => return None,
    };
    let cap = dec_usize(xs.get(1)?)?;
    let mut seq = vec![];
    if let Sx::List(steps) = xs.get(2)? {
        for st in steps {
            if let Sx::List(f) = st {
                let op = match f.get(0)? {
                    Sx::Atom(a) => a.clone(),
                    _ => return None,
                };
                let arg = match f.get(1)? {
                    Sx::Atom(a) if a == "-" => None,
                    x => Some(dec_i32(x)?),
                };
                seq.push((op, arg));
            }
        }
    }
    Some(observe(&kind, cap, &seq))
}
