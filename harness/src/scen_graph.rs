//! C18: sequences of Graph API calls (valid ids, stale ids, unknown ids).
use crate::codec::*;
use crate::gen::{gen_float, gen_int};
use crate::rng::Rng;
use pushr::push::graph::Graph;
use std::panic::{catch_unwind, AssertUnwindSafe};

#[derive(Clone)]
pub enum Op {
    AddNode(i32),
    RemoveNode(usize),
    AddEdge(usize, usize, f32),
    RemoveEdge(usize, usize),
    SetState(usize, i32),
    SetWeight(usize, usize, f32),
    GetState(usize),
    GetWeight(usize, usize),
    NodeSize,
    EdgeSize,
    Filter(Vec<i32>),
    Snapshot,
    DiffSnap,
}

/// symbolic node reference: index into the list of ids created so far (resolved at run time), or a raw id
#[derive(Clone)]
pub enum SymOp {
    AddNode(i32),
    RemoveNode(i64),
    AddEdge(i64, i64, f32),
    RemoveEdge(i64, i64),
    SetState(i64, i32),
    SetWeight(i64, i64, f32),
    GetState(i64),
    GetWeight(i64, i64),
    NodeSize,
    EdgeSize,
    Filter(Vec<i32>),
    Snapshot,
    DiffSnap,
}

fn resolve(ids: &[usize], r: i64) -> usize {
    if r >= 0 && (r as usize) < ids.len() {
        ids[r as usize]
    } else if r < 0 {
        // an id that was never handed out
        (1usize << 40) + (-r) as usize
    } else {
        0
    }
}

pub fn observe(seq: &[SymOp]) -> String {
    let mut g = Graph::new();
    let mut snap: Option<Graph> = None;
    let mut ids: Vec<usize> = vec![];
    let mut steps = vec![];
    for op in seq {
        let mut name = "";
        let mut args: Vec<String> = vec![];
        let idsc = ids.clone();
        let rs = |x: i64| resolve(&idsc, x);
        let mut new_id: Option<usize> = None;
        let r = catch_unwind(AssertUnwindSafe(|| -> String {
            match op {
                SymOp::AddNode(st) => {
                    name = "add_node";
                    args = vec![st.to_string()];
                    let id = g.add_node(*st);
                    new_id = Some(id);
                    id.to_string()
                }
                SymOp::RemoveNode(a) => {
                    name = "remove_node";
                    args = vec![rs(*a).to_string()];
                    g.remove_node(rs(*a));
                    "-".to_string()
                }
                SymOp::AddEdge(a, b, w) => {
                    name = "add_edge";
                    args = vec![rs(*a).to_string(), rs(*b).to_string(), enc_f32(*w)];
                    g.add_edge(rs(*a), rs(*b), *w);
                    "-".to_string()
                }
                SymOp::RemoveEdge(a, b) => {
                    name = "remove_edge";
                    args = vec![rs(*a).to_string(), rs(*b).to_string()];
                    g.remove_edge(rs(*a), rs(*b));
                    "-".to_string()
                }
                SymOp::SetState(a, st) => {
                    name = "set_state";
                    args = vec![rs(*a).to_string(), st.to_string()];
                    g.set_state(&rs(*a), *st);
                    "-".to_string()
                }
                SymOp::SetWeight(a, b, w) => {
                    name = "set_weight";
                    args = vec![rs(*a).to_string(), rs(*b).to_string(), enc_f32(*w)];
                    g.set_weight(&rs(*a), &rs(*b), *w);
                    "-".to_string()
                }
                SymOp::GetState(a) => {
                    name = "get_state";
                    args = vec![rs(*a).to_string()];
                    g.get_state(&rs(*a)).map(|x| x.to_string()).unwrap_or("none".to_string())
                }
                SymOp::GetWeight(a, b) => {
                    name = "get_weight";
                    args = vec![rs(*a).to_string(), rs(*b).to_string()];
                    g.get_weight(&rs(*a), &rs(*b)).map(enc_f32).unwrap_or("none".to_string())
                }
                SymOp::NodeSize => {
                    name = "node_size";
                    g.node_size().to_string()
                }
                SymOp::EdgeSize => {
                    name = "edge_size";
                    g.edge_size().to_string()
                }
                SymOp::Filter(states) => {
                    name = "filter";
                    args = vec![enc_iv(states)];
                    let mut f = g.filter(states);
                    f.sort();
                    enc_list(&f.iter().map(|x| x.to_string()).collect::<Vec<_>>())
                }
                SymOp::Snapshot => {
                    name = "snapshot";
                    snap = Some(g.clone());
                    "-".to_string()
                }
                SymOp::DiffSnap => {
                    name = "diffsnap";
                    match &snap {
                        Some(s) => {
                            let same = s.diff(&g).is_none();
                            // the snapshot itself, as sets: must be what it was when it was taken
                            format!("{} {}", enc_bool(same), enc_name(&canon_sets(s)))
                        }
                        None => "nosnap".to_string(),
                    }
                }
            }
        }));
        if let Some(id) = new_id {
            ids.push(id);
        }
        match r {
            Ok(res) => {
                // diffsnap's result is two tokens: wrap them so the step keeps its shape
                let res_sx = if res.contains(' ') && name == "diffsnap" { res } else { res };
                steps.push(format!("( {} {} {} {} )", name, enc_list(&args), wrap(&res_sx), enc_graph(&g)));
            }
            Err(_) => {
                steps.push(format!("( {} {} PANIC )", name, enc_list(&args)));
                break;
            }
        }
    }
    format!("( graphseq {} )", enc_list(&steps))
}

fn wrap(res: &str) -> String {
    if res.contains(' ') && !res.starts_with('(') {
        // two tokens -> a single atom the driver prints the same way: join with an underscore-free marker
        format!("( {} )", res)
    } else {
        res.to_string()
    }
}

/// the graph as sets, in the driver's canonical text
fn canon_sets(g: &Graph) -> String {
    let mut ns: Vec<(usize, i32)> = g.nodes.iter().map(|(k, n)| (*k, n.get_state())).collect();
    ns.sort();
    let mut es: Vec<(usize, usize, f32)> = vec![];
    for (d, l) in g.edges.iter() {
        for e in l {
            es.push((e.get_origin_id(), *d, e.get_weight()));
        }
    }
    es.sort_by(|a, b| (a.1, a.0).cmp(&(b.1, b.0)));
    format!(
        "{} | {}",
        ns.iter().map(|(a, b)| format!("{}:{}", a, b)).collect::<Vec<_>>().join(","),
        es.iter().map(|(o, d, w)| format!("{}>{}:{}", o, d, enc_f32(*w))).collect::<Vec<_>>().join(",")
    )
}

fn gen_op(r: &mut Rng, nids: usize) -> SymOp {
    let node = |r: &mut Rng| -> i64 {
        if nids == 0 || r.chance(1, 8) {
            -(1 + r.below(3) as i64)
        } else {
            r.below(nids as u64) as i64
        }
    };
    match r.below(16) {
        0..=2 => SymOp::AddNode(r.range(-1, 3) as i32),
        3 => SymOp::RemoveNode(node(r)),
        4..=6 => SymOp::AddEdge(node(r), node(r), if r.chance(1, 10) { gen_float(r) } else { r.range(-4, 4) as f32 / 2.0 }),
        7 => SymOp::RemoveEdge(node(r), node(r)),
        8 => SymOp::SetState(node(r), if r.chance(1, 6) { gen_int(r) } else { r.range(-1, 3) as i32 }),
        9 => {
            // usually a half-integer; sometimes the neighbouring float of one (a change far below any
            // tolerance must still be a change), sometimes a boundary value (inf, NaN, subnormal)
            let base = r.range(-4, 4) as f32 / 2.0;
            let w = match r.below(10) {
                0..=5 => base,
                6..=8 => f32::from_bits(base.to_bits() + 1),
                _ => gen_float(r),
            };
            SymOp::SetWeight(node(r), node(r), w)
        }
        10 => SymOp::GetState(node(r)),
        11 => SymOp::GetWeight(node(r), node(r)),
        12 => {
            if r.chance(1, 2) {
                SymOp::NodeSize
            } else {
                SymOp::EdgeSize
            }
        }
        13 => {
            let k = r.below(3);
            SymOp::Filter((0..k).map(|_| r.range(-1, 3) as i32).collect())
        }
        14 => SymOp::Snapshot,
        _ => SymOp::DiffSnap,
    }
}

pub fn run(seed: u64, tier: &str, out: &mut dyn FnMut(String)) {
    let n = if tier == "thorough" { 30000 } else { 3000 };
    for case in 0..n {
        let mut r = Rng::for_case(seed, "graph", case);
        let len = 1 + r.below(if case % 8 == 0 { 120 } else { 25 });
        let mut seq = vec![];
        let mut nids = 0usize;
        for _ in 0..len {
            let op = gen_op(&mut r, nids);
            if let SymOp::AddNode(_) = op {
                nids += 1;
            }
            seq.push(op);
        }
        out(observe(&seq));
    }
    // directed probes of the diff clause: build, snapshot, apply ONE small change (or none), diff
    let m = if tier == "thorough" { 6000 } else { 600 };
    for case in 0..m {
        let mut r = Rng::for_case(seed, "graphdiff", case);
        let k = 2 + r.below(3) as i64;
        let mut seq: Vec<SymOp> = (0..k).map(|_| SymOp::AddNode(r.range(-1, 3) as i32)).collect();
        let mut edges: Vec<(i64, i64, f32)> = vec![];
        for _ in 0..(1 + r.below(4)) {
            let (o, d) = (r.below(k as u64) as i64, r.below(k as u64) as i64);
            let w = match r.below(8) {
                0 => f32::INFINITY,
                1 => f32::NEG_INFINITY,
                2 => gen_float(&mut r),
                _ => r.range(-4, 4) as f32 / 2.0,
            };
            seq.push(SymOp::AddEdge(o, d, w));
            edges.retain(|e| !(e.0 == o && e.1 == d));
            edges.push((o, d, w));
        }
        seq.push(SymOp::Snapshot);
        let (o, d, w) = *r.pick(&edges);
        match r.below(8) {
            0 => {}
            6 | 7 => {
                // the same edge set, rebuilt in another order: remove an edge, add another one to the same
                // destination, put the first one back (incoming lists now differ in order, not in content)
                let o2 = r.below(k as u64) as i64;
                seq.push(SymOp::RemoveEdge(o, d));
                if o2 != o {
                    seq.push(SymOp::AddEdge(o2, d, 0.5));
                }
                seq.push(SymOp::AddEdge(o, d, w));
            }
            1 | 2 => seq.push(SymOp::SetWeight(o, d, f32::from_bits(w.to_bits().wrapping_add(1)))),
            3 => seq.push(SymOp::SetWeight(o, d, w)),
            4 => seq.push(SymOp::SetState(o, r.range(-1, 3) as i32)),
            _ => seq.push(SymOp::SetWeight(o, d, w + 1e-8)),
        }
        seq.push(SymOp::DiffSnap);
        out(observe(&seq));
    }
}

/// every sequence of length <= k over a small alphabet on at most three nodes (thorough tier)
pub fn run_exhaustive(k: usize, out: &mut dyn FnMut(String)) {
    let mut alpha: Vec<SymOp> = vec![SymOp::AddNode(1), SymOp::Snapshot, SymOp::DiffSnap];
    for a in 0..2i64 {
        alpha.push(SymOp::RemoveNode(a));
        alpha.push(SymOp::SetState(a, 2));
        for b in 0..2i64 {
            alpha.push(SymOp::AddEdge(a, b, 0.5));
            alpha.push(SymOp::RemoveEdge(a, b));
            alpha.push(SymOp::SetWeight(a, b, 1.5));
        }
    }
    let mut idx = vec![0usize; k];
    loop {
        let mut seq: Vec<SymOp> = vec![SymOp::AddNode(0), SymOp::AddNode(1)];
        for &i in idx.iter() {
            seq.push(alpha[i].clone());
        }
        seq.push(SymOp::NodeSize);
        seq.push(SymOp::EdgeSize);
        seq.push(SymOp::Filter(vec![]));
        out(observe(&seq));
        let mut p = 0;
        loop {
            if p == k {
                return;
            }
            idx[p] += 1;
            if idx[p] < alpha.len() {
                break;
            }
            idx[p] = 0;
            p += 1;
        }
    }
}
