//! SplitMix64: the single source of every random choice in the harness.
#[derive(Clone)]
pub struct Rng(pub u64);

impl Rng {
    /// independent stream for (seed, scenario, case index): any single case replays on its own
    pub fn for_case(seed: u64, scenario: &str, index: u64) -> Rng {
        let mut h = seed ^ 0x9E37_79B9_7F4A_7C15;
        for b in scenario.bytes() {
            h = (h ^ b as u64).wrapping_mul(0x100_0000_01B3);
        }
        let mut r = Rng(h ^ index.wrapping_mul(0xD6E8_FEB8_6659_FD93));
        r.next();
        r
    }
    pub fn next(&mut self) -> u64 {
        self.0 = self.0.wrapping_add(0x9E37_79B9_7F4A_7C15);
        let mut z = self.0;
        z = (z ^ (z >> 30)).wrapping_mul(0xBF58_476D_1CE4_E5B9);
        z = (z ^ (z >> 27)).wrapping_mul(0x94D0_49BB_1331_11EB);
        z ^ (z >> 31)
    }
    /// uniform in 0..n (n > 0)
    pub fn below(&mut self, n: u64) -> u64 {
        self.next() % n
    }
    pub fn range(&mut self, lo: i64, hi: i64) -> i64 {
        lo + (self.below((hi - lo + 1) as u64) as i64)
    }
    pub fn chance(&mut self, num: u64, den: u64) -> bool {
        self.below(den) < num
    }
    pub fn pick<'a, T>(&mut self, xs: &'a [T]) -> &'a T {
        &xs[self.below(xs.len() as u64) as usize]
    }
}
