//! C20: Topology::find_neighbors on a grid of sizes, dimensions, centres and radii.
use crate::codec::*;
use crate::rng::Rng;
use pushr::push::topology::Topology;
use std::panic::{catch_unwind, AssertUnwindSafe};

pub fn observe(nt: usize, nd: usize, ix: usize, r: f32) -> String {
    let res = catch_unwind(AssertUnwindSafe(|| Topology::find_neighbors(&nt, &nd, &ix, &r)));
    let s = match res {
        Ok(None) => "none".to_string(),
        Ok(Some(v)) => enc_list(&v.values.iter().map(|x| x.to_string()).collect::<Vec<_>>()),
        Err(_) => "PANIC".to_string(),
    };
    format!("( topo {} {} {} {} {} )", nt, nd, ix, enc_f32(r), s)
}

pub fn run(seed: u64, tier: &str, out0: &mut dyn FnMut(String)) {
    // a marker before every call: a call that never returns is then attributed to its arguments
    let mut probe = |nt: usize, nd: usize, ix: usize, r: f32| {
        out0(format!("#c topo {} {} {} {}", nt, nd, ix, enc_f32(r)));
        out0(observe(nt, nd, ix, r));
    };
    let maxn = if tier == "thorough" { 700 } else { 160 };
    // radii: 0, lattice distances, midpoints between them, large, invalid
    let radii: [f32; 12] = [0.0, 0.5, 1.0, 1.2, 1.4142135, 1.5, 1.7320508, 2.0, 2.2360679, 3.0, 1000.0, -1.0];
    for nt in 0..=maxn {
        for nd in 0..=4usize {
            let mut r = Rng::for_case(seed, "topo", (nt * 10 + nd) as u64);
            let mut centres: Vec<usize> = if nt <= 27 { (0..=nt + 1).collect() } else { vec![0, 1, nt / 2, nt - 1, nt, nt + 1] };
            if nt > 27 {
                for _ in 0..3 {
                    centres.push(r.below(nt as u64) as usize);
                }
            }
            for ix in centres {
                let k = if nt <= 27 { radii.len() } else { 5 };
                for j in 0..k {
                    let rad = if nt <= 27 { radii[j] } else { *r.pick(&radii) };
                    probe(nt, nd, ix, rad);
                }
            }
        }
    }
    // perfect powers (the float root is fragile exactly there) and large dimensions
    for (nt, nd) in [(125usize, 3usize), (216, 3), (343, 3), (512, 3), (729, 3), (1000, 3), (1331, 3), (625, 4), (1296, 4),
        (2401, 4), (243, 5), (1024, 5), (64, 6), (729, 6), (4096, 6), (100, 70), (2, 64), (2, 65), (3, 41), (10, 30)]
    {
        for ix in [0usize, 1, nt / 2, nt - 1] {
            for rad in [0.0f32, 1.0, 1.5, 2.5] {
                probe(nt, nd, ix, rad);
            }
        }
    }
    // one past a perfect power at sizes where the f32 root estimate loses the "+1" (2^20+1 = 1024^2+1 =
    // 32^4+1 = 16^5+1 = 4^10+1 = 2^20+1): the edge must still be the smallest one that holds all indices
    let big_dims: &[usize] = if tier == "thorough" { &[1, 2, 4, 5, 10, 20] } else { &[1, 2, 20] };
    for nd in big_dims {
        let nt = 1048577usize;
        probe(nt, *nd, 0, 0.0);
        probe(nt, *nd, nt - 1, 1.0);
    }
    if tier == "thorough" {
        for (nt, nd) in [(5764802usize, 8usize), (6765202, 4), (16777217, 2), (16777216, 2), (1048576, 20), (1048575, 4)] {
            probe(nt, nd, 0, 0.0);
            probe(nt, nd, nt - 1, 1.0);
        }
    }
    probe(10, 2, 3, f32::NAN);
    probe(10, 2, 3, f32::INFINITY);
}

pub fn replay(xs: &[Sx]) -> Option<String> {
    Some(observe(dec_usize(xs.get(0)?)?, dec_usize(xs.get(1)?)?, dec_usize(xs.get(2)?)?, dec_f32(xs.get(3)?)?))
}
