#!/usr/bin/env python3
"""Self-validation (development aid): behaviour-preserving rewrites run side by side.

For every seeded/equivalent/<id>/patch.diff: a scratch worktree of /repo under /tmp/eqpar/<id> with the patch applied, a
copy of the harness whose Cargo.toml points at that worktree, the pinned suite, then ALL twenty quick checks with
PVH_REPO / PVH_HARNESS_DIR / PVH_EVIDENCE_DIR set, so that neither /repo nor /verif/evidence is touched. Several
pipelines run concurrently. Expected: no alarm anywhere. Writes tools/equiv_results.json; removes the scratch
directories afterwards.   usage: tools/run_equiv_par.py [-j N] [id ...]"""
import json, subprocess, sys, os, glob, shutil
from concurrent.futures import ThreadPoolExecutor
ROOT = os.path.dirname(os.path.dirname(os.path.abspath(__file__)))
BASE = "/tmp/eqpar"
def sh(cmd, env=None):
    e = dict(os.environ); e.update(env or {}); e["CARGO_NET_OFFLINE"] = "true"
    return subprocess.run(cmd, shell=True, capture_output=True, text=True, env=e)
def one(d):
    eid = os.path.basename(d)
    wt, hd, ev = "%s/%s" % (BASE, eid), "%s/%s-h" % (BASE, eid), "%s/%s-ev" % (BASE, eid)
    sh("git -C /repo worktree remove --force %s; rm -rf %s %s %s" % (wt, wt, hd, ev))
    sh("git -C /repo worktree add --detach %s HEAD" % wt)
    p = sh("git -C %s apply %s/patch.diff" % (wt, d))
    entry = {"applied": p.returncode == 0, "alarms": {}}
    if p.returncode == 0:
        entry["suite"] = sh("cd %s && cargo test --offline 2>&1 | grep -E '^test result: ' | head -1" % wt).stdout.strip()
        entry["files"] = sh("git -C %s diff --stat | tail -1" % wt).stdout.strip()
        sh("mkdir -p %s && cp -r %s/harness/src %s/harness/Cargo.toml %s/ && cp %s/Cargo.lock %s/Cargo.lock 2>/dev/null" % (hd, ROOT, ROOT, hd, wt, hd))
        if os.path.isdir(os.path.join(ROOT, "harness", ".cargo")):
            sh("cp -r %s/harness/.cargo %s/" % (ROOT, hd))
        sh("sed -i 's#path = \"/repo\"#path = \"%s\"#' %s/Cargo.toml" % (wt, hd))
        env = {"PVH_REPO": wt, "PVH_HARNESS_DIR": hd, "PVH_EVIDENCE_DIR": ev}
        for i in range(1, 21):
            pid = "C%02d" % i
            r = sh("cd %s && ./check %s --tier quick" % (ROOT, pid), env)
            vio = [l for l in r.stdout.split("\n") if l.startswith("VIOLATION") or l.startswith("CHECK-ERROR")]
            if r.returncode != 0 or vio:
                entry["alarms"][pid] = {"rc": r.returncode, "lines": vio[:3]}
                for l in vio[:2]:
                    if "replay=" in l:
                        path = l.split("replay=")[1].split(" ")[0]
                        sh("mkdir -p /tmp/equiv_alarm && cp %s /tmp/equiv_alarm/%s-%s" % (path, eid, os.path.basename(path)))
    sh("git -C /repo worktree remove --force %s; rm -rf %s %s %s" % (wt, wt, hd, ev))
    print(eid, entry.get("suite", "not applied")[:40], "ALARMS:" if entry["alarms"] else "no alarm", entry["alarms"], flush=True)
    return eid, entry
def main():
    args = sys.argv[1:]
    j = 4
    if args[:1] == ["-j"]:
        j = int(args[1]); args = args[2:]
    ds = [d for d in sorted(glob.glob(os.path.join(ROOT, "seeded", "equivalent", "*"))) if not args or os.path.basename(d) in args]
    os.makedirs(BASE, exist_ok=True)
    out = os.path.join(ROOT, "tools", "equiv_results.json")
    res = json.load(open(out)) if os.path.exists(out) else {}
    with ThreadPoolExecutor(max_workers=j) as ex:
        for eid, entry in ex.map(one, ds):
            res[eid] = entry
            json.dump(res, open(out, "w"), indent=1)
    sh("git -C /repo worktree prune")
if __name__ == "__main__":
    main()
