#!/usr/bin/env python3
"""Self-validation: re-introduce each repaired defect (reverse-apply its fix: commit to /repo's working
tree), run the checks of the properties it affects, record what they report, restore the tree.
Writes tools/revert_results.json.  (Development aid, not a registered check.)"""
import json, subprocess, sys, os
ROOT = os.path.dirname(os.path.dirname(os.path.abspath(__file__)))
sys.path.insert(0, os.path.join(ROOT, "tools"))
from revert_plan import PLAN  # noqa
def sh(cmd, **kw):
    return subprocess.run(cmd, shell=True, capture_output=True, text=True, **kw)
OUT = os.path.join(ROOT, "tools", "revert_results.json")
res = {e["commit"]: e for e in json.load(open(OUT))} if os.path.exists(OUT) else {}
only = sys.argv[1:]
for sha, props in PLAN:
    if only and sha not in only:
        continue
    subj = sh("git -C /repo log -1 --format=%s " + sha).stdout.strip()
    p = sh("git -C /repo diff %s %s^ > /tmp/rev_%s.patch && git -C /repo apply /tmp/rev_%s.patch" % (sha, sha, sha, sha))
    entry = {"commit": sha, "subject": subj, "applied": p.returncode == 0, "checks": {}}
    if p.returncode == 0:
        t = sh("cd /repo && cargo test --offline 2>&1 | grep -E '^test result: ' | head -1").stdout.strip()
        entry["suite"] = t
        for pid in props:
            r = sh("cd %s && ./check %s --tier quick" % (ROOT, pid))
            vio = [l for l in r.stdout.split("\n") if l.startswith("VIOLATION")]
            kinds = []
            for l in vio:
                path = l.split("replay=")[1].split(" ")[0]
                try:
                    d = json.load(open(path)); kinds.append((d.get("kind"), d.get("signature") or d.get("scenario")))
                except Exception:
                    pass
            entry["checks"][pid] = {"rc": r.returncode, "violations": len(vio), "nofail": sum("no-failing-input-found" in l for l in vio), "kinds": kinds[:4]}
    sh("git -C /repo checkout -- . ; rm -f /tmp/rev_%s.patch" % sha)
    if not entry["applied"] and sha in res and res[sha].get("note"):
        entry = res[sha]          # keep the hand-made record (reverted together with a later commit)
    res[sha] = entry
    json.dump([res[k] for k, _ in PLAN if k in res], open(OUT, "w"), indent=1)
    print(sha, subj[:50], {k: (v["rc"], v["violations"], v["nofail"]) for k, v in entry["checks"].items()}, flush=True)
