#!/usr/bin/env python3
"""Self-validation (development aid): seeded changes and re-introduced defects, several at a time.

Each change is applied to its own scratch worktree of /repo under /tmp/par/<id>; a copy of the harness points at that
worktree; the affected checks run with PVH_REPO / PVH_HARNESS_DIR / PVH_EVIDENCE_DIR set, so neither /repo nor
/verif/evidence is touched and several pipelines can run side by side.  The registered checks themselves always run
against /repo.

  tools/run_par.py seeds  [-j N] [id-prefix ...]   -> tools/seeded_results.json   (property + also_check of meta.json)
  tools/run_par.py reverts [-j N] [sha ...]        -> tools/revert_results.json   (PLAN of tools/revert_fixes.py)
"""
import json, subprocess, sys, os, glob, importlib.util
from concurrent.futures import ThreadPoolExecutor
ROOT = os.path.dirname(os.path.dirname(os.path.abspath(__file__)))
BASE = "/tmp/par"


def sh(cmd, env=None):
    e = dict(os.environ); e.update(env or {}); e["CARGO_NET_OFFLINE"] = "true"
    return subprocess.run(cmd, shell=True, capture_output=True, text=True, env=e)


def pipeline(cid, patch, props, reverse=False, suite=False):
    wt, hd, ev = "%s/%s" % (BASE, cid), "%s/%s-h" % (BASE, cid), "%s/%s-ev" % (BASE, cid)
    sh("git -C /repo worktree remove --force %s; rm -rf %s %s %s" % (wt, wt, hd, ev))
    sh("git -C /repo worktree add --detach %s HEAD" % wt)
    p = sh("git -C %s apply %s %s" % (wt, "-R" if reverse else "", patch))
    entry = {"applied": p.returncode == 0, "checks": {}}
    if p.returncode == 0:
        if suite:
            entry["suite"] = sh("cd %s && cargo test --offline 2>&1 | grep -E '^test result: ' | head -1" % wt).stdout.strip()
        sh("mkdir -p %s && cp -r %s/harness/src %s/harness/Cargo.toml %s/harness/.cargo %s/ ; cp %s/harness/Cargo.lock %s/Cargo.lock" % (hd, ROOT, ROOT, ROOT, hd, ROOT, hd))
        sh("sed -i 's#path = \"/repo\"#path = \"%s\"#' %s/Cargo.toml" % (wt, hd))
        env = {"PVH_REPO": wt, "PVH_HARNESS_DIR": hd, "PVH_EVIDENCE_DIR": ev, "PVH_REPLAY_TAG": cid}
        for pid in props:
            r = sh("cd %s && ./check %s --tier quick" % (ROOT, pid), env)
            vio = [l for l in r.stdout.split("\n") if l.startswith("VIOLATION")]
            kinds = []
            for l in vio:
                path = l.split("replay=")[1].split(" ")[0]
                try:
                    j = json.load(open(path)); kinds.append([j.get("kind"), j.get("signature") or j.get("scenario")])
                except Exception:
                    pass
            entry["checks"][pid] = {"rc": r.returncode, "violations": len(vio), "nofail": sum("no-failing-input-found" in l for l in vio), "kinds": kinds[:4]}
    sh("git -C /repo worktree remove --force %s; rm -rf %s %s %s" % (wt, wt, hd, ev))
    return entry


def main():
    mode, args = sys.argv[1], sys.argv[2:]
    j = 4
    if args[:1] == ["-j"]:
        j = int(args[1]); args = args[2:]
    os.makedirs(BASE, exist_ok=True)
    if mode == "seeds":
        out = os.path.join(ROOT, "tools", "seeded_results.json")
        res = json.load(open(out)) if os.path.exists(out) else {}
        jobs = []
        for d in sorted(glob.glob(os.path.join(ROOT, "seeded", "*"))):
            sid = os.path.basename(d)
            if sid == "equivalent" or (args and not any(sid.startswith(a) for a in args)):
                continue
            meta = json.load(open(os.path.join(d, "meta.json")))
            jobs.append((sid, os.path.join(d, "patch.diff"), [meta["property"]] + meta.get("also_check", [])))

        def run(job):
            sid, patch, props = job
            e = pipeline(sid, patch, props)
            print(sid, {k: (v["rc"], v["violations"], v["nofail"]) for k, v in e["checks"].items()}, flush=True)
            return sid, e
        with ThreadPoolExecutor(max_workers=j) as ex:
            for sid, e in ex.map(run, jobs):
                res[sid] = e
                json.dump(res, open(out, "w"), indent=1)
    elif mode == "reverts":
        spec = importlib.util.spec_from_file_location("rf", os.path.join(ROOT, "tools", "revert_plan.py"))
        rf = importlib.util.module_from_spec(spec); spec.loader.exec_module(rf)
        out = os.path.join(ROOT, "tools", "revert_results.json")
        res = {e["commit"]: e for e in json.load(open(out))} if os.path.exists(out) else {}
        jobs = [(sha, props) for sha, props in rf.PLAN if not args or sha in args]

        def run(job):
            sha, props = job
            subj = sh("git -C /repo log -1 --format=%s " + sha).stdout.strip()
            patch = "%s/rev_%s.patch" % (BASE, sha)
            sh("git -C /repo diff %s %s^ > %s" % (sha, sha, patch))
            e = pipeline("rev-" + sha, patch, props, suite=True)
            e.update({"commit": sha, "subject": subj})
            print(sha, subj[:50], {k: (v["rc"], v["violations"], v["nofail"]) for k, v in e["checks"].items()}, flush=True)
            return sha, e
        with ThreadPoolExecutor(max_workers=j) as ex:
            for sha, e in ex.map(run, jobs):
                if not e["applied"] and sha in res and res[sha].get("note"):
                    e = res[sha]      # keep the hand-made record (reverted together with a later commit)
                res[sha] = e
                json.dump([res[k] for k, _ in rf.PLAN if k in res], open(out, "w"), indent=1)
    sh("git -C /repo worktree prune")


if __name__ == "__main__":
    main()
