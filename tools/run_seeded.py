#!/usr/bin/env python3
"""Self-validation: apply each confirmed seeded change (seeded/<id>/patch.diff) to /repo's working tree,
run the check of its property (plus any extra ids given as id:Cxx,Cyy), record what is reported, restore
the tree (git checkout -- .).  Writes tools/seeded_results.json.  (Development aid, not a registered check.)"""
import json, subprocess, sys, os, glob
ROOT = os.path.dirname(os.path.dirname(os.path.abspath(__file__)))
def sh(cmd):
    return subprocess.run(cmd, shell=True, capture_output=True, text=True)
only = sys.argv[1:]
out = os.path.join(ROOT, "tools", "seeded_results.json")
res = json.load(open(out)) if os.path.exists(out) else {}
for d in sorted(glob.glob(os.path.join(ROOT, "seeded", "*"))):
    sid = os.path.basename(d)
    if only and not any(sid.startswith(o) for o in only):
        continue
    meta = json.load(open(os.path.join(d, "meta.json")))
    props = [meta["property"]] + meta.get("also_check", [])
    assert sh("git -C /repo status --short").stdout.strip() == "", "/repo not clean"
    p = sh("git -C /repo apply %s/patch.diff" % d)
    entry = {"applied": p.returncode == 0, "checks": {}}
    if p.returncode == 0:
        for pid in props:
            r = sh("cd %s && ./check %s --tier quick" % (ROOT, pid))
            vio = [l for l in r.stdout.split("\n") if l.startswith("VIOLATION")]
            kinds = []
            for l in vio:
                path = l.split("replay=")[1].split(" ")[0]
                try:
                    j = json.load(open(path)); kinds.append([j.get("kind"), j.get("signature") or j.get("scenario")])
                except Exception:
                    pass
            entry["checks"][pid] = {"rc": r.returncode, "violations": len(vio), "nofail": sum("no-failing-input-found" in l for l in vio), "kinds": kinds[:4]}
    sh("git -C /repo checkout -- .")
    res[sid] = entry
    print(sid, {k: (v["rc"], v["violations"], v["nofail"]) for k, v in entry["checks"].items()}, flush=True)
    json.dump(res, open(out, "w"), indent=1)
