"""Per-property configuration of the check driver: scenarios, signature function, coverage rule."""
import re


def top_fields(req):
    """top-level fields of the outer list of a request line"""
    toks = req.split(" ")
    out, depth, cur = [], 0, []
    for t in toks[1:-1]:
        if t == "(":
            depth += 1
        cur.append(t)
        if t == ")":
            depth -= 1
        if depth == 0:
            out.append(" ".join(cur))
            cur = []
    return out


def sig_stackop(req):
    f = top_fields(req)
    return "stackop " + (f[2] if len(f) > 2 else "?")


def sig_default(req):
    toks = req.split(" ")
    return " ".join(toks[1:3])


def sig_exec(req):
    toks = req.split(" ")
    if toks[0].startswith("#c"):
        return " ".join(toks[1:3])
    if len(toks) > 2 and toks[1] == "exec":
        return "exec " + toks[2]
    return " ".join(toks[1:2])


def exact(names):
    return ",".join("=" + n for n in names)


PROFILE_FILTER = "!INTEGER.RAND,!FLOAT.RAND,!BOOLEAN.RAND,!NAME.RAND,!CODE.RAND,!BOOLVECTOR.RAND,!INTVECTOR.RAND,!FLOATVECTOR.RAND,!EXEC.CMD,!GRAPH."

PROPS = {
    "C04": {
        "scenarios": lambda tier, q: [
            {"name": "registry", "args": ["__PID__"]},
            {"name": "exec", "args": [exact(q("scope C04")), "600" if tier == "quick" else "6000"]},
            {"name": "scalargrid", "args": [exact(q("scope C04"))]},
            {"name": "pairs", "args": [exact(q("scope C04")), "12" if tier == "quick" else "120"]},
        ],
        "signature": sig_exec,
        "rule": "every instruction of the C04 reference table (52 names), driven by NAME through InstructionSet, on the full square of the boundary pools (16x16 integer pairs, 22x22 float pairs: MIN / -1, MIN % -1, x / 0, MAX + 1, inf - inf ... always met) and on generated states: operands from the boundary pools (i32 MIN/MAX/0/±1, ±0.0, subnormal, ±MAX, ±inf, NaN) and random, rich and sparse stacks; non-trivial = the state changed; distinct = distinct request lines",
        "assumptions": ["float results are pinned up to the opaque Float32 operation (same libm in the driver and in pushr)"],
    },
    "C05": {
        "scenarios": lambda tier, q: [
            {"name": "registry", "args": ["__PID__"]},
            {"name": "exec", "args": [exact(q("scope C05")), "400" if tier == "quick" else "4000"]},
            {"name": "stkgrid", "args": []},
        ],
        "signature": sig_exec,
        "rule": "all 78 registered DUP/POP/SWAP/ROT/YANK/YANKDUP/SHOVE/FLUSH/STACKDEPTH instructions of the nine stack types, by NAME: an exhaustive grid (depths 0..6 x 14 indices incl. negative, 0, in range, = depth, > depth, i32::MIN/MAX) plus generated states; non-trivial = the state changed; distinct = distinct request lines",
        "assumptions": [],
    },
    "C17": {
        "scenarios": lambda tier, q: [
            {"name": "registry", "args": ["__PID__"]},
            {"name": "buf", "args": []},
            {"name": "buf-exh", "args": []},
            {"name": "exec", "args": ["INPUT.,OUTPUT.", "600" if tier == "quick" else "6000"]},
            {"name": "unreg", "args": []},
        ],
        "signature": lambda req: " ".join(req.split(" ")[1:4]) if req.startswith("( bufseq") else sig_exec(req),
        "rule": "PushBuffer<i32>: every word of length 7 (quick) / 9 (thorough) over {push, push_force, pop, flush} for capacities 1..4 and both kinds, each followed by a probe of every observer, plus random sequences (<=500 ops, capacities 1..5, many wrap-arounds); the live items (iter) and the printed form are compared after every operation; INPUT.*/OUTPUT.* instructions by NAME on generated states with 0..3 queued messages incl. empty bodies; `unreg`: INPUT.FLUSH, the public instruction function input_flush that load_io_instructions does not register, registered by the host (InstructionSet::add) and run on generated states with fresh and aged INPUT queues; non-trivial = a sequence in which some operation returned an item / a transition that changed the state",
        "exhaustive": True,
        "assumptions": ["capacity 0 is outside the property (capacities 1..C); the three buffers of PushState have capacities 10, 3, 100"],
    },
    "C02": {
        "scenarios": lambda tier, q: [
            {"name": "registry", "args": ["__PID__"]},
            {"name": "run", "args": []},
            {"name": "runt", "args": []},
        ],
        "signature": lambda req: "run " + (req.split(" ) ")[1].split(" ")[0] if " ) " in req else "?")[:20],
        "rule": "RAND-free, id-free programs (token grammar incl. EXEC.Y divergence and list explosion) on generated states, eval_push_limit in {-1,0,1,2,3,5,10,40,200,m-1,m,m+1}, growth_cap in {0,1,2,3,5,8,500}: PushInterpreter::run on one state, the documented accounting by repeated step() calls on an identical second state; outcome, step count and final state compared with each other and with the model; non-trivial = at least one step executed; `runt`: runs whose wall-clock limit is reached - 0 ms, 1-5 ms on a diverging program, 10-22 ms on 100 slow steps (a harness instruction that sleeps 4 ms and records when it was started): the model's run under the clock that trips at the observed iteration, and no slow step may start after the limit has passed",
        "assumptions": ["wall-clock: the model has an abstract clock (theorems hold for every clock). In the `run` scenario eval_time_limit is 10 minutes so TimeLimitExceeded cannot occur; the `runt` scenario reaches the limit (0 ms, and 1-5 ms on a diverging program): the reported run must be the model's run under the clock that is past the limit exactly at the iteration the implementation stopped at, and TimeLimitExceeded must not be reported before the measured wall-clock time reaches the limit"],
    },
    "C06": {
        "scenarios": lambda tier, q: [
            {"name": "registry", "args": ["__PID__"]},
            {"name": "loops", "args": []},
            {"name": "exec", "args": [exact(q("scope C06")), "400" if tier == "quick" else "4000"]},
            {"name": "steps", "args": ["EXEC.,CODE.,INDEX.,INTVECTOR.LOOP,!clean"]},
        ],
        "signature": lambda req: " ".join(req.split(" ")[1:4]) if req.startswith("( loop") else sig_exec(req),
        "rule": "loop programs run to completion: EXEC.LOOP / CODE.LOOP with n in 0..24 (thorough 0..59) and bodies {INDEX.CURRENT, ( INDEX.CURRENT INTEGER.+ ), nested ( m INDEX.DEFINE EXEC.LOOP INDEX.CURRENT )}, INTVECTOR.LOOP over vectors of length 0..24 with body CODE.FROMINTEGER, each on a clean and on a cluttered state, final state compared with the documented iteration; the combinators IF/K/S/Y/DUP/DO/DO*/QUOTE and INDEX.* by NAME on generated states, incl. starved ones (the documented 'NOOP unless at least two / three items are present' rows are part of the reference); control-flow-dense programs single-stepped with every transition validated; non-trivial = the state changed",
        "assumptions": ["a loop body that pops the loop's own index is outside the documented contract (BodyOk)"],
    },
    "C07": {
        "scenarios": lambda tier, q: [
            {"name": "registry", "args": ["__PID__"]},
            {"name": "steps", "args": ["*.DEFINE,NAME.QUOTE,CODE.DEFINITION,NAME.DUP,NAME.,CODE.QUOTE,!clean"]},
            {"name": "exec", "args": [exact(q("scope C07")), "400" if tier == "quick" else "4000"]},
            {"name": "parsebound", "args": []},
        ],
        "signature": lambda req: sig_exec(req) if req.startswith("( exec") else ("parse" if req.startswith("( parse") else "step " + req[req.find(" ) ( ") :][:0]),
        "rule": "programs dense in names, the eight DEFINE instructions, NAME.QUOTE and CODE.DEFINITION (names drawn from a small pool so that define / use / quote / redefine interleave), single-stepped with every transition validated against the model and the name-step / definition statements; DEFINE, NAME.QUOTE, CODE.DEFINITION by NAME on generated states with bound and unbound names; non-trivial = the state changed; directed NAME.QUOTE - gap of 1-3 non-name items - name fragments; aliases (a name bound to a name, to itself) in one binding of six; `parsebound`: program text that uses, quotes, defines and redefines names ALREADY bound in the state it is parsed into (the second program of a history): a name token must become a NAME item whatever its binding - lookup happens when the interpreter encounters it",
        "assumptions": [],
    },
    "C08": {
        "scenarios": lambda tier, q: [
            {"name": "registry", "args": ["__PID__"]},
            {"name": "codeops", "args": [exact(q("scope C08"))]},
            {"name": "exec", "args": [exact(q("scope C08")), "150" if tier == "quick" else "1500"]},
        ],
        "signature": sig_exec,
        "rule": "the 19 CODE list-surgery instructions by NAME on tree-rich states: top CODE item usually a non-empty list whose children are often lists themselves (depth <= 5, every atom kind, nested lists before atoms, empty lists), second / third items drawn as random points of the top item (so that POSITION / CONTAINS / CONTAINER / SUBST / MEMBER find matches), as the top item itself, as a print-alike of it or of one of its points (structurally different, same text), or at random, index in [-2S, 2S] plus i32::MIN/MAX; SIZE/EXTRACT/POSITION/CONTAINS/MEMBER/CONTAINER/... compared with the points-based statements, INSERT with the metamorphic INSERT->EXTRACT relation (index 0: the whole item), CONS / LIST / APPEND with atom conservation, CDR / CONS / CAR / = with their closed forms; non-trivial = the state changed",
        "assumptions": ["items are compared structurally; floats by IEEE ==, so a NaN-carrying item never matches (stated in equals_iff)"],
    },
    "C03": {
        "scenarios": lambda tier, q: [
            {"name": "registry", "args": ["__PID__"]},
            {"name": "parse", "args": []},
            {"name": "parsebound", "args": []},
            {"name": "parsecustom", "args": []},
        ],
        "signature": lambda req: "parse",
        "rule": "program texts: 60% balanced token trees rendered with random Unicode white space (incl. U+00A0, U+2003, U+3000, U+0085, U+2028), 40% arbitrary token sequences with arbitrary paren balance; tokens: every vector-literal corner (INT[, INT[], INT[1, BOOL[2], FLOAT[NaN], multi-byte before ']' and as last char), numeric corner cases (+5, -0, 2147483648, 1., .5, ., nan, -inf), registered instruction names, multi-byte names, 10^4-character tokens; parsed onto empty and non-empty states; the EXEC stack is compared with an independent recursive-descent tree for balanced inputs, all other stacks with the pre-state; non-trivial = the text contains at least one token; one text in 60 is a chain of 60-300 nested lists with tokens on the way down and up; `parsebound`: text parsed into states that already bind the names it mentions; `parsecustom`: the host registered further instructions (InstructionSet::add) whose names also fall under a later lexical rule ('7', '2.5', 'inf', 'TRUE') or an earlier one ('INT[1]'): the documented ORDER of the rules decides",
        "assumptions": ["nesting depth <= 4 in generated trees (native stack depth is outside the model)"],
    },
    "C11": {
        "scenarios": lambda tier, q: [
            {"name": "registry", "args": ["__PID__"]},
            {"name": "roundtrip", "args": []},
            {"name": "fsweep", "args": []},
        ],
        "signature": lambda req: "fsweep" if req.startswith("( fsweep") else "roundtrip",
        "rule": "item trees over {list, int (boundary pool + random), bool, registered instruction, parser-producible and odd names} (exact class), the same plus floats incl. non-finite, subnormal and boundary values (print-parse-print class), arbitrary items, and trees emitted by CodeGenerator::random_code: Item::to_string compared with the model's print, the text parsed back by the real parser and by the model, parse(print t) = t resp. print(parse(print t)) = print t evaluated on the implementation's own outcome (its reparse and its own print of the reparse); non-trivial = the item is in one of the two round-trip classes; names containing brackets; chains of 60-300 nested lists; `fsweep`: print/parse/print stability of f32 bit patterns (every 1024th pattern + windows around all powers of two and ten; thorough: all 2^32)",
        "assumptions": ["white-space splitting of the printed text, and the round trip of every i32 / boolean / registered instruction leaf, are Lean theorems (tok_show, int_roundtrip, instr_leafRT, parse_print_registry); that a single float, vector literal or name prints as one word and classifies back to itself (FloatPrintStable: fmt3 (parse (fmt3 x)) = fmt3 x) is a per-leaf hypothesis about std formatting, validated on every generated tree by the correspondence check and ENUMERATED by the fsweep scenario: every 1024th f32 bit pattern plus windows around all powers of two and ten in the quick tier, all 2^32 bit patterns in the thorough tier (a test, labelled as such)"],
    },
    "C09": {
        "scenarios": lambda tier, q: [
            {"name": "registry", "args": ["__PID__"]},
            {"name": "vecgrid", "args": []},
            {"name": "exec", "args": [exact(q("scope C09")), "300" if tier == "quick" else "3000"]},
            {"name": "pairs", "args": [exact(q("scope C09")), "60" if tier == "quick" else "400"]},
            {"name": "unreg", "args": []},
        ],
        "signature": sig_exec,
        "rule": "the nine element-wise instructions on an exhaustive grid: length pairs (0..6)^2 (thorough (0..9)^2), equal and unequal, offsets -8..8 plus i32::MIN, MIN+1, MAX-1, MAX, elements from the boundary pools (extreme ints, non-finite floats, zero divisors); all 53 non-random vector instructions by NAME on generated states (empty and non-empty vectors, clamped indices); element-wise results compared with the README rule (overlapSpec), SORT with ordered-permutation; non-trivial = the state changed; `pairs`: the same instruction twice in a row on one InstructionSet with exactly one operand changed (a result remembered under a partial key shows in the second execution); `unreg`: the two instruction functions the crate ships unregistered (INTVECTOR.*, INTVECTOR./), registered with the public InstructionSet::add and driven on the length x offset grid with zeros among the divisors",
        "exhaustive": True,
        "assumptions": ["float element arithmetic is pinned up to the opaque Float32 operations"],
    },
    "C20": {
        "scenarios": lambda tier, q: [
            {"name": "registry", "args": ["__PID__"]},
            {"name": "topo", "args": []},
            {"name": "exec", "args": ["LIST.NEIGHBOR", "500" if tier == "quick" else "5000"]},
        ],
        "signature": lambda req: "topo" if req.startswith("( topo") else sig_exec(req),
        "rule": "Topology::find_neighbors for every ntotal in 0..160 (thorough 0..700) x ndim in 0..4: every centre incl. ntotal and ntotal+1 and all 12 radii (0, lattice distances, midpoints between them, 1000, negative) for ntotal <= 27, sampled centres and radii beyond; perfect powers up to 4096 in 3..6 dimensions, dimensions up to 70, NaN / inf radius; ntotal = 2^20+1 (one past a perfect 2nd/4th/5th/10th/20th power, where the f32 root estimate loses the +1) in 2 and 20 dimensions (thorough: all five, and 7^8+1, 51^4+1, 2^24+1, 2^24, 2^20, 2^20-1); answers compared with the model and with the set comprehension over the integer ceiling-root hypercube; the four LIST.NEIGHBOR* instructions by NAME on generated states with negative / oversized / NaN operands; non-trivial = a neighbourhood was returned",
        "exhaustive": True,
        "assumptions": ["the f32 radius test sqrt(d^2) <= r is taken as the meaning of 'within the Euclidean radius' (squared distances below 2^24 are exact in f32; sqrt is correctly rounded)", "a NaN radius is not a radius: the centre-membership statement is required only when the test accepts distance 0"],
    },
    "C19": {
        "scenarios": lambda tier, q: [
            {"name": "registry", "args": ["__PID__"]},
            {"name": "listops", "args": []},
            {"name": "steps", "args": ["LIST.,*.ID,INTVECTOR.FROMINT,!clean"]},
        ],
        "signature": sig_exec,
        "rule": "LIST.SET on a record that PRINTS like the new record but differs from it (a float beyond the printed decimals, a name spelled like a literal): the replacement must happen; the seven LIST record instructions by NAME: stack-id vectors of length 0..6 over the 9 valid ids, the ids of stacks that cannot be loaded (7, 8, 12) and invalid ids (0, 13, -1, 99), repeated ids, all typed stacks with empty and non-empty contents, 0..4 records on CODE (flat, nested, atoms), positions in [-2, depth+2], n in 0..4 plus negative and huge; programs that build id vectors with the *.ID instructions, add records, read them back (LIST.GET) and execute them, single-stepped with every transition validated; outcome compared with the record statements (points-based n-th value, declarative id fold); non-trivial = the state changed",
        "assumptions": [],
    },
    "C18": {
        "scenarios": lambda tier, q: [
            {"name": "registry", "args": ["__PID__"]},
            {"name": "graph", "args": []},
            {"name": "graph-exh", "args": []},
            {"name": "exec", "args": ["GRAPH.", "400" if tier == "quick" else "4000"]},
        ],
        "signature": lambda req: "graphseq" if req.startswith("( graphseq") else sig_exec(req),
        "rule": "Graph API: every sequence of length 3 (thorough 4) over {add_node, remove_node, add/remove_edge, set_state, set_weight, snapshot, diffsnap} on two initial nodes followed by size and filter queries, and random sequences (<=120 calls) with valid, stale (removed) and never-issued ids, NaN / inf weights, clone then mutate then diff; 600 (thorough 6000) directed diff probes: build, snapshot, apply exactly one change (none / the same weight again / a weight one ulp or 1e-8 away, incl. from +-inf / a state) and diff: empty exactly when nothing changed; after every call the result, the graph (both maps) and the structural invariant are compared with the Layer-0 model and with a plain set model; the 19 GRAPH.* instructions by NAME on generated states holding graphs with nodes, edges and emptied edge lists, ids drawn from the graphs or arbitrary; non-trivial = every sequence (each creates nodes) / a transition that changed the state; one generated state in 40 holds a GRAPH stack filled to / beyond its capacity of 100; a third of the states have used ring buffers",
        "exhaustive": True,
        "assumptions": ["node ids are relational to the process-global counter: the model takes the observed id and requires it to be fresh", "GRAPH.PRINT / PRINT*DIFF text depends on HashMap order and the shortest-round-trip float printer: only emptiness is compared"],
    },
    "C12": {
        "scenarios": lambda tier, q: [
            {"name": "registry", "args": ["__PID__"]},
            {"name": "gencode", "args": []},
            {"name": "exec", "args": ["=CODE.RAND", "1500" if tier == "quick" else "15000"]},
        ],
        "signature": lambda req: " ".join(req.split(" ")[1:3]) if req.startswith("( gen") else sig_exec(req),
        "rule": "CodeGenerator::random_code_with_size for every n in 1..120 (thorough 1..300), random_code for bounds n-1..n+1 (incl. 0, 1, 2, 3), decompose for every n, each with the full registry / an empty / a one-element instruction list, 0..3 bound names and new-name probabilities {0, 0.001, 0.5, 1}, 4 (thorough 12) draws each; CODE.RAND by NAME on generated states (operand from the boundary pool incl. i32::MIN, configuration bound in {25, 1, 2, 0, -7, 60, i32::MIN, i32::MAX} capped by the envelope); outputs checked for exact size / bound, leaf kinds, positive parts summing to the request; non-trivial = an item was generated",
        "assumptions": ["the PRNG cannot be injected into thread_rng: theorems quantify over every oracle, real outputs are checked for membership in the documented set"],
    },
    "C13": {
        "scenarios": lambda tier, q: [
            {"name": "registry", "args": ["__PID__"]},
            {"name": "genvals", "args": []},
            {"name": "exec", "args": ["=INTEGER.RAND,=FLOAT.RAND,=BOOLVECTOR.RAND,=INTVECTOR.RAND,=FLOATVECTOR.RAND,=NAME.RANDBOUNDNAME,=NAME.RAND,=BOOLEAN.RAND", "500" if tier == "quick" else "5000"]},
        ],
        "signature": lambda req: " ".join(req.split(" ")[1:3]) if req.startswith("( gen") else sig_exec(req),
        "rule": "random_bool_vector for sizes -2..64, 100, 1000 x 16 sparsities (grid of [0,1], just above 0.5, out of range, NaN, inf) x 6 (thorough 40) draws, per-position flip histograms over 400*size draws for 7 sizes x 3 sparsities, random_int_vector with (min,max) incl. equal, reversed and MIN..MAX, random_float_vector with deviations {0, 1, 0.5, -1, -0.0, inf, -inf, NaN, 1e30, 1e-30}; the eight RAND instructions by NAME on generated states with varied configuration bounds; postconditions (length, range, exact count of non-default bits by the documented rounding, None for invalid parameters) checked on every output; non-trivial = a value was produced",
        "assumptions": ["termination of the rejection loop in random_bool_vector is almost sure, not sure: the theorem is deadlock-freedom (a default position always exists while a flip is needed) plus the exact count", "the per-position histogram is a statistical test (failure probability < 1e-9 per cell for the sizes used)"],
    },
    "C14": {
        "scenarios": lambda tier, q: [
            {"name": "registry", "args": ["__PID__"]},
            {"name": "det", "args": []},
            {"name": "cli", "args": []},
            {"name": "srcscan", "args": []},
        ],
        "needs_bin": True,
        "release_pass": True,
        # every deterministic instruction by NAME on generated states, in a debug and in an optimised build
        "release_compare": lambda tier: [["exec", PROFILE_FILTER, "40" if tier == "quick" else "400"]] + ([["run"], ["stkgrid"]] if tier == "thorough" else []),
        "signature": lambda req: req.split(" ")[1],
        "rule": "RAND-free, id-free programs on generated states: run, an unrelated run (touching the RNG and the node counter), run again, then 2/4/8/16 threads released from a barrier each running the same program on its own copy of the state; all final states must coincide and equal the model's run; history independence per instruction: every RAND-free, id-free instruction (24, thorough 120 states each; six times as many, with well-formed operands, for the computation-heavy size-operand instructions) run on a fresh thread, then on this thread after six runs of the SAME instruction on perturbed operands (a cache keyed by part of the operands would be warm), then on another fresh thread; 1/2/8/16 threads creating 20000 (thorough 100000) nodes each through Graph::add_node and GRAPH.NODE*ADD, every fifth / seventh node removed again straight away (Graph::remove_node): all ids handed out pairwise distinct; the pushr binary on 60 (thorough 400) terminating programs: last printed EXEC / CODE / INT stacks against the model; source inventory of process-global mutable state and randomness sources; build profile: every deterministic instruction by NAME on 40 (thorough 400) generated states each, executed by a debug build (overflow checks on) and by an optimised build (overflow checks off): the two must print identical outcome lines (thorough: also the run and stack-grid scenarios); non-trivial = every case",
        "assumptions": ["interleavings inside a step are excluded by Rust's ownership rules (each thread owns its PushState), not by the model; schedules are those the OS produces", "the only process-global mutable state is the atomic node counter with a single fetch_add site (checked by the source inventory on every run)"],
    },
    "C15": {
        "scenarios": lambda tier, q: [
            {"name": "registry", "args": ["__PID__"]},
            {"name": "growth", "args": []},
            {"name": "exec", "args": ["*", "100" if tier == "quick" else "1000"]},
            {"name": "steps", "args": ["*.DEFINE,NAME.,EXEC.,CODE.,!c15"]},
        ],
        "signature": lambda req: "growth" if req.startswith("( growth") else sig_exec(req),
        "rule": "every registered instruction by NAME on generated states (size-like operands up to the envelope cap of 2000, negative and extreme elsewhere): the weight of the state (points, vector elements, characters, queue and graph contents) after the step against a bound that depends only on the weight before; five structure-doubling programs (DUP + LIST / APPEND / CONS under EXEC.Y) stepped 10..45 (thorough ..70) times under the default limits: largest CODE / EXEC item against max_points_in_program; programs dense in names, definitions and EXEC / CODE combinators single-stepped on states whose binding tables hold aliases (a name bound to a name, to itself, in a ring): every step - a literal, a list, a name, an instruction - must return (stall watchdog) and stay inside the weight bound; non-trivial = the state changed; every CODE.* / EXEC.* instruction on small items nested 40 deep (work that doubles with the depth is a hang inside one step); CODE.RAND with a negative configured maximum (used by absolute value) far below a large operand of either sign: the item must follow the configured maximum - only growth inside min(|operand|, |maximum|) points is the recorded finding K05",
        "assumptions": ["PARTIAL: wall-clock time and allocator behaviour of a step are runtime behaviour; the model measures growth of the state, which bounds the memory a step retains", "operands above the envelope cap are not executed (they would exhaust the host: that is finding K05 itself)"],
    },
    "C10": {
        "scenarios": lambda tier, q: [
            {"name": "registry", "args": ["__PID__"]},
            {"name": "starve", "args": []},
            {"name": "vecgrid", "args": []},
            {"name": "exec", "args": ["*", "60" if tier == "quick" else "600"]},
        ],
        "signature": sig_exec,
        "rule": "every registered instruction by NAME on rich states in which one stack (each of the ten typed stacks, the INPUT queue and the GRAPH stack, truncated to depth 0, 1 and 2) or a random pair of stacks has been made too short, bystander stacks filled; plus generated rich and sparse states; all public fields compared before/after: fields outside the documented footprint must be unchanged, and when a needed operand is missing every stack must only have been popped and bindings, flags, graphs, index and queues must be unchanged; non-trivial = the state changed; the vector length x offset grid (zero divisors inside the overlap: the documented guard of FLOATVECTOR./ evaluated on every such transition); in half of the starved states the NAME on top is already bound, so that a DEFINE giving up half-way has a binding to spoil",
        "exhaustive": True,
        "assumptions": ["guards other than operand presence (zero divisor, id > 0, non-empty vector ...) are covered by the frame statement only; INTVECTOR.SET*INSERT creating an empty vector is documented behaviour"],
    },
    "C01": {
        "scenarios": lambda tier, q: [
            {"name": "registry", "args": ["__PID__"]},
            {"name": "exec", "args": ["*"]},
            {"name": "steps", "args": ["*"]},
            {"name": "run", "args": []},
            {"name": "parse", "args": []},
            {"name": "cmd", "args": []},
            {"name": "unreg", "args": []},
        ],
        "signature": sig_exec,
        "rule": "every registered instruction, driven by NAME through InstructionSet, on generated states (rich and sparse stacks, boundary-biased operands, index-like integers, extreme ints, non-finite floats, empty and unequal vectors); programs from a token grammar over the full registry and from pushr's own random_code, on random initial states (every typed stack, INPUT queue incl. empty bodies, bindings, flags, varied configurations), single-stepped (<=120 steps, every transition validated) and run by the bounded run loop; program texts through the parser; the real EXEC.CMD on harmless operand tuples; a supervised worker with an address-space limit catches aborts; size-like operands of allocating instructions are capped at 2000 and code items at 3000 points (resource envelope); non-trivial = the state changed; `unreg`: the two unregistered instruction functions of the crate registered by the host; a third of the states have used (wrapped) ring buffers; alias rings in the binding tables",
        "assumptions": ["EXEC.CMD is replaced by a stub with the same stack effect in generated cases (no sleep, no spawn)",
                        "resource envelope: operand-controlled allocation sizes bounded (C15 owns the envelope itself)"],
    },
    "C16": {
        "scenarios": lambda tier, q: [
            {"name": "registry", "args": ["__PID__"]},
            {"name": "stack", "args": []},
            {"name": "stack-exh", "args": []},
        ],
        "signature": sig_stackop,
        "rule": "random operation sequences (<=120 ops quick, <=200 thorough) over all 21 public PushStack methods with positions in [0,len+2], int and nested-Item elements (equal_at / last_eq probed half of the time with the element that is there or with one that only PRINTS like it: name spelled like an integer / boolean / instruction, float differing beyond the printed decimals), plus every sequence of length <=3 (quick) / <=4 (thorough) over a reduced alphabet; a transition is non-trivial when it returned a value or changed the stack; distinct = distinct (pre, op, args) request lines",
        "exhaustive": False,
        "assumptions": ["swap(i, j) takes raw vector indices and is outside the property's list of operations"],
    },
}
