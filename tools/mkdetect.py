#!/usr/bin/env python3
"""Regenerates the detection tables in DESIGN.md (between the DETECT markers) from
tools/revert_results.json and tools/seeded_results.json."""
import json, os, re
ROOT = os.path.dirname(os.path.dirname(os.path.abspath(__file__)))
def outcome(c):
    if c["rc"] == 0 and c["violations"] == 0:
        return "missed"
    return "concrete" if c["violations"] > c["nofail"] else "nofail"
rows = ["**Repaired defects re-introduced** (`tools/revert_fixes.py`):", "", "| fix commit | what it repaired | checks → outcome |", "|---|---|---|"]
for e in json.load(open(os.path.join(ROOT, "tools", "revert_results.json"))):
    subj = e["subject"][5:] if e["subject"].startswith("fix: ") else e["subject"]
    cs = ", ".join("%s → %s (%d)" % (k, outcome(v), v["violations"]) for k, v in e["checks"].items())
    if e.get("note"):
        cs += " — " + e["note"].split(";")[0]
    rows.append("| %s | %s | %s |" % (e["commit"], subj, cs))
rows += ["", "**Seeded changes** (`tools/run_seeded.py`; what each needs to manifest is in `seeded/<id>/meta.json`):", "",
         "| seed | property | needs | checks → outcome |", "|---|---|---|---|"]
sr = json.load(open(os.path.join(ROOT, "tools", "seeded_results.json")))
for sid in sorted(sr):
    meta = json.load(open(os.path.join(ROOT, "seeded", sid, "meta.json")))
    cs = ", ".join("%s → %s (%d)" % (k, outcome(v), v["violations"]) for k, v in sr[sid]["checks"].items())
    need = (meta.get("needs_to_manifest") or "")
    need = need if len(need) < 150 else need[:147] + "..."
    rows.append("| %s | %s | %s | %s |" % (sid, meta["property"], need.replace("|", "\\|"), cs))
p = os.path.join(ROOT, "DESIGN.md"); s = open(p).read()
a = s.index("<!-- DETECT-BEGIN -->") + len("<!-- DETECT-BEGIN -->"); b = s.index("<!-- DETECT-END -->")
open(p, "w").write(s[:a] + "\n" + "\n".join(rows) + "\n" + s[b:])
