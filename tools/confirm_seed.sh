#!/bin/bash
# confirm_seed.sh <worktree> <seed-id> <property>
# Confirms a sub-agent's breaking change in its own scratch worktree (never in /repo):
#   the change compiles, the pinned suite passes with it (291), the demonstration fails with it
#   and passes without it.  On success stores /verif/seeded/<seed-id>/{patch.diff,demo,meta.json}.
set -u
wt=$1; id=$2; prop=$3
export CARGO_NET_OFFLINE=true
log=/tmp/confirm_$id.log
: > $log
cd $wt || exit 2
git diff -- src > /tmp/confirm_$id.diff
[ -s /tmp/confirm_$id.diff ] || { echo "$id: no source change" ; exit 1; }
if git status --short | grep -v '^??' | grep -v ' src/' | grep -q .; then echo "$id: tracked files outside src changed" | tee -a $log; fi
if git diff --stat -- src | grep -qi test; then :; fi
cargo test --workspace --no-fail-fast --offline >> $log 2>&1
passed=$(grep -o 'test result: ok. [0-9]* passed; 0 failed' $log | head -1)
echo "$id suite: $passed"
echo "$passed" | grep -q '291 passed' || { echo "$id: suite does not pass"; exit 1; }
(cd demo && cargo build --offline >> $log 2>&1 && cargo run --offline > /tmp/confirm_${id}_with.txt 2>&1); with=$?
# NOT git stash: the stash is shared by all worktrees of a repository, and sub-agents work in sibling worktrees
git apply -R /tmp/confirm_$id.diff || { echo "$id: cannot reverse-apply the change"; exit 1; }
(cd demo && cargo build --offline >> $log 2>&1 && cargo run --offline > /tmp/confirm_${id}_without.txt 2>&1); without=$?
git apply /tmp/confirm_$id.diff
echo "$id demo: with-change rc=$with, without-change rc=$without"
[ $with -ne 0 ] && [ $without -eq 0 ] || { echo "$id: demonstration does not discriminate"; exit 1; }
d=/verif/seeded/$id
rm -rf $d; mkdir -p $d/demo/src
cp /tmp/confirm_$id.diff $d/patch.diff
cp demo/src/*.rs $d/demo/src/
sed 's#path = "\.\."#path = "/repo"#' demo/Cargo.toml > $d/demo/Cargo.toml
[ -f demo/Cargo.lock ] && cp demo/Cargo.lock $d/demo/Cargo.lock
cp meta.txt $d/agent_notes.txt 2>/dev/null
tail -5 /tmp/confirm_${id}_with.txt > $d/demo_with_change.txt
tail -5 /tmp/confirm_${id}_without.txt > $d/demo_without_change.txt
python3 - "$id" "$prop" "$d" <<'EOF'
import json, sys
sid, prop, d = sys.argv[1:4]
notes = open(d + "/agent_notes.txt").read() if __import__("os").path.exists(d + "/agent_notes.txt") else ""
meta = {
  "seed": sid, "property": prop,
  "source": "fresh sub-agent given only the property text and a scratch worktree of /repo",
  "needs_to_manifest": None,
  "confirmed": {
    "where": "the sub-agent's scratch worktree under /tmp (removed afterwards), never /repo",
    "ran": ["cargo test --workspace --no-fail-fast --offline  -> 291 passed, 0 failed (with the change)",
            "cd demo && cargo run --offline  -> non-zero exit with the change (demo_with_change.txt)",
            "git apply -R patch.diff; cd demo && cargo run --offline -> exit 0 without the change (demo_without_change.txt); git apply patch.diff"],
  },
  "apply": "git -C /repo apply /verif/seeded/%s/patch.diff ; run checks ; git -C /repo checkout -- ." % sid,
  "demo": "demo/ depends on pushr by path /repo; run it with CARGO_TARGET_DIR outside /verif while the patch is applied",
}
json.dump(meta, open(d + "/meta.json", "w"), indent=1)
EOF
echo "$id: stored in $d"
