#!/usr/bin/env python3
"""Regenerates /verif/MANIFEST.json from the claims below (kept valid at all times)."""
import json, os
ROOT = os.path.dirname(os.path.dirname(os.path.abspath(__file__)))
NOTE = ("Trusted: Lean 4.33 kernel (axioms propext / Quot.sound / Classical.choice only, audited by #print axioms on every run; "
        "no sorry/admit/axiom/native_decide), the Lean compiler for the driver, the Rust harness and the two codecs, Rust std / rand / libm as modelled. "
        "The theorems are about the hand-written model in /verif/lean; the tie to /repo is behavioural: on every run the harness drives the real "
        "code and the compiled model recomputes every observed transition; the property's own executable statement is evaluated on the implementation's outcome. ")
CLAIMS = {
 "C04": ("Reference table of 52 scalar instructions written on mathematical values (Pushr/Spec/C04.lean); theorem scalar_sound_partial: for every table row outside K03/K04, every state, oracle and instruction-set extension the model yields exactly the prescribed state (operands consumed, second item = left operand, result stack, any in-type value where unrepresentable); negations k03_frominteger_violates / k04_mod_violates proved on witnesses; zero_divisor_no_result. Correspondence: all table instructions by NAME x boundary/random operands.",
         "Float results are pinned only up to the opaque Float32 operation (operand order, guards and stack shapes are proved; values by correspondence with the same libm). K03/K04 are pinned by unit tests and reported as KNOWN-FINDING.",
         "Lean 4 proof of a table-driven reference semantics + executed model/implementation correspondence"),
 "C05": ("Position-map specification (new position -> old position, 0 = top) shared by all nine stack types; theorems: stk_meets_spec (model = specification for every type/op/state), yank_getElem?/shove_getElem? (position maps), yank_perm/shove_perm/target_perm (permutations, so SWAP/ROT too), dup/yankdup/pop/flush/depth statements, clampIdx_lt/clampIdx_cases. Correspondence: exhaustive grid 9 types x 9 ops x depths 0..6 x 14 indices plus generated states, all by NAME.",
         "The nine Rust copies are tied to the single generic model only by the correspondence (differential) check.",
         "Lean 4 proof (position maps, List.Perm) + exhaustive-grid model/implementation correspondence"),
 "C02": ("The Rust run loop modelled verbatim (runLoop: step-limit check, abstract clock, step, growth check, counter) with theorems for every program, state, configuration and clock: run_eq_stepN (final state = copyToCode then k single steps, whatever the outcome), run_steps_le (k <= eval_push_limit+1), run_noErrors (NoErrors only with empty EXEC), runLoop_growth (GrowthCapExceeded exactly at a step that enlarged the state by more than growth_cap), step_empty / step_done_iff, runLoop_unfold_ok / runLoop_done (short programs return NoErrors with their own step count). Correspondence: runs vs. an independent hand accounting with repeated step() calls vs. the model.",
         "TimeLimitExceeded depends on the wall clock: the theorems quantify over an abstract clock; the real clock is not exercised (partial, runtime behaviour). run_steps_le assumes no instruction rewrites the configuration (proved separately for the full set where claimed).",
         "Lean 4 proof by induction over the loop + executed model/implementation correspondence"),
 "C17": ("Refinement proof of the ring buffer (container + start/end/len cursors modulo capacity, panicking indexing) to a bounded sequence: invariant Inv preserved from new by push, push_force, pop (both kinds), flush; abs commutes with each (push ignored when full, forced push drops the oldest, queue pops oldest / stack pops newest), get per kind = position in the live items, iteration = live items oldest first, printing = live items newest first, size <= capacity; INPUT.NEXT/READ/GET and OUTPUT.WRITE theorems over the abstract queues. Correspondence: all words of length 7/9 over {push, push_force, pop, flush} for capacities 1..4 and both kinds, random long sequences, INPUT/OUTPUT instructions by NAME.",
         "Capacity 0 is outside the property. Private cursor fields are not observable: the Layer-0 model is run in lockstep from new over whole sequences.",
         "Lean 4 refinement proof (ring buffer -> bounded sequence) + exhaustive small-sequence correspondence"),
 "C06": ("Theorems: step_list (a list is unpacked first element on top), ctrl_sound (EXEC.IF, CODE.IF, EXEC.K/S/Y/DUP, CODE.DO/DO*/QUOTE equal the documented rearrangement for every state), exec_loop_runs / exec_loop_runs_n: for every body satisfying the frame contract BodyOk and every n, EXEC.LOOP from index (0,n) reaches the continuation with the body's effect applied for c = 0..n-1 in order and index and loop code removed (induction on n-c, no bound); loop_satisfies_BodyOk (arbitrary nesting), index_current_bodyOk + exec_loop_index_current (contract satisfiable, concrete corollary), intvector_loop_runs (once per element, in order, element on INTEGER, nothing left). CODE.LOOP: code_loop_runs_n_partial (n reached) and the negation k01_code_loop_violates proved by kernel evaluation of a witness run.",
         "CODE.LOOP violates the property on the pinned tree (shape pinned by a unit test): reported as KNOWN-FINDING K01. The loop theorems are conditional on the body contract, which is the documented semantics.",
         "Lean 4 proof by induction over iteration count with a body frame contract + executed loop-program correspondence"),
 "C07": ("Theorems: lookup_insert_self / lookup_insert_other / bindings_last_write_wins (the binding table is a function update), ident_step (a name step is exactly the documented case split), ident_unbound_to_name_stack, ident_bound_pushes_exec, use_bound_literal (two steps put the value back on its stack), quoted_name_goes_to_name_stack (exactly the next name, bound or not, flag cleared), quote_survives_literal / quote_survives_list, define_meets_spec + define_binds + define_then_lookup for the eight DEFINE instructions, code_definition_returns_binding. Correspondence: name-dense programs single-stepped, DEFINE/QUOTE/DEFINITION by NAME.",
         "The HashMap is modelled as a sorted association list with unique keys (iteration order is never observed by these instructions).",
         "Lean 4 proof (function-update view of bindings, step equations) + executed step-by-step correspondence"),
 "C08": ("Theorems over every code tree (mutual structural induction, no bound): points_length (SIZE = number of points), extract_index_lt (the normalised index is always inside the tree), trav_eq_points / extract_eq_points (EXTRACT at i yields the i-th point in depth-first order), ins_trav (INSERT at 1 <= i < size then EXTRACT at i yields the inserted item), ins_err / ins_out_of_range, position_spec via pos_sound / pos_none (POSITION returns an index at which EXTRACT finds an equal item, the first such index, and -1 exactly when no point matches), code_size_counts_points; negation k02_insert_out_of_range_violates. Correspondence: 19 CODE instructions by NAME on tree-rich states with operands drawn as points of the top item; points-based statements and the INSERT->EXTRACT relation evaluated on the implementation's outcome.",
         "Item::insert and Item::contains are modelled in their repaired form (fix commits in /repo). K02 (out-of-range INSERT) is pinned by a unit test: KNOWN-FINDING. SUBST / CONTAINER / DISCREPANCY / CONS / NTH are tied by correspondence and by points-based statements in the driver; their algebraic theorems are not all proved yet.",
         "Lean 4 proof by mutual structural induction over code trees + executed correspondence on tree-rich states"),
 "C03": ("Parser model (tokenizer over the 25 Unicode White_Space code points, classification cascade, rec_push with depth counter on Vec order, i32/f32 token grammars with exact correctly-rounded decimal->binary32). Theorems for every forest, nesting depth and starting stack: recPush_plug (zipper invariant of rec_push), parse_render / parse_forest (a balanced forest parses to exactly its trees: same nesting, same order, first token on top), rev_rev / revL_revL (Vec order <-> top-first is an involution), parse_render_roundtrip, parse_render_below (new items go below existing EXEC items), malformed_vector_dropped (neighbours undisturbed), unmatched_rparen_ignored, parse_frame (only EXEC changes); kernel-evaluated classification examples. Correspondence: 6000 (thorough 60000) texts through the real parser; EXEC compared with the model and with an independent recursive-descent tree.",
         "No-crash of the parser is by the repaired code using str::get / guarded depth (fix commits); the model has no partial operation left. str::parse::<i32>/<f32> and split_whitespace are modelled (own implementations, exact), not verified; float tokens are compared by bits.",
         "Lean 4 proof (zipper invariant, mutual structural induction) + executed parser correspondence with an independent tree oracle"),
 "C11": ("Theorems: classify_tokens / classify_tokensL (the printed tokens of a tree classify to its token sequence when every leaf round-trips), parse_print_tokens (parsing the printed tokens of a forest yields the forest, any nesting and size; uses C03.parse_forest and the involution), parse_print (parse (print t) = [t] under the two character-level hypotheses PrintTokens and LeafRT); kernel-evaluated leaf round trips for boundary integers, booleans, names. Correspondence: 5000 (thorough 40000) trees incl. pushr's own random code: Item::to_string = model print, real re-parse = model re-parse, parse(print t) = t (exact class) and print(parse(print t)) = print t (float class) evaluated on the implementation.",
         "PARTIAL: the character-level facts (white-space splitting of the printed string; decimal print/parse of single integers and floats, FloatPrintStable) are hypotheses of the Lean theorem, not Lean theorems; they are statements about Rust std formatting and are validated by correspondence on every generated tree.",
         "Lean 4 proof at token level + executed print/parse round-trip correspondence"),
 "C16": ("Refinement proof: every public PushStack method (Layer 0: Vec, top at the end, size-(i+1) index arithmetic that can panic) never panics and commutes with abs=reverse to the plain-sequence operation (Layer 1), for all element types, stacks and arguments (24 theorems). Correspondence: random and exhaustive operation sequences on the real PushStack<Item>.",
         "swap(i,j) (raw Vec indices) is outside the property. Vec::remove/insert/split_off/index panics are modelled, not verified.",
         "Lean 4 refinement proof (Vec model -> plain sequence) + executed model/implementation correspondence"),
}
REASON_PENDING = "not claimed yet: model and theorems for this property are still under construction (see DESIGN.md §10 build order); the technique applies"

def main():
    props = [json.loads(l) for l in open(os.path.join(ROOT, "properties.jsonl"))]
    old = json.load(open(os.path.join(ROOT, "MANIFEST.json")))
    m = {"version": 1, "setup_cmd": "./setup.sh", "hooks": old["hooks"],
         "engines": [
            {"name": "lean-model", "path": "lean", "serves_properties": sorted(CLAIMS), "kind_free_text": "Lean 4 model, theorems (lean/Pushr/Props), compiled driver executing the model on observed transitions"},
            {"name": "pvh", "path": "harness", "serves_properties": sorted(CLAIMS), "kind_free_text": "Rust harness driving the real pushr in-process; line protocol to the Lean driver"}],
         "checks": [], "notes": "see DESIGN.md; ./check <ID> --tier quick|thorough [--replay F]", "not_applicable": []}
    for p in props:
        i = p["id"]
        if i in CLAIMS:
            text, note, tech = CLAIMS[i]
            m["checks"].append({"property_id": i, "quick_cmd": "./check %s --tier quick" % i, "thorough_cmd": "./check %s --tier thorough" % i,
                "evidence_file": "evidence/%s.json" % i, "replay_cmd_template": "./check %s --replay {path}" % i, "engine": "lean-model",
                "level_claimed": {"category": "proof", "text": text, "design_ref": "DESIGN.md §7 " + i},
                "level_note": NOTE + note, "technique": tech})
        else:
            m["not_applicable"].append({"property_id": i, "reason": REASON_PENDING})
    json.dump(m, open(os.path.join(ROOT, "MANIFEST.json"), "w"), indent=1)
    print("claimed:", sorted(CLAIMS))

if __name__ == "__main__":
    main()
