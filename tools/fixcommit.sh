#!/bin/sh
# usage: fixcommit.sh "<commit message>"   (run in /repo after editing): runs the unedited suite, commits when 291 pass
cd /repo || exit 1
out=$(cargo test --offline 2>&1)
if echo "$out" | grep -q "test result: ok. 291 passed; 0 failed"; then
  git commit -qam "$1" && git log --oneline | head -1
else
  echo "$out" | grep -E "FAILED|failed|panicked|^error" | head -20
  echo "NOT COMMITTED"
  exit 1
fi
