#!/usr/bin/env python3
"""Development aid (not a registered check): which lines of /repo/src does the correspondence harness execute?

Builds the harness with `-C instrument-coverage` (nightly toolchain: llvm-profdata / llvm-cov ship with it) into a
scratch target directory outside /verif, runs every quick (or thorough) scenario of every property, merges the
profiles and lists, per source file, the non-test lines of /repo/src that no scenario reached.  The model is tied to the
code only through behaviour, so a line the harness never executes is a line about which the correspondence says nothing:
this list is where new scenarios are needed.

usage: tools/coverage.py [quick|thorough] [C01 C02 ...]     -> tools/coverage_report.txt
"""
import json, os, re, shutil, subprocess, sys, glob

ROOT = os.path.dirname(os.path.dirname(os.path.abspath(__file__)))
sys.path.insert(0, os.path.join(ROOT, "tools"))
from props import PROPS  # noqa

HARN = os.path.join(ROOT, "harness")
TGT = "/tmp/pvh-cov-target"
PROF = "/tmp/pvh-cov-prof"
NIGHTLY_BIN = os.path.expanduser("~/.rustup/toolchains/nightly-x86_64-unknown-linux-gnu/lib/rustlib/x86_64-unknown-linux-gnu/bin")
DRIVER = os.path.join(ROOT, "lean", ".lake", "build", "bin", "pushr_driver")


def q(query):
    r = subprocess.run([DRIVER], input="( %s )\n" % query, capture_output=True, text=True)
    return r.stdout.strip().split(" ")


def main():
    tier = "quick"
    pids = []
    for a in sys.argv[1:]:
        if a in ("quick", "thorough"):
            tier = a
        else:
            pids.append(a)
    pids = pids or sorted(PROPS)
    env = dict(os.environ)
    env.update({"CARGO_NET_OFFLINE": "true", "RUSTFLAGS": "--cfg pushr_verif -Awarnings -C instrument-coverage",
                "CARGO_TARGET_DIR": TGT})
    r = subprocess.run(["cargo", "+nightly", "build", "--offline", "--quiet"], cwd=HARN, env=env)
    if r.returncode != 0:
        print("instrumented build failed"); return 2
    exe = os.path.join(TGT, "debug", "pvh")
    shutil.rmtree(PROF, ignore_errors=True)
    os.makedirs(PROF)
    n = 0
    for pid in pids:
        for scen in PROPS[pid]["scenarios"](tier, q):
            args = [pid if a == "__PID__" else a for a in scen["args"]]
            n += 1
            e = dict(os.environ)
            e["PVH_OUT"] = "/dev/null"
            e["LLVM_PROFILE_FILE"] = os.path.join(PROF, "p%03d-%%p.profraw" % n)
            try:
                subprocess.run([exe, "gen", scen["name"], "20260929", tier] + args, env=e, stdout=subprocess.DEVNULL,
                               stderr=subprocess.DEVNULL, timeout=1800)
            except subprocess.TimeoutExpired:
                print("timeout", pid, scen["name"])
            print("ran", pid, scen["name"], flush=True)
    raws = glob.glob(os.path.join(PROF, "*.profraw"))
    merged = os.path.join(PROF, "all.profdata")
    subprocess.check_call([os.path.join(NIGHTLY_BIN, "llvm-profdata"), "merge", "-sparse", "-o", merged] + raws)
    out = subprocess.run([os.path.join(NIGHTLY_BIN, "llvm-cov"), "export", "-format=lcov", "-instr-profile", merged, exe,
                          "--ignore-filename-regex", "(/.cargo/|/rustc/|harness/)"], capture_output=True, text=True).stdout
    # lcov: SF:<file> ... DA:<line>,<count>
    cov = {}
    cur = None
    for l in out.split("\n"):
        if l.startswith("SF:"):
            cur = l[3:]
            cov.setdefault(cur, {})
        elif l.startswith("DA:") and cur:
            ln, c = l[3:].split(",")[:2]
            cov[cur][int(ln)] = cov[cur].get(int(ln), 0) + int(c)
    rep = []
    tot_l = tot_c = 0
    for f in sorted(cov):
        if not f.startswith("/repo/src"):
            continue
        src = open(f).read().split("\n")
        # non-test part = before the first `#[cfg(test)]`
        cut = len(src)
        for i, s in enumerate(src):
            if s.strip().startswith("#[cfg(test)]"):
                cut = i
                break
        lines = {k: v for k, v in cov[f].items() if k <= cut}
        miss = sorted(k for k, v in lines.items() if v == 0)
        tot_l += len(lines); tot_c += len(lines) - len(miss)
        rep.append("== %s: %d/%d instrumented non-test lines executed" % (f, len(lines) - len(miss), len(lines)))
        # group consecutive
        grp = []
        for k in miss:
            if grp and k == grp[-1][1] + 1:
                grp[-1][1] = k
            else:
                grp.append([k, k])
        for a, b in grp:
            rep.append("   %d-%d: %s" % (a, b, src[a - 1].strip()[:110]))
    rep.append("TOTAL %d/%d" % (tot_c, tot_l))
    open(os.path.join(ROOT, "tools", "coverage_report.txt"), "w").write("\n".join(rep) + "\n")
    print(rep[-1])
    shutil.rmtree(PROF, ignore_errors=True)
    shutil.rmtree(TGT, ignore_errors=True)


if __name__ == "__main__":
    sys.exit(main())
