#!/usr/bin/env python3
"""Self-validation, the other direction: behaviour-preserving rewrites (seeded/equivalent/<id>/patch.diff, written by
sub-agents asked for refactorings that keep every observable behaviour) are applied to /repo's working tree, the
suite and ALL twenty quick checks are run, and the tree is restored.  Expected: no alarm anywhere.
Writes tools/equiv_results.json.  (Development aid, not a registered check.)"""
import json, subprocess, sys, os, glob
ROOT = os.path.dirname(os.path.dirname(os.path.abspath(__file__)))
def sh(cmd):
    return subprocess.run(cmd, shell=True, capture_output=True, text=True)
out = os.path.join(ROOT, "tools", "equiv_results.json")
res = json.load(open(out)) if os.path.exists(out) else {}
only = sys.argv[1:]
for d in sorted(glob.glob(os.path.join(ROOT, "seeded", "equivalent", "*"))):
    eid = os.path.basename(d)
    if only and eid not in only:
        continue
    assert sh("git -C /repo status --short").stdout.strip() == "", "/repo not clean"
    p = sh("git -C /repo apply %s/patch.diff" % d)
    entry = {"applied": p.returncode == 0, "alarms": {}}
    if p.returncode == 0:
        entry["suite"] = sh("cd /repo && cargo test --offline 2>&1 | grep -E '^test result: ' | head -1").stdout.strip()
        entry["files"] = sh("git -C /repo diff --stat | tail -1").stdout.strip()
        for i in range(1, 21):
            pid = "C%02d" % i
            r = sh("cd %s && ./check %s --tier quick" % (ROOT, pid))
            vio = [l for l in r.stdout.split("\n") if l.startswith("VIOLATION")]
            if r.returncode != 0 or vio:
                entry["alarms"][pid] = {"rc": r.returncode, "lines": vio[:3]}
                for l in vio[:2]:
                    path = l.split("replay=")[1].split(" ")[0]
                    sh("mkdir -p /tmp/equiv_alarm && cp %s /tmp/equiv_alarm/%s-%s" % (path, eid, os.path.basename(path)))
    sh("git -C /repo checkout -- .")
    res[eid] = entry
    print(eid, entry.get("suite", "not applied")[:40], "ALARMS:" if entry["alarms"] else "no alarm", entry["alarms"], flush=True)
    json.dump(res, open(out, "w"), indent=1)
