#!/bin/sh
# Offline build of the framework: Lean model + proofs + driver executable, Rust harness against /repo.
set -e
cd "$(dirname "$0")"
( cd lean && lake build Pushr Driver pushr_driver )
if [ -f /repo/Cargo.lock ] && [ ! -f harness/Cargo.lock ]; then cp /repo/Cargo.lock harness/Cargo.lock; fi
( cd harness && CARGO_NET_OFFLINE=true RUSTFLAGS="--cfg pushr_verif -Awarnings" cargo build --offline --quiet )
echo "setup done"
