import Pushr.Basic
import Pushr.Types
import Pushr.Names
