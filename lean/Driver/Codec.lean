import Driver.Sx
import Pushr.Types
import Pushr.Names
import Pushr.Float
/-! Wire codec: canonical text <-> model values. NaNs are canonicalised on both sides. -/
open Pushr

namespace Codec

def hexDigit (n : Nat) : Char := if n < 10 then Char.ofNat (48 + n) else Char.ofNat (87 + n)
def hexVal (c : Char) : Option Nat :=
  let n := c.toNat
  if 48 ≤ n && n ≤ 57 then some (n - 48)
  else if 97 ≤ n && n ≤ 102 then some (n - 87)
  else none

def encHex (s : String) : String :=
  String.ofList (s.toUTF8.toList.flatMap fun b => [hexDigit (b.toNat / 16), hexDigit (b.toNat % 16)])

def decHexBytes : List Char → Option (List UInt8)
  | [] => some []
  | a :: b :: rest => do
    let x ← hexVal a
    let y ← hexVal b
    let r ← decHexBytes rest
    some (UInt8.ofNat (x * 16 + y) :: r)
  | _ => none

def decHex (cs : List Char) : Option String := do
  let bs ← decHexBytes cs
  String.fromUTF8? (ByteArray.mk bs.toArray)

def hexNat (cs : List Char) : Option Nat :=
  cs.foldlM (fun acc c => do let v ← hexVal c; some (acc * 16 + v)) 0

def encF32 (x : Float32) : String :=
  let b := if F32.isNaN x then 0x7fc00000 else F32.bits x
  "f" ++ String.ofList ((List.range 8).map fun i => hexDigit ((b / 16 ^ (7 - i)) % 16))

def decI32 (s : String) : Option Int32 := do
  let i ← s.toInt?
  if -2147483648 ≤ i && i ≤ 2147483647 then some (Int32.ofInt i) else none

def encI32 (i : Int32) : String := toString i.toInt

def decBool : Sx → Option Bool
  | .atom "T" => some true
  | .atom "F" => some false
  | _ => none
def encBool (b : Bool) : String := if b then "T" else "F"

def decF32 : Sx → Option Float32
  | .atom s =>
    match s.toList with
    | 'f' :: cs => if cs.length == 8 then (hexNat cs).map F32.ofBitsNat else none
    | _ => none
  | _ => none

def decInt : Sx → Option Int32
  | .atom s => decI32 s
  | _ => none

def decNat : Sx → Option Nat
  | .atom s => s.toNat?
  | _ => none

def decName : Sx → Option String
  | .atom s =>
    match s.toList with
    | 'n' :: cs => decHex cs
    | _ => none
  | _ => none
def encName (s : String) : String := "n" ++ encHex s

def decGraph : Sx → Option Graph
  | .list [.atom "g", .list ns, .list es] => do
    let nodes ← ns.mapM fun
      | .list [a, b] => do some ((← decNat a), (← decInt b))
      | _ => none
    let edges ← es.mapM fun
      | .list (d :: l) => do
        let l' ← l.mapM fun
          | .list [o, w] => do some ({ origin := (← decNat o), weight := (← decF32 w) } : Edge)
          | _ => none
        some ((← decNat d), l')
      | _ => none
    some ⟨nodes, edges⟩
  | _ => none

def encList (xs : List String) : String :=
  if xs.isEmpty then "( )" else "( " ++ String.intercalate " " xs ++ " )"
def encTag (t : String) (xs : List String) : String := encList (t :: xs)

def encGraph (g : Graph) : String :=
  encTag "g" [encList (g.nodes.map fun (a, b) => encList [toString a, encI32 b]),
    encList (g.edges.map fun (d, l) => encList (toString d :: l.map fun e => encList [toString e.origin, encF32 e.weight]))]

def decLit : Sx → Option Lit
  | .atom "T" => some (.bool true)
  | .atom "F" => some (.bool false)
  | .atom s =>
    match s.toList with
    | 'f' :: _ => (decF32 (.atom s)).map Lit.float
    | _ => (decI32 s).map Lit.int
  | .list [.atom "x", c, d] => do some (.index (← decNat c) (← decNat d))
  | .list (.atom "bv" :: xs) => (xs.mapM decBool).map Lit.bvec
  | .list (.atom "iv" :: xs) => (xs.mapM decInt).map Lit.ivec
  | .list (.atom "fv" :: xs) => (xs.mapM decF32).map Lit.fvec
  | g@(.list (.atom "g" :: _)) => (decGraph g).map Lit.graph
  | _ => none

def encBv (v : List Bool) : String := encTag "bv" (v.map encBool)
def encIv (v : List Int32) : String := encTag "iv" (v.map encI32)
def encFv (v : List Float32) : String := encTag "fv" (v.map encF32)

def encLit : Lit → String
  | .bool b => encBool b
  | .int i => encI32 i
  | .index c d => encTag "x" [toString c, toString d]
  | .float f => encF32 f
  | .bvec v => encBv v
  | .ivec v => encIv v
  | .fvec v => encFv v
  | .graph g => encGraph g

partial def decItem : Sx → Option Item
  | .list (.atom "l" :: xs) => (xs.mapM decItem).map Item.list
  | .atom s =>
    match s.toList with
    | 'I' :: cs => some (.instr (Instr.ofName (String.ofList cs)))
    | 'n' :: cs => (decHex cs).map Item.ident
    | _ => (decLit (.atom s)).map Item.lit
  | sx => (decLit sx).map Item.lit

partial def encItem : Item → String
  | .list xs => encTag "l" (xs.map encItem)
  | .instr i => "I" ++ i.str
  | .lit v => encLit v
  | .ident n => encName n

def decBv : Sx → Option (List Bool)
  | .list (.atom "bv" :: xs) => xs.mapM decBool
  | _ => none
def decIv : Sx → Option (List Int32)
  | .list (.atom "iv" :: xs) => xs.mapM decInt
  | _ => none
def decFv : Sx → Option (List Float32)
  | .list (.atom "fv" :: xs) => xs.mapM decF32
  | _ => none

def decMsg : Sx → Option Msg
  | .list [.atom "m", h, b] => do some ⟨(← decIv h), (← decBv b)⟩
  | _ => none
def encMsg (m : Msg) : String := encTag "m" [encIv m.header, encBv m.body]

def decListOf {α : Type} (f : Sx → Option α) : Sx → Option (List α)
  | .list xs => xs.mapM f
  | _ => none

def decBuf {α : Type} (f : Sx → Option α) : Sx → Option (Buf α)
  | .list (c :: xs) => do some ⟨(← decNat c), (← xs.mapM f)⟩
  | _ => none
def encBuf {α : Type} (f : α → String) (b : Buf α) : String := encList (toString b.cap :: b.items.map f)

def decIndex : Sx → Option (Nat × Nat)
  | .list [c, d] => do some ((← decNat c), (← decNat d))
  | _ => none

def decCfg : Sx → Option Config
  | .list [.atom "cfg", a, b, c, d, e, f, g, h, i, j] => do
    some { maxRandFloat := (← decF32 a), minRandFloat := (← decF32 b), maxRandInt := (← decInt c),
           minRandInt := (← decInt d), evalPushLimit := (← decInt e), evalTimeLimit := (← decNat f),
           growthCap := (← decNat g), newErcNameProb := (← decF32 h), maxPointsRand := (← decInt i),
           maxPointsProg := (← decInt j) }
  | _ => none
def encCfg (c : Config) : String :=
  encTag "cfg" [encF32 c.maxRandFloat, encF32 c.minRandFloat, encI32 c.maxRandInt, encI32 c.minRandInt,
    encI32 c.evalPushLimit, toString c.evalTimeLimit, toString c.growthCap, encF32 c.newErcNameProb,
    encI32 c.maxPointsRand, encI32 c.maxPointsProg]

def decState : Sx → Option State
  | .list [.atom "S", b, i, f, n, c, e, x, bv, iv, fv, inp, out, gr, bind, cfg, q, s] => do
    some { bool := (← decListOf decBool b), int := (← decListOf decInt i),
           float := (← decListOf decF32 f), name := (← decListOf decName n),
           code := (← decListOf decItem c), exec := (← decListOf decItem e),
           index := (← decListOf decIndex x), bvec := (← decListOf decBv bv),
           ivec := (← decListOf decIv iv), fvec := (← decListOf decFv fv),
           input := (← decBuf decMsg inp), output := (← decBuf decMsg out),
           graph := (← decBuf decGraph gr),
           bindings := (← decListOf (fun
             | .list [k, v] => do some ((← decName k), (← decItem v))
             | _ => none) bind),
           cfg := (← decCfg cfg), quote := (← decBool q), send := (← decBool s) }
  | _ => none

def encState (s : State) : String :=
  encTag "S" [encList (s.bool.map encBool), encList (s.int.map encI32), encList (s.float.map encF32),
    encList (s.name.map encName), encList (s.code.map encItem), encList (s.exec.map encItem),
    encList (s.index.map fun (c, d) => encList [toString c, toString d]),
    encList (s.bvec.map encBv), encList (s.ivec.map encIv), encList (s.fvec.map encFv),
    encBuf encMsg s.input, encBuf encMsg s.output, encBuf encGraph s.graph,
    encList (s.bindings.map fun (k, v) => encList [encName k, encItem v]),
    encCfg s.cfg, encBool s.quote, encBool s.send]

end Codec
