import Driver.StackDrv
import Driver.ExecDrv
import Driver.BufDrv
import Driver.RunDrv
import Driver.LoopDrv
import Driver.ParseDrv
import Driver.TopoDrv
import Driver.GraphDrv
import Driver.GenDrv
import Driver.DetDrv
open Pushr

def handleLine (line : String) : String :=
  match Sx.parseLine line with
  | some [.list (.atom kind :: rest)] =>
    match kind with
    | "stackop" => StackDrv.handle rest
    | "detrun" => DetDrv.handleDet rest
    | "ids" => DetDrv.handleIds rest
    | "cli" => DetDrv.handleCli rest
    | "srcscan" => DetDrv.handleScan rest
    | "gen" => GenDrv.handle rest
    | "graphseq" => GraphDrv.handle rest
    | "topo" => TopoDrv.handle rest
    | "parse" => ParseDrv.handleParse rest
    | "roundtrip" => ParseDrv.handleRoundtrip rest
    | "loop" => LoopDrv.handle rest
    | "run" => RunDrv.handle rest
    | "bufseq" => BufDrv.handle rest
    | "growth" => ExecDrv.handleGrowth rest
    | "exec" => ExecDrv.handleExec rest
    | "step" => ExecDrv.handleStep rest
    | "scope" => (match rest with
      | [.atom pid] => String.intercalate " " ((ExecDrv.scopeOf pid).map Instr.str)
      | _ => "bad scope")
    | "names" => String.intercalate " " (Instr.all.map Instr.str)
    | _ => "bad kind " ++ kind
  | _ => "bad parse"

partial def loop (h : IO.FS.Stream) (out : IO.FS.Stream) : IO Unit := do
  let line ← h.getLine
  if line.isEmpty then return ()
  let l := line.trimAscii.toString
  if l.isEmpty then
    out.putStrLn "empty"
  else
    out.putStrLn (handleLine l)
  loop h out

def main : IO Unit := do
  let stdin ← IO.getStdin
  let stdout ← IO.getStdout
  loop stdin stdout
