import Driver.StackDrv
import Driver.ExecDrv
import Driver.BufDrv
import Driver.RunDrv
import Driver.LoopDrv
import Driver.ParseDrv
import Driver.TopoDrv
import Driver.GraphDrv
import Driver.GenDrv
import Driver.DetDrv
open Pushr

def handleLine (line : String) : String :=
  match Sx.parseLine line with
  | some [.list (.atom kind :: rest)] =>
    match kind with
    | "stackop" => StackDrv.handle rest
    | "detrun" => DetDrv.handleDet rest
    | "ids" => DetDrv.handleIds rest
    | "cli" => DetDrv.handleCli rest
    | "srcscan" => DetDrv.handleScan rest
    | "gen" => GenDrv.handle rest
    | "graphseq" => GraphDrv.handle rest
    | "topo" => TopoDrv.handle rest
    | "parse" => ParseDrv.handleParse rest
    | "parsec" => ParseDrv.handleParseCustom rest
    | "roundtrip" => ParseDrv.handleRoundtrip rest
    | "fsweep" => ParseDrv.handleFsweep rest
    | "loop" => LoopDrv.handle rest
    | "run" => RunDrv.handle rest
    | "runt" => RunDrv.handleTimed rest
    | "bufseq" => BufDrv.handle rest
    | "growth" => ExecDrv.handleGrowth rest
    | "exec" => ExecDrv.handleExec rest
    | "unreg" => ExecDrv.handleUnreg rest
    | "step" => ExecDrv.handleStep rest
    | "scope" => (match rest with
      | [.atom pid] => String.intercalate " " ((ExecDrv.scopeOf pid).map Instr.str)
      | _ => "bad scope")
    | "names" => String.intercalate " " (Instr.all.map Instr.str)
    -- `( registry PID NAME.. )`: the names registered by `InstructionSet::load`, against the part of the
    -- model's table the property PID speaks about
    | "registry" =>
      (match rest with
       | .atom pid :: names =>
         let have_ := names.map Sx.toStr
         let scope := (ExecDrv.scopeOf pid).map Instr.str
         let missing := scope.filter fun n => !have_.contains n
         -- a registered name the model does not know is unverified: it matters to the properties that quantify
         -- over every instruction
         let extra := if scope.length == Instr.all.length then have_.filter fun n => !(Instr.all.map Instr.str).contains n else []
         if missing.isEmpty && extra.isEmpty then "ok N"
         else
           "no MISMATCH model= missing: " ++ String.intercalate "," missing ++ " extra: " ++ String.intercalate "," extra ++
           (if missing.isEmpty then "" else " PROPFAIL " ++ pid ++ " not registered (the token is parsed as a NAME and does nothing): " ++ String.intercalate "," missing)
       | _ => "bad registry")
    | _ => "bad kind " ++ kind
  | _ => "bad parse"

partial def loop (h : IO.FS.Stream) (out : IO.FS.Stream) : IO Unit := do
  let line ← h.getLine
  if line.isEmpty then return ()
  let l := line.trimAscii.toString
  if l.isEmpty then
    out.putStrLn "empty"
  else
    out.putStrLn (handleLine l)
  loop h out

def main : IO Unit := do
  let stdin ← IO.getStdin
  let stdout ← IO.getStdout
  loop stdin stdout
