import Driver.ExecDrv
import Pushr.Parser
/-! C03 / C11 requests. -/
open Pushr Codec Pushr.Parse

namespace ParseDrv

def isInstr (tok : String) : Bool := Instr.isName tok

/-- independent tree builder for balanced token sequences (recursive descent; children in token
order = top-first order) -/
partial def descend : List Tok → List Item → List Item × List Tok
  | [], acc => (acc.reverse, [])
  | .rp :: rest, acc => (acc.reverse, rest)
  | .lp :: rest, acc =>
    let (children, rest') := descend rest []
    descend rest' (.list children :: acc)
  | .atom a :: rest, acc => descend rest (a :: acc)
  | .dropped :: rest, acc => descend rest acc

/-- parentheses balanced: depth never negative, ends at 0 -/
def balanced (toks : List Tok) : Bool :=
  let r := toks.foldl (fun (st : Option Nat) t => match st, t with
    | none, _ => none
    | some d, .lp => some (d + 1)
    | some 0, .rp => none
    | some (d + 1), .rp => some d
    | some d, _ => some d) (some 0)
  r == some 0

/-- `( parse n<hex> PRE POST|PANIC NID )` -/
def handleParseWith (isI : String → Bool) : List Sx → String
  | [code, pre, post, _nid] =>
    match decName code, decState pre, ExecDrv.decObs post with
    | some code, some pre, some obs =>
      let m := { pre with exec := parseProgram isI pre.exec code }
      let ms := encState m
      let os := match obs with
        | some o => encState o
        | none => "PANIC"
      let mm := if ms == os then "" else " MISMATCH model= " ++ ms
      let toks := (tokenize code).map (classify isI)
      let pf := match obs with
        | none => " PROPFAIL C01 implementation panicked PROPFAIL C03 the parser panicked"
        | some o =>
          if encState { o with exec := [] } != encState { pre with exec := [] } then
            " PROPFAIL C03 parsing touched a stack other than EXEC"
          else if balanced toks then
            let want := pre.exec ++ (descend toks []).1
            if encList (o.exec.map encItem) == encList (want.map encItem) then ""
            else " PROPFAIL C03 EXEC is not the token tree: expected " ++ encList (want.map encItem) ++
              -- C07: a name is looked up when the interpreter ENCOUNTERS it; program text that mentions a name the
              -- state already binds must still yield the NAME item (else quote / redefine of that name are lost)
              (if toks.any (fun t => match t with
                  | .atom (.ident n) => pre.bindings.any (fun b => b.1 == n)
                  | _ => false)
               then " PROPFAIL C07 a name bound in the state was not parsed into a NAME item (lookup happens at the encounter, so that NAME.QUOTE and a later definition can take effect)"
               else "")
          else ""
      if mm == "" && pf == "" then (if toks.isEmpty then "ok T" else "ok N") else "no" ++ mm ++ pf
    | _, _, _ => "bad state"
  | _ => "bad shape"

def handleParse : List Sx → String := handleParseWith isInstr

/-- `( parsec ( extra instruction names ) code PRE POST NID )`: the host registered more instructions; the ORDER of the
lexical rules decides tokens that fall under two of them (instruction before integer / float / TRUE / FALSE) -/
def handleParseCustom : List Sx → String
  | extra :: rest =>
    match decListOf decName extra with
    | some ex => handleParseWith (fun t => isInstr t || ex.contains t) rest
    | none => "bad extra"
  | _ => "bad shape"

/-- items for which parse (print t) = t is claimed: lists, ints, bools, parser-producible names,
registered instructions -/
partial def inRtClass : Item → Bool
  | .list xs => xs.all inRtClass
  | .instr i => i.isRegistered
  | .lit (.int _) => true
  | .lit (.bool _) => true
  | .lit _ => false
  | .ident n => match classify isInstr n, tokenize n with
    | .atom (.ident m), [t] => m == n && t == n
    | _, _ => false

/-- a name containing white space somewhere in the tree (NAME.CAT builds such names): finding K07 -/
partial def hasBlankName : Item → Bool
  | .list xs => xs.any hasBlankName
  | .ident n => n.toList.any Char.isWhitespace
  | _ => false

/-- floats allowed in addition (print-parse-print stability) -/
partial def inFloatClass : Item → Bool
  | .list xs => xs.all inFloatClass
  | .lit (.float _) => true
  | t => inRtClass t

/-- `( roundtrip ITEM n<printed> ( reparsed exec ) n<implementation's print of the reparsed exec> )` -/
def handleRoundtrip : List Sx → String
  | [item, printed, exec2, reprinted] =>
    match decItem item, decName printed, decListOf decItem exec2, decName reprinted with
    | some item, some printed, some exec2, some reprinted =>
      let mp := item.show
      let mm1 := if mp == printed then "" else " MISMATCH model= print " ++ encName mp
      let me := parseProgram isInstr [] printed
      let mm2 := if encList (me.map encItem) == encList (exec2.map encItem) then ""
        else " MISMATCH model= reparse " ++ encList (me.map encItem)
      let pf :=
        if inRtClass item then
          (if encList (exec2.map encItem) == encList [encItem item] then ""
           else " PROPFAIL C11 parse(print t) is not t: " ++ encList (exec2.map encItem))
        else if inFloatClass item then
          (if reprinted == printed then ""
           else " PROPFAIL C11 print(parse(print t)) differs: " ++ encName reprinted)
        else if hasBlankName item && (item.show.toList.all fun c => c != '[') then
          -- names are in the property's scope whatever they contain; one with a blank prints as several words
          (if encList (exec2.map encItem) == encList [encItem item] then ""
           else " PROPFAIL C11 [K07] a name containing white space (as NAME.CAT builds them) prints as several words: parse(print t) is not t")
        else ""
      let mm3 := if showStack (exec2.map Item.show) == reprinted then ""
        else " MISMATCH model= reprint " ++ encName (showStack (exec2.map Item.show))
      if mm1 == "" && mm2 == "" && mm3 == "" && pf == "" then (if inFloatClass item then "ok N" else "ok T")
      else "no" ++ mm1 ++ mm2 ++ mm3 ++ pf
    | _, _, _, _ =>
      if reprinted.toStr == "PANIC" then "no PROPFAIL C11 printing the reparsed program panicked" else "bad item"
  | [_, _, .atom "PANIC"] => "no PROPFAIL C11 parsing a printed program panicked"
  | _ => "bad shape"

/-- `( fsweep N BAD FIRST )`: the enumeration of the per-leaf hypothesis FloatPrintStable over f32 bit patterns
(a test of `std` formatting and parsing, not a theorem): it must have found no unstable pattern -/
def handleFsweep : List Sx → String
  | [n, bad, .atom first] =>
    match Codec.decNat n, Codec.decNat bad with
    | some n, some bad =>
      if bad == 0 && n > 0 then "ok N"
      else "no PROPFAIL C11 " ++ toString bad ++ " of " ++ toString n ++ " float bit patterns do not print / parse / print to the same text; first: f" ++ first
    | _, _ => "bad numbers"
  | _ => "bad shape"

end ParseDrv
