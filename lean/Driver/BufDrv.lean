import Driver.Codec
import Pushr.BufferImpl
import Pushr.Print
/-! C17 requests: a whole operation sequence on a fresh `PushBuffer<i32>`, with the observed result
and the observed live items / printed form after every operation. The Layer-0 ring model is run
in lockstep from `new`; the Layer-1 bounded sequence is the property. -/
open Pushr Codec

namespace BufDrv

instance : Inhabited Int32 := ⟨0⟩

def encOptI (o : Option Int32) : String := match o with
  | some x => encI32 x
  | none => "none"

def showItems (l : List Int32) : String := encList (l.map encI32)

/-- one op on the Layer-0 model: result text and new ring (`none` = model panic) -/
def stepImpl (r : Ring Int32) (op : String) (arg : Option Int32) : Option (String × Ring Int32) :=
  match op, arg with
  | "push", some x => match r.push x with
    | .ok r' => some ("-", r')
    | .error _ => none
  | "push_force", some x => match r.pushForce x with
    | .ok r' => some ("-", r')
    | .error _ => none
  | "pop", none => match r.pop with
    | .ok (o, r') => some (encOptI o, r')
    | .error _ => none
  | "get", some i => match r.get i.toInt.toNat with
    | .ok o => some (encOptI o, r)
    | .error _ => none
  | "copy", some i => match r.get i.toInt.toNat with
    | .ok o => some (encOptI o, r)
    | .error _ => none
  | "peek_oldest", none => some (encOptI r.peekOldest, r)
  | "copy_oldest", none => some (encOptI r.peekOldest, r)
  | "peek_newest", none => some (encOptI r.peekNewest, r)
  | "size", none => some (toString r.size, r)
  | "is_empty", none => some (encBool r.isEmpty, r)
  | "is_full", none => some (encBool r.isFull, r)
  | "flush", none => some ("-", r.flush)
  | _, _ => none

/-- the same op on the Layer-1 bounded sequence -/
def stepSpec (kind : BufKind) (b : Buf Int32) (op : String) (arg : Option Int32) : Option (String × Buf Int32) :=
  match op, arg with
  | "push", some x => some ("-", b.push x)
  | "push_force", some x => some ("-", b.pushForce x)
  | "pop", none =>
    let (o, b') := match kind with
      | .queue => b.popOldest
      | .stack => b.popNewest
    some (encOptI o, b')
  | "get", some i => some (encOptI (match kind with
      | .queue => b.getQueue i.toInt.toNat
      | .stack => b.getStack i.toInt.toNat), b)
  | "copy", some i => some (encOptI (match kind with
      | .queue => b.getQueue i.toInt.toNat
      | .stack => b.getStack i.toInt.toNat), b)
  | "peek_oldest", none => some (encOptI b.oldest, b)
  | "copy_oldest", none => some (encOptI b.oldest, b)
  | "peek_newest", none => some (encOptI b.newest, b)
  | "size", none => some (toString b.size, b)
  | "is_empty", none => some (encBool (b.size == 0), b)
  | "is_full", none => some (encBool (b.size == b.cap), b)
  | "flush", none => some ("-", b.flush)
  | _, _ => none

def liveImpl (r : Ring Int32) : List Int32 := r.iterSlots.map fun k => r.cont.getD k 0
def printImpl (r : Ring Int32) : String := showStack (r.printSlots.map fun k => showI32 (r.cont.getD k 0))
def printSpec (b : Buf Int32) : String := showStack (b.items.reverse.map showI32)

/-- walk the sequence; returns the first failing step -/
def walk (kind : BufKind) : List Sx → Ring Int32 → Buf Int32 → Nat → Nat → String
  | [], _, _, n, nt => "ok " ++ (if nt > 0 then "N" else "T") ++ " steps=" ++ toString n
  | .list [.atom op, a, res, items, str] :: rest, r, b, n, nt =>
    let arg := match a with
      | .atom "-" => none
      | x => decInt x
    let obs := res.toStr ++ " " ++ items.toStr ++ " " ++ str.toStr
    let specTxt := match stepSpec kind b op arg with
      | some (t, b') => some (t ++ " " ++ showItems b'.items ++ " " ++ encName (printSpec b'), b')
      | none => none
    let implTxt := match stepImpl r op arg with
      | some (t, r') => some (t ++ " " ++ showItems (liveImpl r') ++ " " ++ encName (printImpl r'), r')
      | none => none
    match specTxt with
    | none => "bad op " ++ op
    | some (st, b') =>
      let pf := if st == obs then "" else " PROPFAIL C17 step " ++ toString n ++ " (" ++ op ++ ") bounded sequence gives " ++ st ++ " observed " ++ obs
      match implTxt with
      | none =>
        "no MISMATCH model= PANIC at step " ++ toString n ++ pf
      | some (it, r') =>
        let mm := if it == obs then "" else " MISMATCH model= step " ++ toString n ++ " (" ++ op ++ ") " ++ it
        if mm == "" && pf == "" then walk kind rest r' b' (n + 1) (if res.toStr != "none" then nt + 1 else nt)
        else "no" ++ mm ++ pf
  | _, _, _, _, _ => "bad step shape"

/-- `( bufseq KIND CAP ( steps.. ) )`; an observed panic is encoded as result `PANIC` -/
def handle : List Sx → String
  | [.atom k, c, .list steps] =>
    match decNat c with
    | some cap =>
      let kind := if k == "stack" then BufKind.stack else BufKind.queue
      if steps.any (fun s => match s with
          | .list [_, _, .atom "PANIC", _, _] => true
          | _ => false) then
        -- the implementation panicked somewhere: find out whether the model agrees up to there
        let upto := steps.takeWhile (fun s => match s with
          | .list [_, _, .atom "PANIC", _, _] => false
          | _ => true)
        let pre := walk kind upto (Ring.new kind cap) ⟨cap, []⟩ 0 0
        "no MISMATCH model= (prefix: " ++ pre ++ ") PROPFAIL C17 implementation panicked at step " ++ toString upto.length
      else walk kind steps (Ring.new kind cap) ⟨cap, []⟩ 0 0
    | none => "bad cap"
  | _ => "bad shape"

end BufDrv
