import Driver.Codec
import Pushr.Full
import Driver.RandDrv
import Pushr.Spec.C04
import Pushr.Spec.C05
import Pushr.Spec.C06
import Pushr.Spec.C07
import Pushr.Spec.C08
import Pushr.Spec.C09
import Pushr.ListRec
import Pushr.Spec.C15
import Pushr.Spec.C10
import Pushr.Unregistered
/-! `exec` / `step` requests: one observed transition of the real interpreter state. -/
open Pushr Codec

namespace ExecDrv

/-- families that are modelled so far (the rest is answered `skip`) -/
def modelled : Instr → Bool
  | _ => true

/-- outputs whose order follows `HashMap` iteration: compared as sorted multisets -/
def unorderedTop : Instr → Bool
  | .graph .nodes | .graph .nodesHistory | .graph .nodeNeighbors | .graph .nodeSuccessors => true
  | _ => false

/-- GRAPH.PRINT / PRINT*DIFF push a text the model does not reproduce -/
def wildName : Instr → Bool
  | .graph .print | .graph .printDiff => true
  | _ => false

def sortI (v : List Int32) : List Int32 := v.mergeSort (fun a b => a ≤ b)

/-- canonicalise the parts of a post-state that are declared unordered / unmodelled for `i` -/
def canon (i : Instr) (pre s : State) : State :=
  let s := if unorderedTop i then
      match s.ivec with
      | v :: l => { s with ivec := sortI v :: l }
      | [] => s
    else s
  -- the sign of a NaN is not observable through the protocol (`Float32.toBits` canonicalises NaN), but
  -- `f32::total_cmp` puts negative NaNs first and positive ones last: after a float SORT the NaNs are
  -- moved to the end on both sides before comparing
  let s := match i with
    | .vec .f .sortAsc | .vec .f .sortDesc =>
      (match s.fvec with
       | v :: l => { s with fvec := (v.filter (fun x => !F32.isNaN x) ++ v.filter F32.isNaN) :: l }
       | [] => s)
    | _ => s
  if wildName i && s.name.length == pre.name.length + 1 then { s with name := "?" :: s.name.tail } else s

/-- instructions whose outcome depends on the random oracle: validated relationally -/
def isRand : Instr → Bool
  | .boolean .rand | .integer .rand | .float .rand | .name .rand | .name .randbound | .code .rand => true
  | .vec _ .rand => true
  | _ => false


def zeroOracle : Oracle := fun _ => 0

/-- property evaluators plug in here: `(id, check)`; `check` returns `some why` on failure.
`post = none` means the implementation panicked. -/
abbrev PropEval := Instr → State → Option State → Option String

def panicFree : PropEval := fun _ _ post => if post.isNone then some "implementation panicked" else none

/-- C04: the implementation's outcome must be the state the reference table prescribes -/
def c04Eval : PropEval := fun i pre post =>
  if !C04.inTable i then none
  else match post, C04.row i pre with
    | some post, some r =>
      let want := C04.apply r pre (C04.pushedInt r pre post)
      if encState post == encState want then none
      else
        -- is it exactly the recorded deviation (K03 / K04)?
        let tag := match C04.deviantRow i pre with
          | some d =>
            if encState post == encState (C04.apply d pre (C04.pushedInt d pre post)) then
              (match i with
               | .boolean _ => "[K03] "
               | _ => "[K04] ")
            else ""
          | none => ""
        some (tag ++ "reference table prescribes " ++ encState want)
    | _, _ => none

/-- C05: the implementation's outcome must be the position-map statement of the operation -/
def c05Eval : PropEval := fun i pre post =>
  match i, post with
  | .stk t o, some post =>
    let want := C05.expectTy t o pre
    if encState post == encState want then none
    else some ("position-map statement prescribes " ++ encState want)
  | _, _ => none

/-- C06: the combinators of the table -/
def c06Eval : PropEval := fun i pre post =>
  match post, C06.ctrlSpec i pre with
  | some post, some want =>
    if encState post == encState want then none else some ("documented rearrangement " ++ encState want)
  | _, _ => none

/-- C07: DEFINE family, NAME.QUOTE -/
def c07Eval : PropEval := fun i pre post =>
  match i, post with
  | .define t, some post =>
    let want := C07.defineSpec t pre
    if encState post == encState want then none else some ("definition must yield " ++ encState want)
  | .name .quote, some post =>
    let want := { pre with quote := true }
    if encState post == encState want then none else some ("NAME.QUOTE must only set the flag")
  | .code .definition, some post =>
    let want := match pre.name with
      | [] => pre
      | n :: ns => match C07.table pre n with
        | some v => { pre with name := ns, code := v :: pre.code }
        | none => { pre with name := ns }
    if encState post == encState want then none else some ("CODE.DEFINITION must yield " ++ encState want)
  | _, some post =>
    -- `quote_flag_only_quote`: no instruction other than NAME.QUOTE touches the quote flag, so that a pending
    -- quote reaches exactly the next encountered name
    if post.quote != pre.quote then some (i.str ++ " changed the quote flag: only NAME.QUOTE sets it and only the next encountered name clears it")
    else none
  | _, _ => none

/-- C08: CODE instructions against the points-based statements -/
def c08Eval : PropEval := fun i pre post =>
  -- SUBST: the point accounting of "all and only the structural matches", on the implementation's result
  let substFail : Option String := match i, post, pre.code with
    | .code .subst, some post, target :: sub :: pat :: _ =>
      (match post.code with
       | r :: _ => if C08.substOk target sub pat r then none
                   else some ("SUBST must exchange exactly the " ++ toString (C08.countMax target pat) ++ " maximal structural match(es) of the pattern for the substitute (sizes: target " ++ toString target.size ++ ", pattern " ++ toString pat.size ++ ", substitute " ++ toString sub.size ++ ", result " ++ toString r.size ++ ")")
       | [] => some "SUBST emptied the CODE stack")
    | _, _, _ => none
  if substFail.isSome then substFail else
  match i, post with
  | .code .insert, some post =>
    (match pre.int, pre.code with
     | i :: _, top :: x :: _ =>
       if i > 0 && i.toInt.toNat < top.size then
         match post.code with
         | r :: _ => if C08.insertOk top x i.toInt.toNat r then none
                     else some "after INSERT at a valid index EXTRACT does not return the inserted item (or other points changed)"
         | [] => some "INSERT emptied the CODE stack"
       else if i == 0 then
         (match post.code with
          | r :: _ => if Item.equals r x || r.show == x.show then none
                      else some "after INSERT at index 0 EXTRACT at 0 (the whole item) is not the inserted item"
          | [] => some "INSERT emptied the CODE stack")
       else
         -- out of range / negative: EXTRACT normalises the index, INSERT (as pinned by a unit test) does not
         match post.code with
         | r :: _ =>
           (match (C08.pts r)[remEuclid i r.size]? with
            | some q => if Item.equals q x || q.show == x.show then none
                        else some "[K02] INSERT with an out-of-range index is a no-op: a following EXTRACT at the same index does not return the inserted item"
            | none => none)
         | [] => none
     | _, _ => none)
  | .code o, some post =>
    let atoms : Option String :=
      if o == .cons || o == .list || o == .append then
        match pre.code, post.code with
        | top :: second :: _, r :: _ =>
          if C08.keepsAtoms top second r then none
          else some "the result does not consist of exactly the atoms of the two operands"
        | _, _ => none
      else none
    (match atoms with
     | some why => some why
     | none =>
       match C08.expect o pre with
       | some want => if encState post == encState want then none else some ("points-based statement prescribes " ++ encState want)
       | none => none)
  | _, _ => none

/-- C09: the README rule for element-wise operations; SORT yields an ordered permutation -/
def c09Eval : PropEval := fun i pre post =>
  match i, post with
  | .vec t o, some post =>
    let cmp (want : Option State) : Option String := match want with
      | some w => if encState post == encState w then none
                  else some ("README rule (overlapping positions only) prescribes " ++ encState w)
      | none => none
    (match t, o with
     | .b, .and => cmp (C09.elementwiseSpec Lens.bvec pre (· && ·))
     | .b, .or => cmp (C09.elementwiseSpec Lens.bvec pre (· || ·))
     | .i, .add => cmp (C09.elementwiseSpec Lens.ivec pre (· + ·))
     | .i, .sub => cmp (C09.elementwiseSpec Lens.ivec pre (· - ·))
     | .f, .add => cmp (C09.elementwiseSpec Lens.fvec pre (· + ·))
     | .f, .sub => cmp (C09.elementwiseSpec Lens.fvec pre (· - ·))
     | .f, .mul => cmp (C09.elementwiseSpec Lens.fvec pre (· * ·))
     | .i, .sortAsc | .i, .sortDesc =>
       (match pre.ivec, post.ivec with
        | v :: _, w :: _ =>
          let key (x : Int32) : Nat := (x.toInt + 2147483648).toNat
          let ordered := if o == .sortAsc then C09.isSortedBy (fun a b => decide (a ≤ b)) w
                         else C09.isSortedBy (fun a b => decide (b ≤ a)) w
          if ordered && C09.sameMultiset (v.map key) (w.map key) then none
          else some "SORT must yield an ordered permutation of the vector"
        | _, _ => none)
     | .f, .sortAsc | .f, .sortDesc =>
       (match pre.fvec, post.fvec with
        | v :: _, w :: _ =>
          -- NaNs (whose sign is not observable here) may form a block at either end; the rest is ordered
          let core := (w.dropWhile F32.isNaN).reverse.dropWhile F32.isNaN |>.reverse
          let ordered := !core.any F32.isNaN &&
                         (if o == .sortAsc then C09.isSortedBy (fun a b => decide (totalKey a ≤ totalKey b)) core
                          else C09.isSortedBy (fun a b => decide (totalKey b ≤ totalKey a)) core)
          if ordered && C09.sameMultiset (v.map totalKey) (w.map totalKey) then none
          else some "SORT must yield an ordered permutation of the vector"
        | _, _ => none)
     | .f, .sum | .f, .mean =>
       -- the value is a float fold (rounding depends on the order of additions): what the documentation fixes is the
       -- SHAPE - one FLOAT pushed, the vector left in place, nothing else touched - and, for vectors of small
       -- dyadic numbers (every partial sum exact), the value itself
       (match pre.fvec with
        | v :: _ =>
          let shapeOk := post.float.length == pre.float.length + 1 && encState { post with float := pre.float } == encState pre
          if !shapeOk then some ("FLOATVECTOR." ++ (if o == .sum then "SUM" else "MEAN") ++ " must push exactly one FLOAT and leave everything else as it is")
          else
            let small := v.all fun x => x.isFinite && (x * 4).toInt32.toFloat32 == x * 4 && Float32.abs x < 65536
            if small && o == .sum then
              let exact : Int := (v.map fun x => (x * 4).toInt32.toInt).sum
              (match post.float with
               | r :: _ => if (r * 4).toInt32.toInt == exact && r.isFinite then none
                           else some "FLOATVECTOR.SUM of exactly summable elements must be their sum"
               | [] => none)
            else none
        | [] => none)
     | _, _ =>
       -- every other non-random vector instruction: the closed form of Spec/C09 (length + every element)
       (match C09.vecExpect t o pre with
        | some w => if encState post == encState w then none
                    else some ("the documented result is " ++ encState w)
        | none => none))
  | _, _ => none

/-- the n-th point of `item` with the shallow type of `pat`, depth-first (C19 statement) -/
def nthHit (pat item : Item) (n : Int32) : Option Item :=
  if n < 0 then none else ((Item.points item).filter fun q => Item.shallowEq pat q)[n.toInt.toNat]?

/-- fold of the id vector, written as a plain recursion over the ids (declarative restatement) -/
def takeByIds : List Int32 → State → List Item × State
  | [], s => ([], s)
  | sid :: ids, s => match popById s sid with
    | some (it, s') => let (r, s'') := takeByIds ids s'; (it :: r, s'')
    | none => takeByIds ids s

/-- C19: LIST.* against the record statements -/
def c19Eval : PropEval := fun i pre post =>
  match i, post with
  | .list o, some post =>
    let cmp (w : State) : Option String :=
      if encState post == encState w then none else some ("record statement prescribes " ++ encState w)
    (match o, pre.int with
     | .bval, n :: idx :: il =>
       let s1 := { pre with int := il }
       (match (s1.code[clampIdx s1.code.length idx]? : Option Item) with
        | some it => cmp (pushBool s1 (match nthHit (.lit (.bool false)) it n with
            | some (.lit (.bool b)) => b
            | _ => false))
        | none => cmp s1)
     | .ival, n :: idx :: il =>
       let s1 := { pre with int := il }
       (match (s1.code[clampIdx s1.code.length idx]? : Option Item) with
        | some it => cmp (pushInt s1 (match nthHit (.lit (.int 0)) it n with
            | some (.lit (.int v)) => v
            | _ => 0))
        | none => cmp s1)
     | .fval, n :: idx :: il =>
       let s1 := { pre with int := il }
       (match (s1.code[clampIdx s1.code.length idx]? : Option Item) with
        | some it => cmp (pushFloat s1 (match nthHit (.lit (.float 0)) it n with
            | some (.lit (.float v)) => v
            | _ => 0))
        | none => cmp s1)
     | .add, _ =>
       (match pre.ivec with
        | ids :: l =>
          let (items, s') := takeByIds ids { pre with ivec := l }
          -- exactly the designated items, one record, last taken item on top
          cmp (pushCode s' (.list items.reverse))
        | [] => cmp pre)
     | .remove, idx :: il =>
       let s1 := { pre with int := il }
       cmp { s1 with code := s1.code.eraseIdx (clampIdx s1.code.length idx) }
     | .get, idx :: il =>
       let s1 := { pre with int := il }
       (match (s1.code[clampIdx s1.code.length idx]? : Option Item) with
        | some (.list xs) => cmp { s1 with exec := .list xs :: s1.exec }
        | _ => cmp s1)
     | .set, idx :: il =>
       let s1 := { pre with int := il }
       (match s1.ivec with
        | ids :: l =>
          let (items, s') := takeByIds ids { s1 with ivec := l }
          if s'.code.isEmpty then cmp s'
          else cmp { s' with code := s'.code.set (clampIdx s'.code.length idx) (.list items.reverse) }
        | [] => cmp s1)
     | _, _ => none)
  | _, _ => none

/-- the contents of a field as canonical strings (stacks top first) -/
def fieldItems (f : C10.Field) (s : State) : List String :=
  match f with
  | .bool => s.bool.map encBool | .int => s.int.map encI32 | .float => s.float.map encF32
  | .name => s.name.map encName | .code => s.code.map encItem | .exec => s.exec.map encItem
  | .index => s.index.map fun (c, d) => toString c ++ "/" ++ toString d
  | .bvec => s.bvec.map encBv | .ivec => s.ivec.map encIv | .fvec => s.fvec.map encFv
  | .input => [encBuf encMsg s.input] | .output => [encBuf encMsg s.output] | .graph => [encBuf encGraph s.graph]
  | .bindings => s.bindings.map fun (k, v) => encName k ++ "=" ++ encItem v
  | .quote => [encBool s.quote] | .send => [encBool s.send] | .cfg => [encCfg s.cfg]

def isStackField : C10.Field → Bool
  | .bool | .int | .float | .name | .code | .exec | .index | .bvec | .ivec | .fvec => true
  | _ => false

def fieldName : C10.Field → String
  | .bool => "BOOLEAN" | .int => "INTEGER" | .float => "FLOAT" | .name => "NAME" | .code => "CODE" | .exec => "EXEC"
  | .index => "INDEX" | .bvec => "BOOLVECTOR" | .ivec => "INTVECTOR" | .fvec => "FLOATVECTOR" | .input => "INPUT"
  | .output => "OUTPUT" | .graph => "GRAPH" | .bindings => "bindings" | .quote => "quote flag" | .send => "send flag" | .cfg => "configuration"

/-- C18: a history query at depth `pos` reads what the plain query reads once the `pos` newer
snapshots are set aside (stated only where the operands are complete and the depth exists) -/
def c18Eval : PropEval := fun i pre post =>
  match i, post with
  | .graph o, some post =>
    -- predecessor / successor / neighbour queries against the plain edge SET of the top graph
    let setQuery : Option String :=
      if o == .nodePredecessors || o == .nodeSuccessors || o == .nodeNeighbors then
        match graphAt pre 0, pre.ivec, pre.int with
        | some g, states :: ivl, id :: _ =>
          if id > 0 then
            let n := id.toInt.toNat
            let E : List (Nat × Nat) := g.edges.flatMap fun (d, l) => l.map fun e => (e.origin, d)
            let ok (x : Nat) : Bool := match g.getState x with
              | some st => states.isEmpty || states.contains st
              | none => false
            let preds := (E.filter fun (o', d) => d == n && ok o').map (·.1)
            let succs := (E.filter fun (o', d) => o' == n && ok d).map (·.2)
            let want := match o with
              | .nodePredecessors => preds
              | .nodeSuccessors => succs
              | _ => preds ++ succs
            let norm (l : List Nat) : List Nat := (l.mergeSort (· ≤ ·)).eraseDups
            (match post.ivec with
             | got :: rest =>
               if rest.length == ivl.length && norm (got.map fun x => x.toInt.toNat) == norm want then none
               else some ("the query must return exactly the node set of the edge-set model: " ++ toString (norm want))
             | [] => some "the query pushed no result")
          else none
        | _, _, _ => none
      else none
    match setQuery with
    | some why => some why
    | none =>
    let plain : Option GraphOp := match o with
      | .edgeHistory => if pre.int.length ≥ 3 then some .edgeGetWeight else none
      | .nodeHistory => if pre.int.length ≥ 2 then some .nodeGetState else none
      | .nodesHistory => if pre.ivec.isEmpty then none else some .nodes
      | _ => none
    (match plain, pre.int with
     | some q, pos :: il =>
       if pos ≥ 0 && pos.toInt.toNat < pre.graph.items.length then
         let below : State := { pre with int := il, graph := { pre.graph with items := pre.graph.items.take (pre.graph.items.length - pos.toInt.toNat) } }   -- items are oldest first
         let want := { semGraph q below with graph := pre.graph }
         if encState (canon i pre post) == encState (canon i pre want) then none
         else some ("a history query at depth " ++ toString pos ++ " must read the snapshot at that depth: " ++ encState want)
       else none
     | _, _ => none)
  | _, _ => none

/-- C20: LIST.NEIGHBOR*IDS returns exactly the indices within the (clamped) Euclidean radius on the smallest
enclosing hypercube, in ascending order, the centre included -/
def c20Eval : PropEval := fun i pre post =>
  match i, post with
  | .list .nbIds, some post =>
    (match pre.int, pre.float with
     | size :: index :: dims :: _, r :: _ =>
       let sz := (max size.toInt 0).toNat
       let ix := (max (min (size.toInt - 1) index.toInt) 0).toNat
       let nd := (max (min size.toInt dims.toInt) 0).toNat
       -- `f32::max(radius, 0.0)`: a negative or NaN radius counts as 0
       let rad : Float32 := if r > 0 then r else 0
       if sz ≥ 1 && nd ≥ 1 && sz ≤ 5000 then
         let e := Topo.ceilRoot sz nd
         if e ^ (nd - 1) < 18446744073709551616 then
           let c := Topo.digits ix e nd
           let want := (List.range sz).filter fun j => Topo.withinF rad (Topo.dist2 c (Topo.digits j e nd))
           (match post.ivec with
            | got :: _ =>
              if post.ivec.length == pre.ivec.length + 1 && got == want.map lenI32 then none
              else some ("the neighbourhood must be the indices within the radius around the centre on the smallest hypercube (edge " ++ toString e ++ "): " ++ toString want)
            | [] => some "no neighbourhood was pushed")
         else none
       else none
     | _, _ => none)
  -- the three VALS instructions: the addressed values of the records that exist at the neighbourhood's CODE-stack
  -- positions. The geometry is that of the REQUESTED size (the size operand is clamped to >= 0 only, never to the
  -- number of records); positions without a record are skipped.
  | .list op, some post =>
    if op != .nbBvals && op != .nbIvals && op != .nbFvals then none else
    (match pre.int, pre.float with
     | pos :: size :: index :: dims :: _, r :: _ =>
       let sz := (max size.toInt 0).toNat
       let ix := (max (min (size.toInt - 1) index.toInt) 0).toNat
       let nd := (max (min size.toInt dims.toInt) 0).toNat
       let rad : Float32 := if r > 0 then r else 0
       if sz ≥ 1 && nd ≥ 1 && sz ≤ 5000 then
         let e := Topo.ceilRoot sz nd
         if e ^ (nd - 1) < 18446744073709551616 then
           let c := Topo.digits ix e nd
           let ns := (List.range sz).filter fun j => Topo.withinF rad (Topo.dist2 c (Topo.digits j e nd))
           let recs := ns.filterMap fun n => pre.code[n]?
           let ok := match op with
             | .nbBvals => post.bvec.length == pre.bvec.length + 1 && post.bvec.head? == some (recs.map fun it => bvalOf it pos)
             | .nbIvals => post.ivec.length == pre.ivec.length + 1 && post.ivec.head? == some (recs.map fun it => ivalOf it pos)
             | _ => post.fvec.length == pre.fvec.length + 1 &&
                    (match post.fvec.head? with
                     | some got => encLit (.fvec got) == encLit (.fvec (recs.map fun it => fvalOf it pos))
                     | none => false)
           if ok then none
           else some ("the values must be those of the records at the CODE positions " ++ toString (ns.filter (· < pre.code.length)) ++
                      " (neighbourhood " ++ toString ns ++ " of centre " ++ toString ix ++ " among " ++ toString sz ++ " on edge " ++ toString e ++ ")")
         else none
       else none
     | _, _ => none)
  | _, _ => none

/-- C17: the INPUT / OUTPUT instructions on the queues seen as plain bounded sequences (oldest first) -/
def c17Eval : PropEval := fun i pre post =>
  match i, post with
  | .io .outWrite, some post =>
    (match pre.bvec, pre.ivec with
     | body :: _, header :: _ =>
       let items := pre.output.items
       let want := if items.length < pre.output.cap then items ++ [(⟨header, body⟩ : Msg)] else items
       if encBuf encMsg { pre.output with items := want } == encBuf encMsg post.output then none
       else some "OUTPUT.WRITE must append the message behind the queued ones, or be ignored when the queue is full"
     | _, _ => none)
  | .io .next, some post =>
    if encBuf encMsg { pre.input with items := pre.input.items.tail } == encBuf encMsg post.input then none
    else some "INPUT.NEXT must drop exactly the oldest message"
  | .io .read, some post =>
    (match pre.input.items with
     | m :: _ =>
       if encBuf encMsg pre.input == encBuf encMsg post.input &&
          post.bvec.head? == some m.body && post.ivec.head? == some m.header &&
          post.bvec.length == pre.bvec.length + 1 && post.ivec.length == pre.ivec.length + 1 then none
       else some "INPUT.READ must copy body and header of the OLDEST message and leave the queue as it is"
     | [] => none)
  | _, _ => none

/-- C10: missing arguments never fabricate results; instructions touch only their stacks -/
def c10Eval : PropEval := fun i pre post =>
  match post with
  | none => none
  | some post =>
    let fp := C10.footprint i
    -- frame
    match C10.Field.all.find? (fun f => !fp.contains f && fieldItems f pre != fieldItems f post) with
    | some f => some (i.str ++ " changed " ++ fieldName f ++ ", which is outside its documented operands and results")
    | none =>
      if C10.operandsMet i pre && !(C10.guardFails i pre || C10.randGuardFails i pre) then none
      else
        -- an operand is missing: nothing may be pushed or created
        match C10.Field.all.find? (fun f =>
            let a := fieldItems f pre
            let b := fieldItems f post
            if isStackField f then !(b.length ≤ a.length && a.drop (a.length - b.length) == b) else a != b) with
        | some f => some (i.str ++ (if C10.operandsMet i pre then " met a failing documented guard (zero divisor; size, range or parameter of a RAND instruction) but " else " lacks an operand but ") ++ fieldName f ++ " was not merely popped")
        | none => none

/-- C15: one step may grow the state only by a modest function of its size -/
def c15Eval : PropEval := fun i pre post =>
  match post with
  | some post =>
    let w := C15.weight pre
    let w' := C15.weight post
    if w' ≤ C15.growthBound i w then none
    else if i == .code .rand &&
        (match pre.int with
         | n :: _ => w' + 1 > w + max (C15.randLimit pre n) 1      -- theorem C15.coderand_growth, exactly
         | [] => true) then
      -- NOT the recorded finding K05 (work sized by the operand INSIDE the configured maximum): the item is larger
      -- than min(|operand|, |configured maximum|) points allow
      some ("CODE.RAND grew the state from weight " ++ toString w ++ " to " ++ toString w' ++
        " although min(|operand|, |max_points_in_random_expressions|) bounds the item")
    else if C15.sizeOperand i then
      some ("[K05] the work of " ++ i.str ++ " is sized by an INTEGER operand: state weight " ++ toString w ++ " -> " ++ toString w')
    else some ("state weight " ++ toString w ++ " -> " ++ toString w' ++ " in one step")
  | none => none

def propEvals : List (String × PropEval) :=
  [("C01", panicFree), ("C04", c04Eval), ("C05", c05Eval), ("C06", c06Eval), ("C07", c07Eval), ("C08", c08Eval),
   ("C09", c09Eval), ("C19", c19Eval), ("C15", c15Eval), ("C10", c10Eval), ("C18", c18Eval), ("C20", c20Eval), ("C17", c17Eval)]

/-- instruction names in the scope of a property's single-instruction scenario -/
def scopeOf (pid : String) : List Instr :=
  match pid with
  | "C04" => Instr.all.filter C04.inTable
  | "C19" => [.list .add, .list .bval, .list .fval, .list .get, .list .ival, .list .remove, .list .set]
  | "C09" => Instr.all.filter fun i => match i with
    | .vec _ .rand => false
    | .vec _ .loop => false
    | .vec _ _ => true
    | _ => false
  | "C08" => [.code .size, .code .extract, .code .insert, .code .position, .code .container, .code .subst,
              .code .car, .code .cdr, .code .cons, .code .list, .code .length, .code .nth, .code .null,
              .code .atom, .code .member, .code .contains, .code .eq, .code .discrepancy, .code .append]
  | "C06" => [.exec .if_, .code .if_, .exec .k, .exec .s, .exec .y, .stk .exec .dup, .code .do_, .code .dostar,
              .code .quote, .exec .loop, .code .loop, .vec .i .loop, .index .current, .index .define,
              .index .destination, .index .flush, .index .increase, .index .pop]
  | "C07" => Instr.all.filter fun i => match i with
    | .define _ | .code .definition | .stk .name _ => true
    | .name o => o != .rand && o != .randbound
    | _ => false
  | "C05" => Instr.all.filter fun i => match i with
    | .stk _ .id => false
    | .stk _ _ => true
    | _ => false
  | "C17" => Instr.all.filter fun i => match i with
    | .io _ => true
    | _ => false
  | "C18" => Instr.all.filter fun i => match i with
    | .graph _ => true
    | _ => false
  | "C20" => [.list .nbIds, .list .nbBvals, .list .nbIvals, .list .nbFvals]
  | "C12" => [.code .rand]
  | "C13" => Instr.all.filter fun i => isRand i && i != .code .rand
  | "C16" | "C03" | "C11" => []
  | _ => Instr.all

def evalProps (i : Instr) (pre : State) (post : Option State) : String :=
  String.join (propEvals.filterMap fun (id, f) =>
    match f i pre post with
    | some why => some (" PROPFAIL " ++ id ++ " " ++ why)
    | none => none)

/-- verdict for one observed execution of instruction `i` from `pre` (`obs = none`: it panicked) -/
def judge (i : Instr) (pre : State) (obs : Option State) (shown : State) : String :=
  let pf := evalProps i pre obs
  if isRand i then
    let rf := match obs with
      | some o => match RandDrv.check i pre o with
        | some why => " PROPFAIL " ++ (if i == .code .rand then "C12 " else "C13 ") ++ why
        | none => ""
      | none => " PROPFAIL " ++ (if i == .code .rand then "C12 " else "C13 ") ++ "the instruction crashed (panic) instead of producing a value or nothing"
    if pf == "" && rf == "" then "ok R" else "no" ++ pf ++ rf
  else
    let m := canon i pre (sem fullExt zeroOracle i pre)
    let ms := encState m
    let os := match obs with
      | some o => encState (canon i pre o)
      | none => "PANIC"
    let mm := if ms == os then "" else " MISMATCH model= " ++ ms
    if mm == "" && pf == "" then (if os == encState shown then "ok T" else "ok N") else "no" ++ mm ++ pf

def decObs (post : Sx) : Option (Option State) :=
  match post with
  | .atom "PANIC" => some none
  | p => (decState p).map some

/-- `( growth PRE STEPS FINAL NEXTID )`: a program stepped STEPS times; no CODE / EXEC item may exceed
the configured maximum number of points in a program -/
def handleGrowth : List Sx → String
  | [pre, n, fin, nid] =>
    match decState pre, decNat n, decObs fin, decNat nid with
    | some pre, some n, some obs, some nid =>
      let pre := { pre with nextId := nid }
      let m := stepN fullExt zeroOracle n pre
      (match obs with
       | none => "no MISMATCH model= (no panic) PROPFAIL C01 implementation panicked"
       | some o =>
         let mm := if encState m == encState o then "" else " MISMATCH model= " ++ encState m
         let lim := pre.cfg.maxPointsProg.toInt.toNat
         let pf := if C15.maxItem o ≤ lim then ""
           else " PROPFAIL C15 [K06] an item with " ++ toString (C15.maxItem o) ++ " points after " ++ toString n ++ " steps; max_points_in_program = " ++ toString lim
         if mm == "" && pf == "" then "ok N" else "no" ++ mm ++ pf)
    | _, _, _, _ => "bad state"
  | _ => "bad shape"

/-- `( exec NAME PRE POST|PANIC NEXTID )` -/
def handleExec : List Sx → String
  | [.atom name, pre, post, nid] =>
    match decState pre, decNat nid, decObs post with
    | some pre, some nid, some obs =>
      let pre := { pre with nextId := nid }
      judge (Instr.ofName name) pre obs pre
    | _, _, _ => "bad state"
  | _ => "bad shape"

/-- `( unreg NAME PRE POST|PANIC NEXTID )`: one of the two instruction functions the crate ships unregistered
(`INTVECTOR.*`, `INTVECTOR./`), registered by the harness with the public `InstructionSet::add` -/
def handleUnreg : List Sx → String
  | [.atom name, pre, post, nid] =>
    match decState pre, decNat nid, decObs post with
    | some pre, some nid, some obs =>
      let pre := { pre with nextId := nid }
      let m := if name == "INTVECTOR.*" then semIntVecMul pre
        else if name == "INPUT.FLUSH" then semInputFlush pre else semIntVecDiv pre
      let ms := encState m
      let os := match obs with
        | some o => encState o
        | none => "PANIC"
      let mm := if ms == os then "" else " MISMATCH model= " ++ ms
      -- the README rule, evaluated on the implementation's outcome (independent of the loop of the model)
      let pf := match obs with
        | none => " PROPFAIL C01 implementation panicked PROPFAIL C09 " ++ name ++ " crashed instead of producing the documented vector or nothing"
        | some o =>
          if name == "INPUT.FLUSH" then
            (if o.input.items.isEmpty && encState { o with input := pre.input } == encState pre then ""
             else " PROPFAIL C17 INPUT.FLUSH must empty the INPUT queue and touch nothing else")
          else
          (match pre.ivec, pre.int with
           | top :: second :: l, off :: _ =>
             let zeroUsed := top.zipIdx.any fun (t, i) =>
               let j : Int := (i : Int) + off.toInt
               0 ≤ j && j.toNat < second.length && t == 0
             let want : List (List Int32) :=
               if name == "INTVECTOR.*" then overlapSpec (· * ·) second top off.toInt :: l
               else if zeroUsed then l else overlapSpec (· / ·) second top off.toInt :: l
             if o.ivec == want then "" else " PROPFAIL C09 " ++ name ++ " must follow the README overlap rule (a used zero divisor: no result)"
           | _, _ => "")
      if mm == "" && pf == "" then (if os == encState pre then "ok T" else "ok N") else "no" ++ mm ++ pf
    | _, _, _ => "bad state"
  | _ => "bad shape"

/-- `( step PRE DONE POST|PANIC NEXTID )` -/
def handleStep : List Sx → String
  | [pre, done, post, nid] =>
    match decState pre, decBool done, decObs post, decNat nid with
    | some pre, some done, some obs, some nid =>
      let pre := { pre with nextId := nid }
      match pre.exec with
      | .instr i :: e =>
        if done then "no MISMATCH model= F (step reported an empty EXEC stack)"
        else judge i { pre with exec := e } obs pre
      | _ =>
        let (d, m) := step fullExt zeroOracle pre
        let ms := encBool d ++ " " ++ encState m
        let os := match obs with
          | some o => encBool done ++ " " ++ encState o
          | none => "PANIC"
        -- a literal / name / list step is not an instruction: only the instruction-independent statements apply
        let pf0 := String.join ((propEvals.filter fun (id, _) => id == "C01" || id == "C15").filterMap fun (id, f) =>
          match f .noop pre obs with
          | some why => some (" PROPFAIL " ++ id ++ " " ++ why)
          | none => none)
        let pf1 := match pre.exec, obs with
          | .ident n :: e, some o =>
            if encState o == encState (C07.identStep pre n e) then ""
            else " PROPFAIL C07 name step must yield " ++ encState (C07.identStep pre n e) ++
              -- a bound LIST is code to be executed: the name step pushes the list itself, the next step unpacks it
              -- first element on top (C06: executing a list runs its elements left to right)
              (match (if pre.quote then none else bindLookup n pre.bindings) with
               | some (.list _) => " PROPFAIL C06 a name bound to a list must push that list on EXEC, to be executed left to right by the following steps"
               | _ => "")
          | .list xs :: e, some o =>
            if encState o == encState { pre with exec := xs ++ e } then "" else " PROPFAIL C06 a list must be unpacked first element on top"
          | _, _ => ""
        let pf := pf0 ++ pf1
        let mm := if ms == os then "" else " MISMATCH model= " ++ ms
        if mm == "" && pf == "" then (if d then "ok T" else "ok N") else "no" ++ mm ++ pf
    | _, _, _, _ => "bad state"
  | _ => "bad shape"

end ExecDrv
