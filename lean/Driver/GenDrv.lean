import Driver.Codec
import Pushr.Random
/-! C12 / C13 requests: outputs of the real generators, checked against the documented postconditions
(the oracle cannot be injected into `thread_rng`, so the tie is membership, not equality). -/
open Pushr Codec Pushr.Rand

namespace GenDrv

partial def leaves : Item → List Item
  | .list xs => xs.flatMap leaves
  | t => [t]

def leafOk (kind : String) (one : String) (bound : List String) (pnewZero : Bool) : Item → Option String
  | .instr i =>
    if kind == "empty" then (if i == .noop then none else some "instruction leaf although the list is empty")
    else if kind == "one" then (if i.str == one then none else some ("instruction " ++ i.str ++ " not in the supplied list"))
    else (if i.isRegistered then none else some ("instruction " ++ i.str ++ " not in the supplied list"))
  | .lit (.bool _) => none
  | .lit (.int _) => none
  | .lit (.float f) => if f ≥ 0 && f < 1 then none else some "float leaf outside [0,1)"
  | .ident n => if pnewZero && !bound.isEmpty && !bound.contains n then some ("name " ++ n ++ " is not bound although no new name may be drawn") else none
  | .lit _ => some "vector / index / graph literal as a leaf"
  | .list _ => none

def checkItem (kind one : String) (bound : List String) (pnewZero : Bool) (it : Item) : Option String :=
  (leaves it).findSome? (leafOk kind one bound pnewZero)

def fail (id why : String) : String := "no PROPFAIL " ++ id ++ " " ++ why

def handle : List Sx → String
  | [.atom "size", n, .atom kind, .atom one, .list bound, pz, res] =>
    (match decNat n, bound.mapM decName, decBool pz with
     | some n, some bound, some pz =>
       (match res with
        | .atom "PANIC" => fail "C12" "random_code_with_size panicked" ++ " PROPFAIL C01 implementation panicked"
        | r => match decItem r with
          | some it =>
            if it.size != n then fail "C12" ("requested " ++ toString n ++ " points, got " ++ toString it.size)
            else match checkItem kind one bound pz it with
              | some why => fail "C12" why
              | none => "ok N"
          | none => "bad item")
     | _, _, _ => "bad args")
  | [.atom "bound", m, .atom kind, .atom one, .list bound, pz, res] =>
    (match decNat m, bound.mapM decName, decBool pz with
     | some m, some bound, some pz =>
       (match res with
        | .atom "PANIC" => fail "C12" "random_code panicked" ++ " PROPFAIL C01 implementation panicked"
        | .atom "none" => if m < 2 then "ok T" else fail "C12" ("no code for bound " ++ toString m)
        | r => match decItem r with
          | some it =>
            if m < 2 then fail "C12" "code although the bound is below 2"
            else if !(1 ≤ it.size && it.size ≤ m - 1) then fail "C12" ("bound " ++ toString m ++ ", got " ++ toString it.size ++ " points")
            else match checkItem kind one bound pz it with
              | some why => fail "C12" why
              | none => "ok N"
          | none => "bad item")
     | _, _, _ => "bad args")
  | [.atom "decompose", n, .list parts] =>
    (match decNat n, parts.mapM decNat with
     | some n, some ps =>
       if ps.sum != n then fail "C12" ("parts sum to " ++ toString ps.sum ++ ", requested " ++ toString n)
       else if !ps.all (· ≥ 1) then fail "C12" "non-positive part"
       else "ok N"
     | _, _ => "bad args")
  | [.atom "boolvec", size, sp, res] =>
    (match decInt size, decF32 sp with
     | some size, some sp =>
       let valid := !(size < 0) && (sp ≥ 0 && sp ≤ 1)
       (match res with
        | .atom "PANIC" => fail "C13" "random_bool_vector panicked" ++ " PROPFAIL C01 implementation panicked"
        | .atom "none" => if valid then fail "C13" "no vector for valid parameters" else "ok T"
        | r => match decBv r with
          | some v =>
            if !valid then fail "C13" "a vector for invalid parameters (negative size, sparsity outside [0,1] or NaN)"
            else
              let dflt := sp > 0.5
              let k := activeBits size sp
              let n := size.toInt.toNat
              let trues := (v.filter id).length
              if v.length != n then fail "C13" "wrong length"
              else if (v.filter (· != dflt)).length != k then fail "C13" ("non-default bits " ++ toString (v.filter (· != dflt)).length ++ ", documented rounding gives " ++ toString k)
              else if (Float32.ofNat trues - sp * Float32.ofNat n).abs > 1 + Float32.ofNat n / 200 then fail "C13" "TRUE share is not the requested sparsity"
              else "ok N"
          | none => "bad vector")
     | _, _ => "bad args")
  | [.atom "boolhist", size, _sp, draws, .list counts] =>
    (match decNat size, decNat draws, counts.mapM decNat with
     | some _, some _, some cs => if cs.all (· > 0) then "ok N" else fail "C13" ("a position never became non-default: " ++ toString cs)
     | _, _, _ => "bad args")
  | [.atom "intvec", size, mn, mx, res] =>
    (match decInt size, decInt mn, decInt mx with
     | some size, some mn, some mx =>
       let valid := !(size < 0) && mn < mx
       (match res with
        | .atom "PANIC" => fail "C13" "random_int_vector panicked" ++ " PROPFAIL C01 implementation panicked"
        | .atom "none" => if valid then fail "C13" "no vector for valid parameters" else "ok T"
        | r => match decIv r with
          | some v =>
            if !valid then fail "C13" "a vector for invalid parameters"
            else if v.length != size.toInt.toNat then fail "C13" "wrong length"
            else if !(v.all fun x => mn ≤ x && x < mx) then fail "C13" "element outside [min, max)"
            else "ok N"
          | none => "bad vector")
     | _, _, _ => "bad args")
  | [.atom "floatvec", size, mean, sd, res] =>
    (match decInt size, decF32 mean, decF32 sd with
     | some size, some _, some sd =>
       let valid := !(size < 0) && !(sd < 0) && sd.isFinite
       (match res with
        | .atom "PANIC" => fail "C13" "random_float_vector panicked" ++ " PROPFAIL C01 implementation panicked"
        | .atom "none" => if valid then fail "C13" "no vector for valid parameters" else "ok T"
        | r => match decFv r with
          | some v =>
            if !valid then fail "C13" "a vector for invalid parameters (negative size, negative or non-finite deviation)"
            else if v.length != size.toInt.toNat then fail "C13" "wrong length"
            else "ok N"
          | none => "bad vector")
     | _, _, _ => "bad args")
  | _ => "bad shape"

end GenDrv
