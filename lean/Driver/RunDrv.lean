import Driver.ExecDrv
/-! C02 requests: one whole `run`, with the implementation's own outcome / final state and the
independent accounting done by hand with repeated `step` calls on an identical second state. -/
open Pushr Codec

namespace RunDrv

def outcomeStr : Outcome → String
  | .noErrors => "noErrors" | .stepLimit => "stepLimit" | .timeLimit => "timeLimit" | .growthCap => "growthCap"

/-- `( run PRE OUTCOME POST OUTCOME2 K2 POST2 NID )` -/
def handle : List Sx → String
  | [pre, .atom "PANIC", _, _, _, _, _] =>
    match decState pre with
    | some _ => "no MISMATCH model= (no panic) PROPFAIL C01 implementation panicked PROPFAIL C02 run panicked"
    | none => "bad state"
  | [pre, .atom oc, post, .atom oc2, k2, post2, nid] =>
    match decState pre, decState post, decState post2, decNat k2, decNat nid with
    | some pre, some post, some post2, some k2, some nid =>
      let pre := { pre with nextId := nid }
      let (mo, mk, ms) := run fullExt ExecDrv.zeroOracle (fun _ => false) pre
      let ms' := encState ms
      let mm := if outcomeStr mo == oc && ms' == encState post then ""
        else " MISMATCH model= " ++ outcomeStr mo ++ " " ++ toString mk ++ " " ++ ms'
      -- the property, evaluated on what the implementation did
      let L : Int := pre.cfg.evalPushLimit.toInt
      let pf :=
        if oc != oc2 then " PROPFAIL C02 run reports " ++ oc ++ " but stepping by hand gives " ++ oc2 ++ " after " ++ toString k2 ++ " steps"
        else if encState post != encState post2 then " PROPFAIL C02 final state differs from the state reached by " ++ toString k2 ++ " single steps"
        else if (k2 : Int) > L + 1 && L ≥ -1 then " PROPFAIL C02 executed " ++ toString k2 ++ " steps with eval_push_limit " ++ toString L
        else if oc == "noErrors" && !post.exec.isEmpty then " PROPFAIL C02 NoErrors with a non-empty EXEC stack"
        else if oc == "stepLimit" && (k2 : Int) != max (L + 1) 0 then " PROPFAIL C02 StepLimitExceeded after " ++ toString k2 ++ " steps, limit " ++ toString L
        else if mk != k2 && mm == "" then " PROPFAIL C02 step count " ++ toString k2 ++ " differs from the model's " ++ toString mk
        else ""
      if mm == "" && pf == "" then (if k2 > 0 then "ok N" else "ok T") else "no" ++ mm ++ pf
    | _, _, _, _, _ => "bad state"
  | _ => "bad shape"

/-- `( runt PRE OUTCOME POST K2 ELAPSED_US LIMIT_MS NID )`: a run whose wall-clock limit can really be reached.
`K2` is the number of single steps after which an identically built state equals POST (-1: never). The clock of
the model is abstract: the reported run must be the run of SOME clock, namely the one that is past the limit
exactly at iteration `K2` (for TimeLimitExceeded) or never (for the other outcomes). -/
def handleTimed : List Sx → String
  | [pre, .atom "PANIC", _, _, _, _, _, _] =>
    match decState pre with
    | some _ => "no MISMATCH model= (no panic) PROPFAIL C01 implementation panicked PROPFAIL C02 run panicked"
    | none => "bad state"
  | [pre, .atom oc, post, k2, el, lim, nid, late] =>
    match decState pre, decState post, decInt k2, decNat el, decNat lim, decNat nid, decNat late with
    | some pre, some post, some k2, some el, some lim, some nid, some late =>
      let pre := { pre with nextId := nid }
      let k2 : Int := k2.toInt
      let L : Int := pre.cfg.evalPushLimit.toInt
      if k2 < 0 then "no PROPFAIL C02 the state left by run (" ++ oc ++ ") is not reached by single-stepping the same program"
      else
      let k := k2.toNat
      let clock : Nat → Bool := if oc == "timeLimit" then (fun j => j == k) else (fun _ => false)
      let (mo, mk, ms) := run fullExt ExecDrv.zeroOracle clock pre
      let mm := if outcomeStr mo == oc && mk == k && encState ms == encState post then ""
        else " MISMATCH model= " ++ outcomeStr mo ++ " " ++ toString mk ++ " " ++ encState ms
      let pf :=
        if late > lim * 1000 + 60000 then
          " PROPFAIL C02 a step was started " ++ toString late ++ " us after run() began although the wall-clock limit of " ++ toString lim ++ " ms had passed (outcome " ++ oc ++ ")"
        else if oc == "timeLimit" && el < lim * 1000 then
          " PROPFAIL C02 TimeLimitExceeded after " ++ toString el ++ " us, before the limit of " ++ toString lim ++ " ms had passed"
        else if oc == "timeLimit" && (k2 > L) then " PROPFAIL C02 TimeLimitExceeded after the step budget was used up"
        else if oc != "timeLimit" && lim == 0 then " PROPFAIL C02 a run with a time limit of 0 ms reported " ++ oc
        else if oc != "timeLimit" && el > lim * 1000 + 1500000 then
          " PROPFAIL C02 " ++ oc ++ " although the run took " ++ toString el ++ " us under a limit of " ++ toString lim ++ " ms"
        else ""
      if mm == "" && pf == "" then (if k > 0 then "ok N" else "ok T") else "no" ++ mm ++ pf
    | _, _, _, _, _, _, _ => "bad state"
  | _ => "bad shape"

end RunDrv
