import Driver.Codec
import Pushr.Topology
/-! C20 requests: one call of `Topology::find_neighbors`. -/
open Pushr Codec Pushr.Topo

namespace TopoDrv

/-- `( topo NTOTAL NDIM INDEX RADIUS RESULT )`, RESULT = `none` | `( i.. )` | `PANIC` -/
def handle : List Sx → String
  | [nt, nd, ix, r, res] =>
    match decNat nt, decNat nd, decNat ix, decF32 r with
    | some nt, some nd, some ix, some r =>
      let m := findNeighbors (withinF r) (r < 0) nt nd ix
      let enc (o : Option (List Nat)) : String := match o with
        | none => "none"
        | some l => encList (l.map toString)
      let obs := res.toStr
      let mm := if enc m == obs then "" else " MISMATCH model= " ++ enc m
      -- the property, evaluated on the implementation's answer with integer geometry
      let pf := match res with
        | .atom "PANIC" => " PROPFAIL C20 find_neighbors panicked"
        | .list xs =>
          (match xs.mapM decNat with
           | none => " PROPFAIL C20 malformed result"
           | some l =>
             let e := ceilRoot nt nd
             let c := digits ix e nd
             -- (when the model answered, its answer is this very expression: reuse it)
             let want := match m with
               | some w => w
               | none => (List.range nt).filter fun i => withinF r (dist2 c (digits i e nd))
             if ix < nt && withinF r 0 && !l.contains ix then " PROPFAIL C20 the centre is not in its neighbourhood"
             else if !(l.zip l.tail).all (fun (a, b) => a < b) then " PROPFAIL C20 not ascending / repeats"
             else if !l.all (· < nt) then " PROPFAIL C20 invalid index"
             else if l != want then " PROPFAIL C20 not the set of indices within the radius on the smallest hypercube (edge " ++ toString e ++ "): expected " ++ encList (want.map toString)
             else "")
        | _ => ""
      if mm == "" && pf == "" then (if obs == "none" then "ok T" else "ok N") else "no" ++ mm ++ pf
    | _, _, _, _ => "bad args"
  | _ => "bad shape"

end TopoDrv
