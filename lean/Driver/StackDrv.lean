import Driver.Codec
import Pushr.StackImpl
import Pushr.StackSpec
import Pushr.Print
import Pushr.ItemBasic
/-! C16 requests: one observed `PushStack` operation; checked against Layer 0 (as written) and
against Layer 1 (the plain sequence = the property). -/
open Pushr Codec

namespace StackDrv

def encOptItem : Option Item → String
  | none => "none"
  | some x => encItem x
def encOptVec : Option (List Item) → String
  | none => "none"
  | some v => encTag "l" (v.map encItem)
def encOptBool : Option Bool → String
  | none => "none"
  | some b => encBool b

def encStack (l : List Item) : String := encList (l.map encItem)

/-- Layer-0 execution on the Vec representation; `.error` = the model panics -/
def runImpl (pre : List Item) (op : String) (args : List Sx) : Option (Rs (String × List Item)) :=
  let s : PStack Item := ⟨pre.reverse⟩
  let out (r : String) (s' : PStack Item) : Rs (String × List Item) := .ok (r, s'.elements.reverse)
  match op, args with
  | "size", [] => some (out (toString s.size) s)
  | "to_string", [] => some (out (encName (showStack (s.revStrings Item.show))) s)
  | "last_eq", [x] => do let x ← decItem x; some (out (encBool (s.lastEq Item.shallowEq x)) s)
  | "equal_at", [i, x] => do
    let i ← decNat i; let x ← decItem x
    some (do let r ← s.equalAt Item.show i x; out (encOptBool r) s)
  | "bottom", [] => some (out (encOptItem s.bottom) s)
  | "flush", [] => some (out "-" s.flush)
  | "replace", [i, x] => do
    let i ← decNat i; let x ← decItem x
    some (do
      let (r, s') ← s.replace i x
      out (match r with | .ok _ => "ok" | .error k => encTag "err" [toString k]) s')
  | "remove", [i] => do let i ← decNat i; some (do let s' ← s.remove i; out "-" s')
  | "reverse", [] => some (out "-" s.reverse)
  | "get", [i] => do let i ← decNat i; some (do let r ← s.get i; out (encOptItem r) s)
  | "get_mut", [i] => do let i ← decNat i; some (do let r ← s.get i; out (encOptItem r) s)
  | "copy", [i] => do let i ← decNat i; some (do let r ← s.copy i; out (encOptItem r) s)
  | "push", [x] => do let x ← decItem x; some (out "-" (s.push x))
  | "push_front", [x] => do let x ← decItem x; some (do let s' ← s.pushFront x; out "-" s')
  | "yank", [i] => do let i ← decNat i; some (do let s' ← s.yank i; out "-" s')
  | "shove", [i] => do let i ← decNat i; some (do let s' ← s.shove i; out "-" s')
  | "pop_front", [] => some (do let (r, s') ← s.popFront; out (encOptItem r) s')
  | "pop", [] => let (r, s') := s.pop; some (out (encOptItem r) s')
  | "pop_vec", [n] => do let n ← decNat n; some (do let (r, s') ← s.popVec n; out (encOptVec r) s')
  | "copy_vec", [n] => do let n ← decNat n; some (do let r ← s.copyVec n; out (encOptVec r) s)
  | "push_vec", [v] => do let v ← decListOf decItem v; some (out "-" (s.pushVec v))
  | _, _ => none

/-- Layer-1 answer: what a plain sequence with position 0 at the top gives (the property) -/
def runSpec (l : List Item) (op : String) (args : List Sx) : Option (String × List Item) :=
  match op, args with
  | "size", [] => some (toString l.length, l)
  | "to_string", [] => some (encName (showStack (Seq.strings Item.show l)), l)
  | "last_eq", [x] => do let x ← decItem x; some (encBool (Seq.lastEq Item.shallowEq l x), l)
  | "equal_at", [i, x] => do
    let i ← decNat i; let x ← decItem x; some (encOptBool (Seq.equalAt Item.show l i x), l)
  | "bottom", [] => some (encOptItem (Seq.bottom l), l)
  | "flush", [] => some ("-", Seq.flush l)
  | "replace", [i, x] => do
    let i ← decNat i; let x ← decItem x
    let (r, l') := Seq.replace l i x
    some ((match r with | .ok _ => "ok" | .error k => encTag "err" [toString k]), l')
  | "remove", [i] => do let i ← decNat i; some ("-", Seq.remove l i)
  | "reverse", [] => some ("-", Seq.reverse l)
  | "get", [i] => do let i ← decNat i; some (encOptItem (Seq.get l i), l)
  | "get_mut", [i] => do let i ← decNat i; some (encOptItem (Seq.get l i), l)
  | "copy", [i] => do let i ← decNat i; some (encOptItem (Seq.get l i), l)
  | "push", [x] => do let x ← decItem x; some ("-", Seq.push l x)
  | "push_front", [x] => do let x ← decItem x; some ("-", Seq.pushFront l x)
  | "yank", [i] => do let i ← decNat i; some ("-", Seq.yank l i)
  | "shove", [i] => do let i ← decNat i; some ("-", Seq.shove l i)
  | "pop_front", [] => let (r, l') := Seq.popFront l; some (encOptItem r, l')
  | "pop", [] => let (r, l') := Seq.pop l; some (encOptItem r, l')
  | "pop_vec", [n] => do let n ← decNat n; let (r, l') := Seq.popVec l n; some (encOptVec r, l')
  | "copy_vec", [n] => do let n ← decNat n; some (encOptVec (Seq.copyVec l n), l)
  | "push_vec", [v] => do let v ← decListOf decItem v; some ("-", Seq.pushVec l v)
  | _, _ => none

/-- request: `( stackop PRE OP ( args ) RESULT POST )`, RESULT = `PANIC` when the real call unwound -/
def handle : List Sx → String
  | [pre, .atom op, .list args, res, post] =>
    match decListOf decItem pre with
    | none => "bad pre"
    | some pre =>
      match runImpl pre op args, runSpec pre op args with
      | some m, some (sr, sl) =>
        let obsRes := res.toStr
        let obsPost := post.toStr
        let modelStr := match m with
          | .ok (r, l) => r ++ " " ++ encStack l
          | .error _ => "PANIC -"
        let obs := obsRes ++ " " ++ obsPost
        let specStr := sr ++ " " ++ encStack sl
        let mm := if modelStr == obs then "" else " MISMATCH model= " ++ modelStr
        let pf := if specStr == obs then "" else " PROPFAIL C16 expected= " ++ specStr
        let trivial := (obsRes == "none" || obsRes == "-") && obsPost == encStack pre
        if mm == "" && pf == "" then (if trivial then "ok T" else "ok N") else "no" ++ mm ++ pf
      | _, _ => "bad op/args"
  | _ => "bad shape"

end StackDrv
