import Driver.Codec
import Pushr.GraphSem
/-! C18 requests: a sequence of `Graph` API calls on a fresh graph with the observed result and the
observed graph after every call. Layer 0 (`Graph`, two sorted maps as the code keeps them) is run
in lockstep; Layer 1 is a plain set model `(id ⇀ state, (origin, dest) ⇀ weight)`. -/
open Pushr Codec

namespace GraphDrv

/-- the set model -/
structure SG where
  nodes : List (Nat × Int32)
  edges : List (Nat × Nat × Float32)      -- (origin, dest, weight)

def SG.hasNode (g : SG) (id : Nat) : Bool := g.nodes.any (·.1 == id)
def SG.hasEdge (g : SG) (o d : Nat) : Bool := g.edges.any fun e => e.1 == o && e.2.1 == d

def sortNat (l : List Nat) : List Nat := l.mergeSort (· ≤ ·)

/-- canonical text of the set model / of a Layer-0 graph seen as sets -/
def canonSG (g : SG) : String :=
  let ns := (g.nodes.mergeSort fun a b => a.1 ≤ b.1).map fun (a, b) => toString a ++ ":" ++ encI32 b
  let es := (g.edges.mergeSort fun a b => a.2.1 < b.2.1 || (a.2.1 == b.2.1 && a.1 ≤ b.1)).map
    fun (o, d, w) => toString o ++ ">" ++ toString d ++ ":" ++ encF32 w
  String.intercalate "," ns ++ " | " ++ String.intercalate "," es

def toSG (g : Graph) : SG :=
  ⟨g.nodes, g.edges.flatMap fun (d, l) => l.map fun e => (e.origin, d, e.weight)⟩

def encOptI (o : Option Int32) : String := match o with
  | some x => encI32 x
  | none => "none"
def encOptF (o : Option Float32) : String := match o with
  | some x => encF32 x
  | none => "none"

structure St where
  g : Graph
  sg : SG
  snap : Option (Graph × String)     -- snapshot and its canonical text when taken
  ids : List Nat

def argN (a : List Sx) (k : Nat) : Option Nat := (a[k]?).bind decNat
def argI (a : List Sx) (k : Nat) : Option Int32 := (a[k]?).bind decInt
def argF (a : List Sx) (k : Nat) : Option Float32 := (a[k]?).bind decF32

/-- one call: `(model result, model graph, spec result, spec graph)` -/
def stepBoth (st : St) (op : String) (a : List Sx) (res : Sx) : Option (String × String × St) :=
  match op with
  | "add_node" => do
    let state ← argI a 0
    let id ← decNat res
    let fresh := !st.ids.contains id && !st.sg.hasNode id
    let r := if fresh then toString id else "id-not-fresh"
    let sg' : SG := ⟨st.sg.nodes ++ [(id, state)], st.sg.edges⟩
    some (r, r, ⟨st.g.addNode id state, sg', st.snap, id :: st.ids⟩)
  | "remove_node" => do
    let id ← argN a 0
    let sg' : SG := ⟨st.sg.nodes.filter (·.1 != id), st.sg.edges.filter fun e => e.1 != id && e.2.1 != id⟩
    some ("-", "-", ⟨st.g.removeNode id, sg', st.snap, st.ids⟩)
  | "add_edge" => do
    let o ← argN a 0; let d ← argN a 1; let w ← argF a 2
    let sg' : SG := if st.sg.hasNode o && st.sg.hasNode d && !st.sg.hasEdge o d
      then ⟨st.sg.nodes, st.sg.edges ++ [(o, d, w)]⟩ else st.sg
    some ("-", "-", ⟨st.g.addEdge o d w, sg', st.snap, st.ids⟩)
  | "remove_edge" => do
    let o ← argN a 0; let d ← argN a 1
    let sg' : SG := ⟨st.sg.nodes, st.sg.edges.filter fun e => !(e.1 == o && e.2.1 == d)⟩
    some ("-", "-", ⟨st.g.removeEdge o d, sg', st.snap, st.ids⟩)
  | "set_state" => do
    let id ← argN a 0; let s ← argI a 1
    let sg' : SG := ⟨st.sg.nodes.map fun p => if p.1 == id then (id, s) else p, st.sg.edges⟩
    some ("-", "-", ⟨st.g.setState id s, sg', st.snap, st.ids⟩)
  | "set_weight" => do
    let o ← argN a 0; let d ← argN a 1; let w ← argF a 2
    let sg' : SG := ⟨st.sg.nodes, st.sg.edges.map fun e => if e.1 == o && e.2.1 == d then (o, d, w) else e⟩
    some ("-", "-", ⟨st.g.setWeight o d w, sg', st.snap, st.ids⟩)
  | "get_state" => do
    let id ← argN a 0
    some (encOptI (st.g.getState id), encOptI ((st.sg.nodes.find? (·.1 == id)).map (·.2)), st)
  | "get_weight" => do
    let o ← argN a 0; let d ← argN a 1
    some (encOptF (st.g.getWeight o d),
          encOptF ((st.sg.edges.find? fun e => e.1 == o && e.2.1 == d).map (·.2.2)), st)
  | "node_size" => some (toString st.g.nodeSize, toString st.sg.nodes.length, st)
  | "edge_size" => some (toString st.g.edgeSize, toString st.sg.edges.length, st)
  | "filter" => do
    let states ← (a[0]?).bind decIv
    let m := sortNat (st.g.filter states)
    let sp := sortNat (st.sg.nodes.flatMap fun (id, s) =>
      if states.isEmpty then [id] else (states.filter (· == s)).map fun _ => id)
    some (encList (m.map toString), encList (sp.map toString), st)
  | "snapshot" => some ("-", "-", ⟨st.g, st.sg, some (st.g, canonSG (toSG st.g)), st.ids⟩)
  | "diffsnap" =>
    match st.snap with
    | some (old, txt) =>
      -- diff is None exactly when nodes, states, edges and weights agree (weights by IEEE ==)
      let same := old.sameAs st.g
      let specSame := canonSG (toSG old) == canonSG st.sg
        && !(st.sg.edges.any fun e => F32.isNaN e.2.2)
      some (encBool same ++ " " ++ encName txt, encBool specSame ++ " " ++ encName txt, st)
    | none => some ("nosnap", "nosnap", st)
  | _ => none

def walk : List Sx → St → Nat → String
  | [], _, n => "ok N steps=" ++ toString n
  | .list [.atom op, .list a, res, g] :: rest, st, n =>
    match stepBoth st op a res with
    | none => "bad op " ++ op
    | some (mr, sr, st') =>
      let obsRes := match op, res with
        | "diffsnap", .list xs => String.intercalate " " (xs.map Sx.toStr)
        | _, r => r.toStr
      -- add_node: the result is the id itself; both models echo it when fresh
      let obsG := match decGraph g with
        | some og => some (encGraph og, canonSG (toSG og))
        | none => none
      match obsG with
      | none => "bad graph"
      | some (og0, ogs) =>
        let mm := if mr == obsRes && encGraph st'.g == og0 then ""
          else " MISMATCH model= step " ++ toString n ++ " (" ++ op ++ ") " ++ mr ++ " " ++ encGraph st'.g
        let pf := if sr == obsRes && canonSG st'.sg == ogs then ""
          else " PROPFAIL C18 step " ++ toString n ++ " (" ++ op ++ "): set model gives " ++ sr ++ " / " ++ canonSG st'.sg
        -- structural invariant on what the implementation holds
        let inv := match decGraph g with
          | some og =>
            let okEnds := og.edges.all fun (d, l) => og.hasNode d && l.all fun e => og.hasNode e.origin
            let okDup := og.edges.all fun (_, l) => (l.map (·.origin)).eraseDups.length == l.length
            if okEnds && okDup then "" else " PROPFAIL C18 step " ++ toString n ++ ": dangling or duplicate edge in the implementation's graph"
          | none => ""
        if mm == "" && pf == "" && inv == "" then walk rest st' (n + 1) else "no" ++ mm ++ pf ++ inv
  | .list [.atom op, _, .atom "PANIC"] :: _, _, n => "no MISMATCH model= (no panic) PROPFAIL C18 " ++ op ++ " panicked at step " ++ toString n
  | _, _, _ => "bad step shape"

/-- `( graphseq ( steps.. ) )` -/
def handle : List Sx → String
  | [.list steps] => walk steps ⟨Graph.empty, ⟨[], []⟩, none, []⟩ 0
  | _ => "bad shape"

end GraphDrv
