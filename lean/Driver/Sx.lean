/-! S-expressions: the wire format between the Rust harness and the model driver. -/
inductive Sx where
  | atom (s : String)
  | list (xs : List Sx)
  deriving Inhabited, Repr

namespace Sx

partial def parseToks : List String → List Sx → Option (List Sx × List String)
  | [], acc => some (acc.reverse, [])
  | ")" :: rest, acc => some (acc.reverse, ")" :: rest)
  | "(" :: rest, acc =>
    match parseToks rest [] with
    | some (xs, ")" :: rest') => parseToks rest' (.list xs :: acc)
    | _ => none
  | t :: rest, acc => parseToks rest (.atom t :: acc)

/-- parse a whole line into the sequence of top-level S-expressions -/
def parseLine (line : String) : Option (List Sx) :=
  let toks := (line.splitOn " ").filter (· ≠ "")
  match parseToks toks [] with
  | some (xs, []) => some xs
  | _ => none

partial def toStr : Sx → String
  | .atom s => s
  | .list xs => "( " ++ String.intercalate " " (xs.map toStr) ++ (if xs.isEmpty then ")" else " )")

end Sx
