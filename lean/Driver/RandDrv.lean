import Driver.Codec
import Pushr.Full
/-! Relational validation of the oracle-dependent instructions (C12 / C13): the observed post-state
must be the model's post-state up to the random payload, and the payload must satisfy the
documented postcondition. -/
open Pushr Codec

namespace RandDrv

def same (a b : State) : Bool := encState a == encState b

mutual
partial def leavesOk (s : State) : Item → Bool
  | .list xs => xs.all (leavesOk s)
  | .instr i => i.isRegistered
  | .lit (.bool _) => true
  | .lit (.int _) => true
  | .lit (.float f) => f ≥ 0 && f < 1
  | .lit _ => false
  | .ident _ => true
end

/-- `some why` when the observation is not a possible outcome -/
def check (i : Instr) (pre post : State) : Option String :=
  let m := semFull (fun _ => 0) i pre
  let frame (a b : State) : Option String := if same a b then none else some "state differs outside the random payload"
  match i with
  | .boolean .rand =>
    match post.bool with
    | _ :: l => frame { post with bool := l } pre
    | [] => some "nothing pushed"
  | .integer .rand =>
    if pre.cfg.minRandInt < pre.cfg.maxRandInt then
      match post.int with
      | x :: l =>
        if !(pre.cfg.minRandInt ≤ x && x < pre.cfg.maxRandInt) then some "INTEGER.RAND outside [min, max)"
        else frame { post with int := l } pre
      | [] => some "nothing pushed"
    else frame post pre
  | .float .rand =>
    if same m pre then frame post pre
    else match post.float with
      | x :: l =>
        if !(pre.cfg.minRandFloat ≤ x && x < pre.cfg.maxRandFloat) then some "FLOAT.RAND outside [min, max)"
        else frame { post with float := l } pre
      | [] => some "nothing pushed"
  | .name .rand =>
    match post.name with
    | _ :: l => frame { post with name := l } pre
    | [] => some "nothing pushed"
  | .name .randbound =>
    match post.name with
    | x :: l =>
      if !pre.bindings.isEmpty && !(pre.bindings.any (·.1 == x)) then some "RANDBOUNDNAME returned an unbound name"
      else frame { post with name := l } pre
    | [] => some "nothing pushed"
  | .code .rand =>
    match pre.int with
    | [] => frame post pre
    | n :: il =>
      let s1 := { pre with int := il }
      let limit := min (i32Abs n).toInt.natAbs (i32Abs pre.cfg.maxPointsRand).toInt.natAbs
      if limit > 1 then
        match post.code with
        | c :: l =>
          if !(1 ≤ c.size && c.size ≤ limit - 1) then some ("CODE.RAND size " ++ toString c.size ++ " not in [1, " ++ toString (limit - 1) ++ "]")
          else if !leavesOk pre c then some "CODE.RAND leaf not allowed"
          else frame { post with code := l } s1
        | [] => some "nothing pushed"
      else frame post s1
  | .vec .b .rand =>
    if m.bvec.length == pre.bvec.length + 1 then
      match post.bvec, pre.int, pre.float with
      | v :: l, n :: _, sp :: _ =>
        let dflt := sp > 0.5
        let k := Rand.activeBits n sp
        if v.length != n.toInt.toNat then some "BOOLVECTOR.RAND wrong length"
        else if (v.filter (· != dflt)).length != k then some ("BOOLVECTOR.RAND: " ++ toString (v.filter (· != dflt)).length ++ " non-default bits, expected " ++ toString k)
        else frame { post with bvec := l } { m with bvec := m.bvec.tail }
      | _, _, _ => some "nothing pushed"
    else frame post m
  | .vec .i .rand =>
    if m.ivec.length == pre.ivec.length + 1 then
      match post.ivec, pre.int with
      | v :: l, n :: mx :: mn :: _ =>
        if v.length != n.toInt.toNat then some "INTVECTOR.RAND wrong length"
        else if !(v.all fun x => mn ≤ x && x < mx) then some "INTVECTOR.RAND element outside [min, max)"
        else frame { post with ivec := l } { m with ivec := m.ivec.tail }
      | _, _ => some "nothing pushed"
    else frame post m
  | .vec .f .rand =>
    if m.fvec.length == pre.fvec.length + 1 then
      match post.fvec, pre.int with
      | v :: l, n :: _ =>
        if v.length != n.toInt.toNat then some "FLOATVECTOR.RAND wrong length"
        else frame { post with fvec := l } { m with fvec := m.fvec.tail }
      | _, _ => some "nothing pushed"
    else frame post m
  | _ => none

end RandDrv
