import Driver.ExecDrv
import Driver.ParseDrv
import Pushr.Conc
/-! C14 requests. -/
open Pushr Codec

namespace DetDrv

/-- `( detrun PRE ( POST.. ) NID )`: the same run repeated (sequentially, after unrelated runs, on
several threads): all final states must coincide, and equal the model's -/
def handleDet : List Sx → String
  | [pre, .list posts, nid] =>
    match decState pre, decNat nid with
    | some pre, some nid =>
      let pre := { pre with nextId := nid }
      let (_, _, ms) := run fullExt ExecDrv.zeroOracle (fun _ => false) pre
      let m := encState ms
      let ps := posts.map Sx.toStr
      let allSame := match ps with
        | [] => true
        | p :: rest => rest.all (· == p)
      let pf := if allSame then "" else " PROPFAIL C14 repeated / concurrent runs of the same program on the same state end in different states"
      let mm := match posts.head? with
        | some p => (match decState p with
          | some o => if encState o == m then "" else " MISMATCH model= " ++ m
          | none => if p.toStr == "PANIC" then " MISMATCH model= (no panic)" else " bad post")
        | none => ""
      if pf == "" && mm == "" then "ok N" else "no" ++ mm ++ pf
    | _, _ => "bad state"
  | _ => "bad shape"

/-- `( ids COUNT DISTINCT THREADS )` -/
def handleIds : List Sx → String
  | [c, d, _t] =>
    match decNat c, decNat d with
    | some c, some d => if c == d then "ok N" else "no PROPFAIL C14 " ++ toString (c - d) ++ " node ids were handed out twice"
    | _, _ => "bad args"
  | _ => "bad shape"

/-- `( cli n<program> n<exec> n<code> n<int> )`: last printed stacks of the pushr binary -/
def handleCli : List Sx → String
  | [prog, e, c, i] =>
    match decName prog, decName e, decName c, decName i with
    | some prog, some e, some c, some i =>
      let s0 : State := { (default : State) with
        exec := Parse.parseProgram ParseDrv.isInstr [] prog,
        input := ⟨10, []⟩, output := ⟨3, []⟩, graph := ⟨100, []⟩ }
      let s1 := copyToCode s0
      -- main.rs also binds BIN to argv[0]; programs in this scenario do not mention it
      let fin := Conc.cliLoop fullExt ExecDrv.zeroOracle 20000 s1
      let me := showStack (fin.exec.map Item.show)
      let mc := showStack (fin.code.map Item.show)
      let mi := showStack (fin.int.map showI32)
      if me == e && mc == c && mi == i then "ok N"
      else "no MISMATCH model= EXEC[" ++ me ++ "] CODE[" ++ mc ++ "] INT[" ++ mi ++ "] PROPFAIL C14 the command-line front end does not reach the library's final stacks"
    | _, _, _, _ => "bad args"
  | _ => "bad shape"

/-- process-global mutable state the model assumes: exactly the atomic node counter -/
def allowedGlobals : List String :=
  ["graph.rs: static NODE_COUNTER: AtomicUsize = AtomicUsize::new(1);"]

/-- `( srcscan n<finding>.. )`: the inventory of process-global state found in /repo/src -/
def handleScan : List Sx → String
  | fs =>
    match fs.mapM decName with
    | some found =>
      let extra := found.filter fun f => !allowedGlobals.contains f
      let missing := allowedGlobals.filter fun f => !found.contains f
      if extra.isEmpty && missing.isEmpty then "ok N"
      else "no MISMATCH model= assumption (only process-global state: the atomic node counter, one fetch_add) broken; unexpected: "
        ++ toString extra ++ " missing: " ++ toString missing
    | none => "bad args"

end DetDrv
