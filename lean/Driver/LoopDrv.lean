import Driver.ExecDrv
import Pushr.Spec.C06
import Pushr.Spec.C07
/-! C06 requests: a whole loop program run to completion; the final state must be the documented
iteration (`C06.iter`): body executed exactly n times, INDEX.CURRENT = 0 … n-1 in order, no index,
vector or loop code left behind. -/
open Pushr Codec

namespace LoopDrv

def pushCur : Nat → State → State := fun c d => { d with int := lenI32 c :: d.int }

/-- body kinds the harness uses, as state transformers -/
def bodyFn (body : String) (m : Nat) : Nat → State → State :=
  match body with
  | "cur" => pushCur
  | "acc" => fun c d => match d.int with
    | a :: l => { d with int := (a + lenI32 c) :: l }
    | [] => d
  | "nest" => fun _ d => C06.iter pushCur 0 m d
  | _ => fun _ d => d

/-- `( loop KIND BODY N M PRE FINAL NID )` -/
def handle : List Sx → String
  | [.atom kind, .atom body, n, m, pre, fin, nid] =>
    match decNat n, decNat m, decState pre, decState fin, decNat nid with
    | some n, some m, some pre, some fin, some nid =>
      let pre := { pre with nextId := nid }
      -- graph print-outs are not modelled (hash order, float printer): compare them as "?"
      let fin := { fin with name := fin.name.map fun x => if x.startsWith "\nNODES(" then "?" else x }
      -- correspondence: the model run to completion
      let (_, _, ms) := runLoop fullExt ExecDrv.zeroOracle (fun _ => false) 100000 0
        { pre with cfg := { pre.cfg with evalPushLimit := 50000, growthCap := 100000 } }
      let ms := { ms with cfg := pre.cfg }
      let mm := if encState ms == encState fin then "" else " MISMATCH model= " ++ encState ms
      -- the property: documented iteration
      let d0 := { pre with exec := [] }
      let want : State := match kind with
        | "exec" | "code" => C06.iter (bodyFn body m) 0 n d0
        | "ivec" =>
          -- body CODE.FROMINTEGER: every element, in order, moved to the CODE stack
          match pre.exec with
          | .lit (.ivec v) :: _ =>
            if body == "depth" then
              -- body INTVECTOR.STACKDEPTH: every element, in order, each followed by the depth of the INTVECTOR stack
              -- WITHOUT the iterated vector (no vector is left lying around while the body runs)
              { d0 with int := (v.flatMap fun x => [x, lenI32 d0.ivec.length]).reverse ++ d0.int }
            else { d0 with code := (v.map fun x => Item.lit (.int x)).reverse ++ d0.code }
          | _ => d0
        | _ => d0
      let pf := if encState want == encState fin then ""
        else " PROPFAIL C06 " ++ kind ++ " loop: documented final state " ++ encState want
      if mm == "" && pf == "" then (if n > 0 then "ok N" else "ok T") else "no" ++ mm ++ pf
    | _, _, _, _, _ => "bad state"
  | _ => "bad shape"

end LoopDrv
