/-! `Int32` facts used by the scalar proofs. -/
namespace Pushr.L

theorem i32_beq_toInt (a b : Int32) : (a == b) = (a.toInt == b.toInt) := by
  rw [Bool.eq_iff_iff]; simp [Int32.toInt_inj]

theorem i32_beq_zero (a : Int32) : (a == 0) = (a.toInt == 0) := by
  rw [i32_beq_toInt]; rfl

theorem i32_bne_zero (a : Int32) : (a != 0) = !(a.toInt == 0) := by
  simp [bne, i32_beq_zero]

theorem i32_lt_toInt (a b : Int32) : decide (a < b) = decide (a.toInt < b.toInt) := by
  simp [Int32.lt_iff_toInt_lt]

theorem i32_toInt_range (a : Int32) : -2147483648 ≤ a.toInt ∧ a.toInt ≤ 2147483647 := by
  have h1 := a.le_toInt
  have h2 := a.toInt_lt
  constructor <;> omega

end Pushr.L

namespace Pushr.L

@[simp] theorem ofInt_add' (a b : Int32) : Int32.ofInt (a.toInt + b.toInt) = a + b := by
  rw [Int32.ofInt_add, Int32.ofInt_toInt, Int32.ofInt_toInt]
@[simp] theorem ofInt_sub' (a b : Int32) : Int32.ofInt (a.toInt - b.toInt) = a - b := by
  rw [Int32.ofInt_sub, Int32.ofInt_toInt, Int32.ofInt_toInt]
@[simp] theorem ofInt_mul' (a b : Int32) : Int32.ofInt (a.toInt * b.toInt) = a * b := by
  rw [Int32.ofInt_mul, Int32.ofInt_toInt, Int32.ofInt_toInt]

theorem minValue_toInt : Int32.minValue.toInt = -2147483648 := by decide
theorem maxValue_toInt : Int32.maxValue.toInt = 2147483647 := by decide

theorem ofInt_tdiv' (a b : Int32) : Int32.ofInt (Int.tdiv a.toInt b.toInt) = a / b := by
  have ha := i32_toInt_range a
  have hb := i32_toInt_range b
  rw [Int32.ofInt_tdiv (by rw [minValue_toInt]; exact ha.1) (by rw [maxValue_toInt]; exact ha.2)
    (by rw [minValue_toInt]; exact hb.1) (by rw [maxValue_toInt]; exact hb.2),
    Int32.ofInt_toInt, Int32.ofInt_toInt]

theorem ofInt_tmod' (a b : Int32) : Int32.ofInt (Int.tmod a.toInt b.toInt) = a % b := by
  have ha := i32_toInt_range a
  have hb := i32_toInt_range b
  rw [Int32.ofInt_tmod (by rw [minValue_toInt]; exact ha.1) (by rw [maxValue_toInt]; exact ha.2)
    (by rw [minValue_toInt]; exact hb.1) (by rw [maxValue_toInt]; exact hb.2),
    Int32.ofInt_toInt, Int32.ofInt_toInt]

theorem ofInt_max' (a b : Int32) : Int32.ofInt (max a.toInt b.toInt) = if b < a then a else b := by
  by_cases h : b < a
  · have : b.toInt < a.toInt := Int32.lt_iff_toInt_lt.mp h
    rw [if_pos h, Int.max_eq_left (by omega), Int32.ofInt_toInt]
  · have : ¬ b.toInt < a.toInt := fun hh => h (Int32.lt_iff_toInt_lt.mpr hh)
    rw [if_neg h, Int.max_eq_right (by omega), Int32.ofInt_toInt]

theorem ofInt_min' (a b : Int32) : Int32.ofInt (min a.toInt b.toInt) = if b < a then b else a := by
  by_cases h : b < a
  · have : b.toInt < a.toInt := Int32.lt_iff_toInt_lt.mp h
    rw [if_pos h, Int.min_eq_right (by omega), Int32.ofInt_toInt]
  · have : ¬ b.toInt < a.toInt := fun hh => h (Int32.lt_iff_toInt_lt.mpr hh)
    rw [if_neg h, Int.min_eq_left (by omega), Int32.ofInt_toInt]

theorem ofInt_natAbs' (a : Int32) : Int32.ofInt (a.toInt.natAbs : Int) = if a < 0 then -a else a := by
  by_cases h : a < 0
  · have : a.toInt < 0 := by simpa using Int32.lt_iff_toInt_lt.mp h
    rw [if_pos h, show (a.toInt.natAbs : Int) = -a.toInt by omega, Int32.ofInt_neg, Int32.ofInt_toInt]
  · have : ¬ a.toInt < 0 := fun hh => h (Int32.lt_iff_toInt_lt.mpr (by simpa using hh))
    rw [if_neg h, show (a.toInt.natAbs : Int) = a.toInt by omega, Int32.ofInt_toInt]

end Pushr.L
