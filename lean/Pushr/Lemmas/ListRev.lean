/-! List lemmas relating index arithmetic on a reversed list (Vec order vs. stack order). -/
namespace Pushr.L
variable {α : Type}

theorem reverse_eraseIdx (l : List α) (k : Nat) (h : k < l.length) :
    (l.eraseIdx k).reverse = l.reverse.eraseIdx (l.length - (k + 1)) := by
  rw [List.eraseIdx_eq_take_drop_succ, List.eraseIdx_eq_take_drop_succ, List.reverse_append,
    List.reverse_take, List.reverse_drop]
  congr 2 <;> omega

theorem reverse_set (l : List α) (k : Nat) (x : α) (h : k < l.length) :
    (l.set k x).reverse = l.reverse.set (l.length - (k + 1)) x := by
  apply List.ext_getElem?
  intro i
  simp only [List.getElem?_set, List.length_reverse]
  by_cases hi : i < l.length
  · rw [List.getElem?_reverse (by simpa using hi), List.getElem?_reverse hi, List.getElem?_set]
    simp only [List.length_set]
    by_cases hk : l.length - (k+1) = i
    · have h2 : k = l.length - 1 - i := by omega
      rw [if_pos hk, if_pos h2, if_pos h, if_pos (by omega)]
    · have h2 : ¬ k = l.length - 1 - i := by omega
      rw [if_neg hk, if_neg h2]
  · have h1 : (l.set k x).reverse[i]? = none := by
      apply List.getElem?_eq_none; simp; omega
    have h2 : l.reverse[i]? = none := by
      apply List.getElem?_eq_none; simp; omega
    rw [h1, h2]; split <;> simp_all

theorem getElem?_reverse' (l : List α) (i : Nat) (h : i < l.length) :
    l.reverse[i]? = l[l.length - (i + 1)]? := by
  rw [List.getElem?_reverse h]; congr 1; omega

end Pushr.L
