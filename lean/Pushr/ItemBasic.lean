import Pushr.Types
/-! Basic `Item` functions that need no printing: shallow equality (`PartialEq for Item`). -/
namespace Pushr

def Lit.kind : Lit → Nat
  | .bool _ => 0 | .int _ => 1 | .index _ _ => 2 | .float _ => 3 | .bvec _ => 4 | .ivec _ => 5
  | .fvec _ => 6 | .graph _ => 7

/-- `impl PartialEq for Item`: same constructor (and same literal type), values ignored -/
def Item.shallowEq : Item → Item → Bool
  | .list _, .list _ => true
  | .instr _, .instr _ => true
  | .lit a, .lit b => a.kind == b.kind
  | .ident _, .ident _ => true
  | _, _ => false

end Pushr
