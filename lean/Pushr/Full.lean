import Pushr.Interp
import Pushr.Vector
import Pushr.ListRec
import Pushr.GraphSem
import Pushr.Random
/-! The complete instruction semantics: all families plugged into the interpreter. -/
namespace Pushr

def semVec (ρ : Oracle) : VTy → VecOp → State → State
  | .b, o, s => semVecB Rand.randBoolVec ρ o s
  | .i, o, s => semVecI Rand.randIntVec ρ o s
  | .f, o, s => semVecF Rand.randFloatVec ρ o s

/-- `CODE.RAND` draws from the instruction cache, i.e. the registered names -/
def fullExt : Ext :=
  { randCode := fun ρ s limit => Rand.randomCode ρ s Instr.all limit
    vec := semVec
    list := semList
    graph := semGraph }

abbrev semFull (ρ : Oracle) : Instr → State → State := sem fullExt ρ
abbrev stepFull (ρ : Oracle) : State → Bool × State := step fullExt ρ
abbrev runFull (ρ : Oracle) (timeout : Nat → Bool) : State → Outcome × Nat × State := run fullExt ρ timeout

end Pushr
