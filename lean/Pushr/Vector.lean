import Pushr.StateOps
import Pushr.Float
import Pushr.Item
/-! Vector instructions (`vector.rs`), repaired form: element-wise loops run over the TOP vector's
indices, indices are computed without overflow, integer element arithmetic wraps, ROTATE guards the
empty vector, float sorting uses the IEEE total order. -/
namespace Pushr

/-! ### the element-wise loop and its declarative specification -/

/-- one iteration: `j = i + off`; skip when `j` is outside `second`; `second[j] = op second[j] top[i]` -/
def overlapStep {α : Type} (op : α → α → α) (off : Int) (acc : List α) (it : α × Nat) : List α :=
  if 0 ≤ (it.2 : Int) + off then
    match acc[((it.2 : Int) + off).toNat]? with
    | some a => acc.set ((it.2 : Int) + off).toNat (op a it.1)
    | none => acc
  else acc

/-- the loop as written (after repair): `for i in 0..top.len()` with in-place update of `second` -/
def overlapLoop {α : Type} (op : α → α → α) (second top : List α) (off : Int) : List α :=
  top.zipIdx.foldl (overlapStep op off) second

/-- the README rule: `result[j] = op second[j] top[j - off]` where `top` (shifted by `off`)
overlaps, `second[j]` elsewhere; length of `second` -/
def overlapSpec {α : Type} (op : α → α → α) (second top : List α) (off : Int) : List α :=
  second.zipIdx.map fun (a, j) =>
    if 0 ≤ (j : Int) - off then
      match top[((j : Int) - off).toNat]? with
      | some t => op a t
      | none => a
    else a

/-- BOOLVECTOR.NOT: flips `v[i + off]` for every `i` with `i + off` in range -/
def notLoop (v : List Bool) (off : Int) : List Bool :=
  v.zipIdx.map fun (b, j) =>
    let i : Int := (j : Int) - off
    if 0 ≤ i ∧ i < v.length then !b else b

/-- clamp of GET / SET: `max(min(index, len - 1), 0)` -/
def vecIdx (len : Nat) (i : Int32) : Nat := clampIdx len i

/-- ROTATE: drop the first element, append the scalar; empty vector untouched (repaired) -/
def rotateIn {α : Type} (v : List α) (x : α) : List α :=
  match v with
  | [] => []
  | _ :: t => t ++ [x]

def i32Sum (v : List Int32) : Int32 := v.foldl (· + ·) 0
/-- `iter().sum::<f32>()`: left fold; Rust's additive identity for floats is `-0.0` -/
def f32Sum (v : List Float32) : Float32 := v.foldl (· + ·) (F32.zero true)

/-- key realising `f32::total_cmp` -/
def totalKey (x : Float32) : Nat :=
  let b := F32.bits x
  if b ≥ 2147483648 then 4294967295 - b else b + 2147483648

def sortI32 (v : List Int32) : List Int32 := v.mergeSort (fun a b => a ≤ b)
def sortF32 (v : List Float32) : List Float32 := v.mergeSort (fun a b => totalKey a ≤ totalKey b)
def sortBool (v : List Bool) : List Bool := v.mergeSort (fun a b => !a || b)

def twoPi : Float32 := F32.ofBitsNat 0x40c90fdb

/-- FLOATVECTOR.SINE element `i` -/
def sineAt (amp freq phase : Float32) (i : Nat) : Float32 :=
  amp * Float32.sin (twoPi * freq * Float32.ofNat i + phase)

/-! ### per-type instruction semantics -/

/-- pops two vectors and the offset (vectors first): the shared frame of the element-wise ops -/
def elementwise {α : Type} (L : Lens (List α)) (s : State)
    (f : List α → List α → Int → Option (List α)) : State :=
  match L.get s with
  | top :: second :: l =>
    let s1 := L.set s l
    match s1.int with
    | [] => s1
    | off :: il =>
      let s2 := { s1 with int := il }
      match f second top off.toInt with
      | some r => L.set s2 (r :: L.get s2)
      | none => s2
  | _ => s

/-- GET: index popped first; vector must exist and be non-empty -/
def vecGet {α : Type} (L : Lens (List α)) (s : State) (push : State → α → State) : State :=
  match s.int with
  | [] => s
  | i :: il =>
    let s1 := { s with int := il }
    match L.get s1 with
    | v :: _ => match v[vecIdx v.length i]? with
      | some x => push s1 x
      | none => s1
    | [] => s1

/-- top vector modified in place -/
def modTop {α : Type} (L : Lens (List α)) (s : State) (f : List α → List α) : State :=
  match L.get s with
  | v :: l => L.set s (f v :: l)
  | [] => s

def vecSetAt {α : Type} (v : List α) (i : Int32) (x : α) : List α :=
  if v.isEmpty then v else v.set (vecIdx v.length i) x

def semVecB (boolRand : Oracle → Nat → Int32 → Float32 → Option (List Bool × Nat)) (ρ : Oracle) :
    VecOp → State → State
  | .set, s => match s.int with
    | [] => s
    | i :: il =>
      let s1 := { s with int := il }
      match s1.bool with
      | [] => s1
      | b :: bl => modTop Lens.bvec { s1 with bool := bl } fun v => vecSetAt v i b
  | .and, s => elementwise Lens.bvec s fun a b off => some (overlapLoop (· && ·) a b off)
  | .or, s => elementwise Lens.bvec s fun a b off => some (overlapLoop (· || ·) a b off)
  | .get, s => vecGet Lens.bvec s pushBool
  | .not, s => match s.bvec with
    | [] => s
    | v :: l =>
      let s1 := { s with bvec := l }
      match s1.int with
      | [] => s1
      | off :: il => { s1 with int := il, bvec := notLoop v off.toInt :: l }
  | .equal, s => match s.bvec with
    | b :: a :: l => pushBool { s with bvec := l } (a == b)
    | _ => s
  | .length, s => match s.bvec with
    | v :: _ => pushInt s (lenI32 v.length)
    | [] => s
  | .ones, s => match s.int with
    | n :: il => if n > 0 then { s with int := il, bvec := List.replicate n.toInt.toNat true :: s.bvec }
                 else { s with int := il }
    | [] => s
  | .zeros, s => match s.int with
    | n :: il => if n > 0 then { s with int := il, bvec := List.replicate n.toInt.toNat false :: s.bvec }
                 else { s with int := il }
    | [] => s
  | .rand, s => match s.int with
    | [] => s
    | n :: il =>
      let s1 := { s with int := il }
      match s1.float with
      | [] => s1
      | sp :: fl =>
        let s2 := { s1 with float := fl }
        match boolRand ρ s2.rng n sp with
        | some (v, pos) => { s2 with bvec := v :: s2.bvec, rng := pos }
        | none => s2
  | .rotate, s => match s.bool with
    | [] => s
    | b :: bl => modTop Lens.bvec { s with bool := bl } fun v => rotateIn v b
  | .sortAsc, s => modTop Lens.bvec s sortBool
  | .sortDesc, s => modTop Lens.bvec s fun v => (sortBool v).reverse
  | .count, s => match s.bvec with
    | v :: _ => pushInt s (lenI32 (v.filter id).length)
    | [] => s
  | _, s => s

def semVecI (intRand : Oracle → Nat → Int32 → Int32 → Int32 → Option (List Int32 × Nat)) (ρ : Oracle) :
    VecOp → State → State
  | .append, s => match s.ivec with
    | [] => s
    | v :: l => match s.int with
      | [] => s
      | x :: il => { s with int := il, ivec := (v ++ [x]) :: l }
  | .boolindex, s => match s.bvec with
    | [] => s
    | v :: l =>
      { s with bvec := l,
               ivec := (v.zipIdx.filterMap fun (b, i) => if b then some (lenI32 i) else none) :: s.ivec }
  | .get, s => vecGet Lens.ivec s pushInt
  | .set, s => match s.int with
    | i :: x :: il => modTop Lens.ivec { s with int := il } fun v => vecSetAt v i x
    | _ :: [] => { s with int := [] }
    | [] => s
  | .add, s => elementwise Lens.ivec s fun a b off => some (overlapLoop (· + ·) a b off)
  | .sub, s => elementwise Lens.ivec s fun a b off => some (overlapLoop (· - ·) a b off)
  | .contains, s => match s.int with
    | [] => s
    | x :: il =>
      let s1 := { s with int := il }
      match s1.ivec with
      | [] => s1
      | v :: l => pushBool { s1 with ivec := l } (v.contains x)
  | .empty, s => { s with ivec := [] :: s.ivec }
  | .equal, s => match s.ivec with
    | b :: a :: l => pushBool { s with ivec := l } (a == b)
    | _ => s
  | .fromint, s => match s.int with
    | [] => s
    | n :: il =>
      let k := clampIdx (il.length + 1) n        -- max(min(size, n), 0)
      { s with int := il.drop k, ivec := (il.take k).reverse :: s.ivec }
  | .length, s => match s.ivec with
    | v :: _ => pushInt s (lenI32 v.length)
    | [] => s
  | .loop, s => match s.ivec with
    | [] => s
    | v :: l =>
      let s1 := { s with ivec := l }
      match s1.exec with
      | [] => s1
      | body :: el =>
        match v with
        | [] => { s1 with exec := el }
        | x :: rest =>
          { s1 with exec := body :: .list [.lit (.ivec rest), .instr (.vec .i .loop), body] :: el,
                    int := x :: s1.int }
  | .mean, s => match s.ivec with
    | v :: _ => pushFloat s ((i32Sum v).toFloat32 / Float32.ofNat v.length)
    | [] => s
  | .ones, s => match s.int with
    | n :: il => if n > 0 then { s with int := il, ivec := List.replicate n.toInt.toNat 1 :: s.ivec }
                 else { s with int := il }
    | [] => s
  | .zeros, s => match s.int with
    | n :: il => if n > 0 then { s with int := il, ivec := List.replicate n.toInt.toNat 0 :: s.ivec }
                 else { s with int := il }
    | [] => s
  | .rand, s => match s.int with
    | size :: mx :: mn :: il =>
      let s1 := { s with int := il }
      match intRand ρ s1.rng size mn mx with
      | some (v, pos) => { s1 with ivec := v :: s1.ivec, rng := pos }
      | none => s1
    | _ => s
  | .remove, s => match s.ivec with
    | [] => s
    | v :: l => match s.int with
      | [] => s
      | x :: il => { s with int := il, ivec := v.filter (· != x) :: l }
  | .rotate, s => match s.int with
    | [] => s
    | x :: il => modTop Lens.ivec { s with int := il } fun v => rotateIn v x
  | .setInsert, s =>
    let s1 := if s.ivec.isEmpty then { s with ivec := [[]] } else s
    match s1.ivec with
    | [] => s1
    | v :: l => match s1.int with
      | [] => s1
      | x :: il => { s1 with int := il, ivec := (if v.contains x then v else v ++ [x]) :: l }
  | .sortAsc, s => modTop Lens.ivec s sortI32
  | .sortDesc, s => modTop Lens.ivec s fun v => (sortI32 v).reverse
  | .sum, s => match s.ivec with
    | v :: _ => pushInt s (i32Sum v)
    | [] => s
  | _, s => s

/-- element-wise division: a zero divisor inside the overlap makes the whole result invalid -/
def divOverlap (second top : List Float32) (off : Int) : Option (List Float32) :=
  let bad := top.zipIdx.any fun (t, i) =>
    let j : Int := (i : Int) + off
    0 ≤ j && j.toNat < second.length && t == 0
  if bad then none
  else some (overlapLoop (· / ·) second top off)

def semVecF (floatRand : Oracle → Nat → Int32 → Float32 → Float32 → Option (List Float32 × Nat))
    (ρ : Oracle) : VecOp → State → State
  | .append, s => match s.fvec with
    | [] => s
    | v :: l => match s.float with
      | [] => s
      | x :: fl => { s with float := fl, fvec := (v ++ [x]) :: l }
  | .get, s => vecGet Lens.fvec s pushFloat
  | .set, s => match s.int with
    | [] => s
    | i :: il =>
      let s1 := { s with int := il }
      match s1.float with
      | [] => s1
      | x :: fl => modTop Lens.fvec { s1 with float := fl } fun v => vecSetAt v i x
  | .add, s => elementwise Lens.fvec s fun a b off => some (overlapLoop (· + ·) a b off)
  | .sub, s => elementwise Lens.fvec s fun a b off => some (overlapLoop (· - ·) a b off)
  | .mul, s => elementwise Lens.fvec s fun a b off => some (overlapLoop (· * ·) a b off)
  | .div, s => elementwise Lens.fvec s divOverlap
  | .empty, s => { s with fvec := [] :: s.fvec }
  | .equal, s => match s.fvec with
    | b :: a :: l => pushBool { s with fvec := l } (f32ListBeq a b)
    | _ => s
  | .length, s => match s.fvec with
    | v :: _ => pushInt s (lenI32 v.length)
    | [] => s
  | .mean, s => match s.fvec with
    | v :: _ => pushFloat s (f32Sum v / Float32.ofNat v.length)
    | [] => s
  | .mulScalar, s => match s.float with
    | [] => s
    | f :: fl => modTop Lens.fvec { s with float := fl } fun v => v.map (· * f)
  | .ones, s => match s.int with
    | n :: il => if n > 0 then { s with int := il, fvec := List.replicate n.toInt.toNat 1 :: s.fvec }
                 else { s with int := il }
    | [] => s
  | .zeros, s => match s.int with
    | n :: il => if n > 0 then { s with int := il, fvec := List.replicate n.toInt.toNat 0 :: s.fvec }
                 else { s with int := il }
    | [] => s
  | .rand, s => match s.int with
    | [] => s
    | n :: il =>
      let s1 := { s with int := il }
      match s1.float with
      | mean :: sd :: fl =>
        let s2 := { s1 with float := fl }
        match floatRand ρ s2.rng n mean sd with
        | some (v, pos) => { s2 with fvec := v :: s2.fvec, rng := pos }
        | none => s2
      | _ => s1
  | .rotate, s => match s.float with
    | [] => s
    | x :: fl => modTop Lens.fvec { s with float := fl } fun v => rotateIn v x
  | .sine, s => match s.float with
    | amp :: freq :: phase :: fl =>
      let s1 := { s with float := fl }
      match s1.int with
      | [] => s1
      | n :: il =>
        { s1 with int := il,
                  fvec := ((List.range n.toInt.toNat).map (sineAt amp freq phase)) :: s1.fvec }
    | _ => s
  | .sortAsc, s => modTop Lens.fvec s sortF32
  | .sortDesc, s => modTop Lens.fvec s fun v => (sortF32 v).reverse
  | .sum, s => match s.fvec with
    | v :: _ => pushFloat s (f32Sum v)
    | [] => s
  | _, s => s

end Pushr
