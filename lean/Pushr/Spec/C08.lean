import Pushr.Sem
/-! # C08 — the CODE instructions stated through the list of points in depth-first order -/
namespace Pushr.C08

def pts (t : Item) : List Item := Item.points t

/-- index of the first point equal to `p` -/
def firstMatch (t p : Item) : Option Nat := (pts t).findIdx? fun q => Item.equals q p

/-- the point index of the innermost list that properly contains point `k` -/
def parentOf (t : Item) (k : Nat) : Option Nat :=
  ((List.range k).filter fun j => match ((pts t)[j]? : Option Item) with
    | some (Item.list xs) => j + (Item.list xs).size > k
    | _ => false).getLast?

def isList : Item → Bool
  | .list _ => true
  | _ => false

/-- expected state for the instructions with a closed-form statement; `none` = not covered here -/
def expect (o : CodeOp) (s : State) : Option State :=
  match o, s.code with
  | .size, c :: _ => some (pushInt s (lenI32 (pts c).length))
  | .extract, _ => match s.int with
    | i :: il =>
      let s1 := { s with int := il }
      match s1.code with
      | c :: _ => match (pts c)[remEuclid i (pts c).length]? with
        | some el => some (pushCode s1 el)
        | none => some s1
      | [] => some s1
    | [] => none
  | .position, top :: second :: _ => some (pushInt s (match firstMatch top second with
      | some k => lenI32 k
      | none => -1))
  | .contains, top :: second :: _ => some (pushBool s (firstMatch top second).isSome)
  | .member, top :: second :: _ => some (pushBool s (firstMatch second top).isSome)
  | .container, top :: second :: _ => some (pushCode s (match firstMatch top second with
      | some k => match parentOf top k with
        | some j => ((pts top)[j]?).getD (.list [])
        | none => .list []
      | none => .list []))
  | .length, c :: _ => some (pushInt s (match c with
      | .list xs => lenI32 xs.length
      | _ => 1))
  | .null, c :: _ => some (pushBool s (match c with
      | .list [] => true
      | _ => false))
  | .atom, c :: _ => some (pushBool s (!isList c))
  | .eq, top :: second :: _ => some (pushBool s (Item.equals second top))
  | .list, top :: second :: _ => some (pushCode s (.list [top, second]))
  | .car, .list (x :: _) :: l => some { s with code := x :: l }
  | .cdr, .list (_ :: xs) :: l => some { s with code := .list xs :: l }
  | .cdr, .list [] :: l => some { s with code := .list [] :: l }
  -- "if the top item is not a list the empty list is pushed"
  | .cdr, _ :: l => some { s with code := .list [] :: l }
  -- "( A B )" and "X" give "( X A B )": an atom is consed onto the (coerced) list
  | .cons, top :: second :: l => if isList second then none else some { s with code := .list (second :: consElems top) :: l }
  -- SUBST "replaces all and only structural matches": a target that IS the pattern becomes the substitute;
  -- a target none of whose points matches stays as it is (the general case is `Item.subst`, see `subst_list`)
  | .subst, target :: sub :: pat :: l =>
    if Item.equals target pat then some { s with code := sub :: l }
    else if (pts target).all (fun q => !Item.equals q pat) then some { s with code := target :: l }
    else none
  | _, _ => none

/-- the printed atoms of an item, in depth-first order -/
def atomsOf (t : Item) : List String := ((pts t).filter fun q => !isList q).map Item.show

/-- CONS / LIST / APPEND build their result out of both operands: no atom of either is lost, none invented -/
def keepsAtoms (top second result : Item) : Bool :=
  (atomsOf result).isPerm (atomsOf second ++ atomsOf top)

/-- INSERT at a valid interior index: a following EXTRACT at the same index yields the inserted item,
the points before it that are atoms are unchanged, and the size changes by the sizes of the two subtrees -/
def insertOk (top x : Item) (i : Nat) (result : Item) : Bool :=
  match (pts top)[i]?, (pts result)[i]? with
  | some old, some new =>
    Item.equals new x || (x.show == new.show)   -- NaN-carrying items are compared by their print
    && (pts result).length + old.size == (pts top).length + x.size
    && (List.range i).all fun j => match (pts top)[j]?, (pts result)[j]? with
        | some a, some b => isList a || Item.equals a b || a.show == b.show
        | _, _ => false
  | _, _ => false

mutual
/-- number of maximal structural matches of `p` in `t` (a match is not searched for further matches inside it) -/
def countMax : Item → Item → Nat
  | t, p =>
    if Item.equals t p then 1
    else match t with
      | .list xs => countMaxL xs p
      | _ => 0
def countMaxL : List Item → Item → Nat
  | [], _ => 0
  | x :: xs, p => countMax x p + countMaxL xs p
end

/-- SUBST replaces ALL and ONLY the structural matches — as an accounting of points: every maximal match (and
nothing else) is exchanged for the substitute, so `size result + k * size pattern = size target + k * size substitute`
with `k` the number of maximal matches; with no match the result is the target -/
def substOk (target sub pat result : Item) : Bool :=
  let k := countMax target pat
  result.size + k * pat.size == target.size + k * sub.size
  && (k != 0 || Item.equals result target || result.show == target.show)

end Pushr.C08
