import Pushr.Sem
/-! # C04 — reference semantics of the scalar instructions, written as a table

Each row says: which operands are consumed (the SECOND item is the left operand), which stack
receives the result, and what the result is as a *mathematical* value (ℤ, Bool). Where the
mathematical result does not fit `i32` any in-type value is acceptable (`none` = "any"). Float
results are the IEEE operation on the same operands in the same order. -/
namespace Pushr.C04

/-- what a row demands of the pushed value -/
inductive Res where
  | bool (b : Bool)
  | int (v : Option Int)           -- `none`: not representable, any i32 accepted
  | float (f : Float32)
  | name (n : String)
  | code (c : Item)
  | ivec (v : List Int32)
  | nothing                        -- guard failed (zero divisor): operands consumed, no result

/-- operands consumed from (bool, int, float, name) and the demanded result -/
structure Row where
  popBool : Nat := 0
  popInt : Nat := 0
  popFloat : Nat := 0
  popName : Nat := 0
  res : Res

def inI32 (v : Int) : Option Int := if -2147483648 ≤ v ∧ v ≤ 2147483647 then some v else none

/-- truncated division / remainder on ℤ (what `/` and `%` mean for machine integers) -/
def tdiv (a b : Int) : Int := Int.tdiv a b
def tmod (a b : Int) : Int := Int.tmod a b

/-- floored modulus on floats: the truncated remainder moved into the sign of the divisor -/
def flooredMod (a b : Float32) : Float32 :=
  let r := F32.fmod a b
  if r != 0 && ((r < 0) != (b < 0)) then r + b else r

/-- the table. `none` = the instruction does not fire on this state (an operand is missing). -/
def row (i : Instr) (s : State) : Option Row :=
  match i with
  | .boolean .eq => match s.bool with
    | b :: a :: _ => some { popBool := 2, res := .bool (a == b) }
    | _ => none
  | .boolean .and => match s.bool with
    | b :: a :: _ => some { popBool := 2, res := .bool (a && b) }
    | _ => none
  | .boolean .or => match s.bool with
    | b :: a :: _ => some { popBool := 2, res := .bool (a || b) }
    | _ => none
  | .boolean .not => match s.bool with
    | b :: _ => some { popBool := 1, res := .bool (!b) }
    | _ => none
  -- documented: FALSE for zero, TRUE otherwise (the operand is kept, as the unit tests show).
  -- The implementation pushes the opposite: known finding K03.
  | .boolean .fromfloat => match s.float with
    | f :: _ => some { res := .bool (!(f == 0)) }
    | _ => none
  | .boolean .frominteger => match s.int with
    | i :: _ => some { res := .bool (!(i.toInt == 0)) }
    | _ => none
  | .integer .add => match s.int with
    | b :: a :: _ => some { popInt := 2, res := .int (inI32 (a.toInt + b.toInt)) }
    | _ => none
  | .integer .sub => match s.int with
    | b :: a :: _ => some { popInt := 2, res := .int (inI32 (a.toInt - b.toInt)) }
    | _ => none
  | .integer .mul => match s.int with
    | b :: a :: _ => some { popInt := 2, res := .int (inI32 (a.toInt * b.toInt)) }
    | _ => none
  | .integer .div => match s.int with
    | b :: a :: _ => some { popInt := 2, res := if b.toInt = 0 then .nothing else .int (inI32 (tdiv a.toInt b.toInt)) }
    | _ => none
  -- documented: the quotient is truncated toward negative infinity, i.e. the floored modulus.
  -- The implementation computes the truncated remainder: known finding K04.
  | .integer .mod => match s.int with
    | b :: a :: _ => some { popInt := 2, res := if b.toInt = 0 then .nothing else .int (inI32 (Int.fmod a.toInt b.toInt)) }
    | _ => none
  | .integer .lt => match s.int with
    | b :: a :: _ => some { popInt := 2, res := .bool (a.toInt < b.toInt) }
    | _ => none
  | .integer .eq => match s.int with
    | b :: a :: _ => some { popInt := 2, res := .bool (a.toInt == b.toInt) }
    | _ => none
  | .integer .gt => match s.int with
    | b :: a :: _ => some { popInt := 2, res := .bool (a.toInt > b.toInt) }
    | _ => none
  | .integer .abs => match s.int with
    | a :: _ => some { popInt := 1, res := .int (inI32 a.toInt.natAbs) }
    | _ => none
  | .integer .max => match s.int with
    | b :: a :: _ => some { popInt := 2, res := .int (some (max a.toInt b.toInt)) }
    | _ => none
  | .integer .min => match s.int with
    | b :: a :: _ => some { popInt := 2, res := .int (some (min a.toInt b.toInt)) }
    | _ => none
  | .integer .fromboolean => match s.bool with
    | b :: _ => some { popBool := 1, res := .int (some (if b then 1 else 0)) }
    | _ => none
  -- float → integer: truncation when representable; out of range / NaN: any in-type value
  | .integer .fromfloat => match s.float with
    | f :: _ => some { popFloat := 1,
                       res := .int (if f.isFinite && f.abs < 2147483648 then some f.toInt32.toInt else none) }
    | _ => none
  | .float .add => match s.float with
    | b :: a :: _ => some { popFloat := 2, res := .float (a + b) }
    | _ => none
  | .float .sub => match s.float with
    | b :: a :: _ => some { popFloat := 2, res := .float (a - b) }
    | _ => none
  | .float .mul => match s.float with
    | b :: a :: _ => some { popFloat := 2, res := .float (a * b) }
    | _ => none
  | .float .div => match s.float with
    | b :: a :: _ => some { popFloat := 2, res := if b == 0 then .nothing else .float (a / b) }
    | _ => none
  | .float .mod => match s.float with
    | b :: a :: _ => some { popFloat := 2, res := if b == 0 then .nothing else .float (flooredMod a b) }
    | _ => none
  | .float .lt => match s.float with
    | b :: a :: _ => some { popFloat := 2, res := .bool (a < b) }
    | _ => none
  | .float .eq => match s.float with
    | b :: a :: _ => some { popFloat := 2, res := .bool (a == b) }
    | _ => none
  | .float .gt => match s.float with
    | b :: a :: _ => some { popFloat := 2, res := .bool (a > b) }
    | _ => none
  | .float .sin => match s.float with
    | a :: _ => some { popFloat := 1, res := .float a.sin }
    | _ => none
  | .float .cos => match s.float with
    | a :: _ => some { popFloat := 1, res := .float a.cos }
    | _ => none
  | .float .tan => match s.float with
    | a :: _ => some { popFloat := 1, res := .float a.tan }
    | _ => none
  | .float .exp => match s.float with
    | a :: _ => some { popFloat := 1, res := .float a.exp }
    | _ => none
  | .float .max => match s.float with
    | b :: a :: _ => some { popFloat := 2, res := .float (if a > b then a else b) }
    | _ => none
  | .float .min => match s.float with
    | b :: a :: _ => some { popFloat := 2, res := .float (if a > b then b else a) }
    | _ => none
  | .float .fromboolean => match s.bool with
    | b :: _ => some { popBool := 1, res := .float (if b then 1 else 0) }
    | _ => none
  | .float .frominteger => match s.int with
    | i :: _ => some { popInt := 1, res := .float i.toFloat32 }
    | _ => none
  | .name .eq => match s.name with
    | b :: a :: _ => some { popName := 2, res := .bool (a == b) }
    | _ => none
  | .name .cat => match s.name with
    | b :: a :: _ => some { popName := 2, res := .name (a ++ " " ++ b) }
    | _ => none
  | .code .fromboolean => match s.bool with
    | b :: _ => some { popBool := 1, res := .code (.lit (.bool b)) }
    | _ => none
  | .code .fromfloat => match s.float with
    | f :: _ => some { popFloat := 1, res := .code (.lit (.float f)) }
    | _ => none
  | .code .frominteger => match s.int with
    | i :: _ => some { popInt := 1, res := .code (.lit (.int i)) }
    | _ => none
  | .code .fromname => match s.name with
    | n :: _ => some { popName := 1, res := .code (.ident n) }
    | _ => none
  | .stk t .id => some { res := .int (some t.id.toInt) }
  | _ => none

/-- the instructions the table covers -/
def inTable : Instr → Bool
  | .boolean .rand => false
  | .boolean _ => true
  | .integer .rand | .integer .ddup => false
  | .integer _ => true
  | .float .rand => false
  | .float _ => true
  | .name .eq | .name .cat => true
  | .code .fromboolean | .code .fromfloat | .code .frominteger | .code .fromname => true
  | .stk _ .id => true
  | _ => false

/-- rows on which the pinned tree is known to deviate from its documentation (K03, K04) -/
def deviates : Instr → Bool
  | .boolean .fromfloat | .boolean .frominteger | .integer .mod | .float .mod => true
  | _ => false

/-- the implementation's actual behaviour on the deviating rows (used to recognise exactly the
recorded deviation, so that any *other* failure of the same instruction is still reported) -/
def deviantRow (i : Instr) (s : State) : Option Row :=
  match i with
  | .boolean .fromfloat => match s.float with
    | f :: _ => some { res := .bool (f == 0) }
    | _ => none
  | .boolean .frominteger => match s.int with
    | i :: _ => some { res := .bool (i.toInt == 0) }
    | _ => none
  | .integer .mod => match s.int with
    | b :: a :: _ => some { popInt := 2, res := if b.toInt = 0 then .nothing else .int (inI32 (tmod a.toInt b.toInt)) }
    | _ => none
  | .float .mod => match s.float with
    | b :: a :: _ => some { popFloat := 2, res := if b == 0 then .nothing else .float (F32.fmod a b) }
    | _ => none
  | _ => none

/-- operands removed -/
def popped (r : Row) (s : State) : State :=
  { s with bool := s.bool.drop r.popBool, int := s.int.drop r.popInt,
           float := s.float.drop r.popFloat, name := s.name.drop r.popName }

/-- result pushed; `anyInt` is used only where the row accepts any value -/
def applyRes (res : Res) (s1 : State) (anyInt : Int32) : State :=
  match res with
  | .bool b => { s1 with bool := b :: s1.bool }
  | .int (some v) => { s1 with int := Int32.ofInt v :: s1.int }
  | .int none => { s1 with int := anyInt :: s1.int }
  | .float f => { s1 with float := f :: s1.float }
  | .name n => { s1 with name := n :: s1.name }
  | .code c => { s1 with code := c :: s1.code }
  | .ivec v => { s1 with ivec := v :: s1.ivec }
  | .nothing => s1

/-- the state a row prescribes, given the value actually pushed for an "any value" integer result -/
def apply (r : Row) (s : State) (anyInt : Int32) : State := applyRes r.res (popped r s) anyInt

/-- the integer the implementation pushed (used only where the row accepts any value) -/
def pushedInt (r : Row) (s post : State) : Int32 :=
  match post.int with
  | x :: _ => x
  | [] => 0

end Pushr.C04
