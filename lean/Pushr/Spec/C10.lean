import Pushr.Full
/-! # C10 — footprints and operand requirements, written from the instructions' documentation -/
namespace Pushr.C10

inductive Field where
  | bool | int | float | name | code | exec | index | bvec | ivec | fvec | input | output | graph
  | bindings | quote | send | cfg
  deriving DecidableEq, Repr, Inhabited

def Field.all : List Field :=
  [.bool, .int, .float, .name, .code, .exec, .index, .bvec, .ivec, .fvec, .input, .output, .graph,
   .bindings, .quote, .send, .cfg]

def tyField : Ty → Field
  | .bool => .bool | .int => .int | .float => .float | .name => .name | .code => .code | .exec => .exec
  | .bvec => .bvec | .ivec => .ivec | .fvec => .fvec

def vField : VTy → Field
  | .b => .bvec | .i => .ivec | .f => .fvec
/-- the scalar stack belonging to a vector type -/
def sField : VTy → Field
  | .b => .bool | .i => .int | .f => .float

/-- `a` and `b` agree on field `f` -/
def Unchanged (f : Field) (a b : State) : Prop :=
  match f with
  | .bool => a.bool = b.bool | .int => a.int = b.int | .float => a.float = b.float
  | .name => a.name = b.name | .code => a.code = b.code | .exec => a.exec = b.exec
  | .index => a.index = b.index | .bvec => a.bvec = b.bvec | .ivec => a.ivec = b.ivec
  | .fvec => a.fvec = b.fvec | .input => a.input = b.input | .output => a.output = b.output
  | .graph => a.graph = b.graph | .bindings => a.bindings = b.bindings | .quote => a.quote = b.quote
  | .send => a.send = b.send
  | .cfg => a.cfg = b.cfg

/-- stacks a LIST.ADD / LIST.SET id vector can take items from -/
def loadable : List Field := [.bool, .bvec, .code, .exec, .float, .fvec, .int, .ivec, .name]

/-- the fields an instruction may touch (documented operand and result stacks) -/
def footprint : Instr → List Field
  | .noop | .unknown _ => []
  | .stk t o => match o with
    | .yank | .shove | .yankdup | .depth | .id => [tyField t, .int]
    | _ => [tyField t]
  | .define t => [.name, tyField t, .bindings]
  | .boolean _ => [.bool]
  | .integer o => match o with
    | .lt | .eq | .gt => [.int, .bool]
    | .fromboolean => [.bool, .int]
    | .fromfloat => [.float, .int]
    | _ => [.int]
  | .float o => match o with
    | .lt | .eq | .gt => [.float, .bool]
    | .fromboolean => [.bool, .float]
    | .frominteger => [.int, .float]
    | _ => [.float]
  | .name o => match o with
    | .eq => [.name, .bool]
    | .quote => [.quote]
    | .send => [.send]
    | _ => [.name]
  | .code o => match o with
    | .eq | .atom | .null | .contains | .member => [.bool]
    | .definition => [.name, .code]
    | .discrepancy | .length | .size | .position => [.int]
    | .do_ | .dostar => [.exec]
    | .loop => [.code, .exec, .index]
    | .extract | .nth | .insert | .rand => [.int, .code]
    | .fromboolean => [.bool, .code]
    | .fromfloat => [.float, .code]
    | .frominteger => [.int, .code]
    | .fromname => [.name, .code]
    | .if_ => [.code, .bool, .exec]
    | .print => [.name]
    | .quote => [.exec, .code]
    | .noop => []
    | _ => [.code]
  | .exec o => match o with
    | .eq => [.bool]
    | .cmd => [.int, .name]
    | .loop => [.exec, .index]
    | .if_ => [.exec, .bool]
    | _ => [.exec]
  | .index o => match o with
    | .current | .destination => [.int]
    | .define => [.int, .index]
    | _ => [.index]
  | .io o => match o with
    | .available => [.bool]
    | .get => [.int, .bool]
    | .next => [.input]
    | .read => [.bvec, .ivec]
    | .inDepth | .outDepth => [.int]
    | .outFlush => [.output]
    | .outWrite => [.bvec, .ivec, .output]
  | .vec t o => match o with
    | .and | .or | .not | .add | .sub | .mul | .div | .ones | .zeros | .fromint | .remove | .setInsert => [vField t, .int]
    | .count | .length => [.int]
    | .equal => [vField t, .bool]
    | .get => [.int, sField t]
    | .set => [.int, sField t, vField t]
    | .rand => [.int, .float, vField t]
    | .rotate | .append => [sField t, vField t]
    | .sortAsc | .sortDesc | .empty => [vField t]
    | .mean => [.float]
    | .sum => [sField t]
    | .sine => [.float, .int, .fvec]
    | .mulScalar => [.float, .fvec]
    | .boolindex => [.bvec, .ivec]
    | .contains => [.int, .ivec, .bool]
    | .loop => [.ivec, .exec, .int]
  | .list o => match o with
    | .add => loadable
    | .set => loadable
    | .bval => [.int, .bool]
    | .ival => [.int]
    | .fval => [.int, .float]
    | .get => [.int, .exec]
    | .remove => [.int, .code]
    | .nbIds | .nbIvals => [.int, .float, .ivec]
    | .nbBvals => [.int, .float, .bvec]
    | .nbFvals => [.int, .float, .fvec]
  | .graph o => match o with
    | .add | .dup => [.graph]
    | .edgeAdd | .edgeSetWeight => [.float, .int, .graph]
    | .edgeGetWeight | .edgeHistory => [.int, .float]
    | .nodeAdd | .nodeSetState => [.int, .graph]
    | .nodeGetState | .nodeHistory | .depth => [.int]
    | .nodeNeighbors | .nodePredecessors | .nodeSuccessors | .nodesHistory => [.ivec, .int]
    | .nodeStateSwitch => [.ivec, .bvec, .int, .graph]
    | .nodes => [.ivec]
    | .print | .printDiff => [.name]

def depthOf (s : State) : Field → Nat
  | .bool => s.bool.length | .int => s.int.length | .float => s.float.length | .name => s.name.length
  | .code => s.code.length | .exec => s.exec.length | .index => s.index.length | .bvec => s.bvec.length
  | .ivec => s.ivec.length | .fvec => s.fvec.length | .input => s.input.items.length
  | .output => s.output.items.length | .graph => s.graph.items.length
  | .bindings => s.bindings.length | .quote => 0 | .send => 0 | .cfg => 0

/-- operands an instruction needs before it may have any effect other than consuming operands
(INTVECTOR.SET*INSERT creating an empty vector is documented behaviour: it needs nothing) -/
def operands : Instr → List (Field × Nat)
  | .stk t o => match o with
    | .dup => [(tyField t, 1)]
    | .swap => [(tyField t, 2)]
    | .rot => [(tyField t, 3)]
    | .yank | .shove | .yankdup => [(.int, 1)]
    | _ => []
  | .define t => [(.name, 1), (tyField t, 1)]
  | .boolean o => match o with
    | .eq | .and | .or => [(.bool, 2)]
    | .not => [(.bool, 1)]
    | .fromfloat => [(.float, 1)]
    | .frominteger => [(.int, 1)]
    | .rand => []
  | .integer o => match o with
    | .abs => [(.int, 1)]
    | .fromboolean => [(.bool, 1)]
    | .fromfloat => [(.float, 1)]
    | .rand => []
    | _ => [(.int, 2)]
  | .float o => match o with
    | .cos | .exp | .sin | .tan => [(.float, 1)]
    | .fromboolean => [(.bool, 1)]
    | .frominteger => [(.int, 1)]
    | .rand => []
    | _ => [(.float, 2)]
  | .name o => match o with
    | .eq | .cat => [(.name, 2)]
    | _ => []
  | .code o => match o with
    | .eq | .append | .cons | .container | .contains | .member | .discrepancy | .list | .position => [(.code, 2)]
    | .atom | .car | .cdr | .do_ | .dostar | .length | .null | .size | .print => [(.code, 1)]
    | .definition => [(.name, 1)]
    | .loop => [(.code, 1), (.index, 1)]
    | .extract | .nth => [(.int, 1), (.code, 1)]
    | .fromboolean => [(.bool, 1)]
    | .fromfloat => [(.float, 1)]
    | .frominteger => [(.int, 1)]
    | .fromname => [(.name, 1)]
    | .if_ => [(.code, 2), (.bool, 1)]
    | .insert => [(.int, 1), (.code, 2)]
    | .quote => [(.exec, 1)]
    | .rand => [(.int, 1)]
    | .subst => [(.code, 3)]
    | .noop => []
  | .exec o => match o with
    | .eq | .k => [(.exec, 2)]
    | .cmd => [(.int, 1)]
    | .loop => [(.exec, 1), (.index, 1)]
    | .if_ => [(.exec, 2), (.bool, 1)]
    | .s => [(.exec, 3)]
    | .y => [(.exec, 1)]
  | .index o => match o with
    | .current | .destination | .increase => [(.index, 1)]
    | .define => [(.int, 1)]
    | _ => []
  | .io o => match o with
    | .get => [(.int, 1), (.input, 1)]
    | .read => [(.input, 1)]
    | .outWrite => [(.bvec, 1), (.ivec, 1)]
    | _ => []
  | .vec t o => match o with
    | .and | .or | .add | .sub | .mul | .div => [(vField t, 2), (.int, 1)]
    | .not => [(.bvec, 1), (.int, 1)]
    | .count | .length | .sortAsc | .sortDesc | .mean | .sum => [(vField t, 1)]
    | .equal => [(vField t, 2)]
    | .get => [(.int, 1), (vField t, 1)]
    | .set => match t with
      | .i => [(.int, 2), (.ivec, 1)]
      | _ => [(.int, 1), (sField t, 1), (vField t, 1)]
    | .ones | .zeros | .fromint => [(.int, 1)]
    | .rand => match t with
      | .b => [(.int, 1), (.float, 1)]
      | .i => [(.int, 3)]
      | .f => [(.int, 1), (.float, 2)]
    | .rotate | .append => [(sField t, 1), (vField t, 1)]
    | .empty | .setInsert => []
    | .sine => [(.float, 3), (.int, 1)]
    | .mulScalar => [(.float, 1), (.fvec, 1)]
    | .boolindex => [(.bvec, 1)]
    | .contains | .remove => [(.int, 1), (.ivec, 1)]
    | .loop => [(.ivec, 1), (.exec, 1)]
  | .list o => match o with
    | .add => [(.ivec, 1)]
    | .bval | .ival | .fval => [(.int, 2), (.code, 1)]
    | .get | .remove => [(.int, 1)]
    | .set => [(.int, 1), (.ivec, 1)]
    | .nbIds => [(.int, 3), (.float, 1)]
    | _ => [(.int, 4), (.float, 1)]
  | .graph o => match o with
    | .add | .depth => []
    | .dup | .print => [(.graph, 1)]
    | .printDiff => [(.graph, 2)]
    | .edgeAdd | .edgeSetWeight => [(.graph, 1), (.float, 1), (.int, 2)]
    | .edgeGetWeight => [(.graph, 1), (.int, 2)]
    | .edgeHistory => [(.int, 3)]
    | .nodeAdd | .nodeGetState => [(.graph, 1), (.int, 1)]
    | .nodeHistory => [(.int, 2)]
    | .nodeNeighbors | .nodePredecessors | .nodeSuccessors => [(.graph, 1), (.ivec, 1), (.int, 1)]
    | .nodeSetState => [(.graph, 1), (.int, 2)]
    | .nodeStateSwitch => [(.graph, 1), (.ivec, 1), (.bvec, 1), (.int, 2)]
    | .nodes => [(.graph, 1), (.ivec, 1)]
    | .nodesHistory => [(.int, 1), (.ivec, 1)]
  | _ => []

/-- all needed operands are present -/
def operandsMet (i : Instr) (s : State) : Bool := (operands i).all fun (f, n) => depthOf s f ≥ n

/-- `l'` is what is left of `l` after popping some items from the top -/
def isSuffix {α : Type} (l' l : List α) : Prop := ∃ k, l' = l.drop k

/-- the state only lost items from the tops of its stacks: nothing was pushed, no binding, flag,
graph, index or message was created or changed -/
def PopsOnly (pre post : State) : Prop :=
  isSuffix post.bool pre.bool ∧ isSuffix post.int pre.int ∧ isSuffix post.float pre.float ∧
  isSuffix post.name pre.name ∧ isSuffix post.code pre.code ∧ isSuffix post.exec pre.exec ∧
  isSuffix post.index pre.index ∧ isSuffix post.bvec pre.bvec ∧ isSuffix post.ivec pre.ivec ∧
  isSuffix post.fvec pre.fvec ∧ post.input = pre.input ∧ post.output = pre.output ∧
  post.graph = pre.graph ∧ post.bindings = pre.bindings ∧ post.quote = pre.quote ∧ post.send = pre.send

/-- documented guards ("if the top item is zero this acts as a NOOP", "if at least one divisor is zero the
instruction acts as NOOP") that can fail although every operand is present -/
def guardFails (i : Instr) (s : State) : Bool :=
  match i with
  | .integer .div | .integer .mod => match s.int with
    | b :: _ :: _ => b == 0
    | _ => false
  | .float .div | .float .mod => match s.float with
    | b :: _ :: _ => b == 0
    | _ => false
  | .vec .f .div => match s.fvec, s.int with
    | top :: second :: _, off :: _ => (divOverlap second top off.toInt).isNone
    | _, _ => false
  | _ => false

/-- the documented guards of the three `*VECTOR.RAND` instructions, failing although every operand is present -/
def randGuardFails (i : Instr) (s : State) : Bool :=
  match i with
  | .vec .i .rand => match s.int with
    | size :: mx :: mn :: _ => size < 0 || mx ≤ mn
    | _ => false
  | .vec .b .rand => match s.int, s.float with
    | n :: _, sp :: _ => n < 0 || !(sp ≥ 0 && sp ≤ 1)
    | _, _ => false
  | .vec .f .rand => match s.int, s.float with
    | n :: _, _ :: sd :: _ => n < 0 || sd < 0 || !sd.isFinite
    | _, _ => false
  | _ => false

end Pushr.C10
