import Pushr.Full
/-! # C15 — size of a state, and the instructions whose work is sized by an INTEGER operand -/
namespace Pushr.C15

def sumMap {α : Type} (f : α → Nat) (l : List α) : Nat := (l.map f).sum

def graphWeight (g : Graph) : Nat := g.nodes.length + sumMap (fun p => 1 + p.2.length) g.edges

/-- everything a state holds, counted in elementary items (points, vector elements, characters) -/
def weight (s : State) : Nat :=
  s.bool.length + s.int.length + s.float.length
  + sumMap (fun n => 1 + n.length) s.name
  + sumMap Item.size s.code + sumMap Item.size s.exec
  + s.index.length
  + sumMap (fun v => 1 + v.length) s.bvec + sumMap (fun v => 1 + v.length) s.ivec
  + sumMap (fun v => 1 + v.length) s.fvec
  + sumMap (fun m => 2 + m.header.length + m.body.length) s.input.items
  + sumMap (fun m => 2 + m.header.length + m.body.length) s.output.items
  + sumMap (fun g => 1 + graphWeight g) s.graph.items
  + sumMap (fun p => 1 + p.1.length + p.2.size) s.bindings

/-- instructions whose allocation / iteration count is taken from an INTEGER operand -/
def sizeOperand : Instr → Bool
  | .vec _ .ones | .vec _ .zeros | .vec _ .rand | .vec .f .sine => true
  | .list .nbIds | .list .nbBvals | .list .nbIvals | .list .nbFvals => true
  | .code .rand => true
  | _ => false

/-- the limit CODE.RAND hands to the generator: `min(|operand|, |max_points_in_random_expressions|)` -/
def randLimit (s : State) (i : Int32) : Nat :=
  min (i32Abs i).toInt.natAbs (i32Abs s.cfg.maxPointsRand).toInt.natAbs

/-- the growth a single step may cause when its work is bounded by the state -/
def growthBound (i : Instr) (w : Nat) : Nat :=
  match i with
  | .code .subst => w * w + 16          -- every match may be replaced by a copy of the substitute
  -- printing turns every point into a bounded number of characters (a float has at most 48)
  | .code .print | .graph .print | .graph .printDiff => 64 * w + 64
  | _ => 2 * w + 16

/-- the empty interpreter state with the default configuration limits that matter here -/
def emptyState : State :=
  { bool := [], int := [], float := [], name := [], code := [], exec := [], index := [], bvec := [], ivec := [],
    fvec := [], input := ⟨10, []⟩, output := ⟨3, []⟩, graph := ⟨100, []⟩, bindings := [],
    cfg := { maxRandFloat := 1, minRandFloat := -1, maxRandInt := 10, minRandInt := -10, evalPushLimit := 1000,
             evalTimeLimit := 5000, growthCap := 500, newErcNameProb := 0, maxPointsRand := 25, maxPointsProg := 100 },
    quote := false, send := false }

/-- largest code item on EXEC / CODE -/
def maxItem (s : State) : Nat := ((s.code ++ s.exec).map Item.size).foldl max 0

end Pushr.C15
