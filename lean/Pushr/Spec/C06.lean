import Pushr.Interp
/-! # C06 — the documented rearrangements of the control-flow combinators, as explicit equations -/
namespace Pushr.C06

/-- `some s'`: with these operands present the documentation prescribes exactly `s'` -/
def ctrlSpec (i : Instr) (s : State) : Option State :=
  match i with
  -- EXEC.IF: TRUE keeps the first item (removes the second), FALSE keeps the second
  | .exec .if_ => match s.exec, s.bool with
    | a :: b :: e, c :: bl => some { s with exec := (if c then a else b) :: e, bool := bl }
    -- "acts as a NOOP unless there are at least two items on the EXEC stack": nothing is consumed
    | [], _ => some s
    | [_], _ => some s
    | _, _ => none
  -- CODE.IF: TRUE executes the second CODE item, FALSE the first; both and the BOOLEAN are popped
  | .code .if_ => match s.code, s.bool with
    | top :: second :: l, c :: bl => some { s with code := l, bool := bl, exec := (if c then second else top) :: s.exec }
    | [], _ => some s
    | [_], _ => some s
    | _, _ => none
  -- EXEC.K removes the second item
  | .exec .k => match s.exec with
    | a :: _ :: e => some { s with exec := a :: e }
    | _ => some s                 -- fewer than two items: NOOP
  -- EXEC.S: A B C  ->  A C ( B C )
  | .exec .s => match s.exec with
    | a :: b :: c :: e => some { s with exec := a :: c :: .list [b, c] :: e }
    | _ => some s                 -- fewer than three items: NOOP
  -- EXEC.Y: X  ->  X ( EXEC.Y X )
  | .exec .y => match s.exec with
    | x :: e => some { s with exec := x :: .list [.instr (.exec .y), x] :: e }
    | _ => some s
  -- EXEC.DUP ("do twice")
  | .stk .exec .dup => match s.exec with
    | x :: e => some { s with exec := x :: x :: e }
    | _ => some s
  -- CODE.DO: execute the top CODE item, pop CODE afterwards
  | .code .do_ => match s.code with
    | c :: _ => some { s with exec := c :: .instr (.stk .code .pop) :: s.exec }
    | _ => some s
  -- CODE.DO*: pop CODE first, then execute the item
  | .code .dostar => match s.code with
    | c :: _ => some { s with exec := .instr (.stk .code .pop) :: c :: s.exec }
    | _ => some s
  -- CODE.QUOTE: the next EXEC item goes to CODE unexecuted
  | .code .quote => match s.exec with
    | x :: e => some { s with exec := e, code := x :: s.code }
    | _ => some s
  -- the INDEX stack, as documented in index.rs
  -- INDEX.INCREASE: "increases the current value by one if current < destination, otherwise a NOOP"
  | .index .increase => match s.index with
    | (c, d) :: l => some (if c < d then { s with index := (c + 1, d) :: l } else s)
    | [] => some s
  -- INDEX.POP / FLUSH
  | .index .pop => some { s with index := s.index.tail }
  | .index .flush => some { s with index := [] }
  -- INDEX.CURRENT / DESTINATION push the field of the top index
  | .index .current => match s.index with
    | (c, _) :: _ => some (pushInt s (lenI32 c))
    | [] => some s
  | .index .destination => match s.index with
    | (_, d) :: _ => some (pushInt s (lenI32 d))
    | [] => some s
  -- INDEX.DEFINE: the top INTEGER becomes the destination of a new index starting at 0
  | .index .define => match s.int with
    | i :: l => some { s with int := l, index := (0, (max 0 i.toInt).toNat) :: s.index }
    | [] => some s
  | _ => none

/-- the loop state seen from outside the body: everything but EXEC and INDEX -/
def withEI (d : State) (E : List Item) (I : List (Nat × Nat)) : State := { d with exec := E, index := I }

/-- apply `f c`, `f (c+1)`, … `m` times -/
def iter (f : Nat → State → State) : Nat → Nat → State → State
  | _, 0, d => d
  | c, m + 1, d => iter f (c + 1) m (f c d)

end Pushr.C06
