import Pushr.Interp
/-! # C07 — names: definition, lookup and quoting, stated over a *function* from names to items -/
namespace Pushr.C07

/-- the binding table as a partial function -/
def table (s : State) : String → Option Item := fun k => bindLookup k s.bindings

/-- what encountering the identifier `n` on top of EXEC must do -/
def identStep (s : State) (n : String) (e : List Item) : State :=
  let s1 := { s with exec := e }
  if s.quote then { s1 with name := n :: s.name, quote := false }       -- exactly the next name, then cleared
  else match table s n with
    | some v => { s1 with exec := v :: e }                               -- bound: the value is (re-)executed
    | none => { s1 with name := n :: s.name }                            -- unbound: to the NAME stack

/-- the item a value of stack type `t` is bound as -/
def boundItem (t : Ty) (s : State) : Option Item :=
  match t with
  | .bool => s.bool.head?.map fun b => .lit (.bool b)
  | .int => s.int.head?.map fun i => .lit (.int i)
  | .float => s.float.head?.map fun f => .lit (.float f)
  | .code => s.code.head?
  | .exec => s.exec.head?
  | .bvec => s.bvec.head?.map fun v => .lit (.bvec v)
  | .ivec => s.ivec.head?.map fun v => .lit (.ivec v)
  | .fvec => s.fvec.head?.map fun v => .lit (.fvec v)
  | .name => none

/-- remove the top item of stack `t` -/
def popTy (t : Ty) (s : State) : State :=
  match t with
  | .bool => { s with bool := s.bool.drop 1 }
  | .int => { s with int := s.int.drop 1 }
  | .float => { s with float := s.float.drop 1 }
  | .code => { s with code := s.code.drop 1 }
  | .exec => { s with exec := s.exec.drop 1 }
  | .bvec => { s with bvec := s.bvec.drop 1 }
  | .ivec => { s with ivec := s.ivec.drop 1 }
  | .fvec => { s with fvec := s.fvec.drop 1 }
  | .name => s

/-- `T.DEFINE`: the NAME is taken first; with a value on stack `T` the name is bound to it (function
update of the table) and the value is consumed; without one only the name has been consumed -/
def defineSpec (t : Ty) (s : State) : State :=
  match s.name with
  | [] => s
  | n :: ns =>
    let s1 := { s with name := ns }
    match boundItem t s1 with
    | some v => { popTy t s1 with bindings := bindInsert n v s.bindings }
    | none => s1

end Pushr.C07
