import Pushr.Vector
/-! # C09 — declarative statements evaluated on the implementation's outcome -/
namespace Pushr.C09

/-- element-wise instruction: both vectors and the offset present -> the README rule -/
def elementwiseSpec {α : Type} (L : Lens (List α)) (s : State) (op : α → α → α) : Option State :=
  match L.get s, s.int with
  | top :: second :: l, off :: il =>
    some (L.set { s with int := il } (overlapSpec op second top off.toInt :: l))
  | _, _ => none

def isSortedBy {α : Type} (le : α → α → Bool) : List α → Bool
  | a :: b :: t => le a b && isSortedBy le (b :: t)
  | _ => true

/-- multiset equality through a key (counts of every key agree) -/
def sameMultiset (a b : List Nat) : Bool :=
  a.length == b.length && a.all fun x => (a.filter (· == x)).length == (b.filter (· == x)).length

end Pushr.C09
