import Pushr.Vector
/-! # C09 — declarative statements evaluated on the implementation's outcome -/
namespace Pushr.C09

/-- element-wise instruction: both vectors and the offset present -> the README rule -/
def elementwiseSpec {α : Type} (L : Lens (List α)) (s : State) (op : α → α → α) : Option State :=
  match L.get s, s.int with
  | top :: second :: l, off :: il =>
    some (L.set { s with int := il } (overlapSpec op second top off.toInt :: l))
  | _, _ => none

def isSortedBy {α : Type} (le : α → α → Bool) : List α → Bool
  | a :: b :: t => le a b && isSortedBy le (b :: t)
  | _ => true

/-- multiset equality through a key (counts of every key agree) -/
def sameMultiset (a b : List Nat) : Bool :=
  a.length == b.length && a.all fun x => (a.filter (· == x)).length == (b.filter (· == x)).length

/-! ## closed forms for the remaining vector instructions

Each result vector is given by its **length and its elements** (`tab n f`), each scalar by a
mathematical expression (the integer sum reduced into `i32`, the number of `true` elements …), written
from the doc comments of `vector.rs`; `vecExpect` is evaluated on the implementation's outcome and
`C09.vec_sound` proves that the model meets it. `none` = no statement (operands missing, or an
instruction that has its own evaluator: element-wise, SORT, RAND, LOOP). -/

/-- the vector with `n` elements whose `j`-th element is `f j` -/
def tab {α : Type} (n : Nat) (f : Nat → α) : List α := (List.range n).map f

/-- the mathematical sum of the elements, reduced into `i32` -/
def sumSpec (v : List Int32) : Int32 := Int32.ofInt (v.map Int32.toInt).sum

/-- ROTATE: every element moves one position to the left, the scalar becomes the last element;
an empty vector stays empty -/
def rotateSpec {α : Type} (v : List α) (x : α) : List α := tab v.length fun j => v.getD (j + 1) x

/-- SET: the element at the clamped index is replaced, everything else (and the length) is kept -/
def setSpec {α : Type} (v : List α) (i : Int32) (x : α) : List α :=
  tab v.length fun j => if j = clampIdx v.length i then x else v.getD j x

def appendSpec {α : Type} (v : List α) (x : α) : List α := tab (v.length + 1) fun j => v.getD j x

/-- BOOLVECTOR.NOT with an offset: position `j` is flipped exactly when `0 ≤ j - off < len` -/
def notSpec (v : List Bool) (off : Int) : List Bool :=
  tab v.length fun j => if 0 ≤ (j : Int) - off ∧ (j : Int) - off < v.length then !(v.getD j false) else v.getD j false

/-- indices of the `true` elements, ascending -/
def boolIndexSpec (v : List Bool) : List Int32 :=
  ((List.range v.length).filter fun j => v.getD j false).map lenI32

/-- FROMINT: `k = max(min(n, depth), 0)` integers below the count, the deepest of them first -/
def fromIntSpec (n : Int32) (il : List Int32) : List Int32 × List Int32 :=
  let k := (max (min n.toInt il.length) 0).toNat
  (tab k fun j => il.getD (k - 1 - j) 0, il.drop k)

/-- a zero divisor inside the overlap -/
def zeroDivisorInOverlap (second top : List Float32) (off : Int) : Bool :=
  (List.range second.length).any fun j =>
    decide (0 ≤ (j : Int) - off) && (match top[((j : Int) - off).toNat]? with
      | some t => t == 0
      | none => false)

/-- scalar stack, vector stack, "one", "zero" of a vector type -/
structure VKit (α : Type) where
  sc : Lens α
  vs : Lens (List α)
  one : α
  zero : α

def kitB : VKit Bool := ⟨Lens.bool, Lens.bvec, true, false⟩
def kitI : VKit Int32 := ⟨Lens.int, Lens.ivec, 1, 0⟩
def kitF : VKit Float32 := ⟨Lens.float, Lens.fvec, 1, 0⟩

/-- statements shared by the three vector types -/
def genericExpect {α : Type} (K : VKit α) (o : VecOp) (s : State) : Option State :=
  match o with
  | .length => match K.vs.get s with
    | v :: _ => some (pushInt s (lenI32 v.length))
    | [] => none
  | .ones => match s.int with
    | n :: il => some (if n > 0 then K.vs.set { s with int := il } (tab n.toInt.toNat (fun _ => K.one) :: K.vs.get { s with int := il })
                       else { s with int := il })
    | [] => none
  | .zeros => match s.int with
    | n :: il => some (if n > 0 then K.vs.set { s with int := il } (tab n.toInt.toNat (fun _ => K.zero) :: K.vs.get { s with int := il })
                       else { s with int := il })
    | [] => none
  | _ => none

def vecExpect : VTy → VecOp → State → Option State
  -- BOOLVECTOR
  | .b, .count, s => match s.bvec with
    | v :: _ => some (pushInt s (lenI32 (v.count true)))
    | [] => none
  | .b, .get, s => match s.int, s.bvec with
    | i :: il, v :: _ => some (match v[clampIdx v.length i]? with
        | some x => { s with int := il, bool := x :: s.bool }
        | none => { s with int := il })
    | _, _ => none
  | .b, .set, s => match s.int, s.bool, s.bvec with
    | i :: il, b :: bl, v :: l => some { s with int := il, bool := bl, bvec := setSpec v i b :: l }
    | _, _, _ => none
  | .b, .not, s => match s.bvec, s.int with
    | v :: l, off :: il => some { s with int := il, bvec := notSpec v off.toInt :: l }
    | _, _ => none
  | .b, .rotate, s => match s.bool, s.bvec with
    | b :: bl, v :: l => some { s with bool := bl, bvec := rotateSpec v b :: l }
    | _, _ => none
  | .b, .equal, s => match s.bvec with
    | b :: a :: l => some { s with bvec := l, bool := (a == b) :: s.bool }
    | _ => none
  | .b, o, s => genericExpect kitB o s
  -- INTVECTOR
  | .i, .append, s => match s.ivec, s.int with
    | v :: l, x :: il => some { s with int := il, ivec := appendSpec v x :: l }
    | _, _ => none
  | .i, .boolindex, s => match s.bvec with
    | v :: l => some { s with bvec := l, ivec := boolIndexSpec v :: s.ivec }
    | [] => none
  | .i, .get, s => match s.int, s.ivec with
    | i :: il, v :: _ => some (match v[clampIdx v.length i]? with
        | some x => { s with int := x :: il }
        | none => { s with int := il })
    | _, _ => none
  | .i, .set, s => match s.int, s.ivec with
    | i :: x :: il, v :: l => some { s with int := il, ivec := setSpec v i x :: l }
    | _, _ => none
  | .i, .contains, s => match s.int, s.ivec with
    | x :: il, v :: l => some { s with int := il, ivec := l, bool := decide (x ∈ v) :: s.bool }
    | _, _ => none
  | .i, .empty, s => some { s with ivec := [] :: s.ivec }
  | .i, .equal, s => match s.ivec with
    | b :: a :: l => some { s with ivec := l, bool := decide (a = b) :: s.bool }
    | _ => none
  | .i, .fromint, s => match s.int with
    | n :: il => some { s with int := (fromIntSpec n il).2, ivec := (fromIntSpec n il).1 :: s.ivec }
    | [] => none
  | .i, .remove, s => match s.ivec, s.int with
    | v :: l, x :: il => some { s with int := il, ivec := v.filter (fun y => decide (y ≠ x)) :: l }
    | _, _ => none
  | .i, .rotate, s => match s.int, s.ivec with
    | x :: il, v :: l => some { s with int := il, ivec := rotateSpec v x :: l }
    | _, _ => none
  | .i, .setInsert, s => match s.int, s.ivec with
    | x :: il, v :: l => some { s with int := il, ivec := (if x ∈ v then v else appendSpec v x) :: l }
    | x :: il, [] => some { s with int := il, ivec := [[x]] }
    | _, _ => none
  | .i, .sum, s => match s.ivec with
    | v :: _ => some (pushInt s (sumSpec v))
    | [] => none
  | .i, o, s => genericExpect kitI o s
  -- FLOATVECTOR
  | .f, .append, s => match s.fvec, s.float with
    | v :: l, x :: fl => some { s with float := fl, fvec := appendSpec v x :: l }
    | _, _ => none
  | .f, .get, s => match s.int, s.fvec with
    | i :: il, v :: _ => some (match v[clampIdx v.length i]? with
        | some x => { s with int := il, float := x :: s.float }
        | none => { s with int := il })
    | _, _ => none
  | .f, .set, s => match s.int, s.float, s.fvec with
    | i :: il, x :: fl, v :: l => some { s with int := il, float := fl, fvec := setSpec v i x :: l }
    | _, _, _ => none
  | .f, .empty, s => some { s with fvec := [] :: s.fvec }
  | .f, .mulScalar, s => match s.float, s.fvec with
    | f :: fl, v :: l => some { s with float := fl, fvec := (tab v.length fun j => v.getD j 0 * f) :: l }
    | _, _ => none
  | .f, .rotate, s => match s.float, s.fvec with
    | x :: fl, v :: l => some { s with float := fl, fvec := rotateSpec v x :: l }
    | _, _ => none
  | .f, .sine, s => match s.float, s.int with
    | amp :: freq :: phase :: fl, n :: il =>
      some { s with float := fl, int := il, fvec := (tab n.toInt.toNat (sineAt amp freq phase)) :: s.fvec }
    | _, _ => none
  | .f, .div, s => match s.fvec, s.int with
    | top :: second :: l, off :: il =>
      some (if zeroDivisorInOverlap second top off.toInt then { s with int := il, fvec := l }
            else { s with int := il, fvec := overlapSpec (· / ·) second top off.toInt :: l })
    | _, _ => none
  | .f, o, s => genericExpect kitF o s

end Pushr.C09
