import Pushr.Sem
/-! # C05 — declarative statement of the stack-manipulation instructions

Written as *position maps* (new position ↦ old position, position 0 = top), independently of the
list surgery the model performs. One statement for all nine stack types. -/
namespace Pushr.C05

/-- `new[j] = old[f j]` for `j = start, start+1, …` (`n` positions) -/
def remapFrom {α : Type} (l : List α) (f : Nat → Nat) : Nat → Nat → List α
  | 0, _ => []
  | n + 1, j => match l[f j]? with
    | some x => x :: remapFrom l f n (j + 1)
    | none => remapFrom l f n (j + 1)

/-- rebuild a list from a position map: `new[j] = old[f j]` for `j < n` -/
def remap {α : Type} (l : List α) (n : Nat) (f : Nat → Nat) : List α := remapFrom l f n 0

/-- YANK k (0 < k < len): the item at k comes to the top, the items above it move down by one -/
def yankMap (k j : Nat) : Nat := if j = 0 then k else if j ≤ k then j - 1 else j
/-- SHOVE k (0 < k < len): the top goes to position k, the items above k move up by one -/
def shoveMap (k j : Nat) : Nat := if j < k then j + 1 else if j = k then 0 else j

/-- what the documentation says the target stack looks like afterwards, given the clamped index -/
def target {α : Type} (o : SOp) (l : List α) (k : Nat) : List α :=
  match o with
  | .dup => match l with
    | x :: _ => x :: l
    | [] => l
  | .pop => l.drop 1
  | .swap => if l.length < 2 then l else remap l l.length (shoveMap 1)
  | .rot => if l.length < 3 then l else remap l l.length (yankMap 2)
  | .yank => if k = 0 ∨ l.length ≤ k then l else remap l l.length (yankMap k)
  | .shove => if k = 0 ∨ l.length ≤ k then l else remap l l.length (shoveMap k)
  | .yankdup => match l[k]? with
    | some x => x :: l
    | none => l
  | .flush => []
  | .depth => l
  | .id => l

def usesIndex : SOp → Bool
  | .yank | .shove | .yankdup => true
  | _ => false

/-- the whole instruction on a state, for the stack selected by lens `L` of type `t` -/
def expect {α : Type} (L : Lens α) (t : Ty) (o : SOp) (s : State) : State :=
  if usesIndex o then
    match s.int with
    | [] => s                                  -- no index: nothing happens
    | i :: it =>
      let s1 := { s with int := it }           -- the index is taken first
      let l := L.get s1
      L.set s1 (target o l (clampIdx l.length i))
  else match o with
    | .depth => pushInt s (lenI32 ((L.get s).length + (if t = .int then 1 else 0)))
    | .id => pushInt s t.id
    | _ => L.set s (target o (L.get s) 0)

def expectTy : Ty → SOp → State → State
  | .bool, o, s => expect Lens.bool .bool o s
  | .int, o, s => expect Lens.int .int o s
  | .float, o, s => expect Lens.float .float o s
  | .name, o, s => expect Lens.name .name o s
  | .code, o, s => expect Lens.code .code o s
  | .exec, o, s => expect Lens.exec .exec o s
  | .bvec, o, s => expect Lens.bvec .bvec o s
  | .ivec, o, s => expect Lens.ivec .ivec o s
  | .fvec, o, s => expect Lens.fvec .fvec o s

end Pushr.C05
