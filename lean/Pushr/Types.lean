import Pushr.Basic
/-! Data types of the model: instruction names, literals, items, state. Core Lean only. -/
namespace Pushr

/-- the nine stack types that carry the generic manipulation instructions -/
inductive Ty where
  | bool | int | float | name | code | exec | bvec | ivec | fvec
  deriving DecidableEq, Repr, Inhabited

inductive VTy where
  | b | i | f
  deriving DecidableEq, Repr, Inhabited

/-- generic stack manipulation -/
inductive SOp where
  | dup | pop | swap | rot | yank | yankdup | shove | flush | depth | id
  deriving DecidableEq, Repr, Inhabited

inductive BoolOp where
  | eq | and | or | not | fromfloat | frominteger | rand
  deriving DecidableEq, Repr, Inhabited

inductive IntOp where
  | mod | mul | add | sub | div | lt | eq | gt | abs | ddup | fromboolean | fromfloat | max | min | rand
  deriving DecidableEq, Repr, Inhabited

inductive FloatOp where
  | mod | mul | add | sub | div | lt | eq | gt | cos | exp | fromboolean | frominteger | max | min
  | rand | sin | tan
  deriving DecidableEq, Repr, Inhabited

inductive NameOp where
  | eq | cat | quote | rand | randbound | send
  deriving DecidableEq, Repr, Inhabited

inductive CodeOp where
  | eq | append | atom | car | cdr | cons | container | contains | definition | discrepancy
  | do_ | dostar | loop | extract | fromboolean | fromfloat | frominteger | fromname | if_ | insert
  | length | list | member | noop | nth | null | position | print | quote | rand | size | subst
  deriving DecidableEq, Repr, Inhabited

inductive ExecOp where
  | eq | cmd | loop | if_ | k | s | y
  deriving DecidableEq, Repr, Inhabited

inductive IndexOp where
  | current | define | destination | flush | increase | pop
  deriving DecidableEq, Repr, Inhabited

inductive IoOp where
  | available | get | next | read | inDepth | outFlush | outDepth | outWrite
  deriving DecidableEq, Repr, Inhabited

/-- vector instructions other than the generic stack manipulation; which (type, op) pairs are
registered is `Instr.registered` -/
inductive VecOp where
  | and | or | not | count | equal | get | set | length | ones | zeros | rand | rotate
  | sortAsc | sortDesc
  | add | sub | mul | div | mulScalar | append | empty | mean | sum | sine
  | boolindex | contains | fromint | loop | remove | setInsert
  deriving DecidableEq, Repr, Inhabited

inductive ListOp where
  | add | bval | fval | get | ival | nbBvals | nbFvals | nbIds | nbIvals | remove | set
  deriving DecidableEq, Repr, Inhabited

inductive GraphOp where
  | add | dup | edgeAdd | edgeGetWeight | edgeHistory | edgeSetWeight | nodeAdd | nodeGetState
  | nodeHistory | nodeNeighbors | nodePredecessors | nodeSetState | nodeStateSwitch | nodeSuccessors
  | nodes | nodesHistory | print | printDiff | depth
  deriving DecidableEq, Repr, Inhabited

inductive Instr where
  | noop
  | stk (t : Ty) (o : SOp)
  | define (t : Ty)
  | boolean (o : BoolOp)
  | integer (o : IntOp)
  | float (o : FloatOp)
  | name (o : NameOp)
  | code (o : CodeOp)
  | exec (o : ExecOp)
  | index (o : IndexOp)
  | io (o : IoOp)
  | vec (t : VTy) (o : VecOp)
  | list (o : ListOp)
  | graph (o : GraphOp)
  | unknown (s : String)
  deriving DecidableEq, Repr, Inhabited

structure Edge where
  origin : Nat
  weight : Float32
  deriving Inhabited

/-- Graph memory. `nodes`: id ↦ state; `edges`: destination id ↦ incoming edges in insertion order.
Both association lists are kept sorted by key (the Rust `HashMap` order is not observable through
the canonical encoding). -/
structure Graph where
  nodes : List (Nat × Int32)
  edges : List (Nat × List Edge)
  deriving Inhabited

/-- literal values (`PushType`) -/
inductive Lit where
  | bool (b : Bool)
  | int (i : Int32)
  | index (cur dest : Nat)
  | float (f : Float32)
  | bvec (v : List Bool)
  | ivec (v : List Int32)
  | fvec (v : List Float32)
  | graph (g : Graph)
  deriving Inhabited

/-- code items. A list holds its elements **top first** (index 0 = stack position 0 = the element
printed first and executed first). -/
inductive Item where
  | list (xs : List Item)
  | instr (i : Instr)
  | lit (v : Lit)
  | ident (n : String)
  deriving Inhabited

structure Msg where
  header : List Int32
  body : List Bool
  deriving Inhabited

/-- abstract (Layer 1) ring buffer: capacity and the live items, oldest first -/
structure Buf (α : Type) where
  cap : Nat
  items : List α
  deriving Inhabited

structure Config where
  maxRandFloat : Float32
  minRandFloat : Float32
  maxRandInt : Int32
  minRandInt : Int32
  evalPushLimit : Int32
  evalTimeLimit : Nat
  growthCap : Nat
  newErcNameProb : Float32
  maxPointsRand : Int32
  maxPointsProg : Int32
  deriving Inhabited

/-- interpreter state; every stack is a list with the **top at the head** -/
structure State where
  bool : List Bool
  int : List Int32
  float : List Float32
  name : List String
  code : List Item
  exec : List Item
  index : List (Nat × Nat)
  bvec : List (List Bool)
  ivec : List (List Int32)
  fvec : List (List Float32)
  input : Buf Msg
  output : Buf Msg
  graph : Buf Graph
  bindings : List (String × Item)   -- sorted by key, unique keys
  cfg : Config
  quote : Bool
  send : Bool
  /-- hidden environment: position in the random oracle stream (not part of `PushState`) -/
  rng : Nat := 0
  /-- hidden environment: value of the process-global node counter -/
  nextId : Nat := 1
  deriving Inhabited

end Pushr
