import Pushr.Types
/-! Instruction names: `Instr.name`, the registered set (`Instr.all`), `Instr.ofName`. -/
namespace Pushr

def Ty.pre : Ty → String
  | .bool => "BOOLEAN" | .int => "INTEGER" | .float => "FLOAT" | .name => "NAME" | .code => "CODE"
  | .exec => "EXEC" | .bvec => "BOOLVECTOR" | .ivec => "INTVECTOR" | .fvec => "FLOATVECTOR"

def VTy.pre : VTy → String
  | .b => "BOOLVECTOR" | .i => "INTVECTOR" | .f => "FLOATVECTOR"

def VTy.ty : VTy → Ty
  | .b => .bvec | .i => .ivec | .f => .fvec

def SOp.suf : SOp → String
  | .dup => "DUP" | .pop => "POP" | .swap => "SWAP" | .rot => "ROT" | .yank => "YANK"
  | .yankdup => "YANKDUP" | .shove => "SHOVE" | .flush => "FLUSH" | .depth => "STACKDEPTH" | .id => "ID"

def BoolOp.suf : BoolOp → String
  | .eq => "=" | .and => "AND" | .or => "OR" | .not => "NOT" | .fromfloat => "FROMFLOAT"
  | .frominteger => "FROMINTEGER" | .rand => "RAND"

def IntOp.suf : IntOp → String
  | .mod => "%" | .mul => "*" | .add => "+" | .sub => "-" | .div => "/" | .lt => "<" | .eq => "="
  | .gt => ">" | .abs => "ABS" | .ddup => "DDUP" | .fromboolean => "FROMBOOLEAN"
  | .fromfloat => "FROMFLOAT" | .max => "MAX" | .min => "MIN" | .rand => "RAND"

def FloatOp.suf : FloatOp → String
  | .mod => "%" | .mul => "*" | .add => "+" | .sub => "-" | .div => "/" | .lt => "<" | .eq => "="
  | .gt => ">" | .cos => "COS" | .exp => "EXP" | .fromboolean => "FROMBOOLEAN"
  | .frominteger => "FROMINTEGER" | .max => "MAX" | .min => "MIN" | .rand => "RAND" | .sin => "SIN"
  | .tan => "TAN"

def NameOp.suf : NameOp → String
  | .eq => "=" | .cat => "CAT" | .quote => "QUOTE" | .rand => "RAND" | .randbound => "RANDBOUNDNAME"
  | .send => "SEND"

def CodeOp.suf : CodeOp → String
  | .eq => "=" | .append => "APPEND" | .atom => "ATOM" | .car => "CAR" | .cdr => "CDR"
  | .cons => "CONS" | .container => "CONTAINER" | .contains => "CONTAINS"
  | .definition => "DEFINITION" | .discrepancy => "DISCREPANCY" | .do_ => "DO" | .dostar => "DO*"
  | .loop => "LOOP" | .extract => "EXTRACT" | .fromboolean => "FROMBOOLEAN"
  | .fromfloat => "FROMFLOAT" | .frominteger => "FROMINTEGER" | .fromname => "FROMNAME"
  | .if_ => "IF" | .insert => "INSERT" | .length => "LENGTH" | .list => "LIST" | .member => "MEMBER"
  | .noop => "NOOP" | .nth => "NTH" | .null => "NULL" | .position => "POSITION" | .print => "PRINT"
  | .quote => "QUOTE" | .rand => "RAND" | .size => "SIZE" | .subst => "SUBST"

def ExecOp.suf : ExecOp → String
  | .eq => "=" | .cmd => "CMD" | .loop => "LOOP" | .if_ => "IF" | .k => "K" | .s => "S" | .y => "Y"

def IndexOp.suf : IndexOp → String
  | .current => "CURRENT" | .define => "DEFINE" | .destination => "DESTINATION" | .flush => "FLUSH"
  | .increase => "INCREASE" | .pop => "POP"

def IoOp.name : IoOp → String
  | .available => "INPUT.AVAILABLE" | .get => "INPUT.GET" | .next => "INPUT.NEXT"
  | .read => "INPUT.READ" | .inDepth => "INPUT.STACKDEPTH" | .outFlush => "OUTPUT.FLUSH"
  | .outDepth => "OUTPUT.STACKDEPTH" | .outWrite => "OUTPUT.WRITE"

def VecOp.suf : VecOp → String
  | .and => "AND" | .or => "OR" | .not => "NOT" | .count => "COUNT" | .equal => "EQUAL"
  | .get => "GET" | .set => "SET" | .length => "LENGTH" | .ones => "ONES" | .zeros => "ZEROS"
  | .rand => "RAND" | .rotate => "ROTATE" | .sortAsc => "SORT*ASC" | .sortDesc => "SORT*DESC"
  | .add => "+" | .sub => "-" | .mul => "*" | .div => "/" | .mulScalar => "*SCALAR"
  | .append => "APPEND" | .empty => "EMPTY" | .mean => "MEAN" | .sum => "SUM" | .sine => "SINE"
  | .boolindex => "BOOLINDEX" | .contains => "CONTAINS" | .fromint => "FROMINT" | .loop => "LOOP"
  | .remove => "REMOVE" | .setInsert => "SET*INSERT"

def ListOp.suf : ListOp → String
  | .add => "ADD" | .bval => "BVAL" | .fval => "FVAL" | .get => "GET" | .ival => "IVAL"
  | .nbBvals => "NEIGHBOR*BVALS" | .nbFvals => "NEIGHBOR*FVALS" | .nbIds => "NEIGHBOR*IDS"
  | .nbIvals => "NEIGHBOR*IVALS" | .remove => "REMOVE" | .set => "SET"

def GraphOp.suf : GraphOp → String
  | .add => "ADD" | .dup => "DUP" | .edgeAdd => "EDGE*ADD" | .edgeGetWeight => "EDGE*GETWEIGHT"
  | .edgeHistory => "EDGE*HISTORY" | .edgeSetWeight => "EDGE*SETWEIGHT" | .nodeAdd => "NODE*ADD"
  | .nodeGetState => "NODE*GETSTATE" | .nodeHistory => "NODE*HISTORY"
  | .nodeNeighbors => "NODE*NEIGHBORS" | .nodePredecessors => "NODE*PREDECESSORS"
  | .nodeSetState => "NODE*SETSTATE" | .nodeStateSwitch => "NODE*STATESWITCH"
  | .nodeSuccessors => "NODE*SUCCESSORS" | .nodes => "NODES" | .nodesHistory => "NODES*HISTORY"
  | .print => "PRINT" | .printDiff => "PRINT*DIFF" | .depth => "STACKDEPTH"

def Instr.str : Instr → String
  | .noop => "NOOP"
  | .stk t o => t.pre ++ "." ++ o.suf
  | .define t => t.pre ++ ".DEFINE"
  | .boolean o => "BOOLEAN." ++ o.suf
  | .integer o => "INTEGER." ++ o.suf
  | .float o => "FLOAT." ++ o.suf
  | .name o => "NAME." ++ o.suf
  | .code o => "CODE." ++ o.suf
  | .exec o => "EXEC." ++ o.suf
  | .index o => "INDEX." ++ o.suf
  | .io o => o.name
  | .vec t o => t.pre ++ "." ++ o.suf
  | .list o => "LIST." ++ o.suf
  | .graph o => "GRAPH." ++ o.suf
  | .unknown s => s

def Ty.all : List Ty := [.bool, .int, .float, .name, .code, .exec, .bvec, .ivec, .fvec]
def Ty.isVec : Ty → Bool
  | .bvec | .ivec | .fvec => true
  | _ => false
def SOp.all : List SOp := [.dup, .pop, .swap, .rot, .yank, .yankdup, .shove, .flush, .depth, .id]

/-- vector instructions registered per element type (INTVECTOR.* and INTVECTOR./ are implemented
but their registration is commented out in `vector.rs`) -/
def VecOp.forTy : VTy → List VecOp
  | .b => [.and, .count, .equal, .get, .length, .not, .ones, .or, .rand, .rotate, .set, .sortAsc,
           .sortDesc, .zeros]
  | .f => [.mul, .mulScalar, .add, .sub, .div, .append, .empty, .equal, .get, .length, .mean, .ones,
           .rand, .rotate, .set, .sine, .sortAsc, .sortDesc, .sum, .zeros]
  | .i => [.add, .sub, .append, .boolindex, .contains, .empty, .equal, .fromint, .get, .length,
           .loop, .mean, .ones, .rand, .remove, .rotate, .set, .setInsert, .sortAsc, .sortDesc, .sum,
           .zeros]

/-- the default instruction set (`InstructionSet::load`) -/
def Instr.all : List Instr :=
  [.noop]
  ++ (Ty.all.flatMap fun t => (SOp.all.filter fun o => !(t.isVec && o == .rot)).map (Instr.stk t))
  ++ ([Ty.bool, .int, .float, .code, .exec, .bvec, .ivec, .fvec].map Instr.define)
  ++ ([BoolOp.eq, .and, .or, .not, .fromfloat, .frominteger, .rand].map Instr.boolean)
  ++ ([IntOp.mod, .mul, .add, .sub, .div, .lt, .eq, .gt, .abs, .ddup, .fromboolean, .fromfloat, .max,
       .min, .rand].map Instr.integer)
  ++ ([FloatOp.mod, .mul, .add, .sub, .div, .lt, .eq, .gt, .cos, .exp, .fromboolean, .frominteger,
       .max, .min, .rand, .sin, .tan].map Instr.float)
  ++ ([NameOp.eq, .cat, .quote, .rand, .randbound, .send].map Instr.name)
  ++ ([CodeOp.eq, .append, .atom, .car, .cdr, .cons, .container, .contains, .definition,
       .discrepancy, .do_, .dostar, .loop, .extract, .fromboolean, .fromfloat, .frominteger,
       .fromname, .if_, .insert, .length, .list, .member, .noop, .nth, .null, .position, .print,
       .quote, .rand, .size, .subst].map Instr.code)
  ++ ([ExecOp.eq, .cmd, .loop, .if_, .k, .s, .y].map Instr.exec)
  ++ ([IndexOp.current, .define, .destination, .flush, .increase, .pop].map Instr.index)
  ++ ([IoOp.available, .get, .next, .read, .inDepth, .outFlush, .outDepth, .outWrite].map Instr.io)
  ++ ([VTy.b, .i, .f].flatMap fun t => (VecOp.forTy t).map (Instr.vec t))
  ++ ([ListOp.add, .bval, .fval, .get, .ival, .nbBvals, .nbFvals, .nbIds, .nbIvals, .remove,
       .set].map Instr.list)
  ++ ([GraphOp.add, .dup, .edgeAdd, .edgeGetWeight, .edgeHistory, .edgeSetWeight, .nodeAdd,
       .nodeGetState, .nodeHistory, .nodeNeighbors, .nodePredecessors, .nodeSetState,
       .nodeStateSwitch, .nodeSuccessors, .nodes, .nodesHistory, .print, .printDiff,
       .depth].map Instr.graph)

def Instr.table : List (String × Instr) := Instr.all.map fun i => (i.str, i)

def Instr.ofName (s : String) : Instr :=
  match Instr.table.find? (fun p => p.1 == s) with
  | some p => p.2
  | none => .unknown s

def Instr.isRegistered (i : Instr) : Bool := Instr.all.contains i

/-- the parser's instruction test: the token is one of the registered names -/
def Instr.isName (tok : String) : Bool := Instr.table.any (·.1 == tok)

end Pushr
