import Pushr.Basic
/-! `f32` helpers that Lean's `Float32` lacks: exact `fmod`, Rust's `{:.N}` formatting, `str::parse::<f32>`.
All of them work on the bit pattern with exact `Nat` arithmetic. -/
namespace Pushr.F32

def bits (x : Float32) : Nat := x.toBits.toNat
def ofBitsNat (n : Nat) : Float32 := Float32.ofBits (UInt32.ofNat n)
def signBit (x : Float32) : Bool := bits x ≥ 2147483648
def expo (x : Float32) : Nat := (bits x / 8388608) % 256
def frac (x : Float32) : Nat := bits x % 8388608
def isNaN (x : Float32) : Bool := expo x == 255 && frac x != 0
def isInf (x : Float32) : Bool := expo x == 255 && frac x == 0
def isZero (x : Float32) : Bool := expo x == 0 && frac x == 0
/-- magnitude = `mant x * 2 ^ (e2 x)` for finite `x` -/
def mant (x : Float32) : Nat := if expo x == 0 then frac x else frac x + 8388608
def e2 (x : Float32) : Int := if expo x == 0 then -149 else (expo x : Int) - 150

def nan : Float32 := ofBitsNat 0x7fc00000
def inf (neg : Bool) : Float32 := ofBitsNat (if neg then 0xff800000 else 0x7f800000)
def zero (neg : Bool) : Float32 := ofBitsNat (if neg then 0x80000000 else 0)

/-- bit-level equality with all NaNs identified (used by the correspondence diff only) -/
def same (x y : Float32) : Bool := (isNaN x && isNaN y) || bits x == bits y

/-- round-half-even of `num / den` (den > 0) -/
def divRoundEven (num den : Nat) : Nat :=
  let q := num / den
  let r := num % den
  if 2 * r > den then q + 1
  else if 2 * r == den then (if q % 2 == 0 then q else q + 1)
  else q

/-- build the float nearest to `num / den` (ties to even), sign `neg`; `num, den > 0` -/
def ofRat (neg : Bool) (num den : Nat) : Float32 :=
  if num == 0 then zero neg else
  -- find e with 2^23 ≤ num/den/2^e < 2^24, i.e. e = floor(log2(num/den)) - 23
  let ln := Nat.log2 num
  let ld := Nat.log2 den
  -- floor(log2(num/den)) is ln - ld or ln - ld - 1
  let e0 : Int := (ln : Int) - (ld : Int)
  let ge (e : Int) : Bool :=  -- num/den ≥ 2^e ?
    if e ≥ 0 then num ≥ den * 2 ^ e.toNat else num * 2 ^ (-e).toNat ≥ den
  let fl : Int := if ge e0 then e0 else e0 - 1
  let e : Int := max (fl - 23) (-149)
  let m := if e ≥ 0 then divRoundEven num (den * 2 ^ e.toNat) else divRoundEven (num * 2 ^ (-e).toNat) den
  -- m ≤ 2^24; renormalise when it reached 2^24
  let (m, e) := if m ≥ 16777216 then (m / 2, e + 1) else (m, e)
  if m == 0 then zero neg
  else if m < 8388608 then ofBitsNat ((if neg then 2147483648 else 0) + m)  -- subnormal, e = -149
  else
    let be := e + 150
    if be ≥ 255 then inf neg
    else ofBitsNat ((if neg then 2147483648 else 0) + be.toNat * 8388608 + (m - 8388608))

/-- C `fmodf` = Rust `%` on `f32` -/
def fmod (x y : Float32) : Float32 :=
  if isNaN x || isNaN y || isInf x || isZero y then nan
  else if isInf y || isZero x then x
  else
    let e := min (e2 x) (e2 y)
    let X := mant x * 2 ^ (e2 x - e).toNat
    let Y := mant y * 2 ^ (e2 y - e).toNat
    let R := X % Y
    if R == 0 then zero (signBit x)
    else if e ≥ 0 then ofRat (signBit x) (R * 2 ^ e.toNat) 1 else ofRat (signBit x) R (2 ^ (-e).toNat)

def padLeft (s : String) (n : Nat) (c : Char) : String :=
  String.ofList (List.replicate (n - s.length) c) ++ s

/-- Rust `format!("{:.prec$}", x)` -/
def fmtFixed (x : Float32) (prec : Nat) : String :=
  if isNaN x then "NaN"
  else if isInf x then (if signBit x then "-inf" else "inf")
  else
    let m := mant x
    let e := e2 x
    let p := 10 ^ prec
    let q := if e ≥ 0 then m * 2 ^ e.toNat * p else divRoundEven (m * p) (2 ^ (-e).toNat)
    let ip := q / p
    let fp := q % p
    let body := if prec == 0 then toString ip else toString ip ++ "." ++ padLeft (toString fp) prec '0'
    if signBit x then "-" ++ body else body

def fmt3 (x : Float32) : String := fmtFixed x 3
def fmt1 (x : Float32) : String := fmtFixed x 1

end Pushr.F32
