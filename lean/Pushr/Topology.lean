import Pushr.Basic
/-! `topology.rs`: index decomposition on a hypercube and the neighbourhood scan. The neighbourhood
is parametrised by a predicate on the exact squared integer distance, so that the geometric theorems
hold for every radius test that is antitone in the distance (the `f32` test is one instance). -/
namespace Pushr.Topo

/-- smallest `e ≥ 1` with `e ^ ndim ≥ ntotal`, searched upwards from `e` with fuel -/
def ceilRootFrom (ntotal ndim : Nat) : Nat → Nat → Nat
  | 0, e => e
  | fuel + 1, e => if e ^ ndim ≥ ntotal then e else ceilRootFrom ntotal ndim fuel (e + 1)

/-- edge length of the smallest hypercube of dimension `ndim` holding `ntotal` indices -/
def ceilRoot (ntotal ndim : Nat) : Nat := ceilRootFrom ntotal ndim ntotal 1

/-- `decompose_index`: digit `i` of `index` in base `nedge` (`checked_pow` fails at 2^64) -/
def digits (index nedge : Nat) : Nat → List Nat
  | 0 => []
  | n + 1 => digits index nedge n ++ [index / nedge ^ n % nedge]

def decompose (index nedge ndim : Nat) : Option (List Nat) :=
  if ndim = 0 ∨ nedge ^ (ndim - 1) < 2 ^ 64 then some (digits index nedge ndim) else none

/-- exact squared Euclidean distance of two coordinate vectors of equal length -/
def dist2 : List Nat → List Nat → Nat
  | a :: as, b :: bs => (if a ≥ b then (a - b) * (a - b) else (b - a) * (b - a)) + dist2 as bs
  | _, _ => 0

/-- the scan of `find_neighbors` over `0..ntotal` for a given edge and radius predicate -/
def scan (within : Nat → Bool) (nedge ndim : Nat) (centre : List Nat) (ntotal : Nat) : List Nat :=
  (List.range ntotal).filter fun i => within (dist2 centre (digits i nedge ndim))

/-- the `f32` radius test: `sqrt(d²) <= radius` -/
def withinF (radius : Float32) (d2 : Nat) : Bool := Float32.sqrt (Float32.ofNat d2) ≤ radius

/-- `Topology::find_neighbors` (repaired: the edge is the exact integer ceiling root) -/
def findNeighbors (within : Nat → Bool) (radiusNeg : Bool) (ntotal ndim index : Nat) : Option (List Nat) :=
  if radiusNeg ∨ ndim < 1 ∨ ntotal < 1 ∨ index > ntotal then none
  else
    let nedge := ceilRoot ntotal ndim
    match decompose index nedge ndim with
    | none => none
    | some centre => some (scan within nedge ndim centre ntotal)

end Pushr.Topo
