import Pushr.Basic
import Pushr.StateOps
/-! Layer 0: `PushBuffer<T>` as `buffer.rs` writes it — fixed container, `start` / `end` / `len`
cursors with `% capacity`. (`to_string` in its repaired form: newest item at `start - 1`.) -/
namespace Pushr

inductive BufKind where
  | queue | stack
  deriving DecidableEq, Repr, Inhabited

structure Ring (α : Type) where
  cap : Nat
  cont : List α
  start : Nat      -- next slot to write
  fin : Nat        -- `end`: slot of the oldest live item
  len : Nat
  kind : BufKind
  deriving Inhabited

namespace Ring
variable {α : Type} [Inhabited α]

def new (kind : BufKind) (cap : Nat) : Ring α :=
  { cap := cap, cont := List.replicate cap default, start := 0, fin := 0, len := 0, kind := kind }

def size (r : Ring α) : Nat := r.len
def isFull (r : Ring α) : Bool := r.len == r.cap
def isEmpty (r : Ring α) : Bool := r.len == 0

def flush (r : Ring α) : Ring α :=
  { r with cont := List.replicate r.cap default, start := 0, fin := 0, len := 0 }

/-- `get_index`: slot of position `i` (`None` beyond the live items) -/
def getIndex (r : Ring α) (i : Nat) : Option Nat :=
  if r.len == 0 || i > r.len - 1 then none
  else match r.kind with
    | .stack =>
      -- `start as i32 - (i+1) as i32`, `+ capacity` when negative
      some (if i + 1 ≤ r.start then r.start - (i + 1) else r.start + r.cap - (i + 1))
    | .queue =>
      -- `end + i`, `- capacity` when beyond the last slot
      some (if r.fin + i > r.cap - 1 then r.fin + i - r.cap else r.fin + i)

def get (r : Ring α) (i : Nat) : Rs (Option α) :=
  match r.getIndex i with
  | some k => do let x ← RVec.idx r.cont k; .ok (some x)
  | none => .ok none

def peekOldest (r : Ring α) : Option α := if r.len == 0 then none else r.cont[r.fin]?
def peekNewest (r : Ring α) : Option α :=
  if r.len == 0 then none else r.cont[(r.start + r.cap - 1) % r.cap]?

def push (r : Ring α) (x : α) : Rs (Ring α) :=
  if r.isFull then .ok r
  else do
    let c ← RVec.set r.cont r.start x
    .ok { r with cont := c, len := r.len + 1, start := (r.start + 1) % r.cap }

def pushForce (r : Ring α) (x : α) : Rs (Ring α) := do
  let c ← RVec.set r.cont r.start x
  if r.isFull then .ok { r with cont := c, fin := (r.fin + 1) % r.cap, start := (r.start + 1) % r.cap }
  else .ok { r with cont := c, len := r.len + 1, start := (r.start + 1) % r.cap }

def pop (r : Ring α) : Rs (Option α × Ring α) :=
  match r.getIndex 0 with
  | none => .ok (none, r)
  | some k => do
    let x ← RVec.idx r.cont k          -- `container.get_mut(k).unwrap()`
    let c ← RVec.set r.cont k default  -- `std::mem::take`
    match r.kind with
    | .queue => .ok (some x, { r with cont := c, len := r.len - 1, fin := (r.fin + 1) % r.cap })
    | .stack => .ok (some x, { r with cont := c, len := r.len - 1, start := k })

/-- iteration order of `iter()`: from `end`, `len` items, wrapping -/
def iterSlots (r : Ring α) : List Nat := (List.range r.len).map fun i => (r.fin + i) % r.cap

/-- slots visited by `to_string` (repaired): `start - (i + 1)`, `+ capacity` when negative -/
def printSlots (r : Ring α) : List Nat :=
  (List.range r.len).map fun i => if i + 1 ≤ r.start then r.start - (i + 1) else r.start + r.cap - (i + 1)

end Ring
end Pushr
