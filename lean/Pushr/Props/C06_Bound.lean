import Pushr.Props.C06
/-! # C06 (supplement) — code reached through a name runs like code written in place -/
namespace Pushr.C06
open Pushr

/-- a name bound to a list: two steps (the name step pushes the list, the list step unpacks it) leave the list's
elements on EXEC first element on top, in front of the continuation — exactly what the list itself would have
produced in one step. So a bound list runs left to right, and a loop whose body is such a name sees the same
INDEX.CURRENT values as with the body written in place. -/
theorem bound_list_unpacked (X : Ext) (ρ : Oracle) (s : State) (n : String) (xs e : List Item)
    (h : s.exec = .ident n :: e) (hq : s.quote = false) (hb : bindLookup n s.bindings = some (.list xs)) :
    stepN X ρ 2 s = { s with exec := xs ++ e } := by
  simp [stepN, step, h, hq, hb, pushExec]

/-- a name bound to an atom (a literal, an instruction, another name) puts exactly that item on EXEC in one step -/
theorem bound_item_pushed (X : Ext) (ρ : Oracle) (s : State) (n : String) (v : Item) (e : List Item)
    (h : s.exec = .ident n :: e) (hq : s.quote = false) (hb : bindLookup n s.bindings = some v) :
    stepN X ρ 1 s = { s with exec := v :: e } := by
  simp [stepN, step, h, hq, hb, pushExec]

end Pushr.C06
