import Pushr.Props.C17
/-! # C17 (supplement) — peeking: the oldest and the newest live item -/
namespace Pushr.C17
open Pushr Ring
variable {α : Type} [Inhabited α]

/-- `peek_oldest` is the first of the live items (absent when empty) -/
theorem peekOldest_refines (r : Ring α) (h : Inv r) : r.peekOldest = (abs r).head? := by
  unfold peekOldest
  by_cases h0 : r.len = 0
  · have : abs r = [] := by apply List.eq_nil_of_length_eq_zero; rw [abs_length]; exact h0
    simp [h0, this]
  · have := cont_slot r h 0 (by omega)
    obtain ⟨hc, hl, hf, hle, hs⟩ := h
    simp only [Nat.add_zero, Nat.mod_eq_of_lt hf] at this
    simp [h0, this, List.head?_eq_getElem?]

/-- `peek_newest` is the last of the live items, wherever the write cursor stands (also when it has wrapped to 0) -/
theorem peekNewest_refines (r : Ring α) (h : Inv r) : r.peekNewest = (abs r).getLast? := by
  unfold peekNewest
  by_cases h0 : r.len = 0
  · have : abs r = [] := by apply List.eq_nil_of_length_eq_zero; rw [abs_length]; exact h0
    simp [h0, this]
  · have hslot := cont_slot r h (r.len - 1) (by omega)
    obtain ⟨hc, hl, hf, hle, hs⟩ := h
    have hidx : (r.start + r.cap - 1) % r.cap = (r.fin + (r.len - 1)) % r.cap := by
      rw [hs, mod_ite r.fin r.len r.cap hf hle, mod_ite r.fin (r.len - 1) r.cap hf (by omega)]
      split
      · next hlt =>
        have : r.fin + r.len + r.cap - 1 = (r.fin + r.len - 1) + r.cap := by omega
        rw [this, Nat.add_mod_right, Nat.mod_eq_of_lt (by omega)]
        split <;> omega
      · next hge =>
        have : r.fin + r.len - r.cap + r.cap - 1 = r.fin + r.len - 1 := by omega
        rw [this]
        split
        · rw [Nat.mod_eq_of_lt (by omega)]; omega
        · have : r.fin + r.len - 1 = (r.fin + (r.len - 1) - r.cap) + r.cap := by omega
          rw [this, Nat.add_mod_right, Nat.mod_eq_of_lt (by omega)]
    simp only [h0, beq_iff_eq, if_false, hidx, hslot]
    rw [List.getLast?_eq_getElem?, abs_length]

end Pushr.C17
