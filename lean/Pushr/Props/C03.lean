import Pushr.Parser
/-! # C03 — the parser builds exactly the tree the text describes

The parser model works on token lists (`Tok`); `tokenize` and `classify` produce them from the text.
`render` is the token sequence of a tree (children in text order). Theorems hold for every forest,
every nesting depth and every stack the parse starts on. -/
namespace Pushr.C03
open Pushr Pushr.Parse

mutual
/-- the token sequence that describes an item (top-first children = text order) -/
def render : Item → List Tok
  | .list xs => .lp :: (renderL xs ++ [.rp])
  | t => [.atom t]
def renderL : List Item → List Tok
  | [] => []
  | t :: ts => render t ++ renderL ts
end

/-- context of the open list: the stacks of the enclosing levels, innermost first -/
def plug : List (List Item) → List Item → List Item
  | [], inner => inner
  | r :: ctx, inner => plug ctx (.list inner :: r)

theorem recPush_plug (ctx : List (List Item)) (s : List Item) (x : Item) (k : Nat) :
    recPush (plug ctx s) x (ctx.length + k) = plug ctx (recPush s x k) := by
  induction ctx generalizing s k with
  | nil => simp [plug]
  | cons r ctx ih =>
    simp only [plug, List.length_cons]
    rw [show ctx.length + 1 + k = ctx.length + (k + 1) by omega, ih]
    simp [recPush]

theorem parse_append (a b : List Tok) (s : List Item × Nat) :
    parseToks (a ++ b) s = parseToks b (parseToks a s) := by
  simp [parseToks, List.foldl_append]

/-- an atom is its own Vec-order form -/
def IsAtom : Item → Prop
  | .list _ => False
  | _ => True

mutual
theorem parse_render (t : Item) (ctx : List (List Item)) (inner : List Item) :
    parseToks (render t) (plug ctx inner, ctx.length) = (plug ctx (rev t :: inner), ctx.length) := by
  cases t with
  | list ts =>
    have h0 := recPush_plug ctx inner (.list []) 0
    simp only [Nat.add_zero] at h0
    rw [render, show (Tok.lp :: (renderL ts ++ [Tok.rp])) = [Tok.lp] ++ (renderL ts ++ [Tok.rp]) by rfl]
    rw [parse_append, parse_append]
    have h1 : parseToks [Tok.lp] (plug ctx inner, ctx.length)
        = (plug (inner :: ctx) [], (inner :: ctx).length) := by
      simp [parseToks, parseStep, h0, recPush, plug]
    rw [h1, parse_renderL ts (inner :: ctx) []]
    simp [parseToks, parseStep, plug, rev]
  | instr i =>
    have := recPush_plug ctx inner (.instr i) 0
    simp [render, parseToks, parseStep, rev, recPush] at *
    exact this
  | lit v =>
    have := recPush_plug ctx inner (.lit v) 0
    simp [render, parseToks, parseStep, rev, recPush] at *
    exact this
  | ident n =>
    have := recPush_plug ctx inner (.ident n) 0
    simp [render, parseToks, parseStep, rev, recPush] at *
    exact this
theorem parse_renderL (ts : List Item) (ctx : List (List Item)) (inner : List Item) :
    parseToks (renderL ts) (plug ctx inner, ctx.length) = (plug ctx (revL ts inner), ctx.length) := by
  cases ts with
  | nil => simp [renderL, parseToks, revL]
  | cons t ts =>
    rw [renderL, parse_append, parse_render t ctx inner, parse_renderL ts ctx (rev t :: inner)]
    simp [revL]
end

/-- **C03.** A balanced forest, parsed onto any stack at depth 0, yields exactly its trees: same
nesting, same order, each new item below the previous one (so the first token ends up on top) -/
theorem parse_forest (ts : List Item) (st : List Item) :
    parseToks (renderL ts) (st, 0) = (revL ts st, 0) := by
  simpa [plug] using parse_renderL ts [] st

/-! ## deep reversal is an involution (Vec order <-> top-first order) -/

theorem revL_acc (xs acc : List Item) : revL xs acc = revL xs [] ++ acc := by
  induction xs generalizing acc with
  | nil => simp [revL]
  | cons x xs ih => rw [revL, ih, revL, ih [rev x]]; simp

theorem revL_append (a b : List Item) : revL (a ++ b) [] = revL b [] ++ revL a [] := by
  induction a with
  | nil => simp [revL]
  | cons x a ih =>
    rw [List.cons_append, revL, revL_acc, ih, revL, revL_acc a [rev x]]; simp

mutual
theorem rev_rev (t : Item) : rev (rev t) = t := by
  cases t with
  | list xs => simp [rev, revL_revL xs]
  | instr i => rfl
  | lit v => rfl
  | ident n => rfl
theorem revL_revL (xs : List Item) : revL (revL xs []) [] = xs := by
  cases xs with
  | nil => rfl
  | cons x xs =>
    rw [revL, revL_acc xs [rev x], revL_append, revL_revL xs]
    simp [revL, rev_rev x]
end

/-- in the interpreter's own (top-first) convention: parsing the rendering of a forest onto an empty
EXEC stack gives back the forest -/
theorem parse_render_roundtrip (ts : List Item) :
    revL (parseToks (renderL ts) (revL [] [], 0)).1 [] = ts := by
  rw [show revL ([] : List Item) [] = [] by rfl, parse_forest, revL_revL]

/-- … and onto a non-empty EXEC stack the new items go *below* the old ones -/
theorem parse_render_below (ts old : List Item) :
    revL (parseToks (renderL ts) (revL old [], 0)).1 [] = old ++ ts := by
  rw [parse_forest, revL_acc ts, revL_append, revL_revL, revL_revL]

/-! ## malformed input -/

/-- a malformed vector literal is dropped without disturbing its neighbours -/
theorem malformed_vector_dropped (a b : List Tok) (s : List Item × Nat) :
    parseToks (a ++ [.dropped] ++ b) s = parseToks (a ++ b) s := by
  simp [parseToks, List.foldl_append, parseStep]

/-- an unmatched `)` is ignored (repaired: no underflow of the depth counter) -/
theorem unmatched_rparen_ignored (st : List Item) : parseStep (st, 0) .rp = (st, 0) := rfl

/-- parsing never touches any stack other than EXEC: the parser model is a function of the EXEC
stack and the text only -/
theorem parse_frame (isInstr : String → Bool) (s : State) (code : String) :
    let s' := { s with exec := parseProgram isInstr s.exec code }
    s'.code = s.code ∧ s'.int = s.int ∧ s'.name = s.name ∧ s'.bindings = s.bindings ∧ s'.bool = s.bool := by
  simp

/-! ## the lexical cascade on concrete tokens -/
example : (match classify (fun _ => false) "INT[1,2]" with | .atom (.lit (.ivec v)) => v == [1, 2] | _ => false) = true := by decide
example : (match classify (fun _ => false) "INT[" with | .dropped => true | _ => false) = true := by decide
example : (match classify (fun _ => false) "INT[]" with | .dropped => true | _ => false) = true := by decide
example : (match classify (fun _ => false) "BOOL[1,0,true]" with | .atom (.lit (.bvec v)) => v == [true, false, true] | _ => false) = true := by decide
example : (match classify (fun _ => false) "BOOL[2]" with | .dropped => true | _ => false) = true := by decide
example : (match classify (fun _ => false) "-12" with | .atom (.lit (.int v)) => v == -12 | _ => false) = true := by decide
example : (match classify (fun _ => false) "TRUE" with | .atom (.lit (.bool b)) => b | _ => false) = true := by decide
example : (match classify (fun _ => false) "true" with | .atom (.ident n) => n == "true" | _ => false) = true := by decide

end Pushr.C03
