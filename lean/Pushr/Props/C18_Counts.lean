import Pushr.Props.C18_Queries
/-! # C18 (supplement) — node and edge counts equal those of the set-based model -/
namespace Pushr.C18
open Pushr Pushr.Graph

def sumLen (m : List (Nat × List Edge)) : Nat := (m.map fun p => p.2.length).sum

theorem edgeSize_eq (g : Graph) : g.edgeSize = sumLen g.edges := rfl

/-- inserting under a key that is absent adds exactly one entry -/
theorem insertKey_absent {β : Type} (f : Nat × β → Nat) (k : Nat) (v : β) (m : List (Nat × β))
    (h : lookupKey k m = none) : ((insertKey k v m).map f).sum = (m.map f).sum + f (k, v) := by
  induction m with
  | nil => simp [insertKey]
  | cons p t ih =>
    obtain ⟨k', v'⟩ := p
    simp only [lookupKey] at h
    split at h
    · simp at h
    · next hk =>
      unfold insertKey
      split
      · simp only [List.map_cons, List.sum_cons]; omega
      · simp only [List.map_cons, List.sum_cons, ih h]; omega

/-- in a sorted map, inserting under a present key exchanges exactly that entry -/
theorem insertKey_present {β : Type} (f : Nat × β → Nat) (k : Nat) (v v0 : β) (m : List (Nat × β))
    (hs : Sorted m) (h : lookupKey k m = some v0) :
    ((insertKey k v m).map f).sum + f (k, v0) = (m.map f).sum + f (k, v) := by
  induction m with
  | nil => simp [lookupKey] at h
  | cons p t ih =>
    obtain ⟨k', v'⟩ := p
    simp only [Sorted, List.map_cons, List.pairwise_cons] at hs
    simp only [lookupKey] at h
    unfold insertKey
    by_cases hk : k = k'
    · subst hk
      simp only [if_true, Option.some.injEq] at h
      subst h
      simp; omega
    · simp only [hk, if_false] at h
      have hmem : k ∈ t.map (·.1) := by
        have := (mem_iff_lookup t hs.2 k v0).mpr h
        exact List.mem_map.mpr ⟨(k, v0), this, rfl⟩
      have hlt : k' < k := hs.1 k hmem
      have : ¬ k < k' := by omega
      simp only [this, if_false, hk]
      have := ih hs.2 h
      simp at this ⊢; omega

/-- ADD NODE: one more node exactly when the id is new -/
theorem nodeSize_addNode (g : Graph) (hw : WF g) (id : Nat) (st : Int32) :
    (g.addNode id st).nodeSize = g.nodeSize + (if g.hasNode id then 0 else 1) := by
  simp only [nodeSize, addNode, hasNode]
  have hlen : ∀ m : List (Nat × Int32), m.length = (m.map fun _ => 1).sum := by
    intro m; induction m with
    | nil => rfl
    | cons a t ih => simp [ih]; omega
  rw [hlen, hlen g.nodes]
  by_cases hh : (lookupKey id g.nodes).isSome = true
  · obtain ⟨s0, h⟩ := Option.isSome_iff_exists.mp hh
    have := insertKey_present (fun _ => 1) id st s0 g.nodes hw.1 h
    simp only [hh, if_true]; omega
  · have h : lookupKey id g.nodes = none := by simpa using hh
    have := insertKey_absent (fun _ => 1) id st g.nodes h
    simp only [h, Option.isSome_none, Bool.false_eq_true, if_false]; omega

/-- ADD EDGE: one more edge exactly when both nodes exist and the ordered pair had none; otherwise the graph is
left exactly as it was (in particular when only the weight differs from the stored one) -/
theorem edgeSize_addEdge (g : Graph) (hw : WF g) (o d : Nat) (w : Float32) :
    (g.addEdge o d w).edgeSize = g.edgeSize +
      (if g.hasNode o = true ∧ g.hasNode d = true ∧ g.getWeight o d = none then 1 else 0) := by
  simp only [edgeSize_eq]
  unfold addEdge
  split
  · next hn =>
    have ho : g.hasNode o = true := by simp at hn; exact hn.1
    have hd : g.hasNode d = true := by simp at hn; exact hn.2
    simp only [ho, hd, true_and]
    split
    · next l hl =>
      split
      · next hany =>
        have : ¬ g.getWeight o d = none := by
          rw [getWeight_eq, hl, wIn_none_iff]; simp [hany]
        simp [this]
      · next hany =>
        have hnone : g.getWeight o d = none := by
          rw [getWeight_eq, hl, wIn_none_iff]; simpa using hany
        have := insertKey_present (fun p : Nat × List Edge => p.2.length) d (l ++ [⟨o, w⟩]) l g.edges hw.2.1 hl
        simp only [hnone, if_true, sumLen]
        simp at this ⊢; omega
    · next hl =>
      have hnone : g.getWeight o d = none := by rw [getWeight_eq, hl]
      have := insertKey_absent (fun p : Nat × List Edge => p.2.length) d [⟨o, w⟩] g.edges hl
      simp only [hnone, if_true, sumLen]
      simp at this ⊢; omega
  · next hn =>
    have : ¬ (g.hasNode o = true ∧ g.hasNode d = true ∧ g.getWeight o d = none) := by
      intro hh; apply hn; simp [hh.1, hh.2.1]
    simp [this]

/-- adding an edge that is already there changes NOTHING, whatever the weight -/
theorem addEdge_existing (g : Graph) (o d : Nat) (w : Float32) (h : (g.getWeight o d).isSome = true) :
    g.addEdge o d w = g := by
  unfold addEdge
  split
  · split
    · next l hl =>
      split
      · rfl
      · next hany =>
        have : g.getWeight o d = none := by rw [getWeight_eq, hl, wIn_none_iff]; simpa using hany
        simp [this] at h
    · next hl => have : g.getWeight o d = none := by rw [getWeight_eq, hl]
                 simp [this] at h
  · rfl

end Pushr.C18
