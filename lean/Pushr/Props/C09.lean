import Pushr.Full
import Pushr.Spec.C09
/-! # C09 — vector instructions follow the README rules for lengths, offsets and indices

`overlap_loop_eq_spec`: the element-wise loop as written (in-place update of the second vector while
iterating over the top vector's indices shifted by the offset) equals the declarative rule
`result[j] = op second[j] top[j - off]` where the shifted top vector overlaps and `second[j]`
elsewhere — for every pair of lengths and every offset. -/
namespace Pushr.C09
open Pushr

variable {α : Type}

theorem overlapStep_length (op : α → α → α) (off : Int) (acc : List α) (it : α × Nat) :
    (overlapStep op off acc it).length = acc.length := by
  unfold overlapStep; split <;> (try split) <;> simp

theorem foldl_length (op : α → α → α) (off : Int) (its : List (α × Nat)) (acc : List α) :
    (its.foldl (overlapStep op off) acc).length = acc.length := by
  induction its generalizing acc with
  | nil => rfl
  | cons it its ih => simp [List.foldl, ih, overlapStep_length]

/-- the result has the second vector's length -/
theorem overlap_length (op : α → α → α) (second top : List α) (off : Int) :
    (overlapLoop op second top off).length = second.length := foldl_length ..

/-- loop invariant: after processing `l` (whose first element has index `k`), position `j` holds
`op` of the old value with the element of `l` that lands on it, if any -/
theorem foldl_getElem? (op : α → α → α) (off : Int) (l : List α) :
    ∀ (k : Nat) (acc : List α) (j : Nat),
      ((l.zipIdx k).foldl (overlapStep op off) acc)[j]? =
        (acc[j]?).map fun a =>
          if (k : Int) ≤ (j : Int) - off then
            match l[((j : Int) - off - k).toNat]? with
            | some t => op a t
            | none => a
          else a := by
  induction l with
  | nil => intro k acc j; cases h : acc[j]? <;> simp [h]
  | cons t l ih =>
    intro k acc j
    rw [List.zipIdx_cons, List.foldl_cons, ih (k + 1)]
    -- the state after the first iteration
    by_cases hj0 : (0 : Int) ≤ (k : Int) + off
    · cases ha : acc[((k : Int) + off).toNat]? with
      | none =>
        have hacc : overlapStep op off acc (t, k) = acc := by simp [overlapStep, hj0, ha]
        rw [hacc]
        cases hj : acc[j]? with
        | none => rfl
        | some a =>
          simp only [Option.map_some]
          have hne : ¬ ((j : Int) - off = k) := by
            intro h
            have : ((k : Int) + off).toNat = j := by omega
            rw [this, hj] at ha; cases ha
          by_cases hk : (k : Int) ≤ (j : Int) - off
          · have hk1 : ((k + 1 : Nat) : Int) ≤ (j : Int) - off := by omega
            simp only [hk, hk1, if_true]
            have : ((j : Int) - off - k).toNat = ((j : Int) - off - ((k + 1 : Nat) : Int)).toNat + 1 := by omega
            rw [this, List.getElem?_cons_succ]
          · have hk1 : ¬ ((k + 1 : Nat) : Int) ≤ (j : Int) - off := by omega
            simp only [hk, hk1, if_false]
      | some a0 =>
        have hacc : overlapStep op off acc (t, k) = acc.set ((k : Int) + off).toNat (op a0 t) := by
          simp [overlapStep, hj0, ha]
        rw [hacc, List.getElem?_set]
        by_cases hjj : ((k : Int) + off).toNat = j
        · have hlt : ((k : Int) + off).toNat < acc.length := (List.getElem?_eq_some_iff.mp ha).1
          have hi : (j : Int) - off = k := by omega
          have hk1 : ¬ ((k + 1 : Nat) : Int) ≤ (j : Int) - off := by omega
          have hk : (k : Int) ≤ (j : Int) - off := by omega
          rw [← hjj] at *
          simp only [if_true, hlt, Option.map_some, hk1, if_false, ha, hk]
          have : ((((k : Int) + off).toNat : Int) - off - k).toNat = 0 := by omega
          rw [this]; rfl
        · simp only [hjj, if_false]
          cases hj : acc[j]? with
          | none => rfl
          | some a =>
            simp only [Option.map_some]
            have hne : ¬ ((j : Int) - off = k) := by omega
            by_cases hk : (k : Int) ≤ (j : Int) - off
            · have hk1 : ((k + 1 : Nat) : Int) ≤ (j : Int) - off := by omega
              simp only [hk, hk1, if_true]
              have : ((j : Int) - off - k).toNat = ((j : Int) - off - ((k + 1 : Nat) : Int)).toNat + 1 := by omega
              rw [this, List.getElem?_cons_succ]
            · have hk1 : ¬ ((k + 1 : Nat) : Int) ≤ (j : Int) - off := by omega
              simp only [hk, hk1, if_false]
    · have hacc : overlapStep op off acc (t, k) = acc := by simp [overlapStep, hj0]
      rw [hacc]
      cases hj : acc[j]? with
      | none => rfl
      | some a =>
        simp only [Option.map_some]
        have hne : ¬ ((j : Int) - off = k) := by omega
        by_cases hk : (k : Int) ≤ (j : Int) - off
        · have hk1 : ((k + 1 : Nat) : Int) ≤ (j : Int) - off := by omega
          simp only [hk, hk1, if_true]
          have : ((j : Int) - off - k).toNat = ((j : Int) - off - ((k + 1 : Nat) : Int)).toNat + 1 := by omega
          rw [this, List.getElem?_cons_succ]
        · have hk1 : ¬ ((k + 1 : Nat) : Int) ≤ (j : Int) - off := by omega
          simp only [hk, hk1, if_false]

/-- **C09.** the loop as written equals the README rule, for all lengths and offsets -/
theorem overlap_loop_eq_spec (op : α → α → α) (second top : List α) (off : Int) :
    overlapLoop op second top off = overlapSpec op second top off := by
  apply List.ext_getElem?
  intro j
  unfold overlapLoop
  rw [foldl_getElem? op off top 0 second j]
  simp only [overlapSpec, List.getElem?_map, List.getElem?_zipIdx, Nat.zero_add, Option.map_map]
  cases second[j]? with
  | none => rfl
  | some a =>
    simp only [Option.map_some, Function.comp, Int.natCast_zero, Int.sub_zero]
    rfl

/-- positions outside the overlap keep the second vector's element -/
theorem overlap_outside_unchanged (op : α → α → α) (second top : List α) (off : Int) (j : Nat)
    (h : (j : Int) - off < 0 ∨ (top.length : Int) ≤ (j : Int) - off) :
    (overlapLoop op second top off)[j]? = second[j]? := by
  rw [overlap_loop_eq_spec]
  simp only [overlapSpec, List.getElem?_map, List.getElem?_zipIdx, Nat.zero_add, Option.map_map]
  cases hs : second[j]? with
  | none => rfl
  | some a =>
    simp only [Option.map_some, Function.comp]
    rcases h with h | h
    · have : ¬ (0 : Int) ≤ (j : Int) - off := by omega
      rw [if_neg this]
    · by_cases h0 : (0 : Int) ≤ (j : Int) - off
      · have : top[((j : Int) - off).toNat]? = none := List.getElem?_eq_none (by omega)
        rw [if_pos h0, this]
      · rw [if_neg h0]

/-! ## GET / SET clamp, ROTATE, constructors, sorting -/

/-- the clamped index of GET / SET is inside every non-empty vector -/
theorem clamp_in_bounds (len : Nat) (i : Int32) (h : 0 < len) : vecIdx len i < len := by
  unfold vecIdx clampIdx; omega

theorem vecSetAt_length (v : List α) (i : Int32) (x : α) : (vecSetAt v i x).length = v.length := by
  unfold vecSetAt; split <;> simp

theorem rotateIn_length (v : List α) (x : α) : (rotateIn v x).length = v.length := by
  cases v <;> simp [rotateIn]

/-- ROTATE moves every element one position to the left and puts the scalar last -/
theorem rotateIn_spec (a : α) (v : List α) (x : α) : rotateIn (a :: v) x = v ++ [x] := rfl

/-- SORT yields an ordered permutation of the vector -/
theorem sortI32_perm (v : List Int32) : (sortI32 v).Perm v := List.mergeSort_perm v _

theorem sortI32_sorted (v : List Int32) : (sortI32 v).Pairwise (fun a b => a ≤ b) := by
  have := List.pairwise_mergeSort (le := fun (a b : Int32) => decide (a ≤ b))
    (fun a b c hab hbc => by
      simp only [decide_eq_true_eq] at *
      exact Int32.le_trans hab hbc)
    (fun a b => by
      simp only [Bool.or_eq_true, decide_eq_true_eq]
      exact Int32.le_total a b) v
  simpa [sortI32] using this

theorem sortF32_perm (v : List Float32) : (sortF32 v).Perm v := List.mergeSort_perm v _
theorem sortBool_perm (v : List Bool) : (sortBool v).Perm v := List.mergeSort_perm v _

/-- NaN cannot make sorting fail: the key is a total order on bit patterns -/
theorem sortF32_sorted (v : List Float32) : (sortF32 v).Pairwise (fun a b => totalKey a ≤ totalKey b) := by
  have := List.pairwise_mergeSort (le := fun (a b : Float32) => decide (totalKey a ≤ totalKey b))
    (fun a b c hab hbc => by simp only [decide_eq_true_eq] at *; omega)
    (fun a b => by simp only [Bool.or_eq_true, decide_eq_true_eq]; omega) v
  simpa [sortF32] using this

/-! ## every remaining vector instruction meets its closed form (`Spec/C09.vecExpect`)

`tab n f` is the vector of length `n` whose `j`-th element is `f j` (`tab_length`, `tab_getElem?`), so each
statement below says what the length of the result is and what every single element is. -/


theorem tab_length (n : Nat) (f : Nat → α) : (tab n f).length = n := by simp [tab]

theorem tab_getElem? (n : Nat) (f : Nat → α) (j : Nat) : (tab n f)[j]? = if j < n then some (f j) else none := by
  unfold tab
  by_cases h : j < n
  · simp [h]
  · simp [h]

theorem eq_tab (v : List α) (f : Nat → α) (h : ∀ j, j < v.length → v[j]? = some (f j)) : v = tab v.length f := by
  apply List.ext_getElem?
  intro j
  rw [tab_getElem?]
  by_cases hj : j < v.length
  · rw [if_pos hj, h j hj]
  · rw [if_neg hj]; exact List.getElem?_eq_none (by omega)

theorem replicate_eq_tab (n : Nat) (x : α) : List.replicate n x = tab n (fun _ => x) := by
  have := eq_tab (List.replicate n x) (fun _ => x) (by
    intro j hj
    simp at hj
    simp [hj])
  simpa using this

theorem rotateIn_eq_spec (v : List α) (x : α) : rotateIn v x = rotateSpec v x := by
  cases v with
  | nil => simp [rotateIn, rotateSpec, tab]
  | cons a t =>
    unfold rotateSpec
    have h := eq_tab (rotateIn (a :: t) x) (fun j => (a :: t).getD (j + 1) x) (by
      intro j hj
      simp only [rotateIn, List.length_append, List.length_cons, List.length_nil] at hj
      simp only [rotateIn, List.getD_eq_getElem?_getD, List.getElem?_cons_succ]
      by_cases h1 : j < t.length
      · rw [List.getElem?_append_left h1, List.getElem?_eq_getElem h1]; rfl
      · have : j = t.length := by omega
        subst this
        simp)
    rw [h]; simp [rotateIn]

theorem vecSetAt_eq_spec (v : List α) (i : Int32) (x : α) : vecSetAt v i x = setSpec v i x := by
  unfold vecSetAt setSpec
  split
  · next h => simp at h; subst h; simp [tab]
  · have h := eq_tab (v.set (vecIdx v.length i) x) (fun j => if j = clampIdx v.length i then x else v.getD j x) (by
      intro j hj
      simp only [List.length_set] at hj
      simp only [vecIdx, List.getElem?_set, List.getD_eq_getElem?_getD]
      by_cases hji : clampIdx v.length i = j
      · subst hji; simp [hj]
      · have : ¬ j = clampIdx v.length i := fun h => hji h.symm
        simp [hji, this, List.getElem?_eq_getElem hj])
    rw [h]; simp

theorem append_eq_spec (v : List α) (x : α) : v ++ [x] = appendSpec v x := by
  unfold appendSpec
  have h := eq_tab (v ++ [x]) (fun j => v.getD j x) (by
    intro j hj
    simp only [List.length_append, List.length_cons, List.length_nil] at hj
    simp only [List.getD_eq_getElem?_getD]
    by_cases h1 : j < v.length
    · rw [List.getElem?_append_left h1, List.getElem?_eq_getElem h1]; rfl
    · have : j = v.length := by omega
      subst this; simp)
  rw [h]; simp

theorem map_eq_tab (v : List Float32) (f : Float32) : v.map (· * f) = tab v.length (fun j => v.getD j 0 * f) := by
  have h := eq_tab (v.map (· * f)) (fun j => v.getD j 0 * f) (by
    intro j hj
    simp only [List.length_map] at hj
    simp [List.getElem?_map, List.getElem?_eq_getElem hj])
  rw [h]; simp

theorem notLoop_eq_spec (v : List Bool) (off : Int) : notLoop v off = notSpec v off := by
  unfold notSpec
  have h := eq_tab (notLoop v off)
    (fun j => if 0 ≤ (j : Int) - off ∧ (j : Int) - off < v.length then !(v.getD j false) else v.getD j false) (by
    intro j hj
    simp only [notLoop, List.length_map, List.length_zipIdx] at hj
    simp only [notLoop, List.getElem?_map, List.getElem?_zipIdx, List.getElem?_eq_getElem hj, Option.map_some,
      Nat.zero_add, List.getD_eq_getElem?_getD, Option.getD_some])
  rw [h]; simp [notLoop]

/-- the wrapping left fold equals the mathematical sum reduced into `i32` -/
theorem foldl_add_eq (v : List Int32) (acc : Int32) :
    v.foldl (· + ·) acc = Int32.ofInt (acc.toInt + (v.map Int32.toInt).sum) := by
  induction v generalizing acc with
  | nil => simp [Int32.ofInt_toInt]
  | cons a t ih =>
    simp only [List.foldl_cons, List.map_cons, List.sum_cons]
    rw [ih]
    simp only [Int32.ofInt_add, Int32.ofInt_toInt, Int32.add_assoc]

theorem i32Sum_eq_spec (v : List Int32) : i32Sum v = sumSpec v := by
  unfold i32Sum sumSpec
  rw [foldl_add_eq]; simp

theorem boolIndex_aux (v : List Bool) (k : Nat) :
    ((v.zipIdx k).filterMap fun (b, i) => if b then some (lenI32 i) else none)
      = ((List.range' k v.length).filter fun j => v.getD (j - k) false).map lenI32 := by
  induction v generalizing k with
  | nil => simp
  | cons b t ih =>
    rw [List.zipIdx_cons, List.length_cons, List.range'_succ]
    have htail : (List.range' (k + 1) t.length).filter (fun j => (b :: t).getD (j - k) false)
        = (List.range' (k + 1) t.length).filter (fun j => t.getD (j - (k + 1)) false) := by
      apply List.filter_congr
      intro j hj
      rw [List.mem_range'] at hj
      obtain ⟨i, _, hi⟩ := hj
      have : j - k = (j - (k + 1)) + 1 := by omega
      rw [this]; rfl
    cases b with
    | true =>
      simp only [List.filterMap_cons, if_true, List.filter_cons, Nat.sub_self, List.getD_cons_zero, List.map_cons]
      rw [ih (k + 1), htail]
    | false =>
      simp only [List.filterMap_cons, List.filter_cons, Nat.sub_self, List.getD_cons_zero]
      rw [ih (k + 1), htail]
      rfl

theorem boolIndex_eq_spec (v : List Bool) :
    (v.zipIdx.filterMap fun (b, i) => if b then some (lenI32 i) else none) = boolIndexSpec v := by
  have := boolIndex_aux v 0
  simpa [boolIndexSpec, List.range_eq_range'] using this

theorem fromInt_eq_spec (n : Int32) (il : List Int32) :
    ((il.take (clampIdx (il.length + 1) n)).reverse, il.drop (clampIdx (il.length + 1) n)) = fromIntSpec n il := by
  have hk : clampIdx (il.length + 1) n = (max (min n.toInt il.length) 0).toNat := by
    unfold clampIdx; congr 1; omega
  unfold fromIntSpec
  simp only [← hk]
  have hle : clampIdx (il.length + 1) n ≤ il.length := by unfold clampIdx; omega
  generalize clampIdx (il.length + 1) n = k at hle
  have hlen : (il.take k).reverse.length = k := by simp; omega
  have h := eq_tab ((il.take k).reverse) (fun j => il.getD (k - 1 - j) 0) (by
    intro j hj
    rw [hlen] at hj
    rw [List.getElem?_reverse (by simp; omega), List.getElem?_take]
    have h1 : (il.take k).length - 1 - j < k := by simp; omega
    rw [if_pos h1]
    have h2 : (il.take k).length = k := by simp; omega
    rw [h2, List.getD_eq_getElem?_getD, List.getElem?_eq_getElem (by omega)]; rfl)
  rw [hlen] at h
  rw [← h]

theorem count_eq (v : List Bool) : (v.filter id).length = v.count true := by
  rw [List.count_eq_length_filter]; congr 1; apply List.filter_congr; intro x _; cases x <;> rfl

theorem zeroDiv_eq (second top : List Float32) (off : Int) :
    (top.zipIdx.any fun (t, i) =>
        let j : Int := (i : Int) + off
        decide (0 ≤ j) && decide (j.toNat < second.length) && t == 0)
      = zeroDivisorInOverlap second top off := by
  rw [Bool.eq_iff_iff]
  unfold zeroDivisorInOverlap
  simp only [List.any_eq_true, Bool.and_eq_true, decide_eq_true_eq, List.mem_range]
  constructor
  · rintro ⟨⟨t, i⟩, hm, ⟨h0, h1⟩, ht⟩
    rw [List.mem_zipIdx_iff_getElem?] at hm
    simp only at hm h0 h1 ht
    refine ⟨((i : Int) + off).toNat, h1, by omega, ?_⟩
    have : (((((i : Int) + off).toNat : Nat) : Int) - off).toNat = i := by omega
    rw [this, hm]; exact ht
  · rintro ⟨j, hj, h0, ht⟩
    cases hq : top[((j : Int) - off).toNat]? with
    | none => rw [hq] at ht; simp at ht
    | some t =>
      rw [hq] at ht
      refine ⟨(t, ((j : Int) - off).toNat), ?_, ⟨?_, ?_⟩, ht⟩
      · rw [List.mem_zipIdx_iff_getElem?]; exact hq
      · simp only; omega
      · simp only
        have : ((((j : Int) - off).toNat : Nat) : Int) + off = j := by omega
        rw [this]; simpa using hj


theorem beq_list_i32 (a b : List Int32) : (a == b) = decide (a = b) := by
  by_cases h : a = b <;> simp [h]

theorem filter_ne_eq (v : List Int32) (x : Int32) :
    List.filter (fun y => y != x) v = List.filter (fun y => !decide (y = x)) v := by
  apply List.filter_congr; intro y _; by_cases h : y = x <;> simp [h, bne]

theorem divOverlap_eq_spec (second top : List Float32) (off : Int) :
    divOverlap second top off
      = if zeroDivisorInOverlap second top off then none else some (overlapSpec (· / ·) second top off) := by
  unfold divOverlap
  simp only []
  rw [← zeroDiv_eq, overlap_loop_eq_spec]

theorem vec_sound (ρ : Oracle) (t : VTy) (o : VecOp) (s s' : State) (h : vecExpect t o s = some s') :
    semVec ρ t o s = s' := by
  cases t <;> cases o <;>
    simp only [vecExpect, genericExpect, kitB, kitI, kitF, Lens.bvec, Lens.ivec, Lens.fvec, Lens.bool, Lens.int,
      Lens.float, reduceCtorEq] at h <;>
    simp only [semVec, semVecB, semVecI, semVecF, vecGet, modTop, elementwise, Lens.bvec, Lens.ivec, Lens.fvec,
      pushInt, pushBool, pushFloat, vecIdx] <;>
    (repeat' split at h) <;>
    (try simp only [Option.some.injEq, reduceCtorEq] at h) <;>
    (try subst h) <;>
    simp_all [replicate_eq_tab, rotateIn_eq_spec, vecSetAt_eq_spec, append_eq_spec, map_eq_tab, notLoop_eq_spec,
      i32Sum_eq_spec, boolIndex_eq_spec, count_eq, pushInt, pushBool, pushFloat]
  all_goals first
    | exact beq_list_i32 _ _
    | exact filter_ne_eq _ _
    | exact (append_eq_spec [] _).symm
    | rfl
    | (have := fromInt_eq_spec ‹Int32› ‹List Int32›; rw [Prod.ext_iff] at this; exact ⟨this.2, this.1⟩)
    | (rw [divOverlap_eq_spec]; simp_all)


/-! non-vacuity: the closed forms on concrete vectors -/
example : rotateSpec [1, 2, 3] 9 = [2, 3, 9] := by decide
example : setSpec [1, 2, 3] 7 9 = [1, 2, 9] := by decide
example : setSpec [1, 2, 3] (-4) 9 = [9, 2, 3] := by decide
example : boolIndexSpec [true, false, true] = [0, 2] := by decide
example : fromIntSpec 2 [5, 6, 7] = ([6, 5], [7]) := by decide
example : fromIntSpec 9 [5, 6, 7] = ([7, 6, 5], []) := by decide
example : sumSpec [2147483647, 1] = -2147483648 := by decide
example : notSpec [true, true, true] 1 = [true, false, false] := by decide

/-! non-vacuity (unequal lengths, negative offset, top longer than second) -/
example : overlapLoop (· + ·) [10, 20, 30] [1, 2, 3, 4, 5] (-3) = [14, 25, 30] := by decide
example : overlapSpec (· + ·) [10, 20, 30] [1, 2, 3, 4, 5] (-3) = [14, 25, 30] := by decide
example : overlapLoop (· + ·) [10, 20, 30] [1] 1 = [10, 21, 30] := by decide

end Pushr.C09
