import Pushr.Vector
/-! # C09 — vector instructions follow the README rules for lengths, offsets and indices

`overlap_loop_eq_spec`: the element-wise loop as written (in-place update of the second vector while
iterating over the top vector's indices shifted by the offset) equals the declarative rule
`result[j] = op second[j] top[j - off]` where the shifted top vector overlaps and `second[j]`
elsewhere — for every pair of lengths and every offset. -/
namespace Pushr.C09
open Pushr

variable {α : Type}

theorem overlapStep_length (op : α → α → α) (off : Int) (acc : List α) (it : α × Nat) :
    (overlapStep op off acc it).length = acc.length := by
  unfold overlapStep; split <;> (try split) <;> simp

theorem foldl_length (op : α → α → α) (off : Int) (its : List (α × Nat)) (acc : List α) :
    (its.foldl (overlapStep op off) acc).length = acc.length := by
  induction its generalizing acc with
  | nil => rfl
  | cons it its ih => simp [List.foldl, ih, overlapStep_length]

/-- the result has the second vector's length -/
theorem overlap_length (op : α → α → α) (second top : List α) (off : Int) :
    (overlapLoop op second top off).length = second.length := foldl_length ..

/-- loop invariant: after processing `l` (whose first element has index `k`), position `j` holds
`op` of the old value with the element of `l` that lands on it, if any -/
theorem foldl_getElem? (op : α → α → α) (off : Int) (l : List α) :
    ∀ (k : Nat) (acc : List α) (j : Nat),
      ((l.zipIdx k).foldl (overlapStep op off) acc)[j]? =
        (acc[j]?).map fun a =>
          if (k : Int) ≤ (j : Int) - off then
            match l[((j : Int) - off - k).toNat]? with
            | some t => op a t
            | none => a
          else a := by
  induction l with
  | nil => intro k acc j; cases h : acc[j]? <;> simp [h]
  | cons t l ih =>
    intro k acc j
    rw [List.zipIdx_cons, List.foldl_cons, ih (k + 1)]
    -- the state after the first iteration
    by_cases hj0 : (0 : Int) ≤ (k : Int) + off
    · cases ha : acc[((k : Int) + off).toNat]? with
      | none =>
        have hacc : overlapStep op off acc (t, k) = acc := by simp [overlapStep, hj0, ha]
        rw [hacc]
        cases hj : acc[j]? with
        | none => rfl
        | some a =>
          simp only [Option.map_some]
          have hne : ¬ ((j : Int) - off = k) := by
            intro h
            have : ((k : Int) + off).toNat = j := by omega
            rw [this, hj] at ha; cases ha
          by_cases hk : (k : Int) ≤ (j : Int) - off
          · have hk1 : ((k + 1 : Nat) : Int) ≤ (j : Int) - off := by omega
            simp only [hk, hk1, if_true]
            have : ((j : Int) - off - k).toNat = ((j : Int) - off - ((k + 1 : Nat) : Int)).toNat + 1 := by omega
            rw [this, List.getElem?_cons_succ]
          · have hk1 : ¬ ((k + 1 : Nat) : Int) ≤ (j : Int) - off := by omega
            simp only [hk, hk1, if_false]
      | some a0 =>
        have hacc : overlapStep op off acc (t, k) = acc.set ((k : Int) + off).toNat (op a0 t) := by
          simp [overlapStep, hj0, ha]
        rw [hacc, List.getElem?_set]
        by_cases hjj : ((k : Int) + off).toNat = j
        · have hlt : ((k : Int) + off).toNat < acc.length := (List.getElem?_eq_some_iff.mp ha).1
          have hi : (j : Int) - off = k := by omega
          have hk1 : ¬ ((k + 1 : Nat) : Int) ≤ (j : Int) - off := by omega
          have hk : (k : Int) ≤ (j : Int) - off := by omega
          rw [← hjj] at *
          simp only [if_true, hlt, Option.map_some, hk1, if_false, ha, hk]
          have : ((((k : Int) + off).toNat : Int) - off - k).toNat = 0 := by omega
          rw [this]; rfl
        · simp only [hjj, if_false]
          cases hj : acc[j]? with
          | none => rfl
          | some a =>
            simp only [Option.map_some]
            have hne : ¬ ((j : Int) - off = k) := by omega
            by_cases hk : (k : Int) ≤ (j : Int) - off
            · have hk1 : ((k + 1 : Nat) : Int) ≤ (j : Int) - off := by omega
              simp only [hk, hk1, if_true]
              have : ((j : Int) - off - k).toNat = ((j : Int) - off - ((k + 1 : Nat) : Int)).toNat + 1 := by omega
              rw [this, List.getElem?_cons_succ]
            · have hk1 : ¬ ((k + 1 : Nat) : Int) ≤ (j : Int) - off := by omega
              simp only [hk, hk1, if_false]
    · have hacc : overlapStep op off acc (t, k) = acc := by simp [overlapStep, hj0]
      rw [hacc]
      cases hj : acc[j]? with
      | none => rfl
      | some a =>
        simp only [Option.map_some]
        have hne : ¬ ((j : Int) - off = k) := by omega
        by_cases hk : (k : Int) ≤ (j : Int) - off
        · have hk1 : ((k + 1 : Nat) : Int) ≤ (j : Int) - off := by omega
          simp only [hk, hk1, if_true]
          have : ((j : Int) - off - k).toNat = ((j : Int) - off - ((k + 1 : Nat) : Int)).toNat + 1 := by omega
          rw [this, List.getElem?_cons_succ]
        · have hk1 : ¬ ((k + 1 : Nat) : Int) ≤ (j : Int) - off := by omega
          simp only [hk, hk1, if_false]

/-- **C09.** the loop as written equals the README rule, for all lengths and offsets -/
theorem overlap_loop_eq_spec (op : α → α → α) (second top : List α) (off : Int) :
    overlapLoop op second top off = overlapSpec op second top off := by
  apply List.ext_getElem?
  intro j
  unfold overlapLoop
  rw [foldl_getElem? op off top 0 second j]
  simp only [overlapSpec, List.getElem?_map, List.getElem?_zipIdx, Nat.zero_add, Option.map_map]
  cases second[j]? with
  | none => rfl
  | some a =>
    simp only [Option.map_some, Function.comp, Int.natCast_zero, Int.sub_zero]
    rfl

/-- positions outside the overlap keep the second vector's element -/
theorem overlap_outside_unchanged (op : α → α → α) (second top : List α) (off : Int) (j : Nat)
    (h : (j : Int) - off < 0 ∨ (top.length : Int) ≤ (j : Int) - off) :
    (overlapLoop op second top off)[j]? = second[j]? := by
  rw [overlap_loop_eq_spec]
  simp only [overlapSpec, List.getElem?_map, List.getElem?_zipIdx, Nat.zero_add, Option.map_map]
  cases hs : second[j]? with
  | none => rfl
  | some a =>
    simp only [Option.map_some, Function.comp]
    rcases h with h | h
    · have : ¬ (0 : Int) ≤ (j : Int) - off := by omega
      rw [if_neg this]
    · by_cases h0 : (0 : Int) ≤ (j : Int) - off
      · have : top[((j : Int) - off).toNat]? = none := List.getElem?_eq_none (by omega)
        rw [if_pos h0, this]
      · rw [if_neg h0]

/-! ## GET / SET clamp, ROTATE, constructors, sorting -/

/-- the clamped index of GET / SET is inside every non-empty vector -/
theorem clamp_in_bounds (len : Nat) (i : Int32) (h : 0 < len) : vecIdx len i < len := by
  unfold vecIdx clampIdx; omega

theorem vecSetAt_length (v : List α) (i : Int32) (x : α) : (vecSetAt v i x).length = v.length := by
  unfold vecSetAt; split <;> simp

theorem rotateIn_length (v : List α) (x : α) : (rotateIn v x).length = v.length := by
  cases v <;> simp [rotateIn]

/-- ROTATE moves every element one position to the left and puts the scalar last -/
theorem rotateIn_spec (a : α) (v : List α) (x : α) : rotateIn (a :: v) x = v ++ [x] := rfl

/-- SORT yields an ordered permutation of the vector -/
theorem sortI32_perm (v : List Int32) : (sortI32 v).Perm v := List.mergeSort_perm v _

theorem sortI32_sorted (v : List Int32) : (sortI32 v).Pairwise (fun a b => a ≤ b) := by
  have := List.pairwise_mergeSort (le := fun (a b : Int32) => decide (a ≤ b))
    (fun a b c hab hbc => by
      simp only [decide_eq_true_eq] at *
      exact Int32.le_trans hab hbc)
    (fun a b => by
      simp only [Bool.or_eq_true, decide_eq_true_eq]
      exact Int32.le_total a b) v
  simpa [sortI32] using this

theorem sortF32_perm (v : List Float32) : (sortF32 v).Perm v := List.mergeSort_perm v _
theorem sortBool_perm (v : List Bool) : (sortBool v).Perm v := List.mergeSort_perm v _

/-- NaN cannot make sorting fail: the key is a total order on bit patterns -/
theorem sortF32_sorted (v : List Float32) : (sortF32 v).Pairwise (fun a b => totalKey a ≤ totalKey b) := by
  have := List.pairwise_mergeSort (le := fun (a b : Float32) => decide (totalKey a ≤ totalKey b))
    (fun a b c hab hbc => by simp only [decide_eq_true_eq] at *; omega)
    (fun a b => by simp only [Bool.or_eq_true, decide_eq_true_eq]; omega) v
  simpa [sortF32] using this

/-! non-vacuity (unequal lengths, negative offset, top longer than second) -/
example : overlapLoop (· + ·) [10, 20, 30] [1, 2, 3, 4, 5] (-3) = [14, 25, 30] := by decide
example : overlapSpec (· + ·) [10, 20, 30] [1, 2, 3, 4, 5] (-3) = [14, 25, 30] := by decide
example : overlapLoop (· + ·) [10, 20, 30] [1] 1 = [10, 21, 30] := by decide

end Pushr.C09
