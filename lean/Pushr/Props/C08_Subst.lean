import Pushr.Props.C08
/-! # C08 (supplement) — SUBST replaces all and only the structural matches: the accounting of points -/
namespace Pushr.C08
open Pushr

mutual
/-- structurally equal items have the same number of points -/
theorem equals_size (a b : Item) (h : Item.equals a b = true) : a.size = b.size := by
  cases a with
  | list xs =>
    cases b with
    | list ys => simp only [Item.equals] at h; simp only [Item.size]; rw [equalsL_size xs ys h]
    | instr j => simp [Item.equals] at h
    | lit w => simp [Item.equals] at h
    | ident m => simp [Item.equals] at h
  | instr i => cases b <;> simp_all [Item.equals, Item.size]
  | lit v => cases b <;> simp_all [Item.equals, Item.size]
  | ident n => cases b <;> simp_all [Item.equals, Item.size]
theorem equalsL_size (xs ys : List Item) (h : Item.equalsL xs ys = true) : Item.sizeL xs = Item.sizeL ys := by
  cases xs with
  | nil => cases ys <;> simp_all [Item.equalsL, Item.sizeL]
  | cons x xs =>
    cases ys with
    | nil => simp [Item.equalsL] at h
    | cons y ys =>
      simp only [Item.equalsL, Bool.and_eq_true] at h
      simp only [Item.sizeL]
      rw [equals_size x y h.1, equalsL_size xs ys h.2]
end

mutual
/-- **all and only**: every maximal structural match of the pattern — and nothing else — is exchanged for the
substitute, so the points add up: `size (subst t p s) + k * size p = size t + k * size s`, `k` = maximal matches -/
theorem subst_accounting (t p s : Item) :
    (Item.subst t p s).size + countMax t p * p.size = t.size + countMax t p * s.size := by
  unfold Item.subst countMax
  by_cases h : Item.equals t p = true
  · simp only [h, if_true]
    have := equals_size t p h
    omega
  · have h' : Item.equals t p = false := by simpa using h
    simp only [h', Bool.false_eq_true, if_false]
    cases t with
    | list xs =>
      simp only [Item.size]
      have := substL_accounting xs p s
      omega
    | instr i => simp
    | lit v => simp
    | ident n => simp
theorem substL_accounting (xs : List Item) (p s : Item) :
    Item.sizeL (Item.substL xs p s) + countMaxL xs p * p.size = Item.sizeL xs + countMaxL xs p * s.size := by
  cases xs with
  | nil => simp [Item.substL, countMaxL, Item.sizeL]
  | cons x xs =>
    simp only [Item.substL, countMaxL, Item.sizeL]
    have h1 := subst_accounting x p s
    have h2 := substL_accounting xs p s
    rw [Nat.add_mul, Nat.add_mul]
    omega
end

/-- with no match nothing changes (k = 0) -/
theorem subst_none (t p s : Item) (h : countMax t p = 0) : (Item.subst t p s).size = t.size := by
  have := subst_accounting t p s; simp [h] at this; exact this

/-- the model's SUBST meets the evaluator's accounting -/
theorem substOk_size (t p s : Item) :
    ((Item.subst t p s).size + countMax t p * p.size == t.size + countMax t p * s.size) = true := by
  simp [subst_accounting]

/-- non-vacuity: the self-similar witness - pattern `( B X )`, substitute `B`, target `( ( B X ) X )`: exactly one match -/
example : countMax (.list [.list [.ident "B", .ident "X"], .ident "X"]) (.list [.ident "B", .ident "X"]) = 1 := by decide

end Pushr.C08
