import Pushr.Spec.C15
import Pushr.Props.C05
import Pushr.Props.C08
/-! # C15 — a step's time and memory are bounded by the state, not by operand magnitude

The property is FALSE on the pinned tree in two ways that are not small repairs (they need a new
limit and a policy) and are recorded as known findings:

* K05 — ONES / ZEROS / *VECTOR.RAND / SINE / LIST.NEIGHBOR* / CODE.RAND size their work by an
  INTEGER operand (`k05_operand_sized`: from a state of weight 1 the result can exceed any bound
  below 2^31);
* K06 — `max_points_in_program` is consulted nowhere (`k06_growth_unbounded`: a six-token program
  doubles a CODE item past the default limit of 100 points within 60 steps, with every limit at
  its default).

Proved part: for the scalar and stack-manipulation families a step adds at most a copy of what
the state already holds (`growth_bounded_partial`). -/
namespace Pushr.C15
open Pushr

/-- K05: for every bound `B < 2^31 - 1` there is a state of weight 1 on which INTVECTOR.ONES
produces a state heavier than `B` -/
theorem k05_operand_sized (ρ : Oracle) (B : Nat) (hB : B < 2147483647) :
    ∃ s : State, weight s = 1 ∧ weight (semFull ρ (.vec .i .ones) s) > B := by
  refine ⟨{ emptyState with int := [Int32.ofNat (B + 1)] }, by simp [weight, sumMap, emptyState], ?_⟩
  have hpos : Int32.ofNat (B + 1) > 0 := by
    rw [gt_iff_lt, Int32.lt_iff_toInt_lt]
    have : (Int32.ofNat (B + 1)).toInt = (B + 1 : Nat) := by
      rw [← Int32.ofInt_eq_ofNat, Int32.toInt_ofInt]
      apply Int.bmod_eq_of_le <;> (simp [Int32.size]; omega)
    rw [this]; simp
  have hnat : (Int32.ofNat (B + 1)).toInt.toNat = B + 1 := by
    have : (Int32.ofNat (B + 1)).toInt = (B + 1 : Nat) := by
      rw [← Int32.ofInt_eq_ofNat, Int32.toInt_ofInt]
      apply Int.bmod_eq_of_le <;> (simp [Int32.size]; omega)
    rw [this]; simp
  simp only [semFull, sem, fullExt, semVec, semVecI, hpos, if_true, hnat]
  simp [weight, sumMap, emptyState]
  omega

/-- the doubling program `( CODE.QUOTE ( 1 ) EXEC.Y ( CODE.DUP CODE.LIST ) )` -/
def k06Witness : State :=
  { emptyState with
    exec := [.instr (.code .quote), .list [.lit (.int 1)], .instr (.exec .y),
             .list [.instr (.stk .code .dup), .instr (.code .list)]] }

/-- K06: after 30 steps — far below the step limit of 1000, no growth cap tripped (each step adds at
most one stack entry) — the CODE stack holds an item with 191 points; the configured maximum number
of points in a program is 100 -/
theorem k06_growth_unbounded :
    maxItem (stepN fullExt (fun _ => 0) 30 k06Witness) = 191 ∧ k06Witness.cfg.maxPointsProg = 100 := by
  decide

/-! ## the proved part -/

theorem weight_pushBool (s : State) (b : Bool) : weight (pushBool s b) = weight s + 1 := by
  simp [weight, pushBool]; omega
theorem weight_pushInt (s : State) (i : Int32) : weight (pushInt s i) = weight s + 1 := by
  simp [weight, pushInt]; omega
theorem weight_pushFloat (s : State) (f : Float32) : weight (pushFloat s f) = weight s + 1 := by
  simp [weight, pushFloat]; omega

/-- BOOLEAN instructions never add more than one element -/
theorem bool_growth (ρ : Oracle) (o : BoolOp) (s : State) : weight (semBool ρ o s) ≤ weight s + 1 := by
  cases o <;> simp only [semBool, bin2, Lens.bool]
  all_goals (repeat' split) <;> simp_all [weight, pushBool] <;> omega

/-- INTEGER instructions never add more than two elements -/
theorem int_growth (ρ : Oracle) (o : IntOp) (s : State) : weight (semInt ρ o s) ≤ weight s + 2 := by
  cases o <;> simp only [semInt, bin2, Lens.int]
  all_goals (repeat' split) <;> simp_all [weight, pushBool, pushInt] <;> omega

/-- FLOAT instructions never add more than one element -/
theorem float_growth (ρ : Oracle) (o : FloatOp) (s : State) : weight (semFloat ρ o s) ≤ weight s + 1 := by
  cases o <;> simp only [semFloat, bin2, un1, Lens.float]
  all_goals (repeat' split) <;> simp_all [weight, pushBool, pushFloat] <;> omega

/-- INDEX instructions never add more than one element -/
theorem index_growth (o : IndexOp) (s : State) : weight (semIndex o s) ≤ weight s + 1 := by
  cases o <;> simp only [semIndex]
  all_goals (repeat' split) <;> simp_all [weight, pushInt] <;> omega


/-! ## the stack-manipulation family (78 instructions): a step adds at most a copy of one item -/

theorem sumMap_perm {α : Type} (f : α → Nat) {l₁ l₂ : List α} (h : l₁.Perm l₂) : sumMap f l₁ = sumMap f l₂ :=
  List.Perm.sum_nat (h.map f)

theorem sumMap_getElem_le {α : Type} (f : α → Nat) (l : List α) (k : Nat) (x : α) (h : l[k]? = some x) :
    f x ≤ sumMap f l := by
  induction l generalizing k with
  | nil => simp at h
  | cons y l ih =>
    cases k with
    | zero => simp at h; subst h; simp [sumMap]
    | succ k => have := ih k (by simpa using h); simp [sumMap] at this ⊢; omega

theorem sumMap_tail_le {α : Type} (f : α → Nat) (l : List α) : sumMap f l.tail ≤ sumMap f l := by
  cases l <;> simp [sumMap]

/-- the typed stack behind lens `L` contributes `sumMap f` to the weight and nothing else of the weight
depends on it -/
def Weighted {α : Type} (L : Lens α) (f : α → Nat) : Prop :=
  ∀ (s : State) (l : List α), weight (L.set s l) + sumMap f (L.get s) = weight s + sumMap f l

theorem Weighted.get_le {α : Type} {L : Lens α} {f : α → Nat} (h : Weighted L f) (s : State) :
    sumMap f (L.get s) ≤ weight s := by
  have := h s []
  simp only [sumMap, List.map_nil, List.sum_nil, Nat.add_zero] at this ⊢
  omega

theorem sumMap_one {α : Type} (l : List α) : sumMap (fun _ => 1) l = l.length := by
  induction l with
  | nil => rfl
  | cons x l ih => simp only [sumMap, List.map_cons, List.sum_cons, List.length_cons] at ih ⊢; omega

theorem weighted_bool : Weighted Lens.bool (fun _ => 1) := by
  intro s l; simp only [weight, Lens.bool, sumMap_one]; omega
theorem weighted_int : Weighted Lens.int (fun _ => 1) := by
  intro s l; simp only [weight, Lens.int, sumMap_one]; omega
theorem weighted_float : Weighted Lens.float (fun _ => 1) := by
  intro s l; simp only [weight, Lens.float, sumMap_one]; omega
theorem weighted_name : Weighted Lens.name (fun n => 1 + n.length) := by
  intro s l; simp only [weight, Lens.name]; omega
theorem weighted_code : Weighted Lens.code Item.size := by
  intro s l; simp only [weight, Lens.code]; omega
theorem weighted_exec : Weighted Lens.exec Item.size := by
  intro s l; simp only [weight, Lens.exec]; omega
theorem weighted_bvec : Weighted Lens.bvec (fun v => 1 + v.length) := by
  intro s l; simp only [weight, Lens.bvec]; omega
theorem weighted_ivec : Weighted Lens.ivec (fun v => 1 + v.length) := by
  intro s l; simp only [weight, Lens.ivec]; omega
theorem weighted_fvec : Weighted Lens.fvec (fun v => 1 + v.length) := by
  intro s l; simp only [weight, Lens.fvec]; omega

theorem weight_popInt (s : State) (i : Int32) (it : List Int32) (h : s.int = i :: it) :
    weight { s with int := it } + 1 = weight s := by
  simp [weight, h]; omega

/-- the indexed operations: the index is consumed, then the stack is rearranged or gains one copy -/
theorem withIndex_growth {α : Type} (L : Lens α) (f : α → Nat) (hW : Weighted L f) (s : State)
    (g : List α → Nat → List α) (hg : ∀ l k, sumMap f (g l k) ≤ 2 * sumMap f l) :
    weight (withIndex L s g) ≤ 2 * weight s := by
  unfold withIndex
  split
  · omega
  · next i it hi =>
    have h1 := weight_popInt s i it hi
    have h2 := hW { s with int := it } (g (L.get { s with int := it }) (clampIdx (L.get { s with int := it }).length i))
    have h3 := hg (L.get { s with int := it }) (clampIdx (L.get { s with int := it }).length i)
    have h4 := hW.get_le { s with int := it }
    simp only at h2 ⊢
    omega

/-- **every DUP / POP / SWAP / ROT / YANK / YANKDUP / SHOVE / FLUSH / STACKDEPTH / ID**, on every
stack type: the state at most doubles (one item is copied), whatever the index operand -/
theorem stkOp_growth {α : Type} (L : Lens α) (f : α → Nat) (hW : Weighted L f) (t : Ty) (o : SOp) (s : State) :
    weight (stkOp L t o s) ≤ 2 * weight s + 1 := by
  have hle := hW.get_le s
  cases o <;> simp only [stkOp]
  case dup =>
    split
    · omega
    · next x l hx =>
      have := hW s (x :: x :: l)
      rw [hx] at this hle
      simp [sumMap] at this hle
      omega
  case pop =>
    have := hW s (L.get s).tail
    have := sumMap_tail_le f (L.get s)
    omega
  case swap =>
    have := hW s (Seq.shove (L.get s) 1)
    have := sumMap_perm f (C05.shove_perm (L.get s) 1)
    omega
  case rot =>
    have := hW s (Seq.yank (L.get s) 2)
    have := sumMap_perm f (C05.yank_perm (L.get s) 2)
    omega
  case yank =>
    have := withIndex_growth L f hW s Seq.yank (fun l k => by have := sumMap_perm f (C05.yank_perm l k); omega)
    omega
  case shove =>
    have := withIndex_growth L f hW s Seq.shove (fun l k => by have := sumMap_perm f (C05.shove_perm l k); omega)
    omega
  case yankdup =>
    refine Nat.le_trans (withIndex_growth L f hW s _ (fun l k => ?_)) (by omega)
    split
    · next x hx => have := sumMap_getElem_le f l k x hx; simp [sumMap] at this ⊢; omega
    · omega
  case flush =>
    have := hW s []
    simp [sumMap] at this
    omega
  case depth => rw [weight_pushInt]; omega
  case id => rw [weight_pushInt]; omega

theorem stk_growth (t : Ty) (o : SOp) (s : State) : weight (semStk t o s) ≤ 2 * weight s + 1 := by
  cases t <;> simp only [semStk]
  · exact stkOp_growth _ _ weighted_bool _ o s
  · exact stkOp_growth _ _ weighted_int _ o s
  · exact stkOp_growth _ _ weighted_float _ o s
  · exact stkOp_growth _ _ weighted_name _ o s
  · exact stkOp_growth _ _ weighted_code _ o s
  · exact stkOp_growth _ _ weighted_exec _ o s
  · exact stkOp_growth _ _ weighted_bvec _ o s
  · exact stkOp_growth _ _ weighted_ivec _ o s
  · exact stkOp_growth _ _ weighted_fvec _ o s

/-! ## NAME and CODE families -/

/-- NAME.= / CAT / QUOTE / SEND add at most one item (CAT: one separator character) -/
theorem name_growth (ρ : Oracle) (o : NameOp) (s : State) (h : o ≠ .rand ∧ o ≠ .randbound) :
    weight (semName ρ o s) ≤ weight s + 1 := by
  cases o <;> simp only [semName, bin2, Lens.name] <;> (try simp at h)
  all_goals (repeat' split) <;> simp_all [weight, pushBool, pushName, sumMap, String.length_append, (by decide : " ".length = 1)] <;> omega

/-- CODE instructions that build their result out of whole operands (QUOTE, LIST, APPEND, CAR, CDR, DO, DO*, IF,
the conversions, the predicates …): at most one copy of what the state holds, plus a constant.
(CONS, CONTAINER, DEFINITION, EXTRACT, INSERT, NTH and LOOP need size lemmas about sub-items and are not
covered here; SUBST is quadratic, PRINT counts characters, RAND is K05.) -/
theorem code_growth_partial (rc : Oracle → State → Nat → Option (Item × Nat)) (ρ : Oracle) (o : CodeOp) (s : State)
    (h : o ≠ .subst ∧ o ≠ .print ∧ o ≠ .rand ∧ o ≠ .cons ∧ o ≠ .container ∧ o ≠ .definition ∧ o ≠ .extract ∧
         o ≠ .insert ∧ o ≠ .nth ∧ o ≠ .loop) :
    weight (semCode rc ρ o s) ≤ 2 * weight s + 4 := by
  cases o <;> (try (simp at h; done)) <;> simp only [semCode]
  case cdr =>
    split
    · next xs l hc =>
      cases xs <;> simp_all [weight, sumMap, Item.size, Item.sizeL] <;> omega
    · simp_all [weight, sumMap, Item.size, Item.sizeL] <;> omega
    · omega
  all_goals (repeat' split)
  all_goals (simp_all [weight, pushBool, pushInt, pushCode, sumMap, Item.size, Item.sizeL, instr] <;> omega)



/-! ### size lemmas for the CODE instructions that push a part of an operand -/

mutual
theorem size_le_of_mem_points (t q : Item) (h : q ∈ Item.points t) : q.size ≤ t.size := by
  cases t with
  | list xs =>
    simp only [Item.points, List.mem_cons] at h
    rcases h with rfl | h
    · exact Nat.le_refl _
    · have := size_le_of_mem_pointsL xs q h; simp only [Item.size]; omega
  | _ => simp [Item.points] at h; subst h; exact Nat.le_refl _
theorem size_le_of_mem_pointsL (xs : List Item) (q : Item) (h : q ∈ Item.pointsL xs) : q.size ≤ Item.sizeL xs := by
  cases xs with
  | nil => simp [Item.pointsL] at h
  | cons x xs =>
    simp only [Item.pointsL, List.mem_append] at h
    simp only [Item.sizeL]
    rcases h with h | h
    · have := size_le_of_mem_points x q h; omega
    · have := size_le_of_mem_pointsL xs q h; omega
end

theorem trav_size_le (t r : Item) (d : Nat) (hd : d < t.size) (h : Item.trav t d = .ok r) : r.size ≤ t.size := by
  have := C08.trav_eq_points t d hd
  rw [h] at this
  exact size_le_of_mem_points t r (List.mem_of_getElem? (by simpa [Except.toOption] using this.symm))

theorem getElem_size_le (xs : List Item) (k : Nat) (x : Item) (h : xs[k]? = some x) : x.size ≤ Item.sizeL xs := by
  induction xs generalizing k with
  | nil => simp at h
  | cons y ys ih =>
    cases k with
    | zero => simp at h; subst h; simp [Item.sizeL]
    | succ k => have := ih k (by simpa using h); simp [Item.sizeL]; omega

theorem sizeL_app (xs ys : List Item) : Item.sizeL (xs ++ ys) = Item.sizeL xs + Item.sizeL ys := by
  induction xs with
  | nil => simp [Item.sizeL]
  | cons x xs ih => simp [Item.sizeL, ih]; omega

theorem consElems_sizeL_le (a : Item) : Item.sizeL (consElems a) ≤ a.size := by
  cases a <;> simp [consElems, Item.size, Item.sizeL]

theorem bindLookup_size_le (n : String) (bs : List (String × Item)) (v : Item) (h : bindLookup n bs = some v) :
    v.size ≤ sumMap (fun p => 1 + p.1.length + p.2.size) bs := by
  induction bs with
  | nil => simp [bindLookup] at h
  | cons b bs ih =>
    obtain ⟨k, w⟩ := b
    simp only [bindLookup] at h
    split at h
    · cases h; simp [sumMap]; omega
    · have := ih h; simp [sumMap] at this ⊢; omega

mutual
theorem ins_size_le (t x t' : Item) (d : Nat) (h : Item.ins t x d = .ok t') : t'.size ≤ t.size + x.size := by
  cases t with
  | list xs =>
    cases d with
    | zero => simp [Item.ins] at h
    | succ d =>
      simp only [Item.ins] at h
      split at h
      · next xs' hxs => cases h; have := insL_size_le xs x xs' (d + 1) hxs; simp only [Item.size]; omega
      · cases h
  | _ => simp [Item.ins] at h
theorem insL_size_le (xs : List Item) (x : Item) (xs' : List Item) (d : Nat) (h : Item.insL xs x d = .ok xs') :
    Item.sizeL xs' ≤ Item.sizeL xs + x.size := by
  cases xs with
  | nil => simp [Item.insL] at h
  | cons c cs =>
    cases d with
    | zero => simp [Item.insL] at h
    | succ d =>
      simp only [Item.insL] at h
      split at h
      · cases h; simp [Item.sizeL]; omega
      · split at h
        · next c' hc => cases h; have := ins_size_le c x c' d hc; simp only [Item.sizeL]; omega
        · next d' hc =>
          split at h
          · next cs' hcs => cases h; have := insL_size_le cs x cs' d' hcs; simp only [Item.sizeL]; omega
          · cases h
end

/-- CONS, CONTAINER, DEFINITION, EXTRACT, INSERT, NTH and LOOP push (a rearrangement of) parts of what the
state already holds: the state at most doubles -/
theorem code_growth_parts (rc : Oracle → State → Nat → Option (Item × Nat)) (ρ : Oracle) (o : CodeOp) (s : State)
    (h : o = .cons ∨ o = .container ∨ o = .definition ∨ o = .extract ∨ o = .insert ∨ o = .nth ∨ o = .loop) :
    weight (semCode rc ρ o s) ≤ 2 * weight s + 4 := by
  rcases h with rfl | rfl | rfl | rfl | rfl | rfl | rfl <;> simp only [semCode]
  · -- CONS
    split
    · next b a l hc =>
      have h1 := consElems_sizeL_le a
      have h2 := consElems_sizeL_le b
      have h3 := sizeL_app (consElems a) (consElems b)
      simp_all [weight, sumMap, Item.size]
      omega
    · omega
  · -- CONTAINER
    split
    · next b a l hc =>
      split
      · next c hcont =>
        have := size_le_of_mem_points b c (C08.container_spec b a c hcont).1
        simp_all [weight, pushCode, sumMap]
        omega
      · simp_all [weight, pushCode, sumMap, Item.size, Item.sizeL]
        omega
    · omega
  · -- DEFINITION
    split
    · omega
    · next n ns hn =>
      split
      · next v hv =>
        have := bindLookup_size_le n s.bindings v hv
        simp_all [weight, sumMap]
        omega
      · simp_all [weight, sumMap]
        omega
  · -- EXTRACT
    split
    · omega
    · next i il hi =>
      split
      · simp_all [weight, sumMap]; omega
      · next c cl hc =>
        split
        · next el hel =>
          have := trav_size_le c el _ (C08.extract_index_lt i c) hel
          simp_all [weight, pushCode, sumMap]
          omega
        · simp_all [weight, sumMap]; omega
  · -- INSERT
    split
    · omega
    · next i il hi =>
      split
      · next top x l hc =>
        split
        · simp_all [weight, sumMap]; omega
        · split
          · simp_all [weight, sumMap]; omega
          · split
            · next top' hins =>
              have := ins_size_le top x top' _ hins
              simp_all [weight, sumMap]
              omega
            · simp_all [weight, sumMap]; omega
      · simp_all [weight, sumMap]; omega
  · -- NTH
    split
    · omega
    · next i il hi =>
      split
      · simp_all [weight, sumMap]; omega
      · next c cl hc =>
        split
        · simp_all [weight, pushCode, sumMap]; omega
        · split
          · next xs _ =>
            split
            · next x hx =>
              have := getElem_size_le xs _ x hx
              simp_all [weight, pushCode, sumMap, Item.size]
              omega
            · simp_all [weight, pushCode, sumMap, Item.size, Item.sizeL]; omega
          · simp_all [weight, pushCode, sumMap, Item.size, Item.sizeL]; omega
  · -- LOOP
    split
    · omega
    · next body cl hc =>
      split
      · simp_all [weight, sumMap]; omega
      · split
        · simp_all [weight, sumMap, Item.size, Item.sizeL, instr]; omega
        · simp_all [weight, sumMap]; omega

/-- all CODE instructions except SUBST (quadratic), PRINT (characters) and RAND (K05) -/
theorem code_growth (rc : Oracle → State → Nat → Option (Item × Nat)) (ρ : Oracle) (o : CodeOp) (s : State)
    (h : o ≠ .subst ∧ o ≠ .print ∧ o ≠ .rand) :
    weight (semCode rc ρ o s) ≤ 2 * weight s + 4 := by
  by_cases hp : o = .cons ∨ o = .container ∨ o = .definition ∨ o = .extract ∨ o = .insert ∨ o = .nth ∨ o = .loop
  · exact code_growth_parts rc ρ o s hp
  · simp only [not_or] at hp
    obtain ⟨h1, h2, h3⟩ := h
    obtain ⟨p1, p2, p3, p4, p5, p6, p7⟩ := hp
    exact code_growth_partial rc ρ o s ⟨h1, h2, h3, p1, p2, p3, p4, p5, p6, p7⟩

/-- the instructions covered by the proved part: 7 families, 165 of the 280 registered names -/
def covered : Instr → Bool
  | .boolean _ | .integer _ | .float _ | .index _ | .stk _ _ => true
  | .name o => o != .rand && o != .randbound
  | .code o => o != .subst && o != .print && o != .rand
  | _ => false

/-- **C15, proved part**: for the BOOLEAN / INTEGER / FLOAT / INDEX families a step's growth is a
constant; for the 78 stack-manipulation instructions, the NAME instructions and 29 of the 32 CODE
instructions it is at most a copy of what the state already holds plus a constant — whatever the
operand values -/
theorem growth_bounded_partial (ρ : Oracle) (i : Instr) (s : State) (h : covered i = true) :
    weight (semFull ρ i s) ≤ (match i with
      | .boolean _ | .integer _ | .float _ | .index _ => weight s + 2
      | _ => 2 * weight s + 4) := by
  cases i with
  | boolean o => have := bool_growth ρ o s; simp only [semFull, sem]; omega
  | integer o => exact int_growth ρ o s
  | float o => have := float_growth ρ o s; simp only [semFull, sem]; omega
  | index o => have := index_growth o s; simp only [semFull, sem]; omega
  | stk t o => have := stk_growth t o s; simp only [semFull, sem]; omega
  | name o =>
    have := name_growth ρ o s (by cases o <;> simp_all [covered])
    simp only [semFull, sem]; omega
  | code o =>
    exact code_growth _ ρ o s (by cases o <;> simp_all [covered])
  | _ => simp [covered] at h

set_option maxRecDepth 8000 in
example : (Instr.all.filter covered).length = 165 := by decide

/-- the doubling bound of the stack family is attained: DUP on a one-item CODE stack -/
example : weight (semStk .code .dup { emptyState with code := [.list [.lit (.int 1), .lit (.int 2)]] }) = 6
    ∧ weight { emptyState with code := [.list [.lit (.int 1), .lit (.int 2)]] } = 3 := by decide

end Pushr.C15
