import Pushr.Spec.C15
/-! # C15 — a step's time and memory are bounded by the state, not by operand magnitude

The property is FALSE on the pinned tree in two ways that are not small repairs (they need a new
limit and a policy) and are recorded as known findings:

* K05 — ONES / ZEROS / *VECTOR.RAND / SINE / LIST.NEIGHBOR* / CODE.RAND size their work by an
  INTEGER operand (`k05_operand_sized`: from a state of weight 1 the result can exceed any bound
  below 2^31);
* K06 — `max_points_in_program` is consulted nowhere (`k06_growth_unbounded`: a six-token program
  doubles a CODE item past the default limit of 100 points within 60 steps, with every limit at
  its default).

Proved part: for the scalar and stack-manipulation families a step adds at most a copy of what
the state already holds (`growth_bounded_partial`). -/
namespace Pushr.C15
open Pushr

/-- K05: for every bound `B < 2^31 - 1` there is a state of weight 1 on which INTVECTOR.ONES
produces a state heavier than `B` -/
theorem k05_operand_sized (ρ : Oracle) (B : Nat) (hB : B < 2147483647) :
    ∃ s : State, weight s = 1 ∧ weight (semFull ρ (.vec .i .ones) s) > B := by
  refine ⟨{ emptyState with int := [Int32.ofNat (B + 1)] }, by simp [weight, sumMap, emptyState], ?_⟩
  have hpos : Int32.ofNat (B + 1) > 0 := by
    rw [gt_iff_lt, Int32.lt_iff_toInt_lt]
    have : (Int32.ofNat (B + 1)).toInt = (B + 1 : Nat) := by
      rw [← Int32.ofInt_eq_ofNat, Int32.toInt_ofInt]
      apply Int.bmod_eq_of_le <;> (simp [Int32.size]; omega)
    rw [this]; simp
  have hnat : (Int32.ofNat (B + 1)).toInt.toNat = B + 1 := by
    have : (Int32.ofNat (B + 1)).toInt = (B + 1 : Nat) := by
      rw [← Int32.ofInt_eq_ofNat, Int32.toInt_ofInt]
      apply Int.bmod_eq_of_le <;> (simp [Int32.size]; omega)
    rw [this]; simp
  simp only [semFull, sem, fullExt, semVec, semVecI, hpos, if_true, hnat]
  simp [weight, sumMap, emptyState]
  omega

/-- the doubling program `( CODE.QUOTE ( 1 ) EXEC.Y ( CODE.DUP CODE.LIST ) )` -/
def k06Witness : State :=
  { emptyState with
    exec := [.instr (.code .quote), .list [.lit (.int 1)], .instr (.exec .y),
             .list [.instr (.stk .code .dup), .instr (.code .list)]] }

/-- K06: after 30 steps — far below the step limit of 1000, no growth cap tripped (each step adds at
most one stack entry) — the CODE stack holds an item with 191 points; the configured maximum number
of points in a program is 100 -/
theorem k06_growth_unbounded :
    maxItem (stepN fullExt (fun _ => 0) 30 k06Witness) = 191 ∧ k06Witness.cfg.maxPointsProg = 100 := by
  decide

/-! ## the proved part -/

theorem weight_pushBool (s : State) (b : Bool) : weight (pushBool s b) = weight s + 1 := by
  simp [weight, pushBool]; omega
theorem weight_pushInt (s : State) (i : Int32) : weight (pushInt s i) = weight s + 1 := by
  simp [weight, pushInt]; omega
theorem weight_pushFloat (s : State) (f : Float32) : weight (pushFloat s f) = weight s + 1 := by
  simp [weight, pushFloat]; omega

/-- BOOLEAN instructions never add more than one element -/
theorem bool_growth (ρ : Oracle) (o : BoolOp) (s : State) : weight (semBool ρ o s) ≤ weight s + 1 := by
  cases o <;> simp only [semBool, bin2, Lens.bool]
  all_goals (repeat' split) <;> simp_all [weight, pushBool] <;> omega

/-- INTEGER instructions never add more than two elements -/
theorem int_growth (ρ : Oracle) (o : IntOp) (s : State) : weight (semInt ρ o s) ≤ weight s + 2 := by
  cases o <;> simp only [semInt, bin2, Lens.int]
  all_goals (repeat' split) <;> simp_all [weight, pushBool, pushInt] <;> omega

/-- FLOAT instructions never add more than one element -/
theorem float_growth (ρ : Oracle) (o : FloatOp) (s : State) : weight (semFloat ρ o s) ≤ weight s + 1 := by
  cases o <;> simp only [semFloat, bin2, un1, Lens.float]
  all_goals (repeat' split) <;> simp_all [weight, pushBool, pushFloat] <;> omega

/-- INDEX instructions never add more than one element -/
theorem index_growth (o : IndexOp) (s : State) : weight (semIndex o s) ≤ weight s + 1 := by
  cases o <;> simp only [semIndex]
  all_goals (repeat' split) <;> simp_all [weight, pushInt] <;> omega

/-- **C15, proved part**: for the BOOLEAN / INTEGER / FLOAT / INDEX families a step's growth is a
constant, whatever the operand values -/
theorem growth_bounded_partial (ρ : Oracle) (i : Instr) (s : State)
    (h : match i with
      | .boolean _ | .integer _ | .float _ | .index _ => True
      | _ => False) :
    weight (semFull ρ i s) ≤ weight s + 2 := by
  cases i <;> simp only at h
  case boolean o => have := bool_growth ρ o s; simp only [semFull, sem]; omega
  case integer o => exact int_growth ρ o s
  case float o => have := float_growth ρ o s; simp only [semFull, sem]; omega
  case index o => have := index_growth o s; simp only [semFull, sem]; omega

end Pushr.C15
