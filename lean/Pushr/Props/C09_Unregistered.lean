import Pushr.Unregistered
import Pushr.Props.C09
/-! # C09 / C01 (supplement) — the two unregistered INTVECTOR instructions (`INTVECTOR.*`, `INTVECTOR./`) follow the same
README rule, and a zero divisor inside the overlap yields no result (never a division by zero) -/
namespace Pushr.C09
open Pushr

/-- INTVECTOR.* (when registered by the host): the README overlap rule with wrapping multiplication -/
theorem intvec_mul_spec (s : State) (top second : List Int32) (l : List (List Int32)) (off : Int32) (il : List Int32)
    (hv : s.ivec = top :: second :: l) (hi : s.int = off :: il) :
    semIntVecMul s = { s with ivec := overlapSpec (· * ·) second top off.toInt :: l, int := il } := by
  simp [semIntVecMul, elementwise, Lens.ivec, hv, hi, overlap_loop_eq_spec]

/-- INTVECTOR./: a zero divisor that would be used makes the instruction a NOOP on the vectors (both consumed,
nothing pushed); otherwise the overlap rule with wrapping division, in which no divisor is zero -/
theorem intvec_div_spec (s : State) (top second : List Int32) (l : List (List Int32)) (off : Int32) (il : List Int32)
    (hv : s.ivec = top :: second :: l) (hi : s.int = off :: il) :
    semIntVecDiv s = (match divOverlapI second top off.toInt with
      | some r => { s with ivec := r :: l, int := il }
      | none => { s with ivec := l, int := il }) := by
  simp only [semIntVecDiv, elementwise, Lens.ivec, hv, hi]
  cases divOverlapI second top off.toInt <;> rfl

theorem intvec_div_length (second top r : List Int32) (off : Int) (h : divOverlapI second top off = some r) :
    r.length = second.length := by
  simp only [divOverlapI] at h
  split at h
  · simp at h
  · simp only [Option.some.injEq] at h; subst h; exact overlap_length _ _ _ _

/-- no used divisor is zero when a result is produced: for every index `i` of the top vector whose shifted position
lies inside the second vector, `top[i] ≠ 0` -/
theorem intvec_div_no_zero_divisor (second top r : List Int32) (off : Int) (h : divOverlapI second top off = some r)
    (i : Nat) (t : Int32) (hi : top[i]? = some t) (h0 : 0 ≤ (i : Int) + off)
    (h1 : ((i : Int) + off).toNat < second.length) : t ≠ 0 := by
  simp only [divOverlapI] at h
  split at h
  · simp at h
  · next hb =>
    intro ht
    apply hb
    rw [List.any_eq_true]
    refine ⟨(t, i), ?_, by simp [h0, h1, ht]⟩
    rw [List.mem_zipIdx_iff_getElem?]
    simpa using hi

example : divOverlapI [8, 8, 8] [1, 0] (-1) = none := by decide
example : divOverlapI [8, 8, 8] [0, 2] (-1) = some [4, 8, 8] := by decide

end Pushr.C09
