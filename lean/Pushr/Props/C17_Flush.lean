import Pushr.Unregistered
import Pushr.Props.C17
/-! # C17 (supplement): INPUT.FLUSH, the instruction function `input_flush` the crate ships unregistered -/
open Pushr
namespace Pushr.C17

/-- INPUT.FLUSH leaves no message and keeps the capacity -/
theorem inputFlush_empties (s : State) :
    (semInputFlush s).input.items = [] ∧ (semInputFlush s).input.cap = s.input.cap := by
  simp [semInputFlush, Buf.flush]

/-- ... and touches nothing but the INPUT queue -/
theorem inputFlush_frame (s : State) : { semInputFlush s with input := s.input } = s := by
  simp [semInputFlush]

end Pushr.C17
