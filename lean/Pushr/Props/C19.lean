import Pushr.ListRec
import Pushr.Interp
import Pushr.Props.C02
/-! # C19 — LIST records move items between stacks without loss, duplication or reordering -/
namespace Pushr.C19
open Pushr

/-! ## BVAL / IVAL / FVAL: the n-th value of a type, depth-first -/

/-- the points of `t` that have the shallow type of `p`, in depth-first order -/
def hits (t p : Item) : List Item := (Item.points t).filter fun q => Item.shallowEq p q
def hitsL (ts : List Item) (p : Item) : List Item := (Item.pointsL ts).filter fun q => Item.shallowEq p q

mutual
/-- `Item::find` with a running counter `c` returns the `(n - c)`-th matching point, or the counter
advanced by the number of hits -/
theorem find_spec (t p : Item) (c n : Nat) (hc : c ≤ n) :
    Item.find t p c n = match (hits t p)[n - c]? with
      | some r => .ok r
      | none => .error (c + (hits t p).length) := by
  unfold Item.find
  cases t with
  | list xs =>
    have hpts : hits (.list xs) p = (if Item.shallowEq p (.list xs) then [Item.list xs] else []) ++ hitsL xs p := by
      simp only [hits, hitsL, Item.points, List.filter_cons]
      split <;> simp
    by_cases hm : Item.shallowEq p (.list xs) = true
    · simp only [hm, if_true] at hpts ⊢
      by_cases hcn : c = n
      · subst hcn; simp [hpts]
      · simp only [hcn, if_false]
        rw [findL_spec xs p (c + 1) n (by omega), hpts]
        have : n - c = (n - (c + 1)) + 1 := by omega
        rw [this]
        simp only [List.singleton_append, List.getElem?_cons_succ, List.length_cons]
        cases (hitsL xs p)[n - (c + 1)]? <;> simp <;> omega
    · have hm' : Item.shallowEq p (.list xs) = false := by simpa using hm
      simp only [hm', if_false, Bool.false_eq_true] at hpts ⊢
      rw [findL_spec xs p c n hc, hpts]; simp
  | instr i =>
    by_cases hm : Item.shallowEq p (.instr i) = true
    · by_cases hcn : c = n
      · subst hcn; simp [hits, Item.points, hm]
      · have : ¬ n - c = 0 := by omega
        simp [hits, Item.points, hm, hcn]
        cases h : n - c with
        | zero => omega
        | succ k => simp
    · have hm' : Item.shallowEq p (.instr i) = false := by simpa using hm
      simp [hits, Item.points, hm']
  | lit v =>
    by_cases hm : Item.shallowEq p (.lit v) = true
    · by_cases hcn : c = n
      · subst hcn; simp [hits, Item.points, hm]
      · simp [hits, Item.points, hm, hcn]
        cases h : n - c with
        | zero => omega
        | succ k => simp
    · have hm' : Item.shallowEq p (.lit v) = false := by simpa using hm
      simp [hits, Item.points, hm']
  | ident x =>
    by_cases hm : Item.shallowEq p (.ident x) = true
    · by_cases hcn : c = n
      · subst hcn; simp [hits, Item.points, hm]
      · simp [hits, Item.points, hm, hcn]
        cases h : n - c with
        | zero => omega
        | succ k => simp
    · have hm' : Item.shallowEq p (.ident x) = false := by simpa using hm
      simp [hits, Item.points, hm']
theorem findL_spec (ts : List Item) (p : Item) (c n : Nat) (hc : c ≤ n) :
    Item.findL ts p c n = match (hitsL ts p)[n - c]? with
      | some r => .ok r
      | none => .error (c + (hitsL ts p).length) := by
  cases ts with
  | nil => simp [Item.findL, hitsL, Item.pointsL]
  | cons t ts =>
    have happ : hitsL (t :: ts) p = hits t p ++ hitsL ts p := by
      simp [hitsL, hits, Item.pointsL, List.filter_append]
    simp only [Item.findL]
    rw [find_spec t p c n hc, happ]
    cases h : (hits t p)[n - c]? with
    | some r =>
      have hlt : n - c < (hits t p).length := (List.getElem?_eq_some_iff.mp h).1
      simp only [List.getElem?_append_left hlt, h]
    | none =>
      have hge : (hits t p).length ≤ n - c := by
        rcases Nat.lt_or_ge (n - c) (hits t p).length with h1 | h1
        · rw [List.getElem?_eq_getElem h1] at h; cases h
        · exact h1
      simp only
      rw [findL_spec ts p (c + (hits t p).length) n (by omega),
        List.getElem?_append_right hge, List.length_append]
      have : n - (c + (hits t p).length) = n - c - (hits t p).length := by omega
      rw [this]
      cases (hitsL ts p)[n - c - (hits t p).length]? <;> simp <;> omega
end

/-- LIST.IVAL / BVAL / FVAL: the n-th value of the requested type inside the addressed item, counted
depth-first from the top, or the type's default when there is none -/
theorem nthOf_spec (pat item : Item) (n : Int32) (hn : 0 ≤ n.toInt) :
    nthOf pat item n = (hits item pat)[n.toInt.toNat]? := by
  unfold nthOf
  have : ¬ n < 0 := by
    intro h; have := Int32.lt_iff_toInt_lt.mp h; simp at this; omega
  simp only [this, if_false]
  rw [find_spec item pat 0 n.toInt.toNat (Nat.zero_le _)]
  simp only [Nat.sub_zero]
  cases (hits item pat)[n.toInt.toNat]? <;> rfl

/-! ## record addresses are clamped into the CODE stack -/

theorem record_address_clamped (len : Nat) (i : Int32) (h : 0 < len) : clampIdx len i < len := by
  unfold clampIdx; omega

/-- LIST.REMOVE deletes exactly the addressed record -/
theorem list_remove_exactly (s : State) (i : Int32) (il : List Int32) (h : s.int = i :: il) :
    semList .remove s = { s with int := il, code := s.code.eraseIdx (clampIdx s.code.length i) } := by
  simp [semList, h]

/-- LIST.GET copies the addressed record to EXEC and leaves it in place -/
theorem list_get_leaves_record (s : State) (i : Int32) (il : List Int32) (xs : List Item)
    (h : s.int = i :: il) (hr : s.code[clampIdx s.code.length i]? = some (.list xs)) :
    semList .get s = { s with int := il, exec := .list xs :: s.exec } := by
  simp [semList, h, hr, pushExec]

/-! ## loading the items designated by the stack-id vector -/

/-- ids whose stack is empty, and unknown ids, are skipped -/
theorem loadFold_skip (sid : Int32) (ids : List Int32) (s : State) (acc : List Item)
    (h : popById s sid = none) : loadFold (sid :: ids) s acc = loadFold ids s acc := by
  simp [loadFold, h]

/-- a designated item is removed from its stack and appended to the record, in vector order -/
theorem loadFold_take (sid : Int32) (ids : List Int32) (s s' : State) (it : Item) (acc : List Item)
    (h : popById s sid = some (it, s')) : loadFold (sid :: ids) s acc = loadFold ids s' (acc ++ [it]) := by
  simp [loadFold, h]

/-- the record lists the loaded items with the LAST popped one on top -/
theorem loadItems_record (s : State) (ids : List Int32) (l : List (List Int32)) (h : s.ivec = ids :: l) :
    loadItems s = some (.list (loadFold ids { s with ivec := l } []).1.reverse,
                        (loadFold ids { s with ivec := l } []).2) := by
  simp [loadItems, h]

/-! ## executing a record puts the literal items back -/

variable (X : Ext) (ρ : Oracle)

/-- push literals in execution order -/
def execLits (s : State) : List Lit → State
  | [] => s
  | v :: vs => execLits (pushLit s v) vs

theorem pushLit_exec (s : State) (v : Lit) (e : List Item) :
    pushLit { s with exec := e } v = { pushLit s v with exec := e } := by
  cases v <;> rfl

/-- literals on EXEC are pushed to their stacks in execution order -/
theorem exec_literals (lits : List Lit) (E : List Item) (s : State) :
    stepN X ρ lits.length { s with exec := lits.map Item.lit ++ E } = { execLits s lits with exec := E } := by
  induction lits generalizing s with
  | nil => simp [stepN, execLits]
  | cons v vs ih =>
    simp only [List.length_cons, stepN, List.map_cons, List.cons_append, step, execLits]
    rw [pushLit_exec, ih]

/-- integers taken by LIST.ADD and brought back by executing the LIST.GET copy return to the INTEGER
stack in their original order: popping `a` (top) then `b` builds the record `( b a )`, whose execution
pushes `b` first and `a` last -/
theorem restore_order_two (a b : Int32) (E : List Item) (s : State) :
    stepN X ρ 3 { s with exec := .list [.lit (.int b), .lit (.int a)] :: E }
      = { s with exec := E, int := a :: b :: s.int } := by
  simp [stepN, step, pushLit, pushInt]

end Pushr.C19
