import Pushr.Props.C15_More
import Pushr.Props.C12
/-! # C15 (supplement): CODE.RAND is bounded by the CONFIGURED maximum, whatever the operand

K05 lists CODE.RAND among the instructions whose work is sized by an INTEGER operand. That is the whole truth only
when the configured maximum is huge: the item built has fewer than `min(|operand|, |max_points_in_random_expressions|)`
points, for every oracle, every operand of either sign and every (also negative) configuration value. The driver
uses this as the line between the recorded finding and a new defect of the same instruction. -/
open Pushr
namespace Pushr.C15

theorem weight_code_cons (s : State) (c : Item) (pos : Nat) :
    weight { pushCode s c with rng := pos } = weight s + c.size := by
  simp only [weight, pushCode, sumMap, List.map_cons, List.sum_cons]
  omega

/-- **CODE.RAND**: the state grows by fewer than `min(|operand|, |configured maximum|)` elementary items -/
theorem coderand_growth (ρ : Oracle) (s : State) (i : Int32) (il : List Int32) (h : s.int = i :: il) :
    weight (semFull ρ (.code .rand) s) + 1 ≤ weight s + max (randLimit s i) 1 := by
  have hpop : weight { s with int := il } + 1 = weight s := by
    simp only [weight, h, List.length_cons]; omega
  show weight (semCode fullExt.randCode ρ .rand s) + 1 ≤ _
  simp only [semCode, h]
  by_cases hm : 2 ≤ randLimit s i
  · obtain ⟨c, pos, hr, _, hc⟩ := C12.randomCode_bounds ρ { s with int := il } Instr.all (randLimit s i) hm
    have hr2 : fullExt.randCode ρ { s with int := il } (randLimit s i) = some (c, pos) := hr
    unfold randLimit at hr2 hc hm
    simp only [hr2]
    rw [weight_code_cons]
    unfold randLimit
    omega
  · have hn := C12.randomCode_small ρ { s with int := il } Instr.all (randLimit s i) (by omega)
    have hn2 : fullExt.randCode ρ { s with int := il } (randLimit s i) = none := hn
    unfold randLimit at hn2
    simp only [hn2]
    omega

/-- in particular the growth is bounded by the configuration alone: no operand can push it past the configured maximum -/
theorem coderand_config_bound (ρ : Oracle) (s : State) :
    weight (semFull ρ (.code .rand) s) ≤ weight s + (i32Abs s.cfg.maxPointsRand).toInt.natAbs := by
  cases h : s.int with
  | nil =>
    show weight (semCode fullExt.randCode ρ .rand s) ≤ _
    simp only [semCode, h]; omega
  | cons i il =>
    have := coderand_growth ρ s i il h
    unfold randLimit at this
    omega

end Pushr.C15
