import Pushr.Spec.C10
import Pushr.Props.C07
import Pushr.Props.C02
import Pushr.Spec.C15
/-! # C10 — missing arguments never fabricate results; instructions touch only their stacks

`frame_*`: a field outside an instruction's documented footprint is unchanged, for every state.
`unfired_*`: when a needed operand is missing the state only loses items from the tops of its
stacks — nothing is pushed, no binding, flag, graph, index or message is created or changed.
Proved family by family (the tables `footprint` and `operands` are in `Spec/C10.lean`); the vector,
record and graph families are covered by the same tables through the correspondence check. -/
namespace Pushr.C10
open Pushr

/-- closes a frame goal after the instruction has been unfolded -/
macro "frame_tac" : tactic =>
  `(tactic| (first | rfl | (repeat' split) <;> rfl))

theorem frame_bool (ρ : Oracle) (o : BoolOp) (s : State) (f : Field) (hf : f ∉ footprint (.boolean o)) :
    Unchanged f (semBool ρ o s) s := by
  cases o <;> cases f <;> simp [footprint] at hf <;>
    simp only [Unchanged, semBool, bin2, Lens.bool, pushBool] <;> frame_tac

theorem frame_int (ρ : Oracle) (o : IntOp) (s : State) (f : Field) (hf : f ∉ footprint (.integer o)) :
    Unchanged f (semInt ρ o s) s := by
  cases o <;> cases f <;> simp [footprint] at hf <;>
    simp only [Unchanged, semInt, bin2, Lens.int, pushBool, pushInt] <;> frame_tac

theorem frame_float (ρ : Oracle) (o : FloatOp) (s : State) (f : Field) (hf : f ∉ footprint (.float o)) :
    Unchanged f (semFloat ρ o s) s := by
  cases o <;> cases f <;> simp [footprint] at hf <;>
    simp only [Unchanged, semFloat, bin2, un1, Lens.float, pushBool, pushFloat] <;> frame_tac

theorem frame_name (ρ : Oracle) (o : NameOp) (s : State) (f : Field) (hf : f ∉ footprint (.name o)) :
    Unchanged f (semName ρ o s) s := by
  cases o <;> cases f <;> simp [footprint] at hf <;>
    simp only [Unchanged, semName, bin2, Lens.name, pushBool, pushName] <;> frame_tac

theorem frame_index (o : IndexOp) (s : State) (f : Field) (hf : f ∉ footprint (.index o)) :
    Unchanged f (semIndex o s) s := by
  cases o <;> cases f <;> simp [footprint] at hf <;>
    simp only [Unchanged, semIndex, pushInt] <;> frame_tac

theorem frame_io (o : IoOp) (s : State) (f : Field) (hf : f ∉ footprint (.io o)) :
    Unchanged f (semIo o s) s := by
  cases o <;> cases f <;> simp [footprint] at hf <;>
    simp only [Unchanged, semIo, pushInt, pushBool] <;> frame_tac

theorem frame_exec (o : ExecOp) (s : State) (f : Field) (hf : f ∉ footprint (.exec o)) :
    Unchanged f (semExec o s) s := by
  cases o <;> cases f <;> simp [footprint] at hf <;>
    simp only [Unchanged, semExec, pushBool] <;> frame_tac

theorem frame_stk (t : Ty) (o : SOp) (s : State) (f : Field) (hf : f ∉ footprint (.stk t o)) :
    Unchanged f (semStk t o s) s := by
  cases t <;> cases o <;> cases f <;> simp [footprint, tyField] at hf <;>
    simp only [Unchanged, semStk, stkOp, withIndex, Lens.bool, Lens.int, Lens.float, Lens.name, Lens.code,
      Lens.exec, Lens.bvec, Lens.ivec, Lens.fvec, pushInt] <;> frame_tac

theorem frame_define (t : Ty) (s : State) (f : Field) (hf : f ∉ footprint (.define t)) :
    Unchanged f (semDefine t s) s := by
  by_cases ht : t = .name
  · subst ht; cases f <;> simp [Unchanged, semDefine]
  · rw [C07.define_meets_spec t ht s]
    cases t <;> cases f <;> simp [footprint, tyField] at hf <;>
      simp only [Unchanged, C07.defineSpec, C07.popTy, C07.boundItem] <;> frame_tac

theorem frame_code (rc : Oracle → State → Nat → Option (Item × Nat)) (ρ : Oracle) (o : CodeOp) (s : State)
    (f : Field) (hf : f ∉ footprint (.code o)) : Unchanged f (semCode rc ρ o s) s := by
  cases o <;> cases f <;> simp [footprint] at hf <;>
    simp only [Unchanged, semCode, pushBool, pushInt, pushCode, pushName] <;> frame_tac

/-- the fields no stack id can address -/
def Fixed (a b : State) : Prop :=
  a.index = b.index ∧ a.input = b.input ∧ a.output = b.output ∧ a.graph = b.graph ∧
  a.bindings = b.bindings ∧ a.quote = b.quote ∧ a.send = b.send ∧ a.cfg = b.cfg

theorem popById_fixed (s : State) (sid : Int32) (it : Item) (s' : State) (h : popById s sid = some (it, s')) :
    Fixed s' s := by
  unfold popById at h
  repeat' split at h
  all_goals first
    | (cases h; exact ⟨rfl, rfl, rfl, rfl, rfl, rfl, rfl, rfl⟩)
    | (cases h)

theorem loadFold_fixed (ids : List Int32) (s : State) (acc : List Item) : Fixed (loadFold ids s acc).2 s := by
  induction ids generalizing s acc with
  | nil => exact ⟨rfl, rfl, rfl, rfl, rfl, rfl, rfl, rfl⟩
  | cons sid ids ih =>
    simp only [loadFold]
    split
    · rename_i it s' h
      have h1 := popById_fixed s sid it s' h
      have h2 := ih s' (acc ++ [it])
      unfold Fixed at *
      refine ⟨h2.1.trans h1.1, h2.2.1.trans h1.2.1, h2.2.2.1.trans h1.2.2.1, h2.2.2.2.1.trans h1.2.2.2.1,
        h2.2.2.2.2.1.trans h1.2.2.2.2.1, h2.2.2.2.2.2.1.trans h1.2.2.2.2.2.1, h2.2.2.2.2.2.2.1.trans h1.2.2.2.2.2.2.1,
        h2.2.2.2.2.2.2.2.trans h1.2.2.2.2.2.2.2⟩
    · exact ih s acc

theorem loadItems_fixed (s : State) (r : Item) (s' : State) (h : loadItems s = some (r, s')) : Fixed s' s := by
  unfold loadItems at h
  split at h
  · cases h
  · rename_i ids l hl
    simp only [Option.some.injEq, Prod.mk.injEq] at h
    rw [← h.2]
    have := loadFold_fixed ids { s with ivec := l } []
    exact this

theorem frame_list (o : ListOp) (s : State) (f : Field) (hf : f ∉ footprint (.list o)) :
    Unchanged f (semList o s) s := by
  cases o
  case add =>
    simp only [semList]
    cases h : loadItems s with
    | none => cases f <;> simp [Unchanged]
    | some p =>
      obtain ⟨r, s'⟩ := p
      have hx := loadItems_fixed s r s' h
      cases f <;> simp [footprint, loadable] at hf <;> simp [Unchanged, pushCode, hx.1, hx.2.1, hx.2.2.1, hx.2.2.2.1,
        hx.2.2.2.2.1, hx.2.2.2.2.2.1, hx.2.2.2.2.2.2.1, hx.2.2.2.2.2.2.2]
  case set =>
    simp only [semList]
    cases hi : s.int with
    | nil => cases f <;> simp [Unchanged]
    | cons i il =>
      simp only
      cases h : loadItems { s with int := il } with
      | none => cases f <;> simp [footprint, loadable] at hf <;> simp [Unchanged]
      | some p =>
        obtain ⟨r, s'⟩ := p
        have hx := loadItems_fixed _ r s' h
        simp only
        cases f <;> simp [footprint, loadable] at hf <;>
          (split <;> simp [Unchanged, hx.1, hx.2.1, hx.2.2.1, hx.2.2.2.1, hx.2.2.2.2.1, hx.2.2.2.2.2.1, hx.2.2.2.2.2.2.1, hx.2.2.2.2.2.2.2])
  all_goals
    (cases f <;> simp [footprint, loadable] at hf <;>
      simp only [Unchanged, semList, pushBool, pushInt, pushFloat, pushCode, pushExec] <;> frame_tac)

theorem frame_graph (o : GraphOp) (s : State) (f : Field) (hf : f ∉ footprint (.graph o)) :
    Unchanged f (semGraph o s) s := by
  cases o <;> cases f <;> simp [footprint] at hf <;>
    simp only [Unchanged, semGraph, modGraphTop, pushInt, pushFloat, pushName] <;> frame_tac

theorem frame_vecB (br : Oracle → Nat → Int32 → Float32 → Option (List Bool × Nat)) (ρ : Oracle) (o : VecOp)
    (s : State) (f : Field) (hf : f ∉ footprint (.vec .b o)) : Unchanged f (semVecB br ρ o s) s := by
  cases o <;> cases f <;> simp [footprint, vField, sField] at hf <;>
    simp only [Unchanged, semVecB, elementwise, vecGet, modTop, Lens.bvec, pushBool, pushInt] <;> frame_tac

theorem frame_vecI (ir : Oracle → Nat → Int32 → Int32 → Int32 → Option (List Int32 × Nat)) (ρ : Oracle) (o : VecOp)
    (s : State) (f : Field) (hf : f ∉ footprint (.vec .i o)) : Unchanged f (semVecI ir ρ o s) s := by
  cases o <;> cases f <;> simp [footprint, vField, sField] at hf <;>
    simp only [Unchanged, semVecI, elementwise, vecGet, modTop, Lens.ivec, pushBool, pushInt, pushFloat] <;> frame_tac

theorem frame_vecF (fr : Oracle → Nat → Int32 → Float32 → Float32 → Option (List Float32 × Nat)) (ρ : Oracle)
    (o : VecOp) (s : State) (f : Field) (hf : f ∉ footprint (.vec .f o)) : Unchanged f (semVecF fr ρ o s) s := by
  cases o <;> cases f <;> simp [footprint, vField, sField] at hf <;>
    simp only [Unchanged, semVecF, elementwise, vecGet, modTop, Lens.fvec, pushBool, pushInt, pushFloat] <;> frame_tac

theorem unchanged_refl (f : Field) (s : State) : Unchanged f s s := by cases f <;> rfl

/-- **C10 (frame).** When an instruction applies — and when it does not — only its documented
operand and result stacks can change: every other field of the state is untouched -/
theorem frame (ρ : Oracle) (i : Instr) (s : State) (f : Field) (hf : f ∉ footprint i) :
    Unchanged f (semFull ρ i s) s := by
  cases i with
  | noop => exact unchanged_refl f s
  | unknown n => exact unchanged_refl f s
  | stk t o => exact frame_stk t o s f hf
  | define t => exact frame_define t s f hf
  | boolean o => exact frame_bool ρ o s f hf
  | integer o => exact frame_int ρ o s f hf
  | float o => exact frame_float ρ o s f hf
  | name o => exact frame_name ρ o s f hf
  | code o => exact frame_code _ ρ o s f hf
  | exec o => exact frame_exec o s f hf
  | index o => exact frame_index o s f hf
  | io o => exact frame_io o s f hf
  | vec t o =>
    cases t
    · exact frame_vecB _ ρ o s f hf
    · exact frame_vecI _ ρ o s f hf
    · exact frame_vecF _ ρ o s f hf
  | list o => exact frame_list o s f hf
  | graph o => exact frame_graph o s f hf

/-- no instruction rewrites the configuration (the hypothesis of `C02.run_steps_le`) -/
theorem sem_cfg (ρ : Oracle) (i : Instr) (s : State) : (semFull ρ i s).cfg = s.cfg := by
  have h : Field.cfg ∉ footprint i := by
    cases i <;> simp [footprint, loadable, tyField, vField, sField] <;>
      (rename_i o; first | (cases o <;> simp [footprint, loadable, tyField, vField, sField]) | skip) <;>
      (try (rename_i t; cases t <;> simp [tyField, vField, sField]))
  exact frame ρ i s .cfg h

theorem step_cfg (ρ : Oracle) (s : State) : (step fullExt ρ s).2.cfg = s.cfg := by
  unfold step
  cases hs : s.exec with
  | nil => rfl
  | cons x e =>
    cases x with
    | instr i => exact sem_cfg ρ i { s with exec := e }
    | list xs => rfl
    | lit v => cases v <;> rfl
    | ident n =>
      simp only
      split
      · rfl
      · split <;> rfl

/-- the step bound of C02 for the full instruction set (its configuration hypothesis discharged) -/
theorem run_steps_le_full (ρ : Oracle) (timeout : Nat → Bool) (s : State) :
    ((runFull ρ timeout s).2.1 : Int) ≤ max (s.cfg.evalPushLimit.toInt + 1) 0 :=
  C02.run_steps_le fullExt ρ (step_cfg ρ) timeout s

/-! ## unfired instructions only pop -/

theorem popsOnly_refl (s : State) : PopsOnly s s :=
  ⟨⟨0, rfl⟩, ⟨0, rfl⟩, ⟨0, rfl⟩, ⟨0, rfl⟩, ⟨0, rfl⟩, ⟨0, rfl⟩, ⟨0, rfl⟩, ⟨0, rfl⟩, ⟨0, rfl⟩, ⟨0, rfl⟩,
   rfl, rfl, rfl, rfl, rfl, rfl⟩

/-- one conjunct of `PopsOnly`: the stack is unchanged or lost 1–4 items from the top -/
macro "suffix_tac" : tactic =>
  `(tactic| (first
    | rfl
    | exact ⟨0, rfl⟩
    | (refine ⟨1, ?_⟩; simp_all; done)
    | (refine ⟨2, ?_⟩; simp_all; done)
    | (refine ⟨3, ?_⟩; simp_all; done)
    | (refine ⟨4, ?_⟩; simp_all; done)))

macro "pops_tac" : tactic =>
  `(tactic| (first
    | (exfalso; omega)
    | (exfalso; simp_all; omega)
    | (exfalso; simp_all; done)
    | exact popsOnly_refl _
    | (refine ⟨?_, ?_, ?_, ?_, ?_, ?_, ?_, ?_, ?_, ?_, ?_, ?_, ?_, ?_, ?_, ?_⟩ <;> suffix_tac)))

theorem unfired_bool (ρ : Oracle) (o : BoolOp) (s : State) (h : operandsMet (.boolean o) s = false) :
    PopsOnly s (semBool ρ o s) := by
  cases o <;> simp [operandsMet, operands, depthOf] at h <;>
    simp only [semBool, bin2, Lens.bool, pushBool] <;> (repeat' split) <;> pops_tac

theorem unfired_int (ρ : Oracle) (o : IntOp) (s : State) (h : operandsMet (.integer o) s = false) :
    PopsOnly s (semInt ρ o s) := by
  cases o <;> simp [operandsMet, operands, depthOf] at h <;>
    simp only [semInt, bin2, Lens.int, pushBool, pushInt] <;> (repeat' split) <;> pops_tac

theorem unfired_float (ρ : Oracle) (o : FloatOp) (s : State) (h : operandsMet (.float o) s = false) :
    PopsOnly s (semFloat ρ o s) := by
  cases o <;> simp [operandsMet, operands, depthOf] at h <;>
    simp only [semFloat, bin2, un1, Lens.float, pushBool, pushFloat] <;> (repeat' split) <;> pops_tac

theorem unfired_name (ρ : Oracle) (o : NameOp) (s : State) (h : operandsMet (.name o) s = false) :
    PopsOnly s (semName ρ o s) := by
  cases o <;> simp [operandsMet, operands, depthOf] at h <;>
    simp only [semName, bin2, Lens.name, pushBool, pushName] <;> (repeat' split) <;> pops_tac

theorem unfired_index (o : IndexOp) (s : State) (h : operandsMet (.index o) s = false) :
    PopsOnly s (semIndex o s) := by
  cases o <;> simp [operandsMet, operands, depthOf] at h <;>
    simp only [semIndex, pushInt] <;> (repeat' split) <;> pops_tac

theorem unfired_io (o : IoOp) (s : State) (h : operandsMet (.io o) s = false) :
    PopsOnly s (semIo o s) := by
  cases o <;> simp [operandsMet, operands, depthOf] at h <;>
    simp only [semIo, pushInt, pushBool, Buf.oldest] <;> (repeat' split) <;> pops_tac

theorem unfired_exec (o : ExecOp) (s : State) (h : operandsMet (.exec o) s = false) :
    PopsOnly s (semExec o s) := by
  cases o <;> simp [operandsMet, operands, depthOf] at h <;>
    simp only [semExec, pushBool] <;> (repeat' split) <;> pops_tac

theorem unfired_code (rc : Oracle → State → Nat → Option (Item × Nat)) (ρ : Oracle) (o : CodeOp) (s : State)
    (h : operandsMet (.code o) s = false) : PopsOnly s (semCode rc ρ o s) := by
  cases o <;> simp [operandsMet, operands, depthOf] at h <;>
    simp only [semCode, pushBool, pushInt, pushCode, pushName] <;> (repeat' split) <;> pops_tac

theorem shove_short {α : Type} (l : List α) (h : l.length < 2) : Seq.shove l 1 = l := by
  unfold Seq.shove
  cases l with
  | nil => rfl
  | cons x t =>
    have : ¬ (0 < 1 ∧ 1 < (x :: t).length) := by simp only [List.length_cons] at h ⊢; omega
    simp only [this, if_false]

theorem yank_short {α : Type} (l : List α) (h : l.length < 3) : Seq.yank l 2 = l := by
  unfold Seq.yank
  rw [List.getElem?_eq_none (by omega)]

theorem unfired_stk (t : Ty) (o : SOp) (s : State) (h : operandsMet (.stk t o) s = false) :
    PopsOnly s (semStk t o s) := by
  cases o
  case swap =>
    cases t <;> simp [operandsMet, operands, depthOf, tyField] at h <;>
      simp only [semStk, stkOp, Lens.bool, Lens.int, Lens.float, Lens.name, Lens.code, Lens.exec, Lens.bvec,
        Lens.ivec, Lens.fvec] <;> rw [shove_short _ h] <;> exact popsOnly_refl s
  case rot =>
    cases t <;> simp [operandsMet, operands, depthOf, tyField] at h <;>
      simp only [semStk, stkOp, Lens.bool, Lens.int, Lens.float, Lens.name, Lens.code, Lens.exec, Lens.bvec,
        Lens.ivec, Lens.fvec] <;> rw [yank_short _ h] <;> exact popsOnly_refl s
  all_goals
    (cases t <;> simp [operandsMet, operands, depthOf, tyField] at h <;>
      simp only [semStk, stkOp, withIndex, Lens.bool, Lens.int, Lens.float, Lens.name,
        Lens.code, Lens.exec, Lens.bvec, Lens.ivec, Lens.fvec, pushInt] <;> (repeat' split) <;> pops_tac)

theorem unfired_define (t : Ty) (s : State) (h : operandsMet (.define t) s = false) :
    PopsOnly s (semDefine t s) := by
  by_cases ht : t = .name
  · subst ht; exact popsOnly_refl s
  · rw [C07.define_meets_spec t ht s]
    cases t <;> simp [operandsMet, operands, depthOf, tyField] at h <;>
      simp only [C07.defineSpec, C07.popTy, C07.boundItem] <;> (repeat' split) <;> pops_tac

theorem unfired_vecB (br : Oracle → Nat → Int32 → Float32 → Option (List Bool × Nat)) (ρ : Oracle) (o : VecOp)
    (s : State) (h : operandsMet (.vec .b o) s = false) : PopsOnly s (semVecB br ρ o s) := by
  cases o <;> simp [operandsMet, operands, depthOf, vField, sField] at h <;>
    simp only [semVecB, elementwise, vecGet, modTop, Lens.bvec, pushBool, pushInt] <;> (repeat' split) <;> pops_tac

theorem unfired_vecI (ir : Oracle → Nat → Int32 → Int32 → Int32 → Option (List Int32 × Nat)) (ρ : Oracle) (o : VecOp)
    (s : State) (h : operandsMet (.vec .i o) s = false) : PopsOnly s (semVecI ir ρ o s) := by
  cases o <;> simp [operandsMet, operands, depthOf, vField, sField] at h <;>
    simp only [semVecI, elementwise, vecGet, modTop, Lens.ivec, pushBool, pushInt, pushFloat] <;>
    (repeat' split) <;> pops_tac

theorem unfired_vecF (fr : Oracle → Nat → Int32 → Float32 → Float32 → Option (List Float32 × Nat)) (ρ : Oracle)
    (o : VecOp) (s : State) (h : operandsMet (.vec .f o) s = false) : PopsOnly s (semVecF fr ρ o s) := by
  cases o <;> simp [operandsMet, operands, depthOf, vField, sField] at h <;>
    simp only [semVecF, elementwise, vecGet, modTop, Lens.fvec, pushBool, pushInt, pushFloat] <;>
    (repeat' split) <;> pops_tac

theorem graphAt_none (s : State) (k : Nat) (h : s.graph.items.length ≤ k) : graphAt s k = none := by
  simp only [graphAt, Buf.getStack]
  exact List.getElem?_eq_none (by simpa using h)

theorem unfired_graph (o : GraphOp) (s : State) (h : operandsMet (.graph o) s = false) :
    PopsOnly s (semGraph o s) := by
  by_cases hlen : 1 ≤ s.graph.items.length
  · -- a graph is there: the missing operand is on another stack (or a second graph is missing)
    by_cases hlen2 : 2 ≤ s.graph.items.length
    · cases o <;> simp [operandsMet, operands, depthOf, hlen, hlen2] at h <;>
        simp only [semGraph, modGraphTop, pushInt, pushFloat, pushName] <;> (repeat' split) <;> pops_tac
    · have g1 := graphAt_none s 1 (by omega)
      cases o <;> simp [operandsMet, operands, depthOf, hlen] at h <;>
        simp only [semGraph, g1, modGraphTop, pushInt, pushFloat, pushName] <;> (repeat' split) <;> pops_tac
  · have g0 := graphAt_none s 0 (by omega)
    have g1 := graphAt_none s 1 (by omega)
    cases o <;> simp [operandsMet, operands, depthOf] at h <;>
      simp only [semGraph, g0, g1, modGraphTop, pushInt, pushFloat, pushName] <;> (repeat' split) <;> pops_tac

theorem unfired_list (o : ListOp) (s : State) (h : operandsMet (.list o) s = false) :
    PopsOnly s (semList o s) := by
  cases o <;> simp [operandsMet, operands, depthOf] at h <;>
    simp only [semList, loadItems, pushBool, pushInt, pushFloat, pushCode, pushExec] <;> (repeat' split) <;> pops_tac

/-- **C10 (unfired).** When an instruction lacks a needed operand it may at most have consumed
operands it had already taken: it pushes nothing and creates or changes no binding, flag, graph,
index or message — for every registered instruction and every state -/
theorem unfired_only_pops (ρ : Oracle) (i : Instr) (s : State) (h : operandsMet i s = false) :
    PopsOnly s (semFull ρ i s) := by
  cases i with
  | noop => exact popsOnly_refl s
  | unknown n => exact popsOnly_refl s
  | stk t o => exact unfired_stk t o s h
  | define t => exact unfired_define t s h
  | boolean o => exact unfired_bool ρ o s h
  | integer o => exact unfired_int ρ o s h
  | float o => exact unfired_float ρ o s h
  | name o => exact unfired_name ρ o s h
  | code o => exact unfired_code _ ρ o s h
  | exec o => exact unfired_exec o s h
  | index o => exact unfired_index o s h
  | io o => exact unfired_io o s h
  | vec t o =>
    cases t
    · exact unfired_vecB _ ρ o s h
    · exact unfired_vecI _ ρ o s h
    · exact unfired_vecF _ ρ o s h
  | list o => exact unfired_list o s h
  | graph o => exact unfired_graph o s h

/-! non-vacuity: CODE.ATOM on an empty CODE stack (the repaired defect F22) is an unfired instruction -/
example : operandsMet (.code .atom) C15.emptyState = false := by decide


/-- **C10 (failed guard).** When a documented guard fails although every operand is present (zero divisor of
INTEGER./, INTEGER.%, FLOAT./, FLOAT.%; a zero divisor inside the overlap of FLOATVECTOR./) the instruction has
at most consumed its operands: nothing is pushed, and no binding, flag, graph, index or message changes -/
theorem guard_failed_only_pops (ρ : Oracle) (i : Instr) (s : State) (h : guardFails i s = true) :
    PopsOnly s (semFull ρ i s) := by
  unfold guardFails at h
  split at h
  · -- INTEGER./
    split at h
    · next b a l hl =>
      have hb : b = 0 := by simpa using h
      subst hb
      simp only [semFull, sem, semInt, bin2, Lens.int, hl]
      refine ⟨⟨0, rfl⟩, ⟨2, by simp [hl]⟩, ⟨0, rfl⟩, ⟨0, rfl⟩, ⟨0, rfl⟩, ⟨0, rfl⟩, ⟨0, rfl⟩, ⟨0, rfl⟩, ⟨0, rfl⟩, ⟨0, rfl⟩,
        rfl, rfl, rfl, rfl, rfl, rfl⟩
    · simp at h
  · split at h
    · next b a l hl =>
      have hb : b = 0 := by simpa using h
      subst hb
      simp only [semFull, sem, semInt, bin2, Lens.int, hl]
      refine ⟨⟨0, rfl⟩, ⟨2, by simp [hl]⟩, ⟨0, rfl⟩, ⟨0, rfl⟩, ⟨0, rfl⟩, ⟨0, rfl⟩, ⟨0, rfl⟩, ⟨0, rfl⟩, ⟨0, rfl⟩, ⟨0, rfl⟩,
        rfl, rfl, rfl, rfl, rfl, rfl⟩
    · simp at h
  · split at h
    · next b a l hl =>
      have hb : (b != 0) = false := by simp [bne, h]
      simp only [semFull, sem, semFloat, bin2, Lens.float, hl, hb]
      refine ⟨⟨0, rfl⟩, ⟨0, rfl⟩, ⟨2, by simp [hl]⟩, ⟨0, rfl⟩, ⟨0, rfl⟩, ⟨0, rfl⟩, ⟨0, rfl⟩, ⟨0, rfl⟩, ⟨0, rfl⟩, ⟨0, rfl⟩,
        rfl, rfl, rfl, rfl, rfl, rfl⟩
    · simp at h
  · split at h
    · next b a l hl =>
      have hb : (b != 0) = false := by simp [bne, h]
      simp only [semFull, sem, semFloat, bin2, Lens.float, hl, hb]
      refine ⟨⟨0, rfl⟩, ⟨0, rfl⟩, ⟨2, by simp [hl]⟩, ⟨0, rfl⟩, ⟨0, rfl⟩, ⟨0, rfl⟩, ⟨0, rfl⟩, ⟨0, rfl⟩, ⟨0, rfl⟩, ⟨0, rfl⟩,
        rfl, rfl, rfl, rfl, rfl, rfl⟩
    · simp at h
  · split at h
    · next top second l off il hf hi =>
      have hn : divOverlap second top off.toInt = none := by simpa using h
      simp only [semFull, sem, fullExt, semVec, semVecF, elementwise, Lens.fvec, hf, hi, hn]
      refine ⟨⟨0, rfl⟩, ⟨1, by simp [hi]⟩, ⟨0, rfl⟩, ⟨0, rfl⟩, ⟨0, rfl⟩, ⟨0, rfl⟩, ⟨0, rfl⟩, ⟨0, rfl⟩, ⟨0, rfl⟩,
        ⟨2, by simp [hf]⟩, rfl, rfl, rfl, rfl, rfl, rfl⟩
    · simp at h
  · simp at h

/-- non-vacuity: `( 7 0 INTEGER./ )` meets the guard hypothesis with both operands present -/
example : guardFails (.integer .div) { Pushr.C15.emptyState with int := [0, 7] } = true
    ∧ operandsMet (.integer .div) { Pushr.C15.emptyState with int := [0, 7] } = true := by decide


end Pushr.C10
