import Pushr.Props.C14
import Pushr.Props.C10
import Pushr.Props.C05
/-! # C14 (supplement, part 1) — a syntactic invariant: the tree functions never invent an instruction -/
namespace Pushr.C14
open Pushr

/-! ## a syntactic invariant: which instructions occur anywhere in the program -/

mutual
/-- every instruction leaf of the item satisfies `P` -/
def okItem (P : Instr → Bool) : Item → Bool
  | .list xs => okItems P xs
  | .instr i => P i
  | .lit _ => true
  | .ident _ => true
def okItems (P : Instr → Bool) : List Item → Bool
  | [] => true
  | x :: xs => okItem P x && okItems P xs
end

variable (P : Instr → Bool)

theorem okItems_eq_all (l : List Item) : okItems P l = l.all (okItem P) := by
  induction l with
  | nil => simp [okItems]
  | cons a t ih => simp [okItems, ih]

theorem okItems_append (a b : List Item) : okItems P (a ++ b) = (okItems P a && okItems P b) := by
  simp [okItems_eq_all]

theorem okItems_mem (l : List Item) (h : okItems P l = true) (x : Item) (hx : x ∈ l) : okItem P x = true := by
  rw [okItems_eq_all, List.all_eq_true] at h; exact h x hx

theorem okItems_of_forall (l : List Item) (h : ∀ x ∈ l, okItem P x = true) : okItems P l = true := by
  rw [okItems_eq_all, List.all_eq_true]; exact h

theorem okItems_perm {a b : List Item} (h : a.Perm b) : okItems P a = okItems P b := by
  rw [okItems_eq_all, okItems_eq_all]; exact h.all_eq

theorem okItems_sub (a b : List Item) (h : ∀ x ∈ a, x ∈ b) (hb : okItems P b = true) : okItems P a = true :=
  okItems_of_forall P a fun x hx => okItems_mem P b hb x (h x hx)

theorem okItems_reverse (l : List Item) : okItems P l.reverse = okItems P l :=
  okItems_perm P (List.reverse_perm l)

/-! ### the tree functions of `item.rs` never invent an instruction -/

mutual
theorem trav_ok (t : Item) (d : Nat) (r : Item) (h : okItem P t = true) (hr : Item.trav t d = .ok r) :
    okItem P r = true := by
  cases d with
  | zero => simp [Item.trav] at hr; subst hr; exact h
  | succ d =>
    cases t with
    | list xs => simp only [Item.trav] at hr; exact travL_ok xs (d + 1) r (by simpa [okItem] using h) hr
    | instr i => simp [Item.trav] at hr
    | lit v => simp [Item.trav] at hr
    | ident n => simp [Item.trav] at hr
theorem travL_ok (xs : List Item) (d : Nat) (r : Item) (h : okItems P xs = true) (hr : Item.travL xs d = .ok r) :
    okItem P r = true := by
  cases xs with
  | nil => simp [Item.travL] at hr
  | cons x xs =>
    cases d with
    | zero => simp [Item.travL] at hr
    | succ d =>
      simp only [okItems, Bool.and_eq_true] at h
      simp only [Item.travL] at hr
      split at hr
      · next r' hx => simp at hr; subst hr; exact trav_ok x d r' h.1 hx
      · next d' hx => exact travL_ok xs d' r h.2 hr
end

mutual
theorem ins_ok (t x : Item) (d : Nat) (t' : Item) (h : okItem P t = true) (hx : okItem P x = true)
    (hr : Item.ins t x d = .ok t') : okItem P t' = true := by
  cases t with
  | list xs =>
    cases d with
    | zero => simp [Item.ins] at hr
    | succ d =>
      simp only [Item.ins] at hr
      split at hr
      · next xs' hxs => simp at hr; subst hr; simpa [okItem] using insL_ok xs x (d + 1) xs' (by simpa [okItem] using h) hx hxs
      · simp at hr
  | instr i => simp [Item.ins] at hr
  | lit v => simp [Item.ins] at hr
  | ident n => simp [Item.ins] at hr
theorem insL_ok (cs : List Item) (x : Item) (d : Nat) (cs' : List Item) (h : okItems P cs = true)
    (hx : okItem P x = true) (hr : Item.insL cs x d = .ok cs') : okItems P cs' = true := by
  cases cs with
  | nil => simp [Item.insL] at hr
  | cons c cs =>
    cases d with
    | zero => simp [Item.insL] at hr
    | succ d =>
      simp only [okItems, Bool.and_eq_true] at h
      simp only [Item.insL] at hr
      split at hr
      · simp at hr; subst hr; simp [okItems, hx, h.2]
      · split at hr
        · next c' hc => simp at hr; subst hr; simp [okItems, ins_ok c x d c' h.1 hx hc, h.2]
        · next d' hc =>
          split at hr
          · next cs'' hcs => simp at hr; subst hr; simp [okItems, h.1, insL_ok cs x d' cs'' h.2 hx hcs]
          · simp at hr
end

mutual
theorem container_ok (t p : Item) (c : Item) (h : okItem P t = true) (hr : Item.container t p = .ok c) :
    okItem P c = true := by
  unfold Item.container at hr
  split at hr
  · simp at hr
  · cases t with
    | list xs => simp only at hr; exact containerL_ok xs p (.list xs) c (by simpa [okItem] using h) h hr
    | instr i => simp at hr
    | lit v => simp at hr
    | ident n => simp at hr
theorem containerL_ok (xs : List Item) (p parent c : Item) (h : okItems P xs = true) (hp : okItem P parent = true)
    (hr : Item.containerL xs p parent = .ok c) : okItem P c = true := by
  cases xs with
  | nil => simp [Item.containerL] at hr
  | cons x xs =>
    simp only [okItems, Bool.and_eq_true] at h
    simp only [Item.containerL] at hr
    split at hr
    · next c' hc => simp at hr; subst hr; exact container_ok x p c' h.1 hc
    · simp at hr; subst hr; exact hp
    · exact containerL_ok xs p parent c h.2 hp hr
end

mutual
theorem subst_ok (t p sub : Item) (h : okItem P t = true) (hs : okItem P sub = true) :
    okItem P (Item.subst t p sub) = true := by
  unfold Item.subst
  split
  · exact hs
  · cases t with
    | list xs => simpa [okItem] using substL_ok xs p sub (by simpa [okItem] using h) hs
    | instr i => exact h
    | lit v => exact h
    | ident n => exact h
theorem substL_ok (xs : List Item) (p sub : Item) (h : okItems P xs = true) (hs : okItem P sub = true) :
    okItems P (Item.substL xs p sub) = true := by
  cases xs with
  | nil => simp [Item.substL, okItems]
  | cons x xs =>
    simp only [okItems, Bool.and_eq_true] at h
    simp [Item.substL, okItems, subst_ok x p sub h.1 hs, substL_ok xs p sub h.2 hs]
end

theorem consElems_ok (t : Item) (h : okItem P t = true) : okItems P (consElems t) = true := by
  cases t <;> simp_all [consElems, okItem, okItems]

end Pushr.C14
