import Pushr.BufferImpl
import Pushr.Sem
/-! # C17 — the ring buffer behaves like a bounded sequence

Refinement of Layer 0 (`Ring`: container + `start`/`end`/`len` cursors modulo capacity, indexing
that can panic) to Layer 1 (`Buf`: capacity + the live items, oldest first), for every capacity
≥ 1, both kinds, every element type and every history (invariant `Inv`, preserved by every
operation from `new`). -/
namespace Pushr.C17
open Pushr

variable {α : Type} [Inhabited α]

def Inv (r : Ring α) : Prop :=
  0 < r.cap ∧ r.cont.length = r.cap ∧ r.fin < r.cap ∧ r.len ≤ r.cap ∧ r.start = (r.fin + r.len) % r.cap

/-- the live items, oldest first -/
def abs (r : Ring α) : List α :=
  (List.range r.len).map fun i => r.cont.getD ((r.fin + i) % r.cap) default

def absBuf (r : Ring α) : Buf α := ⟨r.cap, abs r⟩

theorem abs_length (r : Ring α) : (abs r).length = r.len := by simp [abs]

/-- size never exceeds capacity -/
theorem size_le_capacity (r : Ring α) (h : Inv r) : r.size ≤ r.cap := h.2.2.2.1

/-! ## modular index facts -/

theorem mod_ite (f i c : Nat) (hf : f < c) (hi : i ≤ c) :
    (f + i) % c = if f + i < c then f + i else f + i - c := by
  split
  · exact Nat.mod_eq_of_lt ‹_›
  · rw [Nat.mod_eq_sub_mod (by omega)]; exact Nat.mod_eq_of_lt (by omega)

theorem slot_inj (f a b c : Nat) (hf : f < c) (ha : a < c) (hb : b < c)
    (h : (f + a) % c = (f + b) % c) : a = b := by
  rw [mod_ite f a c hf (by omega), mod_ite f b c hf (by omega)] at h
  split at h <;> split at h <;> omega

theorem mod_succ (a c : Nat) : ((a % c) + 1) % c = (a + 1) % c := by
  rw [Nat.add_mod, Nat.mod_mod, ← Nat.add_mod]

theorem getD_set (l : List α) (k j : Nat) (x d : α) :
    (l.set k x).getD j d = if k = j ∧ k < l.length then x else l.getD j d := by
  simp only [List.getD_eq_getElem?_getD, List.getElem?_set]
  by_cases h : k = j
  · subst h
    by_cases hk : k < l.length
    · simp [hk]
    · simp [hk, List.getElem?_eq_none (by omega : l.length ≤ k)]
  · simp [h]

theorem abs_getElem? (r : Ring α) (i : Nat) :
    (abs r)[i]? = if i < r.len then some (r.cont.getD ((r.fin + i) % r.cap) default) else none := by
  simp only [abs, List.getElem?_map, List.getElem?_range]
  split <;> simp_all

/-! ## construction -/

theorem new_inv (k : BufKind) (cap : Nat) (h : 0 < cap) : Inv (Ring.new k cap : Ring α) := by
  refine ⟨h, by simp [Ring.new], h, by simp [Ring.new], ?_⟩
  simp [Ring.new, Nat.mod_eq_of_lt h]

theorem new_abs (k : BufKind) (cap : Nat) : abs (Ring.new k cap : Ring α) = [] := by simp [abs, Ring.new]

theorem flush_inv (r : Ring α) (h : Inv r) : Inv r.flush := by
  obtain ⟨hc, _, _, _, _⟩ := h
  refine ⟨hc, by simp [Ring.flush], hc, by simp [Ring.flush], ?_⟩
  simp [Ring.flush, Nat.mod_eq_of_lt hc]

theorem flush_abs (r : Ring α) : absBuf r.flush = (absBuf r).flush := by
  simp [absBuf, abs, Ring.flush, Buf.flush]

/-! ## push -/

/-- writing the slot `start` leaves every live item alone and appends the new one -/
theorem abs_after_write (r : Ring α) (x : α) (h : Inv r) (hlt : r.len < r.cap) :
    abs { r with cont := r.cont.set r.start x, len := r.len + 1, start := (r.start + 1) % r.cap }
      = abs r ++ [x] := by
  obtain ⟨hc, hl, hf, hle, hs⟩ := h
  apply List.ext_getElem?
  intro i
  rw [abs_getElem?]
  simp only
  by_cases hi : i < r.len
  · have hi1 : i < r.len + 1 := by omega
    rw [List.getElem?_append_left (by rw [abs_length]; exact hi), abs_getElem?]
    simp only [hi, hi1, if_true, getD_set]
    have hne : ¬ (r.start = (r.fin + i) % r.cap ∧ r.start < r.cont.length) := by
      intro hh
      rw [hs] at hh
      have := slot_inj r.fin r.len i r.cap hf hlt (by omega) hh.1
      omega
    simp only [hne, if_false]
  · by_cases hi2 : i = r.len
    · subst hi2
      rw [List.getElem?_append_right (by rw [abs_length]; exact Nat.le_refl _)]
      simp only [abs_length, Nat.sub_self, List.getElem?_cons_zero, Nat.lt_succ_self, if_true, getD_set]
      have h2 : (r.fin + r.len) % r.cap < r.cont.length := by rw [hl]; exact Nat.mod_lt _ hc
      rw [hs]; simp only [true_and, h2, if_true]
    · have hi3 : ¬ i < r.len + 1 := by omega
      simp only [hi3, if_false]
      symm; apply List.getElem?_eq_none
      simp [abs_length]; omega

theorem push_refines (r : Ring α) (x : α) (h : Inv r) :
    ∃ r', r.push x = .ok r' ∧ Inv r' ∧ absBuf r' = (absBuf r).push x := by
  obtain ⟨hc, hl, hf, hle, hs⟩ := h
  unfold Ring.push Ring.isFull
  by_cases hfull : r.len = r.cap
  · refine ⟨r, by simp [hfull], ⟨hc, hl, hf, hle, hs⟩, ?_⟩
    simp [absBuf, Buf.push, abs_length, hfull]
  · have hlt : r.len < r.cap := by omega
    have hst : r.start < r.cont.length := by rw [hl, hs]; exact Nat.mod_lt _ hc
    refine ⟨{ r with cont := r.cont.set r.start x, len := r.len + 1, start := (r.start + 1) % r.cap },
      by simp [hfull, RVec.set, hst, bind, Except.bind], ?_, ?_⟩
    · refine ⟨hc, by simp [hl], hf, by simp; omega, ?_⟩
      simp only [hs, mod_succ]; rfl
    · simp only [absBuf, Buf.push, abs_length, hlt, if_true]
      rw [abs_after_write r x ⟨hc, hl, hf, hle, hs⟩ hlt]

/-! ## forced push -/

theorem shift_slot (f i c : Nat) : ((f + 1) % c + i) % c = (f + (i + 1)) % c := by
  rw [Nat.add_mod, Nat.mod_mod, ← Nat.add_mod]; congr 1; omega

theorem pushForce_refines (r : Ring α) (x : α) (h : Inv r) :
    ∃ r', r.pushForce x = .ok r' ∧ Inv r' ∧ absBuf r' = (absBuf r).pushForce x := by
  obtain ⟨hc, hl, hf, hle, hs⟩ := h
  have hst : r.start < r.cont.length := by rw [hl, hs]; exact Nat.mod_lt _ hc
  unfold Ring.pushForce Ring.isFull
  by_cases hfull : r.len = r.cap
  · -- full: the oldest item is overwritten
    have hsf : r.start = r.fin := by
      rw [hs, hfull, Nat.add_mod_right]; exact Nat.mod_eq_of_lt hf
    refine ⟨{ r with cont := r.cont.set r.start x, fin := (r.fin + 1) % r.cap, start := (r.start + 1) % r.cap },
      by simp [hfull, RVec.set, hst, bind, Except.bind], ?_, ?_⟩
    · refine ⟨hc, by simp [hl], Nat.mod_lt _ hc, hle, ?_⟩
      simp only [hsf, hfull]
      rw [Nat.add_mod_right, Nat.mod_mod]
    · simp only [absBuf, Buf.pushForce, abs_length, hfull, Nat.lt_irrefl, if_false]
      congr 1
      apply List.ext_getElem?
      intro i
      rw [abs_getElem?]
      simp only [shift_slot, getD_set, hsf]
      by_cases hi : i + 1 < r.cap
      · have hi0 : i < r.len := by omega
        rw [List.getElem?_append_left (by simp [abs_length]; omega), List.getElem?_tail, abs_getElem?]
        have hi1 : i + 1 < r.len := by omega
        have hic : i < r.cap := by omega
        simp only [hi0, hi1, hic, if_true]
        have hne : ¬ (r.fin = (r.fin + (i + 1)) % r.cap ∧ r.fin < r.cont.length) := by
          intro hh
          have h0 : (r.fin + 0) % r.cap = (r.fin + (i + 1)) % r.cap := by
            rw [Nat.add_zero, Nat.mod_eq_of_lt hf]; exact hh.1
          have := slot_inj r.fin 0 (i + 1) r.cap hf hc hi h0
          omega
        simp only [hne, if_false]
      · by_cases hi2 : i + 1 = r.cap
        · have hi0 : i < r.len := by omega
          rw [List.getElem?_append_right (by simp [abs_length]; omega)]
          have : i - (abs r).tail.length = 0 := by simp [abs_length]; omega
          rw [this]
          have hic : i < r.cap := by omega
          simp only [hic, if_true, List.getElem?_cons_zero, hi2, Nat.add_mod_right, Nat.mod_eq_of_lt hf]
          have : r.fin < r.cont.length := by omega
          simp [this]
        · have hi0 : ¬ i < r.cap := by omega
          simp only [hi0, if_false]
          symm; apply List.getElem?_eq_none
          simp [abs_length]; omega
  · have hlt : r.len < r.cap := by omega
    refine ⟨{ r with cont := r.cont.set r.start x, len := r.len + 1, start := (r.start + 1) % r.cap },
      by simp [hfull, RVec.set, hst, bind, Except.bind], ?_, ?_⟩
    · refine ⟨hc, by simp [hl], hf, by simp; omega, ?_⟩
      simp only [hs, mod_succ]; rfl
    · simp only [absBuf, Buf.pushForce, abs_length, hlt, if_true]
      rw [abs_after_write r x ⟨hc, hl, hf, hle, hs⟩ hlt]

/-! ## position → slot translation, per kind -/

theorem stack_slot (r : Ring α) (h : Inv r) (i : Nat) (hi : i < r.len) :
    (if i + 1 ≤ r.start then r.start - (i + 1) else r.start + r.cap - (i + 1))
      = (r.fin + (r.len - 1 - i)) % r.cap := by
  obtain ⟨hc, hl, hf, hle, hs⟩ := h
  rw [mod_ite r.fin (r.len - 1 - i) r.cap hf (by omega)]
  rw [hs, mod_ite r.fin r.len r.cap hf hle]
  split <;> split <;> split <;> omega

theorem queue_slot (r : Ring α) (h : Inv r) (i : Nat) (hi : i < r.len) :
    (if r.fin + i > r.cap - 1 then r.fin + i - r.cap else r.fin + i) = (r.fin + i) % r.cap := by
  obtain ⟨hc, hl, hf, hle, hs⟩ := h
  rw [mod_ite r.fin i r.cap hf (by omega)]
  split <;> split <;> omega

theorem cont_slot (r : Ring α) (h : Inv r) (j : Nat) (hj : j < r.len) :
    r.cont[(r.fin + j) % r.cap]? = (abs r)[j]? := by
  obtain ⟨hc, hl, hf, hle, hs⟩ := h
  rw [abs_getElem?]; simp only [hj, if_true]
  have : (r.fin + j) % r.cap < r.cont.length := by rw [hl]; exact Nat.mod_lt _ hc
  rw [List.getElem?_eq_getElem this, List.getD_eq_getElem?_getD, List.getElem?_eq_getElem this]; rfl

/-- indexed access of a queue sees the live items oldest first; out of range is absent -/
theorem get_queue (r : Ring α) (h : Inv r) (hk : r.kind = .queue) (i : Nat) :
    r.get i = .ok ((absBuf r).getQueue i) := by
  unfold Ring.get Ring.getIndex Buf.getQueue absBuf
  by_cases hi : i < r.len
  · have h1 : ¬ (r.len = 0 ∨ i > r.len - 1) := by omega
    simp only [beq_iff_eq, Bool.or_eq_true, decide_eq_true_eq, h1, if_false, hk]
    rw [queue_slot r h i hi]
    have hlt : (r.fin + i) % r.cap < r.cont.length := by rw [h.2.1]; exact Nat.mod_lt _ h.1
    simp only [RVec.idx, bind, Except.bind, ← cont_slot r h i hi, List.getElem?_eq_getElem hlt]
  · have h1 : (r.len = 0 ∨ i > r.len - 1) := by omega
    simp only [beq_iff_eq, Bool.or_eq_true, decide_eq_true_eq, h1, if_true]
    rw [List.getElem?_eq_none (by rw [abs_length]; omega)]

/-- indexed access of a stack-kind buffer sees the live items newest first -/
theorem get_stack (r : Ring α) (h : Inv r) (hk : r.kind = .stack) (i : Nat) :
    r.get i = .ok ((absBuf r).getStack i) := by
  unfold Ring.get Ring.getIndex Buf.getStack absBuf
  by_cases hi : i < r.len
  · have h1 : ¬ (r.len = 0 ∨ i > r.len - 1) := by omega
    simp only [beq_iff_eq, Bool.or_eq_true, decide_eq_true_eq, h1, if_false, hk]
    rw [stack_slot r h i hi]
    have hj : r.len - 1 - i < r.len := by omega
    have hlt : (r.fin + (r.len - 1 - i)) % r.cap < r.cont.length := by rw [h.2.1]; exact Nat.mod_lt _ h.1
    have hrev : (abs r).reverse[i]? = (abs r)[r.len - 1 - i]? := by
      rw [List.getElem?_reverse (by rw [abs_length]; exact hi), abs_length]
    simp only [RVec.idx, bind, Except.bind, hrev, ← cont_slot r h _ hj, List.getElem?_eq_getElem hlt]
  · have h1 : (r.len = 0 ∨ i > r.len - 1) := by omega
    simp only [beq_iff_eq, Bool.or_eq_true, decide_eq_true_eq, h1, if_true]
    rw [List.getElem?_eq_none (by simp [abs_length]; omega)]

/-- iteration visits exactly the live items, oldest first -/
theorem iter_eq_abs (r : Ring α) :
    r.iterSlots.map (fun k => r.cont.getD k default) = abs r := by
  simp [Ring.iterSlots, abs]

/-- printing (repaired) visits exactly the live items, newest first -/
theorem print_eq_abs_reverse (r : Ring α) (h : Inv r) :
    r.printSlots.map (fun k => r.cont.getD k default) = (abs r).reverse := by
  apply List.ext_getElem?
  intro i
  simp only [Ring.printSlots, List.map_map, List.getElem?_map]
  by_cases hi : i < r.len
  · rw [List.getElem?_reverse (by rw [abs_length]; exact hi), abs_length, abs_getElem?]
    have hj : r.len - 1 - i < r.len := by omega
    rw [List.getElem?_range hi]
    simp only [hj, if_true, Option.map_some, Function.comp]
    rw [stack_slot r h i hi]
  · rw [List.getElem?_eq_none (by simp; omega), List.getElem?_eq_none (by simp [abs_length]; omega)]
    rfl

/-! ## pop, per kind -/

/-- the ring after a stack-kind pop -/
def afterPopS (r : Ring α) : Ring α :=
  { r with cont := r.cont.set ((r.fin + (r.len - 1)) % r.cap) default, len := r.len - 1,
           start := (r.fin + (r.len - 1)) % r.cap }

theorem pop_queue_refines (r : Ring α) (h : Inv r) (hk : r.kind = .queue) :
    ∃ o r', r.pop = .ok (o, r') ∧ Inv r' ∧ (o, absBuf r') = (absBuf r).popOldest := by
  obtain ⟨hc, hl, hf, hle, hs⟩ := h
  unfold Ring.pop Ring.getIndex
  by_cases h0 : r.len = 0
  · refine ⟨none, r, by simp [h0], ⟨hc, hl, hf, hle, hs⟩, ?_⟩
    simp [absBuf, Buf.popOldest, abs, h0]
  · have h1 : ¬ (r.len = 0 ∨ 0 > r.len - 1) := by omega
    have hfl : r.fin < r.cont.length := by omega
    have hq : ¬ r.fin > r.cap - 1 := by omega
    refine ⟨some r.cont[r.fin], { r with cont := r.cont.set r.fin default, len := r.len - 1, fin := (r.fin + 1) % r.cap }, ?_, ?_, ?_⟩
    · simp [h0, hk, hq, RVec.idx, RVec.set, hfl, bind, Except.bind, List.getElem?_eq_getElem hfl]
    · refine ⟨hc, by simp [hl], Nat.mod_lt _ hc, by simp; omega, ?_⟩
      simp only [hs, shift_slot]; congr 1; omega
    · have habs : abs r = r.cont[r.fin] :: (abs r).tail := by
        have : (abs r)[0]? = some r.cont[r.fin] := by
          rw [← cont_slot r ⟨hc, hl, hf, hle, hs⟩ 0 (by omega), Nat.add_zero, Nat.mod_eq_of_lt hf,
            List.getElem?_eq_getElem hfl]
        cases hh : abs r with
        | nil => rw [hh] at this; simp at this
        | cons a t => rw [hh] at this; simp at this; simp [this]
      have htail : abs { r with cont := r.cont.set r.fin default, len := r.len - 1, fin := (r.fin + 1) % r.cap }
          = (abs r).tail := by
        apply List.ext_getElem?
        intro i
        rw [abs_getElem?, List.getElem?_tail, abs_getElem?]
        simp only [shift_slot, getD_set]
        by_cases hi : i < r.len - 1
        · have hi1 : i + 1 < r.len := by omega
          simp only [hi, hi1, if_true]
          have hne : ¬ (r.fin = (r.fin + (i + 1)) % r.cap ∧ r.fin < r.cont.length) := by
            intro hh
            have h0' : (r.fin + 0) % r.cap = (r.fin + (i + 1)) % r.cap := by
              rw [Nat.add_zero, Nat.mod_eq_of_lt hf]; exact hh.1
            have := slot_inj r.fin 0 (i + 1) r.cap hf hc (by omega) h0'
            omega
          simp only [hne, if_false]
        · have hi1 : ¬ i + 1 < r.len := by omega
          simp only [hi, hi1, if_false]
      simp only [absBuf, Buf.popOldest, htail]
      rw [habs]; simp

theorem pop_stack_refines (r : Ring α) (h : Inv r) (hk : r.kind = .stack) :
    ∃ o r', r.pop = .ok (o, r') ∧ Inv r' ∧ (o, absBuf r') = (absBuf r).popNewest := by
  have hI := h
  obtain ⟨hc, hl, hf, hle, hs⟩ := h
  unfold Ring.pop Ring.getIndex
  by_cases h0 : r.len = 0
  · refine ⟨none, r, by simp [h0], hI, ?_⟩
    simp [absBuf, Buf.popNewest, abs, h0]
  · have h1 : ¬ (r.len = 0 ∨ 0 > r.len - 1) := by omega
    have hslot := stack_slot r hI 0 (by omega)
    simp only [Nat.zero_add, Nat.sub_zero] at hslot
    have hk' : (r.fin + (r.len - 1)) % r.cap < r.cont.length := by rw [hl]; exact Nat.mod_lt _ hc
    refine ⟨some r.cont[(r.fin + (r.len - 1)) % r.cap], afterPopS r, ?_, ?_, ?_⟩
    · simp only [afterPopS, beq_iff_eq, Bool.or_eq_true, decide_eq_true_eq, h1, if_false, hk, Nat.zero_add, hslot,
        RVec.idx, RVec.set, hk', if_true, bind, Except.bind, List.getElem?_eq_getElem hk']
    · exact ⟨hc, by simp [afterPopS, hl], hf, by simp [afterPopS]; omega, rfl⟩
    · have hlast : (abs r).getLast? = some r.cont[(r.fin + (r.len - 1)) % r.cap] := by
        rw [List.getLast?_eq_getElem?, abs_length, ← cont_slot r hI (r.len - 1) (by omega),
          List.getElem?_eq_getElem hk']
      have hdrop : abs (afterPopS r) = (abs r).dropLast := by
        apply List.ext_getElem?
        intro i
        rw [abs_getElem?, List.getElem?_dropLast, abs_getElem?, abs_length]
        simp only [afterPopS, getD_set]
        by_cases hi : i < r.len - 1
        · have hi1 : i < r.len := by omega
          simp only [hi, hi1, if_true]
          have hne : ¬ ((r.fin + (r.len - 1)) % r.cap = (r.fin + i) % r.cap ∧
              (r.fin + (r.len - 1)) % r.cap < r.cont.length) := by
            intro hh
            have := slot_inj r.fin (r.len - 1) i r.cap hf (by omega) (by omega) hh.1
            omega
          simp only [hne, if_false]
        · simp only [hi, if_false]
      simp only [absBuf, Buf.popNewest, hlast, hdrop]
      rfl

/-! ## INPUT / OUTPUT instructions over the abstract queues -/

/-- INPUT.NEXT consumes strictly first-in first-out -/
theorem input_next_fifo (s : State) : (semIo .next s).input.items = s.input.items.tail ∧
    (semIo .next s).input.cap = s.input.cap := by
  simp only [semIo, Buf.popOldest]
  cases h : s.input.items <;> simp [h]

/-- INPUT.READ copies the oldest message (body to BOOLVECTOR, header to INTVECTOR) and leaves the queue alone -/
theorem input_read_oldest (s : State) (m : Msg) (l : List Msg) (h : s.input.items = m :: l) :
    semIo .read s = { s with bvec := m.body :: s.bvec, ivec := m.header :: s.ivec } := by
  simp [semIo, Buf.oldest, h]

/-- INPUT.GET reads a bit of the oldest message at the clamped index, never fails -/
theorem input_get_oldest (s : State) (i : Int32) (il : List Int32) (m : Msg) (l : List Msg)
    (hi : s.int = i :: il) (h : s.input.items = m :: l) (hb : 0 < m.body.length) :
    ∃ b, m.body[clampIdx m.body.length i]? = some b ∧
      semIo .get s = { s with int := il, bool := b :: s.bool } := by
  have hlt : clampIdx m.body.length i < m.body.length := by unfold clampIdx; omega
  refine ⟨m.body[clampIdx m.body.length i], List.getElem?_eq_getElem hlt, ?_⟩
  simp [semIo, hi, Buf.oldest, h, List.getElem?_eq_getElem hlt, pushBool]

/-- OUTPUT.WRITE enqueues in program order; when the queue is full the message is dropped (a plain push) -/
theorem output_write_enqueues (s : State) (b : List Bool) (bl : List (List Bool)) (h : List Int32)
    (hl : List (List Int32)) (hb : s.bvec = b :: bl) (hh : s.ivec = h :: hl) :
    semIo .outWrite s = { s with bvec := bl, ivec := hl, output := s.output.push ⟨h, b⟩ } := by
  simp [semIo, hb, hh]

/-- **program order**: any number of plain pushes (OUTPUT.WRITEs) leaves exactly the queued items followed by
the first written messages that still fitted, in the order written; later ones are ignored -/
theorem pushes_in_order {α : Type} (b : Buf α) (ms : List α) (hb : b.items.length ≤ b.cap) :
    (ms.foldl Buf.push b).items = b.items ++ ms.take (b.cap - b.items.length) ∧ (ms.foldl Buf.push b).cap = b.cap := by
  induction ms generalizing b with
  | nil => simp
  | cons m ms ih =>
    simp only [List.foldl_cons]
    by_cases hfull : b.items.length < b.cap
    · have hp : b.push m = { b with items := b.items ++ [m] } := by simp [Buf.push, hfull]
      have := ih (b.push m) (by rw [hp]; simp; omega)
      rw [hp] at this ⊢
      simp only [List.length_append, List.length_singleton] at this
      refine ⟨?_, this.2⟩
      rw [this.1]
      have e : b.cap - b.items.length = (b.cap - (b.items.length + 1)) + 1 := by omega
      rw [e, List.take_succ_cons]
      simp
    · have hp : b.push m = b := by simp [Buf.push, hfull]
      have := ih b hb
      rw [hp]
      refine ⟨?_, this.2⟩
      rw [this.1]
      have e : b.cap - b.items.length = 0 := by omega
      simp [e]

/-- from an empty queue: the first `cap` messages written, in the order written -/
theorem writes_from_empty {α : Type} (cap : Nat) (ms : List α) :
    (ms.foldl Buf.push ⟨cap, []⟩).items = ms.take cap := by
  have := (pushes_in_order (⟨cap, []⟩ : Buf α) ms (by simp)).1
  simpa using this

/-! non-vacuity: a wrapped-around buffer satisfies the invariant -/
example : Inv ({ cap := 3, cont := [7, 8, 9], start := 1, fin := 2, len := 2, kind := .queue } : Ring Nat) := by
  refine ⟨by decide, rfl, by decide, by decide, by decide⟩
example : abs ({ cap := 3, cont := [7, 8, 9], start := 1, fin := 2, len := 2, kind := .queue } : Ring Nat) = [9, 7] := by
  decide

end Pushr.C17
