import Pushr.Props.C18
/-! # C18 (supplement) — the graph API refines a plain set-based model

`getState` is the node map and `getWeight` the edge map of the model; every API operation is characterised by
what it does to these two maps, for every graph. The association lists stay sorted by key (`WF`), so membership
and lookup coincide. -/
namespace Pushr.C18
open Pushr Pushr.Graph

/-! ## the association lists stay sorted by key (the canonical form the codec relies on) -/

def Sorted {β : Type} (m : List (Nat × β)) : Prop := (m.map (·.1)).Pairwise (· < ·)

theorem sorted_nil {β : Type} : Sorted ([] : List (Nat × β)) := by simp [Sorted]

theorem insertKey_keys {β : Type} (k : Nat) (v : β) (m : List (Nat × β)) (x : Nat) :
    x ∈ (insertKey k v m).map (·.1) ↔ x = k ∨ x ∈ m.map (·.1) := by
  induction m with
  | nil => simp [insertKey]
  | cons p t ih =>
    obtain ⟨k', v'⟩ := p
    unfold insertKey
    split
    · simp
    · split
      · next h => subst h; simp
      · simp only [List.map_cons, List.mem_cons, ih]
        constructor
        · rintro (h | h | h) <;> simp [h]
        · rintro (h | h | h) <;> simp [h]

theorem sorted_insertKey {β : Type} (k : Nat) (v : β) (m : List (Nat × β)) (h : Sorted m) :
    Sorted (insertKey k v m) := by
  induction m with
  | nil => simp [insertKey, Sorted]
  | cons p t ih =>
    obtain ⟨k', v'⟩ := p
    simp only [Sorted, List.map_cons, List.pairwise_cons] at h
    unfold insertKey
    split
    · next hlt =>
      simp only [Sorted, List.map_cons, List.pairwise_cons]
      refine ⟨?_, h.1, h.2⟩
      intro x hx
      simp only [List.mem_cons] at hx
      rcases hx with rfl | hx
      · exact hlt
      · exact Nat.lt_trans hlt (h.1 x hx)
    · next hnlt =>
      split
      · next heq =>
        subst heq
        simp only [Sorted, List.map_cons, List.pairwise_cons]
        exact ⟨h.1, h.2⟩
      · next hne =>
        simp only [Sorted, List.map_cons, List.pairwise_cons]
        refine ⟨?_, ih h.2⟩
        intro x hx
        have := (insertKey_keys k v t x).mp hx
        rcases this with rfl | hx'
        · omega
        · exact h.1 x hx'

theorem sorted_filter {β : Type} (p : Nat × β → Bool) (m : List (Nat × β)) (h : Sorted m) : Sorted (m.filter p) := by
  unfold Sorted at *
  induction m with
  | nil => simp
  | cons a t ih =>
    simp only [List.map_cons, List.pairwise_cons] at h
    simp only [List.filter_cons]
    split
    · simp only [List.map_cons, List.pairwise_cons]
      refine ⟨fun x hx => h.1 x ?_, ih h.2⟩
      obtain ⟨q, hq, rfl⟩ := List.mem_map.mp hx
      exact List.mem_map.mpr ⟨q, (List.mem_filter.mp hq).1, rfl⟩
    · exact ih h.2

theorem sorted_map_val {β γ : Type} (f : Nat → β → γ) (m : List (Nat × β)) (h : Sorted m) :
    Sorted (m.map fun p => (p.1, f p.1 p.2)) := by
  unfold Sorted at *
  simpa [List.map_map, Function.comp_def] using h

/-- in a sorted association list an entry is a member exactly when the lookup finds it -/
theorem mem_iff_lookup {β : Type} (m : List (Nat × β)) (h : Sorted m) (k : Nat) (v : β) :
    (k, v) ∈ m ↔ lookupKey k m = some v := by
  induction m with
  | nil => simp [lookupKey]
  | cons p t ih =>
    obtain ⟨k', v'⟩ := p
    simp only [Sorted, List.map_cons, List.pairwise_cons] at h
    simp only [List.mem_cons, Prod.mk.injEq, lookupKey]
    by_cases hk : k = k'
    · subst hk
      simp only [true_and, if_true, Option.some.injEq]
      constructor
      · rintro (rfl | hm)
        · rfl
        · have := h.1 k (List.mem_map.mpr ⟨(k, v), hm, rfl⟩); omega
      · intro hv; exact Or.inl hv.symm
    · simp only [hk, false_and, false_or, if_false]
      exact ih h.2

/-- well-formed graph: both maps sorted by key, and the structural invariant -/
def WF (g : Graph) : Prop := Sorted g.nodes ∧ Sorted g.edges ∧ GInv g

theorem wf_empty : WF Graph.empty := ⟨sorted_nil, sorted_nil, empty_inv⟩

theorem wf_addNode (g : Graph) (id : Nat) (st : Int32) (h : WF g) : WF (g.addNode id st) :=
  ⟨sorted_insertKey _ _ _ h.1, h.2.1, addNode_inv g id st h.2.2⟩

theorem wf_setState (g : Graph) (id : Nat) (st : Int32) (h : WF g) : WF (g.setState id st) := by
  refine ⟨?_, ?_, setState_inv g id st h.2.2⟩
  · unfold setState; split
    · exact sorted_insertKey _ _ _ h.1
    · exact h.1
  · unfold setState; split <;> exact h.2.1

theorem wf_addEdge (g : Graph) (o d : Nat) (w : Float32) (h : WF g) : WF (g.addEdge o d w) := by
  refine ⟨?_, ?_, addEdge_inv g o d w h.2.2⟩
  · unfold addEdge; split
    · split
      · split <;> exact h.1
      · exact h.1
    · exact h.1
  · unfold addEdge; split
    · split
      · split
        · exact h.2.1
        · exact sorted_insertKey _ _ _ h.2.1
      · exact sorted_insertKey _ _ _ h.2.1
    · exact h.2.1

theorem wf_removeEdge (g : Graph) (o d : Nat) (h : WF g) : WF (g.removeEdge o d) := by
  refine ⟨?_, ?_, removeEdge_inv g o d h.2.2⟩
  · unfold removeEdge; split <;> exact h.1
  · unfold removeEdge; split
    · exact sorted_insertKey _ _ _ h.2.1
    · exact h.2.1

theorem wf_setWeight (g : Graph) (o d : Nat) (w : Float32) (h : WF g) : WF (g.setWeight o d w) := by
  refine ⟨?_, ?_, setWeight_inv g o d w h.2.2⟩
  · unfold setWeight; split
    · split <;> exact h.1
    · exact h.1
  · unfold setWeight; split
    · split
      · exact sorted_insertKey _ _ _ h.2.1
      · exact h.2.1
    · exact h.2.1

theorem wf_removeNode (g : Graph) (id : Nat) (h : WF g) : WF (g.removeNode id) := by
  refine ⟨sorted_filter _ _ h.1, ?_, removeNode_inv g id h.2.2⟩
  exact sorted_map_val (fun _ l => l.filter (·.origin != id)) _ (sorted_filter _ _ h.2.1)


/-! ## the graph as a plain set-based model: `getState` is the node map, `getWeight` the edge map -/

theorem getState_addNode (g : Graph) (id : Nat) (st : Int32) (k : Nat) :
    (g.addNode id st).getState k = if k = id then some st else g.getState k := by
  simp [getState, addNode, lookup_insert]

theorem getState_setState (g : Graph) (id : Nat) (st : Int32) (k : Nat) :
    (g.setState id st).getState k = if k = id ∧ g.hasNode id = true then some st else g.getState k := by
  unfold setState
  by_cases h : g.hasNode id = true
  · simp [h, getState, lookup_insert]
  · simp [h]

theorem getState_removeNode (g : Graph) (id : Nat) (k : Nat) :
    (g.removeNode id).getState k = if k = id then none else g.getState k := by
  simp [getState, removeNode, lookup_filter_ne]

/-- weight of the edge from `o` in an incoming list -/
def wIn (l : List Edge) (o : Nat) : Option Float32 := (l.find? (fun e => e.origin == o)).map (fun e => e.weight)

theorem getWeight_eq (g : Graph) (o d : Nat) :
    g.getWeight o d = match lookupKey d g.edges with
      | some l => wIn l o
      | none => none := rfl

theorem wIn_none_iff (l : List Edge) (o : Nat) : wIn l o = none ↔ l.any (fun e => e.origin == o) = false := by
  unfold wIn
  rw [Option.map_eq_none_iff, List.find?_eq_none, List.any_eq_false]

theorem wIn_append_single (l : List Edge) (o o' : Nat) (w : Float32) (h : wIn l o = none) :
    wIn (l ++ [(⟨o, w⟩ : Edge)]) o' = if o' = o then some w else wIn l o' := by
  unfold wIn at *
  rw [List.find?_append]
  by_cases ho : o' = o
  · subst ho
    rw [Option.map_eq_none_iff] at h
    simp [h]
  · simp only [ho, if_false]
    cases hf : l.find? (fun e => e.origin == o') with
    | some e => simp
    | none =>
      have : (o == o') = false := by simpa using Ne.symm ho
      simp [List.find?, this]

theorem wIn_single (o o' : Nat) (w : Float32) : wIn [(⟨o, w⟩ : Edge)] o' = if o' = o then some w else none := by
  have := wIn_append_single [] o o' w (by simp [wIn])
  simpa [wIn] using this

theorem wIn_filter_ne (l : List Edge) (o o' : Nat) :
    wIn (l.filter (fun e => e.origin != o)) o' = if o' = o then none else wIn l o' := by
  unfold wIn
  by_cases hoo : o' = o
  · subst hoo
    have : (l.filter (fun e => e.origin != o')).find? (fun e => e.origin == o') = none := by
      rw [List.find?_eq_none]; intro e he
      have := (List.mem_filter.mp he).2
      simpa using this
    simp [this]
  · simp only [hoo, if_false]
    congr 1
    induction l with
    | nil => rfl
    | cons e t ih =>
      by_cases heo : e.origin = o
      · have : ¬ e.origin = o' := fun h => hoo (by rw [← h, heo])
        have h3 : (o == o') = false := by simpa using Ne.symm hoo
        simp [heo, ih, h3]
      · simp only [List.filter_cons, bne_iff_ne, ne_eq, heo, not_false_eq_true, if_true, List.find?_cons]
        split <;> simp_all

theorem wIn_map_set (l : List Edge) (o o' : Nat) (w : Float32) :
    wIn (l.map fun e => if e.origin == o then (⟨o, w⟩ : Edge) else e) o'
      = if o' = o ∧ (wIn l o).isSome then some w else wIn l o' := by
  unfold wIn
  induction l with
  | nil => simp
  | cons e t ih =>
    simp only [List.map_cons, List.find?_cons]
    by_cases heo : e.origin = o
    · simp only [heo, beq_self_eq_true, if_true]
      by_cases hoo : o' = o
      · subst hoo; simp
      · have : (o == o') = false := by simpa using Ne.symm hoo
        simp only [this, hoo, false_and, if_false]
        simpa [hoo] using ih
    · have h1 : (e.origin == o) = false := by simpa using heo
      simp only [h1, Bool.false_eq_true, if_false]
      by_cases heo' : e.origin = o'
      · have : ¬ o' = o := fun h => heo (heo'.trans h)
        simp [heo', this]
      · have h2 : (e.origin == o') = false := by simpa using heo'
        simp only [h2]
        exact ih

theorem getWeight_addEdge (g : Graph) (o d : Nat) (w : Float32) (o' d' : Nat) :
    (g.addEdge o d w).getWeight o' d' =
      if o' = o ∧ d' = d ∧ g.hasNode o = true ∧ g.hasNode d = true ∧ g.getWeight o d = none then some w
      else g.getWeight o' d' := by
  unfold addEdge
  split
  · next hn =>
    have ho : g.hasNode o = true := by simp at hn; exact hn.1
    have hd : g.hasNode d = true := by simp at hn; exact hn.2
    simp only [ho, hd, true_and]
    split
    · next l hl =>
      split
      · next hany =>
        have hne : ¬ wIn l o = none := by rw [wIn_none_iff]; simp [hany]
        simp only [getWeight_eq, hl, hne, and_false, if_false]
      · next hany =>
        have hany' : l.any (fun e => e.origin == o) = false := by simpa using hany
        have hnone : wIn l o = none := (wIn_none_iff l o).mpr hany'
        simp only [getWeight_eq, lookup_insert, hl, hnone, and_true]
        by_cases hdd : d' = d
        · subst hdd
          simp only [if_true, hl, and_true]
          exact wIn_append_single l o o' w hnone
        · simp [hdd]
    · next hl =>
      simp only [getWeight_eq, lookup_insert, hl, and_true]
      by_cases hdd : d' = d
      · subst hdd; simp only [if_true, hl, and_true]; exact wIn_single o o' w
      · simp [hdd]
  · next hn =>
    have : ¬ (g.hasNode o = true ∧ g.hasNode d = true) := by simpa using hn
    by_cases h : o' = o ∧ d' = d ∧ g.hasNode o = true ∧ g.hasNode d = true ∧ g.getWeight o d = none
    · exact absurd ⟨h.2.2.1, h.2.2.2.1⟩ this
    · simp [h]

theorem getWeight_removeEdge (g : Graph) (o d : Nat) (o' d' : Nat) :
    (g.removeEdge o d).getWeight o' d' = if o' = o ∧ d' = d then none else g.getWeight o' d' := by
  unfold removeEdge
  cases hl : lookupKey d g.edges with
  | none =>
    simp only
    by_cases h : o' = o ∧ d' = d
    · obtain ⟨rfl, rfl⟩ := h; simp [getWeight_eq, hl]
    · simp [h]
  | some l =>
    simp only [getWeight_eq, lookup_insert]
    by_cases hdd : d' = d
    · subst hdd
      simp only [if_true, hl, and_true]
      exact wIn_filter_ne l o o'
    · simp [hdd]

theorem getWeight_setWeight (g : Graph) (o d : Nat) (w : Float32) (o' d' : Nat) :
    (g.setWeight o d w).getWeight o' d' =
      if o' = o ∧ d' = d ∧ (g.getWeight o d).isSome then some w else g.getWeight o' d' := by
  unfold setWeight
  split
  · next l hl =>
    split
    · next hany =>
      have hs : (wIn l o).isSome = true := by
        cases h : wIn l o with
        | none => rw [wIn_none_iff] at h; simp [h] at hany
        | some x => rfl
      simp only [getWeight_eq, lookup_insert, hl, hs, and_true]
      by_cases hdd : d' = d
      · subst hdd
        simp only [if_true, hl, and_true]
        have := wIn_map_set l o o' w
        simpa [hs] using this
      · simp [hdd]
    · next hany =>
      have hany' : l.any (fun e => e.origin == o) = false := by simpa using hany
      have hnone : wIn l o = none := (wIn_none_iff l o).mpr hany'
      simp [getWeight_eq, hl, hnone]
  · next hl => simp [getWeight_eq, hl]

theorem getWeight_removeNode (g : Graph) (id : Nat) (o' d' : Nat) :
    (g.removeNode id).getWeight o' d' = if o' = id ∨ d' = id then none else g.getWeight o' d' := by
  simp only [getWeight_eq, removeNode]
  have hmap : lookupKey d' ((g.edges.filter (·.1 != id)).map fun p => (p.1, p.2.filter (·.origin != id)))
      = (lookupKey d' (g.edges.filter (·.1 != id))).map (fun l => l.filter (·.origin != id)) :=
    lookup_map (fun (_ : Nat) (l : List Edge) => l.filter (·.origin != id)) d' _
  rw [hmap, lookup_filter_ne]
  by_cases hd : d' = id
  · simp [hd]
  · simp only [hd, if_false, or_false]
    cases lookupKey d' g.edges with
    | none => simp
    | some l => simpa using wIn_filter_ne l id o'


end Pushr.C18
