import Pushr.Random
import Pushr.Full
import Pushr.Lemmas.I32
/-! # C13 — random value generators respect their documented bounds (for every oracle) -/
namespace Pushr.C13
open Pushr Pushr.Rand

/-! ## INTEGER.RAND / INTVECTOR.RAND -/

theorem drawInt_range (ρ : Oracle) (pos : Nat) (lo hi : Int) (h : lo < hi) :
    lo ≤ drawInt ρ pos lo hi ∧ drawInt ρ pos lo hi < hi := by
  unfold drawInt
  have hpos : 0 < (hi - lo).toNat := by omega
  have := Nat.mod_lt (ρ pos) hpos
  omega

theorem ofInt_toInt_of_range (v : Int) (h1 : -2147483648 ≤ v) (h2 : v ≤ 2147483647) :
    (Int32.ofInt v).toInt = v := by
  rw [Int32.toInt_ofInt]
  apply Int.bmod_eq_of_le <;> (simp [Int32.size]; omega)

/-- a draw between two `i32` bounds is an `i32` inside `[min, max)` -/
theorem drawI32_in_range (ρ : Oracle) (pos : Nat) (mn mx : Int32) (h : mn < mx) :
    mn ≤ Int32.ofInt (drawInt ρ pos mn.toInt mx.toInt) ∧ Int32.ofInt (drawInt ρ pos mn.toInt mx.toInt) < mx := by
  have hlt : mn.toInt < mx.toInt := Int32.lt_iff_toInt_lt.mp h
  have hr := drawInt_range ρ pos mn.toInt mx.toInt hlt
  have r1 := L.i32_toInt_range mn
  have r2 := L.i32_toInt_range mx
  have hv := ofInt_toInt_of_range (drawInt ρ pos mn.toInt mx.toInt) (by omega) (by omega)
  constructor
  · rw [Int32.le_iff_toInt_le, hv]; exact hr.1
  · rw [Int32.lt_iff_toInt_lt, hv]; exact hr.2

/-- INTEGER.RAND: a value inside the configured `[min, max)`; nothing when `max <= min` -/
theorem integer_rand_in_range (ρ : Oracle) (s : State) :
    (s.cfg.minRandInt < s.cfg.maxRandInt →
      ∃ x, semInt ρ .rand s = { s with int := x :: s.int, rng := s.rng + 1 } ∧
        s.cfg.minRandInt ≤ x ∧ x < s.cfg.maxRandInt) ∧
    (¬ s.cfg.minRandInt < s.cfg.maxRandInt → semInt ρ .rand s = s) := by
  constructor
  · intro h
    exact ⟨_, by simp [semInt, h, pushInt], drawI32_in_range ρ s.rng _ _ h⟩
  · intro h; simp [semInt, h]

theorem drawsInt_length (ρ : Oracle) (lo hi : Int) (n i : Nat) : (drawsInt ρ lo hi n i).length = n := by
  induction n generalizing i with
  | zero => rfl
  | succ n ih => simp [drawsInt, ih]

theorem drawsInt_range (ρ : Oracle) (mn mx : Int32) (h : mn < mx) (n i : Nat) :
    ∀ x ∈ drawsInt ρ mn.toInt mx.toInt n i, mn ≤ x ∧ x < mx := by
  induction n generalizing i with
  | zero => intro x hx; simp [drawsInt] at hx
  | succ n ih =>
    intro x hx
    simp only [drawsInt, List.mem_cons] at hx
    rcases hx with rfl | hx
    · exact drawI32_in_range ρ i mn mx h
    · exact ih (i + 1) x hx

/-- INTVECTOR.RAND: the requested length, every element in `[min, max)`; invalid parameters give nothing -/
theorem randIntVec_spec (ρ : Oracle) (i : Nat) (size mn mx : Int32) :
    (0 ≤ size.toInt ∧ mn < mx → ∃ v pos, randIntVec ρ i size mn mx = some (v, pos) ∧
        v.length = size.toInt.toNat ∧ ∀ x ∈ v, mn ≤ x ∧ x < mx) ∧
    (size.toInt < 0 ∨ ¬ mn < mx → randIntVec ρ i size mn mx = none) := by
  constructor
  · rintro ⟨h0, h⟩
    have hs : ¬ size < 0 := fun hh => by
      have := Int32.lt_iff_toInt_lt.mp hh; simp at this; omega
    have hm : ¬ mx ≤ mn := fun hh => by
      rw [Int32.le_iff_toInt_le] at hh; rw [Int32.lt_iff_toInt_lt] at h; omega
    refine ⟨drawsInt ρ mn.toInt mx.toInt size.toInt.toNat i, i + size.toInt.toNat, by simp [randIntVec, hs, hm],
      drawsInt_length .., drawsInt_range ρ mn mx h _ _⟩
  · intro h
    rcases h with h | h
    · have : size < 0 := by rw [Int32.lt_iff_toInt_lt]; simpa using h
      simp [randIntVec, this]
    · have : mx ≤ mn := by
        rw [Int32.le_iff_toInt_le]; rw [Int32.lt_iff_toInt_lt] at h; omega
      simp [randIntVec, this]

/-! ## BOOLVECTOR.RAND -/

theorem flipBits_length (ρ : Oracle) (d : Bool) (k i : Nat) (v : List Bool) :
    (flipBits ρ d k i v).1.length = v.length := by
  induction k generalizing i v with
  | zero => rfl
  | succ k ih =>
    simp only [flipBits]
    split
    · rw [ih]; simp
    · rfl

def nonDefault (v : List Bool) (d : Bool) : Nat := (v.filter (· != d)).length

theorem mem_defaultPositions (v : List Bool) (d : Bool) (p : Nat) :
    p ∈ defaultPositions v d ↔ v[p]? = some d := by
  simp only [defaultPositions, List.mem_filter, List.mem_range, beq_iff_eq]
  constructor
  · exact fun h => h.2
  · intro h; exact ⟨(List.getElem?_eq_some_iff.mp h).1, h⟩

theorem nonDefault_set (v : List Bool) (d : Bool) (p : Nat) (h : v[p]? = some d) :
    nonDefault (v.set p (!d)) d = nonDefault v d + 1 := by
  induction v generalizing p with
  | nil => simp at h
  | cons b t ih =>
    cases p with
    | zero =>
      simp only [List.getElem?_cons_zero, Option.some.injEq] at h; subst h
      simp [nonDefault, List.set]
    | succ p =>
      simp only [List.getElem?_cons_succ] at h
      have := ih p h
      simp only [nonDefault, List.set_cons_succ, List.filter_cons] at this ⊢
      split <;> simp_all <;> omega

/-- as long as not every bit has been flipped, a default position exists: the rejection loop of
`random_bool_vector` always has a position it can accept (deadlock-freedom) -/
theorem exists_default (v : List Bool) (d : Bool) (h : nonDefault v d < v.length) :
    ∃ p : Nat, v[p]? = some d := by
  induction v with
  | nil => simp at h
  | cons b t ih =>
    by_cases hb : b = d
    · exact ⟨0, by simp [hb]⟩
    · have hne : (b != d) = true := by simpa using hb
      simp only [nonDefault, List.filter_cons, hne, if_true, List.length_cons] at h
      obtain ⟨p, hp⟩ := ih (by simpa [nonDefault] using Nat.lt_of_succ_lt_succ h)
      exact ⟨p + 1, by simpa using hp⟩

theorem defaultPositions_ne_nil (v : List Bool) (d : Bool) (h : nonDefault v d < v.length) :
    0 < (defaultPositions v d).length := by
  obtain ⟨p, hp⟩ := exists_default v d h
  exact List.length_pos_of_mem ((mem_defaultPositions v d p).mpr hp)

/-- **exactly `k` bits are flipped** whenever `k` default bits are available -/
theorem flipBits_count (ρ : Oracle) (d : Bool) (k i : Nat) (v : List Bool)
    (h : nonDefault v d + k ≤ v.length) :
    nonDefault (flipBits ρ d k i v).1 d = nonDefault v d + k := by
  induction k generalizing i v with
  | zero => rfl
  | succ k ih =>
    simp only [flipBits]
    have hpos := defaultPositions_ne_nil v d (by omega)
    have hlt : ρ i % (defaultPositions v d).length < (defaultPositions v d).length := Nat.mod_lt _ hpos
    rw [List.getElem?_eq_getElem hlt]
    simp only
    have hp : v[(defaultPositions v d)[ρ i % (defaultPositions v d).length]]? = some d :=
      (mem_defaultPositions v d _).mp (List.getElem_mem hlt)
    have hcount := nonDefault_set v d _ hp
    rw [ih (i + 1) _ (by rw [hcount, List.length_set]; omega), hcount]; omega

/-- BOOLVECTOR.RAND yields the requested length; invalid parameters (negative size, sparsity outside
[0, 1] or NaN) yield nothing -/
theorem randBoolVec_length (ρ : Oracle) (i : Nat) (size : Int32) (sp : Float32) (v : List Bool) (pos : Nat)
    (h : randBoolVec ρ i size sp = some (v, pos)) : v.length = size.toInt.toNat := by
  unfold randBoolVec at h
  split at h
  · cases h
  · simp only [Option.some.injEq] at h
    have h1 := congrArg Prod.fst h
    simp only at h1
    rw [← h1, flipBits_length]; simp

/-- the number of non-default bits is exactly the rounded share `activeBits`, provided it does not
exceed the length (it is at most half of it by construction of the rounding) -/
theorem randBoolVec_count (ρ : Oracle) (i : Nat) (size : Int32) (sp : Float32) (v : List Bool) (pos : Nat)
    (h : randBoolVec ρ i size sp = some (v, pos)) (hk : activeBits size sp ≤ size.toInt.toNat) :
    nonDefault v (sp > 0.5) = activeBits size sp := by
  unfold randBoolVec at h
  split at h
  · cases h
  · simp only [Option.some.injEq] at h
    have h1 := congrArg Prod.fst h
    simp only at h1
    have h0 : nonDefault (List.replicate size.toInt.toNat (decide (sp > 0.5))) (decide (sp > 0.5)) = 0 := by
      simp [nonDefault]
    rw [← h1, flipBits_count _ _ _ _ _ (by rw [h0]; simpa using hk), h0]; simp

theorem randBoolVec_invalid (ρ : Oracle) (i : Nat) (size : Int32) (sp : Float32)
    (h : size < 0 ∨ (sp ≥ 0 && sp ≤ 1) = false) : randBoolVec ρ i size sp = none := by
  unfold randBoolVec
  rcases h with h | h <;> simp [h]

/-- every position can become non-default: there is an oracle that flips position `j` first -/
theorem flip_every_position (d : Bool) (n j : Nat) (hj : j < n) :
    ∃ ρ : Oracle, (flipBits ρ d 1 0 (List.replicate n d)).1[j]? = some (!d) := by
  refine ⟨fun _ => j, ?_⟩
  have hdp : defaultPositions (List.replicate n d) d = List.range n := by
    simp only [defaultPositions, List.length_replicate]
    apply List.filter_eq_self.mpr
    intro p hp
    simp [List.mem_range.mp hp]
  simp only [flipBits, hdp, List.length_range, Nat.mod_eq_of_lt hj, List.getElem?_range hj]
  simp [hj]

/-! ## FLOATVECTOR.RAND, FLOAT.RAND, names -/

theorem randFloatVec_spec (ρ : Oracle) (i : Nat) (size : Int32) (mean sd : Float32) :
    (∀ v pos, randFloatVec ρ i size mean sd = some (v, pos) → v.length = size.toInt.toNat) ∧
    (size < 0 ∨ sd < 0 ∨ sd.isFinite = false → randFloatVec ρ i size mean sd = none) := by
  constructor
  · intro v pos h
    unfold randFloatVec at h
    split at h
    · cases h
    · cases h; simp
  · intro h
    unfold randFloatVec
    rcases h with h | h | h <;> simp [h]

/-- FLOAT.RAND fires only for `min < max` with a finite span -/
theorem float_rand_guarded (ρ : Oracle) (s : State)
    (h : (s.cfg.minRandFloat < s.cfg.maxRandFloat && (s.cfg.maxRandFloat - s.cfg.minRandFloat).isFinite) = false) :
    semFloat ρ .rand s = s := by
  simp [semFloat, h]

/-- NAME.RANDBOUNDNAME returns a currently bound name whenever one exists -/
theorem randbound_is_bound (ρ : Oracle) (s : State) (h : s.bindings ≠ []) :
    ∃ n v, (semName ρ .randbound s).name = n :: s.name ∧ (n, v) ∈ s.bindings := by
  have hlt : ρ s.rng % s.bindings.length < s.bindings.length :=
    Nat.mod_lt _ (by cases hb : s.bindings <;> simp_all)
  refine ⟨boundName ρ s, (s.bindings[ρ s.rng % s.bindings.length]).2, by simp [semName, pushName], ?_⟩
  unfold boundName
  rw [List.getElem?_eq_getElem hlt]
  exact List.getElem_mem hlt

end Pushr.C13
