import Pushr.Props.C10
import Pushr.Props.C13
/-! # C10 (supplement) — the documented guards of the vector RAND instructions

"If the size is < 0 or max < min this acts as a NOOP" (INTVECTOR.RAND), "if size < 0 or the standard deviation < 0 …"
(FLOATVECTOR.RAND), sparsity outside [0, 1] (BOOLVECTOR.RAND): when such a guard fails with every operand present, the
instruction has only consumed its operands — for every oracle. -/
namespace Pushr.C10
open Pushr

theorem popsOnly_of (s s' : State) (hb : isSuffix s'.bool s.bool) (hi : isSuffix s'.int s.int)
    (hf : isSuffix s'.float s.float) (hrest : s'.name = s.name ∧ s'.code = s.code ∧ s'.exec = s.exec ∧ s'.index = s.index ∧
      s'.bvec = s.bvec ∧ s'.ivec = s.ivec ∧ s'.fvec = s.fvec ∧ s'.input = s.input ∧ s'.output = s.output ∧
      s'.graph = s.graph ∧ s'.bindings = s.bindings ∧ s'.quote = s.quote ∧ s'.send = s.send) : PopsOnly s s' := by
  obtain ⟨h1, h2, h3, h4, h5, h6, h7, h8, h9, h10, h11, h12, h13⟩ := hrest
  exact ⟨hb, hi, hf, ⟨0, by simp [h1]⟩, ⟨0, by simp [h2]⟩, ⟨0, by simp [h3]⟩, ⟨0, by simp [h4]⟩, ⟨0, by simp [h5]⟩,
    ⟨0, by simp [h6]⟩, ⟨0, by simp [h7]⟩, h8, h9, h10, h11, h12, h13⟩

/-- INTVECTOR.RAND with a negative size or `max <= min`: the three integers are consumed, nothing is pushed -/
theorem intvector_rand_guard (ρ : Oracle) (s : State) (size mx mn : Int32) (il : List Int32)
    (h : s.int = size :: mx :: mn :: il) (hg : size < 0 ∨ mx ≤ mn) :
    PopsOnly s (semFull ρ (.vec .i .rand) s) := by
  have hn : Rand.randIntVec ρ s.rng size mn mx = none := by
    unfold Rand.randIntVec; rcases hg with hg | hg <;> simp [hg]
  simp only [semFull, sem, fullExt, semVec, semVecI, h, hn]
  exact popsOnly_of _ _ ⟨0, rfl⟩ ⟨3, by simp [h]⟩ ⟨0, rfl⟩ ⟨rfl, rfl, rfl, rfl, rfl, rfl, rfl, rfl, rfl, rfl, rfl, rfl, rfl⟩

/-- BOOLVECTOR.RAND with a negative size or a sparsity outside [0, 1] (NaN included) -/
theorem boolvector_rand_guard (ρ : Oracle) (s : State) (n : Int32) (il : List Int32) (sp : Float32) (fl : List Float32)
    (h : s.int = n :: il) (hf : s.float = sp :: fl) (hg : n < 0 ∨ (sp ≥ 0 && sp ≤ 1) = false) :
    PopsOnly s (semFull ρ (.vec .b .rand) s) := by
  have hn : Rand.randBoolVec ρ s.rng n sp = none := C13.randBoolVec_invalid ρ _ n sp hg
  simp only [semFull, sem, fullExt, semVec, semVecB, h, hf, hn]
  exact popsOnly_of _ _ ⟨0, rfl⟩ ⟨1, by simp [h]⟩ ⟨1, by simp [hf]⟩ ⟨rfl, rfl, rfl, rfl, rfl, rfl, rfl, rfl, rfl, rfl, rfl, rfl, rfl⟩

/-- FLOATVECTOR.RAND with a negative size, a negative or a non-finite standard deviation -/
theorem floatvector_rand_guard (ρ : Oracle) (s : State) (n : Int32) (il : List Int32) (mean sd : Float32)
    (fl : List Float32) (h : s.int = n :: il) (hf : s.float = mean :: sd :: fl)
    (hg : n < 0 ∨ sd < 0 ∨ sd.isFinite = false) : PopsOnly s (semFull ρ (.vec .f .rand) s) := by
  have hn : Rand.randFloatVec ρ s.rng n mean sd = none := (C13.randFloatVec_spec ρ _ n mean sd).2 hg
  simp only [semFull, sem, fullExt, semVec, semVecF, h, hf, hn]
  exact popsOnly_of _ _ ⟨0, rfl⟩ ⟨1, by simp [h]⟩ ⟨2, by simp [hf]⟩ ⟨rfl, rfl, rfl, rfl, rfl, rfl, rfl, rfl, rfl, rfl, rfl, rfl, rfl⟩

/-- **C10 (RAND guards, one statement).** Whenever a documented guard of a `*VECTOR.RAND` instruction fails, the
operands are consumed and nothing is pushed or created -/
theorem rand_guard_failed_only_pops (ρ : Oracle) (i : Instr) (s : State) (h : randGuardFails i s = true) :
    PopsOnly s (semFull ρ i s) := by
  unfold randGuardFails at h
  split at h
  · split at h
    · rename_i size mx mn il hs
      refine intvector_rand_guard ρ s size mx mn il hs ?_
      simpa using h
    · cases h
  · split at h
    · rename_i n il sp fl hi hf
      refine boolvector_rand_guard ρ s n il sp fl hi hf ?_
      rcases Bool.or_eq_true _ _ |>.mp h with h1 | h1
      · exact .inl (by simpa using h1)
      · exact .inr (by cases hb : (sp ≥ 0 && sp ≤ 1) <;> simp_all)
    · cases h
  · split at h
    · rename_i n il mean sd fl hi hf
      refine floatvector_rand_guard ρ s n il mean sd fl hi hf ?_
      simp only [Bool.or_eq_true, decide_eq_true_eq, Bool.not_eq_true'] at h
      rcases h with (h1 | h1) | h1
      · exact .inl h1
      · exact .inr (.inl h1)
      · exact .inr (.inr h1)
    · cases h
  · cases h

end Pushr.C10
