import Pushr.Conc
import Pushr.Full
import Pushr.Props.C02
/-! # C14 — execution is deterministic and interpreter instances are mutually isolated -/
namespace Pushr.C14
open Pushr Pushr.Conc

/-- the instructions whose outcome may depend on the hidden environment: the RAND family (random
oracle) and GRAPH.NODE*ADD (process-wide node counter) -/
def usesEnv : Instr → Bool
  | .boolean .rand | .integer .rand | .float .rand | .name .rand | .name .randbound | .code .rand => true
  | .vec _ .rand => true
  | .graph .nodeAdd => true
  | _ => false

/-- the visible part of a state (everything but the hidden environment fields) -/
def vis (s : State) : State := { s with rng := 0, nextId := 0 }

/-! ## determinism: no dependence on the oracle -/

/-- an instruction outside the RAND family computes the same state for every oracle -/
theorem sem_oracle_indep (ρ₁ ρ₂ : Oracle) (i : Instr) (h : usesEnv i = false) (s : State) :
    semFull ρ₁ i s = semFull ρ₂ i s := by
  cases i with
  | boolean o => cases o <;> first | rfl | simp [usesEnv] at h
  | integer o => cases o <;> first | rfl | simp [usesEnv] at h
  | float o => cases o <;> first | rfl | simp [usesEnv] at h
  | name o => cases o <;> first | rfl | simp [usesEnv] at h
  | code o => cases o <;> first | rfl | simp [usesEnv] at h
  | vec t o => cases t <;> cases o <;> first | rfl | simp [usesEnv] at h
  | _ => rfl

/-- one step is oracle-independent unless the instruction on top of EXEC uses the environment -/
theorem step_oracle_indep (ρ₁ ρ₂ : Oracle) (s : State)
    (h : ∀ i e, s.exec = .instr i :: e → usesEnv i = false) :
    step fullExt ρ₁ s = step fullExt ρ₂ s := by
  unfold step
  cases hs : s.exec with
  | nil => rfl
  | cons x e =>
    cases x with
    | instr i =>
      simp only
      have := sem_oracle_indep ρ₁ ρ₂ i (h i e hs) { s with exec := e }
      simp only [semFull] at this
      rw [this]
    | list xs => rfl
    | lit v => rfl
    | ident n => rfl

/-- a run in which no executed instruction uses the environment reaches the same state whatever the
oracle is: the same program on the same initial state always produces the same final state -/
theorem stepN_oracle_indep (ρ₁ ρ₂ : Oracle) (n : Nat) (s : State)
    (h : ∀ k, k < n → ∀ i e, (stepN fullExt ρ₁ k s).exec = .instr i :: e → usesEnv i = false) :
    stepN fullExt ρ₁ n s = stepN fullExt ρ₂ n s := by
  induction n generalizing s with
  | zero => rfl
  | succ n ih =>
    have h0 := step_oracle_indep ρ₁ ρ₂ s (fun i e hs => h 0 (by omega) i e (by simpa [stepN] using hs))
    simp only [stepN]
    rw [← h0]
    apply ih
    intro k hk i e hs
    exact h (k + 1) (by omega) i e (by simpa [stepN] using hs)

/-! ## isolation: other interpreters cannot influence a run -/

theorem sysStep_other (X : Ext) (ρ : Nat → Oracle) (sys : Sys) (i j : Nat) (h : i ≠ j) :
    (sysStep X ρ sys i)[j]? = sys[j]? := by
  unfold sysStep
  cases sys[i]? with
  | none => rfl
  | some s => rw [List.getElem?_set_ne h]

theorem sysStep_self (X : Ext) (ρ : Nat → Oracle) (sys : Sys) (i : Nat) (s : State) (h : sys[i]? = some s) :
    (sysStep X ρ sys i)[i]? = some (step X (ρ i) s).2 := by
  unfold sysStep
  rw [h]
  simp only
  rw [List.getElem?_set_self (List.getElem?_eq_some_iff.mp h).1]

/-- **for every schedule**: the state of interpreter `j` afterwards is its own solo run, with as many
steps as the schedule gave it — whatever the other interpreters did in between -/
theorem sched_isolation (X : Ext) (ρ : Nat → Oracle) (sched : List Nat) (sys : Sys) (j : Nat) (s : State)
    (h : sys[j]? = some s) :
    (runSchedule X ρ sys sched)[j]? = some (stepN X (ρ j) (sched.count j) s) := by
  induction sched generalizing sys s with
  | nil => simpa [runSchedule, stepN] using h
  | cons i rest ih =>
    simp only [runSchedule, List.foldl_cons]
    by_cases hij : i = j
    · subst hij
      have := ih (sysStep X ρ sys i) (step X (ρ i) s).2 (sysStep_self X ρ sys i s h)
      simp only [runSchedule] at this
      rw [this, List.count_cons_self, stepN]
    · have := ih (sysStep X ρ sys i) s (by rw [sysStep_other X ρ sys i j hij]; exact h)
      simp only [runSchedule] at this
      rw [this, List.count_cons_of_ne (by simpa using hij)]

/-! ## node identifiers are never handed out twice -/

theorem allocate_ids (c : Nat) (sched : List Nat) :
    (allocate c sched).map (·.2) = List.range' c sched.length := by
  induction sched generalizing c with
  | nil => rfl
  | cons t ts ih => simp [allocate, fetchAdd, ih, List.range'_succ]

/-- for every interleaving of concurrent node creation the ids are pairwise distinct -/
theorem ids_distinct (c : Nat) (sched : List Nat) : ((allocate c sched).map (·.2)).Nodup := by
  rw [allocate_ids]; exact List.nodup_range'

/-! ## the command-line front end reaches the library's final state -/

theorem cli_eq_runLoop (X : Ext) (ρ : Oracle) (timeout : Nat → Bool) (fuel k : Nat) (s : State)
    (h : (runLoop X ρ timeout fuel k s).1 = .noErrors) :
    cliLoop X ρ fuel s = (runLoop X ρ timeout fuel k s).2.2 := by
  induction fuel generalizing k s with
  | zero => simp [runLoop] at h
  | succ fuel ih =>
    by_cases h1 : (k : Int) > s.cfg.evalPushLimit.toInt
    · simp [runLoop, h1] at h
    · by_cases h2 : timeout k = true
      · simp [runLoop, h1, h2] at h
      · by_cases h3 : (step X ρ s).1 = true
        · simp [runLoop, cliLoop, h1, h2, h3]
        · by_cases h4 : (step X ρ s).2.size > s.size + s.cfg.growthCap
          · simp [runLoop, h1, h2, h3, h4] at h
          · have hr : runLoop X ρ timeout (fuel + 1) k s = runLoop X ρ timeout fuel (k + 1) (step X ρ s).2 := by
              rw [runLoop]; simp only [h1, h2, h3, h4, if_false, Bool.false_eq_true]
            rw [hr] at h ⊢
            rw [cliLoop]; simp only [h3, if_false, Bool.false_eq_true]
            exact ih _ _ h

/-- a program that terminates within the limits: the CLI loop (parse, copy to CODE, step until done)
ends in exactly the state `run` returns -/
theorem cli_eq_lib (X : Ext) (ρ : Oracle) (timeout : Nat → Bool) (s : State)
    (h : (run X ρ timeout s).1 = .noErrors) :
    cliLoop X ρ ((s.cfg.evalPushLimit.toInt + 2).toNat + 1) (copyToCode s) = (run X ρ timeout s).2.2 :=
  cli_eq_runLoop X ρ timeout _ 0 _ h

/-! non-vacuity -/
example : ((allocate 7 [0, 1, 0, 2]).map (·.2)) = [7, 8, 9, 10] := by decide

end Pushr.C14
