import Pushr.Topology
/-! # C20 — neighbourhood computation on index topologies is geometrically sound

All statements hold for every total size, dimension count, centre and for **every** radius test
`within` on the exact squared distance (the `f32` test `sqrt(d²) ≤ r` is one instance, tied by the
correspondence check). -/
namespace Pushr.C20
open Pushr.Topo

/-! ## the smallest enclosing hypercube -/

theorem ceilRootFrom_spec (N d : Nat) (hN : 1 ≤ N) (hd : 1 ≤ d) :
    ∀ (fuel e : Nat), 1 ≤ e → e ≤ N → N ≤ e + fuel → (∀ e', 1 ≤ e' → e' < e → e' ^ d < N) →
      N ≤ (ceilRootFrom N d fuel e) ^ d ∧ 1 ≤ ceilRootFrom N d fuel e ∧
      ∀ e', 1 ≤ e' → e' < ceilRootFrom N d fuel e → e' ^ d < N := by
  intro fuel
  induction fuel with
  | zero =>
    intro e he heN hf hsm
    have : e = N := by omega
    subst this
    refine ⟨?_, he, hsm⟩
    simp only [ceilRootFrom]
    exact Nat.le_self_pow (by omega) e
  | succ fuel ih =>
    intro e he heN hf hsm
    unfold ceilRootFrom
    split
    · rename_i h; exact ⟨h, he, hsm⟩
    · rename_i h
      have hlt : e < N := by
        rcases Nat.lt_or_ge e N with h1 | h1
        · exact h1
        · exfalso; apply h
          have : e = N := by omega
          subst this
          exact Nat.le_self_pow (by omega) e
      apply ih (e + 1) (by omega) (by omega) (by omega)
      intro e' h1 h2
      rcases Nat.lt_or_ge e' e with h3 | h3
      · exact hsm e' h1 h3
      · have : e' = e := by omega
        subst this; omega

/-- the edge is the smallest one whose hypercube holds all indices -/
theorem ceilRoot_smallest (N d : Nat) (hN : 1 ≤ N) (hd : 1 ≤ d) :
    N ≤ (ceilRoot N d) ^ d ∧ ∀ e', 1 ≤ e' → e' < ceilRoot N d → e' ^ d < N := by
  have := ceilRootFrom_spec N d hN hd N 1 (Nat.le_refl 1) hN (by omega) (by intro e' h1 h2; omega)
  exact ⟨this.1, this.2.2⟩

/-! ## index decomposition is a bijection on the hypercube -/

def recompose (e : Nat) : List Nat → Nat
  | [] => 0
  | d :: ds => d + e * recompose e ds

theorem digits_length (i e n : Nat) : (digits i e n).length = n := by
  induction n with
  | zero => rfl
  | succ n ih => simp [digits, ih]

theorem recompose_append (e : Nat) (a : List Nat) (d : Nat) :
    recompose e (a ++ [d]) = recompose e a + d * e ^ a.length := by
  induction a with
  | nil => simp [recompose]
  | cons x a ih =>
    simp only [List.cons_append, recompose, ih, List.length_cons, Nat.pow_succ]
    rw [Nat.mul_add, Nat.add_assoc]
    congr 2
    rw [Nat.mul_comm (e ^ a.length) e, ← Nat.mul_assoc, Nat.mul_comm e d, Nat.mul_assoc]

theorem recompose_digits (i e n : Nat) : recompose e (digits i e n) = i % e ^ n := by
  induction n with
  | zero => simp [digits, recompose, Nat.mod_one]
  | succ n ih =>
    rw [digits, recompose_append, ih, digits_length, Nat.mod_pow_succ, Nat.mul_comm]

/-- every index of the hypercube is recovered from its coordinates -/
theorem recompose_decompose (i e n : Nat) (h : i < e ^ n) : recompose e (digits i e n) = i := by
  rw [recompose_digits, Nat.mod_eq_of_lt h]

/-- distinct indices have distinct coordinate vectors -/
theorem decompose_injective (i j e n : Nat) (hi : i < e ^ n) (hj : j < e ^ n)
    (h : digits i e n = digits j e n) : i = j := by
  rw [← recompose_decompose i e n hi, ← recompose_decompose j e n hj, h]

theorem digits_lt (i e n : Nat) (he : 0 < e) : ∀ d ∈ digits i e n, d < e := by
  induction n with
  | zero => simp [digits]
  | succ n ih =>
    intro d hd
    simp only [digits, List.mem_append, List.mem_singleton] at hd
    rcases hd with hd | hd
    · exact ih d hd
    · subst hd; exact Nat.mod_lt _ he

/-! ## the neighbourhood -/

theorem dist2_self : ∀ (a : List Nat), dist2 a a = 0
  | [] => rfl
  | x :: xs => by simp [dist2, dist2_self xs]

theorem dist2_comm : ∀ (a b : List Nat), dist2 a b = dist2 b a
  | [], [] => rfl
  | [], _ :: _ => rfl
  | _ :: _, [] => rfl
  | x :: xs, y :: ys => by
    simp only [dist2, dist2_comm xs ys]
    congr 1
    by_cases h : x ≥ y <;> by_cases h' : y ≥ x <;> simp [h, h']
    all_goals first
      | (have : x = y := by omega
         subst this; rfl)
      | omega

/-- **the neighbourhood is exactly the set comprehension** -/
theorem mem_scan (within : Nat → Bool) (e n : Nat) (c : List Nat) (N i : Nat) :
    i ∈ scan within e n c N ↔ i < N ∧ within (dist2 c (digits i e n)) = true := by
  simp [scan]

/-- only valid indices, ascending, without repeats -/
theorem scan_sorted (within : Nat → Bool) (e n : Nat) (c : List Nat) (N : Nat) :
    (scan within e n c N).Pairwise (· < ·) := by
  unfold scan
  exact List.Pairwise.filter _ List.pairwise_lt_range

theorem scan_valid (within : Nat → Bool) (e n : Nat) (c : List Nat) (N : Nat) :
    ∀ i ∈ scan within e n c N, i < N := fun i hi => ((mem_scan ..).mp hi).1

/-- the centre belongs to its neighbourhood (any radius test that accepts distance 0) -/
theorem nb_contains_centre (within : Nat → Bool) (hw : within 0 = true) (e n N i : Nat) (hi : i < N) :
    i ∈ scan within e n (digits i e n) N := by
  rw [mem_scan]; exact ⟨hi, by rw [dist2_self]; exact hw⟩

/-- symmetry: `j` is a neighbour of `i` exactly when `i` is a neighbour of `j` -/
theorem nb_symmetric (within : Nat → Bool) (e n N i j : Nat) (hi : i < N) (hj : j < N) :
    j ∈ scan within e n (digits i e n) N ↔ i ∈ scan within e n (digits j e n) N := by
  rw [mem_scan, mem_scan, dist2_comm]
  constructor <;> intro h <;> exact ⟨by assumption, h.2⟩

/-- monotone in the radius: a weaker test yields a superset -/
theorem nb_monotone (w1 w2 : Nat → Bool) (h : ∀ d, w1 d = true → w2 d = true) (e n : Nat) (c : List Nat)
    (N i : Nat) (hi : i ∈ scan w1 e n c N) : i ∈ scan w2 e n c N := by
  rw [mem_scan] at *; exact ⟨hi.1, h _ hi.2⟩

/-- `find_neighbors` on valid operands: the comprehension over the smallest enclosing hypercube -/
theorem findNeighbors_spec (within : Nat → Bool) (N d i : Nat) (hN : 1 ≤ N) (hd : 1 ≤ d) (hi : i ≤ N)
    (hp : (ceilRoot N d) ^ (d - 1) < 2 ^ 64) :
    findNeighbors within false N d i
      = some (scan within (ceilRoot N d) d (digits i (ceilRoot N d) d) N) := by
  have h1 : ¬ (false = true ∨ d < 1 ∨ N < 1 ∨ i > N) := by
    intro h; rcases h with h | h | h | h
    · cases h
    all_goals omega
  simp only [findNeighbors, h1, if_false, decompose]
  have : d = 0 ∨ (ceilRoot N d) ^ (d - 1) < 2 ^ 64 := Or.inr hp
  simp only [this, if_true]

/-- invalid operands give no neighbourhood (and never fail) -/
theorem findNeighbors_invalid (within : Nat → Bool) (neg : Bool) (N d i : Nat)
    (h : neg = true ∨ d < 1 ∨ N < 1 ∨ i > N) : findNeighbors within neg N d i = none := by
  unfold findNeighbors; rw [if_pos h]

/-! non-vacuity: 125 indices in 3 dimensions live on the 5 x 5 x 5 cube (the repaired edge) -/
example : ceilRoot 125 3 = 5 := by decide
example : ceilRoot 37 2 = 7 := by decide
example : digits 37 7 2 = [2, 5] := by decide

end Pushr.C20
