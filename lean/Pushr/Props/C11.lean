import Pushr.Props.C03
import Pushr.Print
/-! # C11 — printing a program and parsing the text back reproduces the program

Proved at the token level: the printed form of a tree is the token sequence `renderS` ("(", the
printed leaves, ")"); if every leaf's printed form classifies back to that leaf (`LeafRT`, a
statement about one token each), parsing the tokens gives the tree back — for every nesting and
every size. The character-level facts (white-space splitting of the printed string; decimal
printing/parsing of individual integers and floats) are hypotheses here and are validated by the
correspondence check on every generated tree (DESIGN §7 C11, partial). -/
namespace Pushr.C11
open Pushr Pushr.Parse

mutual
/-- the printed tokens of an item -/
def renderS : Item → List String
  | .list xs => "(" :: (renderSL xs ++ [")"])
  | t => [t.show]
def renderSL : List Item → List String
  | [] => []
  | t :: ts => renderS t ++ renderSL ts
end

mutual
/-- every leaf prints to a token that classifies back to the same leaf -/
def LeafRT (isInstr : String → Bool) : Item → Prop
  | .list xs => LeafRTL isInstr xs
  | t => classify isInstr t.show = .atom t
def LeafRTL (isInstr : String → Bool) : List Item → Prop
  | [] => True
  | t :: ts => LeafRT isInstr t ∧ LeafRTL isInstr ts
end

theorem classify_lp (f : String → Bool) : classify f "(" = .lp := by
  simp [classify, startsWith]
theorem classify_rp (f : String → Bool) : classify f ")" = .rp := by
  simp [classify, startsWith]

mutual
theorem classify_tokens (f : String → Bool) (t : Item) (h : LeafRT f t) :
    (renderS t).map (classify f) = C03.render t := by
  cases t with
  | list xs =>
    simp only [renderS, C03.render, List.map_cons, List.map_append, List.map_nil, classify_lp, classify_rp]
    rw [classify_tokensL f xs (by simpa [LeafRT] using h)]
  | instr i => simp only [renderS, C03.render, List.map_cons, List.map_nil]; rw [show classify f (Item.instr i).show = _ from h]
  | lit v => simp only [renderS, C03.render, List.map_cons, List.map_nil]; rw [show classify f (Item.lit v).show = _ from h]
  | ident n => simp only [renderS, C03.render, List.map_cons, List.map_nil]; rw [show classify f (Item.ident n).show = _ from h]
theorem classify_tokensL (f : String → Bool) (ts : List Item) (h : LeafRTL f ts) :
    (renderSL ts).map (classify f) = C03.renderL ts := by
  cases ts with
  | nil => rfl
  | cons t ts =>
    simp only [LeafRTL] at h
    simp only [renderSL, C03.renderL, List.map_append]
    rw [classify_tokens f t h.1, classify_tokensL f ts h.2]
end

/-- **C11 (token level).** Parsing the printed tokens of a forest whose leaves round-trip yields the
forest, structurally — any nesting, any size -/
theorem parse_print_tokens (f : String → Bool) (ts : List Item) (h : LeafRTL f ts) :
    revL (parseToks ((renderSL ts).map (classify f)) ([], 0)).1 [] = ts := by
  rw [classify_tokensL f ts h]
  exact C03.parse_render_roundtrip ts

/-- the character-level hypothesis: splitting the printed string at white space gives the printed tokens -/
def PrintTokens (t : Item) : Prop := tokenize t.show = renderS t

/-- **C11.** `parse (print t) = [t]` for every item whose leaves round-trip -/
theorem parse_print (f : String → Bool) (t : Item) (hp : PrintTokens t) (hl : LeafRT f t) :
    parseProgram f [] t.show = [t] := by
  unfold parseProgram
  rw [hp, show revL ([] : List Item) [] = [] by rfl]
  have := parse_print_tokens f [t] ⟨hl, trivial⟩
  simpa [renderSL] using this

/-! concrete leaves round-trip (kernel-evaluated): integers, booleans, names, instructions -/
example : (match classify (fun _ => false) (Item.lit (.int (-2147483648))).show with
  | .atom (.lit (.int v)) => v == -2147483648 | _ => false) = true := by decide
example : (match classify (fun _ => false) (Item.lit (.bool true)).show with
  | .atom (.lit (.bool b)) => b | _ => false) = true := by decide
example : (match classify (fun _ => false) (Item.ident "foo").show with
  | .atom (.ident n) => n == "foo" | _ => false) = true := by decide
example : tokenize (Item.list [.lit (.int 1), .list [], .ident "a"]).show = ["(", "1", "(", ")", "a", ")"] := by decide

end Pushr.C11
