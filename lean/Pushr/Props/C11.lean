import Pushr.Props.C03
import Pushr.Print
import Pushr.Item
/-! # C11 — printing a program and parsing the text back reproduces the program

Proved at the token level: the printed form of a tree is the token sequence `renderS` ("(", the
printed leaves, ")"); if every leaf's printed form classifies back to that leaf (`LeafRT`, a
statement about one token each), parsing the tokens gives the tree back — for every nesting and
every size. The second half of the file proves the character-level fact that white-space splitting of
the printed STRING gives those tokens (`tok_show`, `print_tokens`, `parse_print_string`). What stays a
per-leaf hypothesis — validated by the correspondence check on every generated tree — is that a single
float / vector literal / name prints to one word and classifies back to itself (`WordLeaves`, `LeafRT`);
integers, booleans and instruction names are proved to print as one word. -/
namespace Pushr.C11
open Pushr Pushr.Parse

mutual
/-- the printed tokens of an item -/
def renderS : Item → List String
  | .list xs => "(" :: (renderSL xs ++ [")"])
  | t => [t.show]
def renderSL : List Item → List String
  | [] => []
  | t :: ts => renderS t ++ renderSL ts
end

mutual
/-- every leaf prints to a token that classifies back to the same leaf -/
def LeafRT (isInstr : String → Bool) : Item → Prop
  | .list xs => LeafRTL isInstr xs
  | t => classify isInstr t.show = .atom t
def LeafRTL (isInstr : String → Bool) : List Item → Prop
  | [] => True
  | t :: ts => LeafRT isInstr t ∧ LeafRTL isInstr ts
end

theorem classify_lp (f : String → Bool) : classify f "(" = .lp := by
  simp [classify, startsWith]
theorem classify_rp (f : String → Bool) : classify f ")" = .rp := by
  simp [classify, startsWith]

mutual
theorem classify_tokens (f : String → Bool) (t : Item) (h : LeafRT f t) :
    (renderS t).map (classify f) = C03.render t := by
  cases t with
  | list xs =>
    simp only [renderS, C03.render, List.map_cons, List.map_append, List.map_nil, classify_lp, classify_rp]
    rw [classify_tokensL f xs (by simpa [LeafRT] using h)]
  | instr i => simp only [renderS, C03.render, List.map_cons, List.map_nil]; rw [show classify f (Item.instr i).show = _ from h]
  | lit v => simp only [renderS, C03.render, List.map_cons, List.map_nil]; rw [show classify f (Item.lit v).show = _ from h]
  | ident n => simp only [renderS, C03.render, List.map_cons, List.map_nil]; rw [show classify f (Item.ident n).show = _ from h]
theorem classify_tokensL (f : String → Bool) (ts : List Item) (h : LeafRTL f ts) :
    (renderSL ts).map (classify f) = C03.renderL ts := by
  cases ts with
  | nil => rfl
  | cons t ts =>
    simp only [LeafRTL] at h
    simp only [renderSL, C03.renderL, List.map_append]
    rw [classify_tokens f t h.1, classify_tokensL f ts h.2]
end

/-- **C11 (token level).** Parsing the printed tokens of a forest whose leaves round-trip yields the
forest, structurally — any nesting, any size -/
theorem parse_print_tokens (f : String → Bool) (ts : List Item) (h : LeafRTL f ts) :
    revL (parseToks ((renderSL ts).map (classify f)) ([], 0)).1 [] = ts := by
  rw [classify_tokensL f ts h]
  exact C03.parse_render_roundtrip ts

/-- the character-level hypothesis: splitting the printed string at white space gives the printed tokens -/
def PrintTokens (t : Item) : Prop := tokenize t.show = renderS t

/-- **C11.** `parse (print t) = [t]` for every item whose leaves round-trip -/
theorem parse_print (f : String → Bool) (t : Item) (hp : PrintTokens t) (hl : LeafRT f t) :
    parseProgram f [] t.show = [t] := by
  unfold parseProgram
  rw [hp, show revL ([] : List Item) [] = [] by rfl]
  have := parse_print_tokens f [t] ⟨hl, trivial⟩
  simpa [renderSL] using this

/-! concrete leaves round-trip (kernel-evaluated): integers, booleans, names, instructions -/
example : (match classify (fun _ => false) (Item.lit (.int (-2147483648))).show with
  | .atom (.lit (.int v)) => v == -2147483648 | _ => false) = true := by decide
example : (match classify (fun _ => false) (Item.lit (.bool true)).show with
  | .atom (.lit (.bool b)) => b | _ => false) = true := by decide
example : (match classify (fun _ => false) (Item.ident "foo").show with
  | .atom (.ident n) => n == "foo" | _ => false) = true := by decide
example : tokenize (Item.list [.lit (.int 1), .list [], .ident "a"]).show = ["(", "1", "(", ")", "a", ")"] := by decide

/-! # Character level — the tokens of a printed item

Splitting the printed text at whitespace yields exactly "(" , the tokens of the elements, ")" for a
list and the atom's own print for an atom (`tok_show`, no hypothesis); when every leaf prints as one
whitespace-free word (`WordLeaves`: proved for integers, booleans and the 280 registered instruction
names; a per-leaf hypothesis for names, floats and vector literals) the former hypothesis
`PrintTokens` is a theorem (`print_tokens`) and `parse (print t) = [t]` holds on STRINGS
(`parse_print_string`). -/

/-- the tokenizer on characters -/
def tok (l : List Char) : List (List Char) := splitWs l []

/-- **splitting is compositional at a whitespace character**, whatever has been accumulated -/
theorem splitWs_append_ws (l1 l2 cur : List Char) (c : Char) (hc : isWs c = true) :
    splitWs (l1 ++ c :: l2) cur = splitWs (l1 ++ [c]) cur ++ splitWs l2 [] := by
  induction l1 generalizing cur with
  | nil =>
    simp only [List.nil_append, splitWs, hc, if_true]
    split <;> simp [splitWs]
  | cons x l1 ih =>
    simp only [List.cons_append, splitWs]
    split
    · split
      · exact ih []
      · simp [ih []]
    · exact ih (x :: cur)

theorem splitWs_snoc_ws (l cur : List Char) (c : Char) (hc : isWs c = true) :
    splitWs (l ++ [c]) cur = splitWs l cur := by
  induction l generalizing cur with
  | nil => simp only [List.nil_append, splitWs, hc, if_true]; split <;> simp_all [splitWs]
  | cons x l ih =>
    simp only [List.cons_append, splitWs]
    split
    · split
      · exact ih []
      · simp [ih []]
    · exact ih (x :: cur)

theorem tok_append_ws (l1 l2 : List Char) (c : Char) (hc : isWs c = true) :
    tok (l1 ++ c :: l2) = tok l1 ++ tok l2 := by
  unfold tok
  rw [splitWs_append_ws l1 l2 [] c hc, splitWs_snoc_ws l1 [] c hc]

theorem tok_ws_cons (l : List Char) (c : Char) (hc : isWs c = true) : tok (c :: l) = tok l := by
  have := tok_append_ws [] l c hc
  simpa [tok, splitWs] using this

theorem tok_allWs (ws : List Char) (h : ws.all isWs = true) : tok ws = [] := by
  induction ws with
  | nil => simp [tok, splitWs]
  | cons c ws ih =>
    simp only [List.all_cons, Bool.and_eq_true] at h
    rw [tok_ws_cons ws c h.1, ih h.2]

theorem tok_append_allWs (l ws : List Char) (h : ws.all isWs = true) : tok (l ++ ws) = tok l := by
  cases ws with
  | nil => simp
  | cons c ws =>
    simp only [List.all_cons, Bool.and_eq_true] at h
    rw [tok_append_ws l ws c h.1, tok_allWs ws h.2, List.append_nil]

theorem tok_dropWhile (l : List Char) : tok (l.dropWhile isWs) = tok l := by
  induction l with
  | nil => rfl
  | cons c l ih =>
    simp only [List.dropWhile_cons]
    split
    · next h => rw [ih, tok_ws_cons l c h]
    · rfl

/-- trimming does not change the tokens -/
theorem tok_trimChars (l : List Char) : tok (trimChars l) = tok l := by
  unfold trimChars trimL
  have h := List.takeWhile_append_dropWhile (p := isWs) (l := (l.dropWhile isWs).reverse)
  have hl : l.dropWhile isWs
      = (List.dropWhile isWs (l.dropWhile isWs).reverse).reverse ++ (List.takeWhile isWs (l.dropWhile isWs).reverse).reverse := by
    have := congrArg List.reverse h
    rw [List.reverse_append, List.reverse_reverse] at this
    exact this.symm
  have hws : ((List.takeWhile isWs (l.dropWhile isWs).reverse).reverse).all isWs = true := by
    rw [List.all_reverse]
    exact List.all_takeWhile
  rw [← tok_dropWhile l]
  conv => rhs; rw [hl]
  rw [tok_append_allWs _ _ hws]

/-- a non-empty whitespace-free word is one token -/
def wsFree (w : List Char) : Bool := !w.isEmpty && w.all fun c => !isWs c

theorem splitWs_word (w cur : List Char) (h : w.all (fun c => !isWs c) = true) :
    splitWs w cur = if (w.reverse ++ cur).isEmpty then [] else [(w.reverse ++ cur).reverse] := by
  induction w generalizing cur with
  | nil => simp [splitWs]
  | cons c w ih =>
    simp only [List.all_cons, Bool.and_eq_true, Bool.not_eq_true'] at h
    simp only [splitWs, h.1, Bool.false_eq_true, if_false]
    rw [ih (c :: cur) h.2]
    simp

theorem tok_word (w : List Char) (h : wsFree w = true) : tok w = [w] := by
  simp only [wsFree, Bool.and_eq_true, Bool.not_eq_true'] at h
  unfold tok
  rw [splitWs_word w [] h.2]
  cases w <;> simp_all

/-! ## the printed string -/

theorem foldl_append_toList (a : String) (l : List String) :
    (List.foldl (fun r s => r ++ s) a l).toList = a.toList ++ l.flatMap String.toList := by
  induction l generalizing a with
  | nil => simp
  | cons x l ih => simp [ih, List.append_assoc]

theorem join_toList (l : List String) : (String.join l).toList = l.flatMap String.toList := by
  simp [String.join, foldl_append_toList]

/-- tokens of `" a b c"` -/
theorem tok_spaced (S : List String) :
    tok ((S.map fun s => " " ++ s).flatMap String.toList) = S.flatMap fun s => tok s.toList := by
  induction S with
  | nil => simp [tok, splitWs]
  | cons s S ih =>
    simp only [List.map_cons, List.flatMap_cons, String.toList_append]
    have hsp : " ".toList = [' '] := by decide
    rw [hsp]
    have hws : isWs ' ' = true := by decide
    simp only [List.singleton_append, List.cons_append]
    rw [tok_ws_cons _ ' ' hws]
    -- either nothing follows, or the next chunk starts with a blank
    cases S with
    | nil => simp
    | cons s' S' =>
      simp only [List.map_cons, List.flatMap_cons, String.toList_append, hsp, List.singleton_append,
        List.nil_append, List.cons_append, List.append_assoc] at ih ⊢
      rw [tok_append_ws s.toList _ ' ' hws]
      rw [tok_ws_cons _ ' ' hws] at ih
      rw [ih]

theorem tok_showStack (S : List String) : tok (showStack S).toList = S.flatMap fun s => tok s.toList := by
  unfold showStack trim
  simp only [String.toList_ofList]
  rw [tok_trimChars, join_toList, tok_spaced]

mutual
/-- the tokens (as character lists) the printed text of an item splits into -/
def toksC : Item → List (List Char)
  | .list xs => ['('] :: (toksCL xs ++ [[')']])
  | t => tok t.show.toList
def toksCL : List Item → List (List Char)
  | [] => []
  | x :: xs => toksC x ++ toksCL xs
end

mutual
/-- **tokenizing the printed text of any item yields "(" elements… ")" recursively**, with no
hypothesis at all on the atoms: whatever an atom prints is tokenized on its own -/
theorem tok_show (t : Item) : tok t.show.toList = toksC t := by
  cases t with
  | list xs =>
    have hl : "( ".toList = ['(', ' '] := by decide
    have hr : " )".toList = [' ', ')'] := by decide
    have hws : isWs ' ' = true := by decide
    simp only [Item.show, String.toList_append, hl, hr, toksC]
    have e : ['(', ' '] ++ (showStack (Item.showL xs)).toList ++ [' ', ')']
        = ['('] ++ ' ' :: ((showStack (Item.showL xs)).toList ++ ' ' :: [')']) := by simp
    rw [e, tok_append_ws ['('] _ ' ' hws, tok_append_ws _ [')'] ' ' hws, tok_showStack, tok_showL xs]
    have h1 : tok ['('] = [['(']] := by decide
    have h2 : tok [')'] = [[')']] := by decide
    simp [h1, h2]
  | instr i => simp [toksC]
  | lit v => simp [toksC]
  | ident n => simp [toksC]
theorem tok_showL (xs : List Item) : ((Item.showL xs).flatMap fun s => tok s.toList) = toksCL xs := by
  cases xs with
  | nil => simp [Item.showL, toksCL]
  | cons x xs => simp only [Item.showL, List.flatMap_cons, toksCL]; rw [tok_show x, tok_showL xs]
end

mutual
/-- every atom prints as one non-empty whitespace-free word -/
def WordLeaves : Item → Prop
  | .list xs => WordLeavesL xs
  | t => wsFree t.show.toList = true
def WordLeavesL : List Item → Prop
  | [] => True
  | t :: ts => WordLeaves t ∧ WordLeavesL ts
end


mutual
theorem toksC_render (t : Item) (h : WordLeaves t) : (toksC t).map String.ofList = renderS t := by
  cases t with
  | list xs =>
    simp only [toksC, renderS, List.map_cons, List.map_append, List.map_nil]
    rw [toksCL_render xs (by simpa [WordLeaves] using h)]
  | instr i => simp only [toksC, renderS]; rw [tok_word _ h]; simp
  | lit v => simp only [toksC, renderS]; rw [tok_word _ h]; simp
  | ident n => simp only [toksC, renderS]; rw [tok_word _ h]; simp
theorem toksCL_render (ts : List Item) (h : WordLeavesL ts) : (toksCL ts).map String.ofList = renderSL ts := by
  cases ts with
  | nil => rfl
  | cons t ts =>
    simp only [WordLeavesL] at h
    simp only [toksCL, renderSL, List.map_append]
    rw [toksC_render t h.1, toksCL_render ts h.2]
end

/-- **the character-level hypothesis of `parse_print` is a theorem**: splitting the printed string of
an item at white space gives "(" , the printed leaves, ")" — for every nesting and size — as soon as
each leaf prints as one whitespace-free word -/
theorem print_tokens (t : Item) (h : WordLeaves t) : PrintTokens t := by
  unfold PrintTokens tokenize
  rw [show splitWs t.show.toList [] = tok t.show.toList from rfl, tok_show, toksC_render t h]

/-- **C11 (string level).** `parse (print t) = [t]` for every item each of whose leaves prints as one
word that classifies back to the same leaf -/
theorem parse_print_string (f : String → Bool) (t : Item) (hw : WordLeaves t) (hl : LeafRT f t) :
    parseProgram f [] t.show = [t] :=
  parse_print f t (print_tokens t hw) hl

/-! ## which leaves print as one word -/

theorem isWs_of_isDigit (c : Char) (h : c.isDigit = true) : isWs c = false := by
  simp only [Char.isDigit, Bool.and_eq_true, decide_eq_true_eq] at h
  have h1 : 48 ≤ c.toNat := by
    have := h.1; rw [ge_iff_le, UInt32.le_iff_toNat_le] at this; exact this
  have h2 : c.toNat ≤ 57 := by
    have := h.2; rw [UInt32.le_iff_toNat_le] at this; exact this
  simp only [isWs, Bool.or_eq_false_iff, Bool.and_eq_false_iff, decide_eq_false_iff_not, beq_eq_false_iff_ne]
  omega

theorem wsFree_natRepr (n : Nat) : wsFree n.repr.toList = true := by
  rw [Nat.toList_repr]
  simp only [wsFree, Bool.and_eq_true, Bool.not_eq_true', List.all_eq_true]
  refine ⟨?_, fun c hc => ?_⟩
  · cases hd : Nat.toDigits 10 n with
    | nil => exact absurd hd Nat.toDigits_ne_nil
    | cons _ _ => rfl
  · have := Nat.isDigit_of_mem_toDigits (by decide) (by decide) hc
    simp [isWs_of_isDigit c this]

theorem wsFree_bool (b : Bool) : WordLeaves (.lit (.bool b)) := by
  cases b <;> (show wsFree _ = true) <;> decide

theorem wsFree_cons_of (c : Char) (w : List Char) (hc : isWs c = false) (hw : wsFree w = true) :
    wsFree (c :: w) = true := by
  simp only [wsFree, Bool.and_eq_true, Bool.not_eq_true', List.all_cons] at hw ⊢
  exact ⟨by simp, by simp [hc], hw.2⟩

theorem wsFree_int (i : Int32) : WordLeaves (.lit (.int i)) := by
  show wsFree (toString i.toInt).toList = true
  cases i.toInt with
  | ofNat m => exact wsFree_natRepr m
  | negSucc m =>
    show wsFree ("-" ++ (Nat.succ m).repr).toList = true
    rw [String.toList_append, show "-".toList = ['-'] by decide]
    exact wsFree_cons_of '-' _ (by decide) (wsFree_natRepr _)

/-- every one of the 280 registered instruction names is one word -/
theorem wsFree_instr (i : Instr) (h : ∀ s, i ≠ .unknown s) : WordLeaves (.instr i) := by
  show wsFree i.str.toList = true
  cases i with
  | unknown s => exact absurd rfl (h s)
  | noop => decide
  | stk t o => cases t <;> cases o <;> decide
  | vec t o => cases t <;> cases o <;> decide
  | define t => cases t <;> decide
  | boolean o => cases o <;> decide
  | integer o => cases o <;> decide
  | float o => cases o <;> decide
  | name o => cases o <;> decide
  | code o => cases o <;> decide
  | exec o => cases o <;> decide
  | index o => cases o <;> decide
  | io o => cases o <;> decide
  | list o => cases o <;> decide
  | graph o => cases o <;> decide

/-- non-vacuity: a concrete nested tree meets both hypotheses, so the string-level round trip applies to it -/
example : parseProgram (fun _ => false) []
    (Item.list [.lit (.int (-7)), .list [.lit (.bool true), .list []], .ident "foo"]).show
    = [Item.list [.lit (.int (-7)), .list [.lit (.bool true), .list []], .ident "foo"]] := by
  apply parse_print_string
  · simp only [WordLeaves, WordLeavesL]
    exact ⟨wsFree_int _, ⟨wsFree_bool _, trivial, trivial⟩, by decide, trivial⟩
  · simp only [LeafRT, LeafRTL]
    exact ⟨rfl, ⟨rfl, trivial, trivial⟩, rfl, trivial⟩


/-! # Leaves that round-trip, proved: every i32, the booleans, the 280 registered instructions

`int_roundtrip` (decimal print / parse of every i32, `i32::MIN` included), `int_leafRT`, `bool_leafRT`,
`instr_leafRT` (kernel-evaluated 280-row table) discharge the per-leaf hypotheses for these leaf
kinds, so `parse_print_registry` states C11 on STRINGS with no hypothesis at all for trees of any
shape and size over integers, booleans and registered instructions, for the parser's own
instruction test `Instr.isName`. -/

theorem digitsVal_eq (cs : List Char) : digitsVal cs = Nat.ofDigitChars 10 cs 0 := by
  unfold digitsVal Nat.ofDigitChars
  have : ∀ (init : Nat), cs.foldl (fun a c => a * 10 + (c.toNat - 48)) init
      = cs.foldl (fun sofar c => 10 * sofar + (c.toNat - '0'.toNat)) init := by
    induction cs with
    | nil => intro; rfl
    | cons c cs ih => intro init; simp only [List.foldl_cons]; rw [Nat.mul_comm]; exact ih _
  exact this 0

theorem isDigit_of_charIsDigit (c : Char) (h : c.isDigit = true) : isDigit c = true := by
  simp only [Char.isDigit, Bool.and_eq_true, decide_eq_true_eq] at h
  simp only [isDigit, Bool.and_eq_true, decide_eq_true_eq]
  exact ⟨h.1, h.2⟩

theorem toDigits_all_isDigit (n : Nat) : (Nat.toDigits 10 n).all isDigit = true := by
  rw [List.all_eq_true]
  intro c hc
  exact isDigit_of_charIsDigit c (Nat.isDigit_of_mem_toDigits (by decide) (by decide) hc)

/-- parsing the decimal digits of `n` as an i32 -/
theorem parseI32_toDigits (n : Nat) (hn : n ≤ 2147483647) :
    parseI32 (Nat.toDigits 10 n) = some (Int32.ofInt n) := by
  have hall := toDigits_all_isDigit n
  have hne := Nat.toDigits_ne_nil (n := n) (b := 10)
  have hval : digitsVal (Nat.toDigits 10 n) = n := by rw [digitsVal_eq]; exact Nat.ofDigitChars_ten_toDigits
  generalize Nat.toDigits 10 n = cs at *
  cases cs with
  | nil => exact absurd rfl hne
  | cons c r =>
    have hc : isDigit c = true := by simp only [List.all_cons, Bool.and_eq_true] at hall; exact hall.1
    have h1 : c ≠ '-' := by intro h; subst h; revert hc; decide
    have h2 : c ≠ '+' := by intro h; subst h; revert hc; decide
    unfold parseI32
    split
    · next neg ds hm =>
      have hpair : (neg, ds) = (false, c :: r) := by
        rw [← hm]
        split
        · next r' heq => simp only [List.cons.injEq] at heq; exact absurd heq.1 h1
        · next r' heq => simp only [List.cons.injEq] at heq; exact absurd heq.1 h2
        · rfl
      simp only [Prod.mk.injEq] at hpair
      obtain ⟨rfl, rfl⟩ := hpair
      simp only [List.isEmpty_cons, hall, Bool.not_true, Bool.or_self, Bool.false_eq_true, if_false, hval]
      simp
      omega

theorem parseI32_neg_toDigits (n : Nat) (hn : n ≤ 2147483648) :
    parseI32 ('-' :: Nat.toDigits 10 n) = some (Int32.ofInt (-(n : Int))) := by
  have hall := toDigits_all_isDigit n
  have hne := Nat.toDigits_ne_nil (n := n) (b := 10)
  have hval : digitsVal (Nat.toDigits 10 n) = n := by rw [digitsVal_eq]; exact Nat.ofDigitChars_ten_toDigits
  generalize Nat.toDigits 10 n = cs at *
  unfold parseI32
  split
  · next neg ds hm =>
    simp only [Prod.mk.injEq] at hm
    obtain ⟨rfl, rfl⟩ := hm
    have hemp : cs.isEmpty = false := by cases cs <;> simp_all
    simp only [hemp, hall, Bool.not_true, Bool.or_self, Bool.false_eq_true, if_false, hval, if_true]
    simp
    omega

/-- **every i32 prints to a token that parses back to itself** (including `i32::MIN`) -/
theorem int_roundtrip (i : Int32) : parseI32 (showI32 i).toList = some i := by
  have hr := Int32.toInt_lt i
  have hl := Int32.le_toInt i
  have hi : Int32.ofInt i.toInt = i := Int32.ofInt_toInt i
  unfold showI32
  cases h : i.toInt with
  | ofNat m =>
    show parseI32 (Nat.repr m).toList = some i
    rw [Nat.toList_repr, parseI32_toDigits m (by rw [h] at hr; simp at hr; omega)]
    rw [← hi, h]; rfl
  | negSucc m =>
    show parseI32 ("-" ++ (Nat.succ m).repr).toList = some i
    rw [String.toList_append, show "-".toList = ['-'] by decide, Nat.toList_repr]
    simp only [List.singleton_append]
    rw [parseI32_neg_toDigits (m + 1) (by rw [h] at hl; simp at hl; omega)]
    rw [← hi, h]; rfl

theorem showI32_head (i : Int32) :
    ∃ c r, (showI32 i).toList = c :: r ∧ (isDigit c = true ∨ c = '-') := by
  unfold showI32
  cases i.toInt with
  | ofNat m =>
    show ∃ c r, (Nat.repr m).toList = c :: r ∧ _
    rw [Nat.toList_repr]
    have hall := toDigits_all_isDigit m
    cases hd : Nat.toDigits 10 m with
    | nil => exact absurd hd Nat.toDigits_ne_nil
    | cons c r =>
      rw [hd] at hall
      simp only [List.all_cons, Bool.and_eq_true] at hall
      exact ⟨c, r, rfl, Or.inl hall.1⟩
  | negSucc m =>
    show ∃ c r, ("-" ++ (Nat.succ m).repr).toList = c :: r ∧ _
    rw [String.toList_append, show "-".toList = ['-'] by decide]
    exact ⟨'-', _, rfl, Or.inr rfl⟩

/-- **an integer leaf round-trips**: its print classifies back to the same integer literal (as long as
the instruction table does not claim the digits) -/
theorem int_leafRT (f : String → Bool) (i : Int32) (hf : f (showI32 i) = false) :
    LeafRT f (.lit (.int i)) := by
  show classify f (showI32 i) = .atom (.lit (.int i))
  obtain ⟨c, r, hcs, hc⟩ := showI32_head i
  have hne : ∀ d : Char, (isDigit d = false ∧ d ≠ '-') → c ≠ d := by
    intro d hd e; subst e
    rcases hc with h | h
    · rw [hd.1] at h; cases h
    · exact hd.2 h
  have hI := hne 'I' (by decide)
  have hF := hne 'F' (by decide)
  have hB := hne 'B' (by decide)
  have hL := hne '(' (by decide)
  have hR := hne ')' (by decide)
  have e1 : (showI32 i == "(") = false := by
    rw [beq_eq_false_iff_ne]; intro e
    have := congrArg String.toList e; rw [hcs] at this
    have h2 : "(".toList = ['('] := by decide
    rw [h2] at this; simp only [List.cons.injEq] at this; exact hL this.1
  have e2 : (showI32 i == ")") = false := by
    rw [beq_eq_false_iff_ne]; intro e
    have := congrArg String.toList e; rw [hcs] at this
    have h2 : ")".toList = [')'] := by decide
    rw [h2] at this; simp only [List.cons.injEq] at this; exact hR this.1
  have s1 : startsWith (c :: r) "INT[".toList = false := by
    have : "INT[".toList = ['I', 'N', 'T', '['] := by decide
    simp [startsWith, this, hI]
  have s2 : startsWith (c :: r) "FLOAT[".toList = false := by
    have : "FLOAT[".toList = ['F', 'L', 'O', 'A', 'T', '['] := by decide
    simp [startsWith, this, hF]
  have s3 : startsWith (c :: r) "BOOL[".toList = false := by
    have : "BOOL[".toList = ['B', 'O', 'O', 'L', '['] := by decide
    simp [startsWith, this, hB]
  have hp := int_roundtrip i
  unfold classify
  simp only [hcs, s1, s2, s3, e1, e2, hf, Bool.false_eq_true, if_false]
  rw [← hcs, hp]

/-- the three checks of the cascade that precede the instruction test, as one closed Boolean -/
def preInstr (tok : String) : Bool :=
  !startsWith tok.toList "INT[".toList && !startsWith tok.toList "FLOAT[".toList &&
  !startsWith tok.toList "BOOL[".toList && !(tok == "(") && !(tok == ")")

theorem classify_instr (f : String → Bool) (tok : String) (hp : preInstr tok = true) (hf : f tok = true) :
    classify f tok = .atom (.instr (Instr.ofName tok)) := by
  simp only [preInstr, Bool.and_eq_true, Bool.not_eq_true'] at hp
  obtain ⟨⟨⟨⟨h1, h2⟩, h3⟩, h4⟩, h5⟩ := hp
  unfold classify
  simp only [h1, h2, h3, h4, h5, hf, Bool.false_eq_true, if_false, if_true]

theorem registered_table :
    Instr.all.all (fun i => preInstr i.str && (Instr.ofName i.str == i)) = true := by decide +kernel

/-- **every registered instruction name round-trips** through the classification cascade
(the 280-row table is evaluated by the kernel) -/
theorem instr_leafRT (f : String → Bool) (i : Instr) (h : i ∈ Instr.all) (hf : f i.str = true) :
    LeafRT f (.instr i) := by
  show classify f i.str = .atom (.instr i)
  have key := List.all_eq_true.mp registered_table i h
  simp only [Bool.and_eq_true, beq_iff_eq] at key
  rw [classify_instr f i.str key.1 hf, key.2]

theorem bool_leafRT (f : String → Bool) (b : Bool) (hf : f (showBool b) = false) :
    LeafRT f (.lit (.bool b)) := by
  show classify f (showBool b) = .atom (.lit (.bool b))
  cases b
  · have h : preInstr "FALSE" = true ∧ parseI32 "FALSE".toList = none ∧ parseF32 "FALSE".toList = none := by decide
    simp only [preInstr, Bool.and_eq_true, Bool.not_eq_true'] at h
    obtain ⟨⟨⟨⟨⟨h1, h2⟩, h3⟩, h4⟩, h5⟩, h6, h7⟩ := h
    unfold classify
    simp only [showBool, Bool.false_eq_true, if_false] at hf ⊢
    simp only [h1, h2, h3, h4, h5, hf, h6, h7, Bool.false_eq_true, if_false]
    rfl
  · have h : preInstr "TRUE" = true ∧ parseI32 "TRUE".toList = none ∧ parseF32 "TRUE".toList = none := by decide
    simp only [preInstr, Bool.and_eq_true, Bool.not_eq_true'] at h
    obtain ⟨⟨⟨⟨⟨h1, h2⟩, h3⟩, h4⟩, h5⟩, h6, h7⟩ := h
    unfold classify
    simp only [showBool, if_true] at hf ⊢
    simp only [h1, h2, h3, h4, h5, hf, h6, h7, Bool.false_eq_true, if_false]
    rfl

/-! ## a hypothesis-free instance: trees of integers, booleans and registered instructions -/

mutual
/-- every leaf is an i32, a boolean or a registered instruction, and the instruction test `f` tells them apart -/
def SimpleLeaves (f : String → Bool) : Item → Prop
  | .list xs => SimpleLeavesL f xs
  | .lit v => match v with
    | .int i => f (showI32 i) = false
    | .bool b => f (showBool b) = false
    | _ => False
  | .instr i => i ∈ Instr.all ∧ f i.str = true
  | .ident _ => False
def SimpleLeavesL (f : String → Bool) : List Item → Prop
  | [] => True
  | t :: ts => SimpleLeaves f t ∧ SimpleLeavesL f ts
end

theorem all_known : Instr.all.all (fun i => match i with | .unknown _ => false | _ => true) = true := by
  decide +kernel

theorem known_of_mem (i : Instr) (h : i ∈ Instr.all) : ∀ s, i ≠ .unknown s := by
  intro s e; subst e
  have := List.all_eq_true.mp all_known _ h
  simp at this

mutual
theorem simple_word (f : String → Bool) (t : Item) (h : SimpleLeaves f t) : WordLeaves t := by
  cases t with
  | list xs => exact simple_wordL f xs h
  | lit v =>
    cases v with
    | int i => exact wsFree_int i
    | bool b => exact wsFree_bool b
    | _ => exact absurd h (by simp [SimpleLeaves])
  | instr i => exact wsFree_instr i (known_of_mem i h.1)
  | ident n => exact absurd h (by simp [SimpleLeaves])
theorem simple_wordL (f : String → Bool) (ts : List Item) (h : SimpleLeavesL f ts) : WordLeavesL ts := by
  cases ts with
  | nil => trivial
  | cons t ts => exact ⟨simple_word f t h.1, simple_wordL f ts h.2⟩
end

mutual
theorem simple_rt (f : String → Bool) (t : Item) (h : SimpleLeaves f t) : LeafRT f t := by
  cases t with
  | list xs => exact simple_rtL f xs h
  | lit v =>
    cases v with
    | int i => exact int_leafRT f i h
    | bool b => exact bool_leafRT f b h
    | _ => exact absurd h (by simp [SimpleLeaves])
  | instr i => exact instr_leafRT f i h.1 h.2
  | ident n => exact absurd h (by simp [SimpleLeaves])
theorem simple_rtL (f : String → Bool) (ts : List Item) (h : SimpleLeavesL f ts) : LeafRTL f ts := by
  cases ts with
  | nil => trivial
  | cons t ts => exact ⟨simple_rt f t h.1, simple_rtL f ts h.2⟩
end

/-- **C11 on strings, without any hypothesis about printing**: a tree of any shape and size whose
leaves are i32 values (all of them, `i32::MIN` included), booleans and registered instructions prints
to a string that parses back to exactly that tree -/
theorem parse_print_simple (f : String → Bool) (t : Item) (h : SimpleLeaves f t) :
    parseProgram f [] t.show = [t] :=
  parse_print_string f t (simple_word f t h) (simple_rt f t h)

/-! ## the registry's own instruction test -/

theorem all_are_names : Instr.all.all (fun i => Instr.isName i.str) = true := by decide +kernel

theorem names_start_upper :
    Instr.table.all (fun p => match p.1.toList with
      | c :: _ => decide ('A' ≤ c) && decide (c ≤ 'Z')
      | [] => false) = true := by decide +kernel

/-- a registered name starts with a capital letter -/
theorem isName_head (s : String) (h : Instr.isName s = true) :
    ∃ c r, s.toList = c :: r ∧ 'A' ≤ c ∧ c ≤ 'Z' := by
  simp only [Instr.isName, List.any_eq_true, beq_iff_eq] at h
  obtain ⟨p, hp, rfl⟩ := h
  have := List.all_eq_true.mp names_start_upper p hp
  cases hl : p.1.toList with
  | nil => simp [hl] at this
  | cons c r =>
    simp only [hl, Bool.and_eq_true, decide_eq_true_eq] at this
    exact ⟨c, r, rfl, this.1, this.2⟩

theorem isName_int (i : Int32) : Instr.isName (showI32 i) = false := by
  cases h : Instr.isName (showI32 i) with
  | false => rfl
  | true =>
    obtain ⟨c, r, hcs, h1, h2⟩ := isName_head _ h
    obtain ⟨c', r', hcs', hc'⟩ := showI32_head i
    rw [hcs] at hcs'
    simp only [List.cons.injEq] at hcs'
    obtain ⟨rfl, _⟩ := hcs'
    exfalso
    rcases hc' with hd | rfl
    · simp only [isDigit, Bool.and_eq_true, decide_eq_true_eq] at hd
      have a1 := Char.le_def.mp h1
      have a2 := Char.le_def.mp hd.2
      have : ('9' : Char).val < ('A' : Char).val := by decide
      exact absurd (UInt32.le_trans a1 a2) (by simpa [UInt32.not_le] using this)
    · exact absurd h1 (by decide)

mutual
/-- every leaf is an i32, a boolean or a registered instruction -/
def RegLeaves : Item → Prop
  | .list xs => RegLeavesL xs
  | .lit v => match v with
    | .int _ => True
    | .bool _ => True
    | _ => False
  | .instr i => i ∈ Instr.all
  | .ident _ => False
def RegLeavesL : List Item → Prop
  | [] => True
  | t :: ts => RegLeaves t ∧ RegLeavesL ts
end

mutual
theorem reg_simple (t : Item) (h : RegLeaves t) : SimpleLeaves Instr.isName t := by
  cases t with
  | list xs => exact reg_simpleL xs h
  | lit v =>
    cases v with
    | int i => exact isName_int i
    | bool b => cases b <;> (show Instr.isName _ = false) <;> decide +kernel
    | _ => exact absurd h (by simp [RegLeaves])
  | instr i => exact ⟨h, List.all_eq_true.mp all_are_names i h⟩
  | ident n => exact absurd h (by simp [RegLeaves])
theorem reg_simpleL (ts : List Item) (h : RegLeavesL ts) : SimpleLeavesL Instr.isName ts := by
  cases ts with
  | nil => trivial
  | cons t ts => exact ⟨reg_simple t h.1, reg_simpleL ts h.2⟩
end

/-- **C11 for the parser's own instruction table, no hypotheses**: every tree — any nesting, any
size — of i32 values, booleans and registered instructions satisfies `parse (print t) = [t]` on strings -/
theorem parse_print_registry (t : Item) (h : RegLeaves t) :
    parseProgram Instr.isName [] t.show = [t] :=
  parse_print_simple Instr.isName t (reg_simple t h)


/-! ## floats print as one word (so the tokens of a printed tree with floats are right, for the print-parse-print class) -/

/-- no whitespace character -/
def noWs (l : List Char) : Bool := l.all fun c => !isWs c

theorem wsFree_iff (l : List Char) : wsFree l = true ↔ l ≠ [] ∧ noWs l = true := by
  cases l <;> simp [wsFree, noWs]

theorem noWs_append (a b : List Char) : noWs (a ++ b) = (noWs a && noWs b) := by simp [noWs]

theorem noWs_natRepr (n : Nat) : noWs (toString n).toList = true :=
  ((wsFree_iff _).mp (wsFree_natRepr n)).2

theorem noWs_replicate_zero (k : Nat) : noWs (List.replicate k '0') = true := by
  simp only [noWs, List.all_eq_true, List.mem_replicate]
  intro c hc; rw [hc.2]; decide

theorem noWs_padLeft (s : String) (n : Nat) (h : noWs s.toList = true) :
    noWs (F32.padLeft s n '0').toList = true := by
  simp only [F32.padLeft, String.toList_append, String.toList_ofList, noWs_append, noWs_replicate_zero, h, Bool.and_self]

theorem wsFree_fixed_body (ip fp : Nat) :
    wsFree (toString ip ++ "." ++ F32.padLeft (toString fp) 3 '0').toList = true := by
  rw [wsFree_iff]
  refine ⟨?_, ?_⟩
  · simp only [String.toList_append, ne_eq, List.append_eq_nil_iff, not_and]
    intro h1; exfalso
    exact ((wsFree_iff _).mp (wsFree_natRepr ip)).1 h1.1
  · simp only [String.toList_append, noWs_append, noWs_natRepr, noWs_padLeft _ _ (noWs_natRepr fp),
      show noWs ".".toList = true by decide, Bool.and_self]

theorem wsFree_neg_fixed_body (ip fp : Nat) :
    wsFree ("-" ++ (toString ip ++ "." ++ F32.padLeft (toString fp) 3 '0')).toList = true := by
  have h := wsFree_fixed_body ip fp
  rw [wsFree_iff] at h ⊢
  rw [String.toList_append, show "-".toList = ['-'] by decide]
  refine ⟨by simp, ?_⟩
  rw [noWs_append, h.2]; decide

/-- **every float prints as one white-space-free word** (`{:.3}` of any f32, NaN and infinities included) -/
theorem wsFree_float (x : Float32) : WordLeaves (.lit (.float x)) := by
  show wsFree (F32.fmtFixed x 3).toList = true
  unfold F32.fmtFixed
  split
  · decide
  · split
    · split <;> decide
    · simp only [show ((3 : Nat) == 0) = false from rfl, Bool.false_eq_true, if_false]
      split
      · exact wsFree_neg_fixed_body _ _
      · exact wsFree_fixed_body _ _


end Pushr.C11
