import Pushr.Props.C07
import Pushr.Props.C10
/-! # C07 (supplement) — the quote flag is touched by NAME.QUOTE and by the next encountered name only

Stated here because it is a corollary of C10's frame theorem, and `Props/C10` itself imports `Props/C07`. -/
namespace Pushr.C07
open Pushr

theorem quote_notin_footprint (i : Instr) (h : i ≠ .name .quote) : C10.Field.quote ∉ C10.footprint i := by
  cases i with
  | name o => cases o <;> simp_all [C10.footprint]
  | stk t o => cases t <;> cases o <;> simp [C10.footprint, C10.tyField]
  | define t => cases t <;> simp [C10.footprint, C10.tyField]
  | vec t o => cases t <;> cases o <;> simp [C10.footprint, C10.vField, C10.sField]
  | integer o => cases o <;> simp [C10.footprint]
  | float o => cases o <;> simp [C10.footprint]
  | code o => cases o <;> simp [C10.footprint]
  | exec o => cases o <;> simp [C10.footprint]
  | index o => cases o <;> simp [C10.footprint]
  | io o => cases o <;> simp [C10.footprint]
  | list o => cases o <;> simp [C10.footprint, C10.loadable]
  | graph o => cases o <;> simp [C10.footprint]
  | _ => simp [C10.footprint]

/-- **only NAME.QUOTE sets the quote flag and no instruction clears it**: executing any other instruction —
NAME.FLUSH, NAME.POP, a DEFINE, anything — leaves a pending quote pending, so the flag reaches "exactly the
next encountered name" -/
theorem quote_flag_only_quote (ρ : Oracle) (i : Instr) (s : State) (h : i ≠ .name .quote) :
    (semFull ρ i s).quote = s.quote :=
  C10.frame ρ i s .quote (quote_notin_footprint i h)

/-- a pending quote survives any number of steps that do not encounter a name or NAME.QUOTE: program prefix of
literals, lists and instructions -/
theorem quote_survives_instr (ρ : Oracle) (i : Instr) (s : State) (e : List Item) (h : s.exec = .instr i :: e)
    (hi : i ≠ .name .quote) : (stepFull ρ s).2.quote = s.quote := by
  simp only [stepFull, step, h]
  exact quote_flag_only_quote ρ i _ hi



end Pushr.C07
