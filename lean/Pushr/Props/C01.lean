import Pushr.Risky
import Pushr.Props.C09
import Pushr.Props.C08
import Pushr.Props.C10
/-! # C01 — any Push program executes without crashing the host

The interpreter model (`step`, `run`, `semFull`) is built from total functions, so "returns
normally" is not a statement about it; the content of C01 is that every place where the Rust code
indexes, slices, divides, asserts or samples a range is guarded. Those places are modelled with
explicit panics (`Pushr.Risky`, `Pushr.PStack` for the stack container, `Pushr.Ring` for the ring
buffer) and proved never to fail and to equal the total definitions — for all operands. Together
with the refinements of C16 (every `PushStack` method) and C17 (every `PushBuffer` method) this
covers every panic site listed in the property's anchors. -/
namespace Pushr.C01
open Pushr Pushr.Risky

variable {α : Type}

theorem clampU_lt (len : Nat) (i : Int32) (h : 0 < len) : clampIdx len i < len := by
  unfold clampIdx; omega

/-- vector GET never indexes out of bounds, whatever the index operand -/
theorem vecGet0_ok (v : List α) (i : Int32) : vecGet0 v i = .ok (v[clampIdx v.length i]?) ∨
    (v = [] ∧ vecGet0 v i = .ok none) := by
  unfold vecGet0
  by_cases h : v.length > 0
  · left
    have hlt := clampU_lt v.length i h
    simp only [h, if_true, RVec.idx]
    rw [List.getElem?_eq_getElem hlt]; rfl
  · right
    have : v = [] := by cases v <;> simp_all
    simp [this]

/-- vector SET never indexes out of bounds and equals the total `vecSetAt` -/
theorem vecSet0_ok (v : List α) (i : Int32) (x : α) : vecSet0 v i x = .ok (vecSetAt v i x) := by
  unfold vecSet0 vecSetAt
  by_cases h : v.length > 0
  · have hlt := clampU_lt v.length i h
    have hne : v.isEmpty = false := by cases v <;> simp_all
    simp only [h, if_true, RVec.set, vecIdx, hne, Bool.false_eq_true, if_false]
    rw [if_pos hlt]
  · have : v = [] := by cases v <;> simp_all
    simp [this]

/-- one iteration of the element-wise loop never fails (for `i` inside the top vector) and is the
total step of `Vector.lean` -/
theorem overlapStep0_ok (op : α → α → α) (off : Int) (top acc : List α) (i : Nat) (t : α) (hi : top[i]? = some t) :
    overlapStep0 op off top acc i = .ok (overlapStep op off acc (t, i)) := by
  unfold overlapStep0 overlapStep
  by_cases hb : (i : Int) + off < 0 ∨ (i : Int) + off ≥ acc.length
  · simp only [hb, if_true]
    rcases hb with hb | hb
    · have : ¬ (0 : Int) ≤ (i : Int) + off := by omega
      simp [this]
    · by_cases h0 : (0 : Int) ≤ (i : Int) + off
      · have : acc[((i : Int) + off).toNat]? = none := List.getElem?_eq_none (by omega)
        simp [h0, this]
      · simp [h0]
  · have h0 : (0 : Int) ≤ (i : Int) + off := by omega
    have hlt : ((i : Int) + off).toNat < acc.length := by omega
    simp only [hb, if_false, RVec.idx, hi, bind, Except.bind, List.getElem?_eq_getElem hlt, RVec.set, hlt, if_true, h0]

/-- the whole element-wise loop: no index panic for any pair of lengths and any offset, and the
result is `overlapLoop`, hence (C09) the README rule -/
theorem overlapLoop0_ok (op : α → α → α) (off : Int) (top : List α) :
    ∀ (k : Nat) (acc : List α),
      overlapLoop0 op off top ((List.range' k (top.length - k))) acc
        = .ok (((top.drop k).zipIdx k).foldl (overlapStep op off) acc) := by
  intro k
  induction hn : top.length - k generalizing k with
  | zero =>
    intro acc
    have : top.drop k = [] := List.drop_eq_nil_of_le (by omega)
    simp [overlapLoop0, this]
  | succ n ih =>
    intro acc
    have hk : k < top.length := by omega
    have hd : top.drop k = top[k] :: top.drop (k + 1) := List.drop_eq_getElem_cons hk
    rw [List.range'_succ, overlapLoop0, overlapStep0_ok op off top acc k top[k] (List.getElem?_eq_getElem hk)]
    simp only [bind, Except.bind]
    rw [ih (k + 1) (by omega), hd, List.zipIdx_cons, List.foldl_cons]

/-- ROTATE cannot trip the `rotate_left` assertion nor underflow `n - 1` -/
theorem rotate0_ok (v : List α) (x : α) : rotate0 v x = .ok (rotateIn v x) := by
  unfold rotate0 rotateIn
  cases v with
  | nil => simp
  | cons a t =>
    have h0 : (a :: t).length > 0 := by simp
    have h1 : ¬ 1 > (a :: t).length := by simp
    have hr : List.drop 1 (a :: t) ++ List.take 1 (a :: t) = t ++ [a] := by simp
    rw [if_pos h0, if_neg h1]
    simp only [hr, List.length_append, List.length_singleton, Usize.sub, bind, Except.bind]
    have hle : 1 ≤ t.length + 1 := by omega
    rw [if_pos hle]
    simp only [RVec.set, List.length_append, List.length_singleton]
    have hl : t.length + 1 - 1 < t.length + 1 := by omega
    rw [if_pos hl]
    congr 1
    rw [show t.length + 1 - 1 = t.length by omega, List.set_append_right _ _ (Nat.le_refl _)]
    simp

/-- CODE.NTH cannot underflow `idx - 1` -/
theorem nth0_ok (xs : List Item) (idx : Nat) :
    nth0 xs idx = .ok (if idx > 0 then xs[idx - 1]? else none) := by
  unfold nth0
  by_cases h : idx > 0
  · have : 1 ≤ idx := h
    simp [h, Usize.sub, this, bind, Except.bind]
  · simp [h]

/-- the guarded integer division can never see a zero divisor, and `MIN / -1` wraps -/
theorem intDiv0_ok (a b : Int32) : intDiv0 a b = .ok (if b != 0 then some (a / b) else none) := by
  unfold intDiv0 div0
  by_cases h : b = 0
  · simp [h]
  · have : (b == 0) = false := by simpa using h
    simp [h, this, bind, Except.bind]

/-- CODE.EXTRACT / NTH normalise with a divisor that is never zero: every item has at least one point -/
theorem remEuclid0_ok (i : Int32) (t : Item) : remEuclid0 i t.size = .ok (remEuclid i t.size) := by
  unfold remEuclid0
  have := C08.size_pos t
  have h : (t.size == 0) = false := by simp; omega
  simp [h]

theorem remEuclid0_shallow_ok (i : Int32) (t : Item) : remEuclid0 i t.shallowSize = .ok (remEuclid i t.shallowSize) := by
  unfold remEuclid0
  have h : (t.shallowSize == 0) = false := by cases t <;> simp [Item.shallowSize]
  simp [h]

/-- INTEGER.RAND / FLOAT.RAND / INTVECTOR.RAND sample only from non-empty ranges -/
theorem int_rand_range_ok (s : State) (h : s.cfg.minRandInt < s.cfg.maxRandInt) :
    genRange0 s.cfg.minRandInt.toInt s.cfg.maxRandInt.toInt = .ok () := by
  simp [genRange0, Int32.lt_iff_toInt_lt.mp h]

/-- `random_code` samples its size from `1..max_points` only when that range is non-empty
(the repaired guard `max_points > 1`) -/
theorem random_code_range_ok (m : Nat) (h : m > 1) : genRange0 1 m = .ok () := by
  simp [genRange0]; omega

/-! ## the interpreter as a whole -/

/-- `step` and `run` are total functions of the state (no partial operation remains in the model
after the repairs); the outcome of `run` is always one of the four documented ones and the step
count is bounded (C02 / C10) -/
theorem run_total (ρ : Oracle) (timeout : Nat → Bool) (s : State) :
    ∃ o k s', runFull ρ timeout s = (o, k, s') ∧ (k : Int) ≤ max (s.cfg.evalPushLimit.toInt + 1) 0 :=
  ⟨_, _, _, rfl, C10.run_steps_le_full ρ timeout s⟩

/-- an instruction that cannot apply completes without effect beyond consuming operands (C10) -/
theorem inapplicable_is_harmless (ρ : Oracle) (i : Instr) (s : State) (h : C10.operandsMet i s = false) :
    C10.PopsOnly s (semFull ρ i s) := C10.unfired_only_pops ρ i s h

/-- unknown instruction names are ignored -/
theorem unknown_ignored (ρ : Oracle) (n : String) (s : State) : semFull ρ (.unknown n) s = s := rfl

/-! non-vacuity: mismatched lengths and an extreme offset -/
example : overlapLoop0 (· + ·) (-2147483648) [1, 2, 3] [0, 1, 2] ([10] : List Int) = .ok [10] := by rfl
example : rotate0 ([] : List Nat) 7 = .ok [] := by rfl

end Pushr.C01
