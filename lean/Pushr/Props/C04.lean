import Pushr.Spec.C04
import Pushr.Interp
import Pushr.Lemmas.I32
/-! # C04 — scalar instructions compute what their documentation says

`scalar_sound`: for every instruction of the reference table and every state on which the row
applies (operands present), the model's result is exactly the state the row prescribes — the
documented operands consumed (second item = left operand), the documented result on the
documented stack, nothing else touched; where the mathematical integer result is not
representable the row accepts any value. `zero_divisor_no_result` and `profile_indep` are
corollaries of the table. -/
namespace Pushr.C04
open Pushr

/-- an integer result: whether or not the mathematical value fits, the row is met by the wrapped value -/
theorem applyRes_int (s1 : State) (v : Int) (x : Int32) (h : Int32.ofInt v = x) :
    applyRes (.int (inI32 v)) s1 x = { s1 with int := x :: s1.int } := by
  unfold inI32 applyRes
  split <;> simp_all

section
variable (ρ : Oracle)

theorem bool_sound (o : BoolOp) (s : State) (r : Row) (hk : deviates (.boolean o) = false)
    (h : row (.boolean o) s = some r) :
    semBool ρ o s = apply r s (pushedInt r s (semBool ρ o s)) := by
  cases o <;> (try (simp [deviates] at hk; done)) <;> simp only [row] at h <;> (try (cases h; done)) <;> split at h <;> cases h <;>
    simp_all [semBool, bin2, apply, applyRes, popped, Lens.bool, pushBool, L.i32_beq_zero]

theorem int_sound (o : IntOp) (s : State) (r : Row) (hk : deviates (.integer o) = false)
    (h : row (.integer o) s = some r) :
    semInt ρ o s = apply r s (pushedInt r s (semInt ρ o s)) := by
  cases o <;> (try (simp [deviates] at hk; done)) <;> simp only [row] at h <;> (try (cases h; done)) <;> split at h <;> cases h <;>
    simp_all [semInt, bin2, apply, popped, Lens.int, pushInt, pushBool, pushedInt, i32Abs, tdiv, tmod,
      applyRes_int, L.ofInt_tdiv', L.ofInt_tmod', L.ofInt_natAbs', L.i32_lt_toInt, L.i32_beq_toInt,
      L.i32_bne_zero]
  all_goals first
    | (simp [applyRes, L.ofInt_max', L.ofInt_min']; done)
    | (rename_i b _ _; cases b <;> simp [applyRes] <;> rfl; done)
    | (split <;> (try simp_all [applyRes_int, L.ofInt_tdiv', L.ofInt_tmod', Int32.ofInt_toInt]) <;>
        (try simp_all [applyRes]))

theorem float_sound (o : FloatOp) (s : State) (r : Row) (hk : deviates (.float o) = false)
    (h : row (.float o) s = some r) :
    semFloat ρ o s = apply r s (pushedInt r s (semFloat ρ o s)) := by
  cases o <;> (try (simp [deviates] at hk; done)) <;> simp only [row] at h <;> (try (cases h; done)) <;> split at h <;> cases h <;>
    simp_all [semFloat, bin2, un1, apply, applyRes, popped, Lens.float, pushFloat, pushBool, pushedInt]
  all_goals (split <;> simp_all [bne])

theorem name_sound (o : NameOp) (s : State) (r : Row) (h : row (.name o) s = some r) :
    semName ρ o s = apply r s (pushedInt r s (semName ρ o s)) := by
  cases o <;> simp only [row] at h <;> (try (cases h; done)) <;> split at h <;> cases h <;>
    simp_all [semName, bin2, apply, applyRes, popped, Lens.name, pushName, pushBool, pushedInt]

theorem code_sound (rc : Oracle → State → Nat → Option (Item × Nat)) (o : CodeOp) (s : State) (r : Row)
    (h : row (.code o) s = some r) :
    semCode rc ρ o s = apply r s (pushedInt r s (semCode rc ρ o s)) := by
  cases o <;> simp only [row] at h <;> (try (cases h; done)) <;> split at h <;> cases h <;>
    simp_all [semCode, apply, applyRes, popped, pushCode, pushedInt]

theorem id_sound (t : Ty) (s : State) (r : Row) (h : row (.stk t .id) s = some r) :
    semStk t .id s = apply r s (pushedInt r s (semStk t .id s)) := by
  simp only [row] at h; cases h
  cases t <;> simp [semStk, stkOp, apply, applyRes, popped, pushInt, Int32.ofInt_toInt]

end

/-- **C04 (full statement).** Every instruction of the reference table, on every state where its
operands are present, yields exactly the state the table prescribes. On the pinned tree this is
FALSE for the four rows of `deviates` (see `k03_frominteger_violates`, `k04_mod_violates`); they are
pinned by unit tests and recorded as known findings K03 / K04. -/
def ScalarSound (X : Ext) (ρ : Oracle) (i : Instr) : Prop :=
  ∀ (s : State) (r : Row), row i s = some r → sem X ρ i s = apply r s (pushedInt r s (sem X ρ i s))

/-- **C04, proved part**: the full statement for every table row outside K03 / K04 (for every
oracle and every extension of the instruction set). -/
theorem scalar_sound_partial (X : Ext) (ρ : Oracle) (i : Instr) (hk : deviates i = false) :
    ScalarSound X ρ i := by
  intro s r h
  cases i with
  | boolean o => exact bool_sound ρ o s r hk h
  | integer o => exact int_sound ρ o s r hk h
  | float o => exact float_sound ρ o s r hk h
  | name o => exact name_sound ρ o s r h
  | code o => exact code_sound ρ X.randCode o s r h
  | stk t o =>
    cases o <;> first | exact id_sound t s r h | (simp [row] at h)
  | _ => simp [row] at h

/-- a zero divisor yields no result: the operands are consumed, nothing is pushed -/
theorem zero_divisor_no_result (X : Ext) (ρ : Oracle) (s : State) (a : Int32) (l : List Int32)
    (h : s.int = 0 :: a :: l) :
    sem X ρ (.integer .div) s = { s with int := l } ∧ sem X ρ (.integer .mod) s = { s with int := l } := by
  constructor <;> simp [sem, semInt, bin2, Lens.int, h]

/-- the second item is the left operand -/
theorem second_is_left (X : Ext) (ρ : Oracle) (s : State) (a b : Int32) (l : List Int32)
    (h : s.int = b :: a :: l) :
    sem X ρ (.integer .sub) s = { s with int := (a - b) :: l } := by
  simp [sem, semInt, bin2, Lens.int, pushInt, h]

/-- the model has no build-profile parameter: after the repairs every arithmetic primitive it uses
is the wrapping one, so the outcome cannot depend on overflow checking. Stated as: the integer
result always is the wrapped mathematical value. -/
theorem int_add_wraps (X : Ext) (ρ : Oracle) (s : State) (a b : Int32) (l : List Int32)
    (h : s.int = b :: a :: l) :
    sem X ρ (.integer .add) s = { s with int := Int32.ofInt (a.toInt + b.toInt) :: l } := by
  simp [sem, semInt, bin2, Lens.int, pushInt, h]

/-- on the four deviating rows the model (= the code as it is) follows `deviantRow` -/
theorem deviant_rows (X : Ext) (ρ : Oracle) (i : Instr) (s : State) (r : Row) (h : deviantRow i s = some r) :
    sem X ρ i s = apply r s (pushedInt r s (sem X ρ i s)) := by
  cases i with
  | boolean o =>
    cases o <;> simp only [deviantRow] at h <;> (try (cases h; done)) <;> split at h <;> cases h <;>
      simp_all [sem, semBool, apply, applyRes, popped, pushBool, L.i32_beq_zero]
  | integer o =>
    cases o <;> simp only [deviantRow] at h <;> (try (cases h; done)) <;> split at h <;> cases h <;>
      simp_all [sem, semInt, bin2, apply, popped, Lens.int, pushInt, pushedInt, tmod, L.i32_bne_zero]
    split <;> (try simp_all [applyRes_int, L.ofInt_tmod']) <;> (try simp_all [applyRes])
  | float o =>
    cases o <;> simp only [deviantRow] at h <;> (try (cases h; done)) <;> split at h <;> cases h <;>
      simp_all [sem, semFloat, bin2, apply, applyRes, popped, Lens.float, pushFloat, pushedInt]
    split <;> simp_all [bne]
  | _ => simp [deviantRow] at h

/-- K03: the full statement fails for BOOLEAN.FROMINTEGER (TRUE is pushed for zero) -/
theorem k03_frominteger_violates (X : Ext) (ρ : Oracle) : ¬ ScalarSound X ρ (.boolean .frominteger) := by
  intro h
  have := h { (default : State) with int := [0] } _ rfl
  have hb := congrArg State.bool this
  simp [sem, semBool, apply, applyRes, popped, pushBool] at hb

/-- K04: the full statement fails for INTEGER.% (`-13 % 10` is `-3`, the documented floored modulus is `7`) -/
theorem k04_mod_violates (X : Ext) (ρ : Oracle) : ¬ ScalarSound X ρ (.integer .mod) := by
  intro h
  have := h { (default : State) with int := [10, -13] } _ rfl
  have hb := congrArg State.int this
  revert hb
  simp [sem, semInt, bin2, Lens.int, apply, applyRes, popped, pushInt, inI32]

/-! non-vacuity: a concrete state meets the hypothesis of `scalar_sound_partial` -/
example : ∃ r, row (.integer .add) { (default : State) with int := [1, 2] } = some r := ⟨_, rfl⟩

end Pushr.C04
