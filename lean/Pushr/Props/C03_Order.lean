import Pushr.Props.C03
/-! # C03 (supplement): the ORDER of the lexical rules, for any set of registered instruction names

With the shipped instruction set no token falls under two rules. A host may register more names
(`InstructionSet::add`); then the order decides, and it is: vector literal, parenthesis, registered instruction,
integer, float, TRUE / FALSE, name. `classify` takes the registered-name predicate as a parameter. -/
open Pushr Pushr.Parse
namespace Pushr.C03

/-- not a vector-literal prefix and not a parenthesis -/
def Plain (tok : String) : Prop :=
  startsWith tok.toList "INT[".toList = false ∧ startsWith tok.toList "FLOAT[".toList = false ∧
  startsWith tok.toList "BOOL[".toList = false ∧ tok ≠ "(" ∧ tok ≠ ")"

/-- a registered name is an instruction whatever else it looks like (`7`, `2.5`, `inf`, `TRUE` ...) -/
theorem classify_registered (isI : String → Bool) (tok : String) (hp : Plain tok) (h : isI tok = true) :
    classify isI tok = .atom (.instr (Instr.ofName tok)) := by
  obtain ⟨h1, h2, h3, h4, h5⟩ := hp
  simp only [classify, h1, h2, h3, h4, h5, h, if_false, if_true, Bool.false_eq_true, beq_iff_eq]

/-- an unregistered token that reads as an integer is an integer -/
theorem classify_int (isI : String → Bool) (tok : String) (hp : Plain tok) (h : isI tok = false) (i : Int32)
    (hi : parseI32 tok.toList = some i) : classify isI tok = .atom (.lit (.int i)) := by
  obtain ⟨h1, h2, h3, h4, h5⟩ := hp
  simp only [classify, h1, h2, h3, h4, h5, h, hi, if_false, Bool.false_eq_true, beq_iff_eq]

/-- an unregistered token that reads as a float but not as an integer is a float -/
theorem classify_float (isI : String → Bool) (tok : String) (hp : Plain tok) (h : isI tok = false)
    (hi : parseI32 tok.toList = none) (f : Float32) (hf : parseF32 tok.toList = some f) :
    classify isI tok = .atom (.lit (.float f)) := by
  obtain ⟨h1, h2, h3, h4, h5⟩ := hp
  simp only [classify, h1, h2, h3, h4, h5, h, hi, hf, if_false, Bool.false_eq_true, beq_iff_eq]

/-- a vector-literal prefix wins over a registration: `INT[1]` is never an instruction -/
theorem classify_vector_first (isI : String → Bool) (tok : String)
    (h : startsWith tok.toList "INT[".toList = true) :
    classify isI tok = .dropped ∨ ∃ v, classify isI tok = .atom (.lit (.ivec v)) := by
  simp only [classify, h, if_true]
  split
  · exact .inl rfl
  · split
    · exact .inr ⟨_, rfl⟩
    · exact .inl rfl

/-- non-vacuity: a host-registered instruction called `7`; the same token under the shipped set -/
example : classify (fun t => t == "7") "7" = .atom (.instr (Instr.ofName "7")) :=
  classify_registered _ "7" (by unfold Plain; decide) (by decide)
example : classify (fun _ => false) "7" = .atom (.lit (.int 7)) :=
  classify_int _ "7" (by unfold Plain; decide) rfl 7 (by decide)

end Pushr.C03
