import Pushr.Props.C11
import Pushr.Spec.C15
/-! # C11 (supplement) — finding K07: a name built by NAME.CAT does not survive print → parse

The full statement of C11 speaks of every program built from lists, integers, booleans, NAMES and registered
instruction names. `Props/C11.lean` proves it under the per-leaf hypothesis that a name prints as one word and
classifies back to itself — true of every name the parser can produce. NAME.CAT, however, joins two names with a
blank (pinned by the unit test `name_cat_appends_second_item`), CODE.FROMNAME turns the result into a code item, and
that item prints as two words. The negation is proved here on the witness, which is also reachable by a five-token
program. -/
namespace Pushr.C11
open Pushr Pushr.Parse

set_option maxRecDepth 20000 in
/-- the printed form of the one-name program `al pha` parses back to TWO names -/
theorem k07_cat_name_violates :
    (parseProgram Instr.isName [] (Item.ident "al pha").show).length = 2 := by decide

/-- the witness is reachable: `( al pha NAME.CAT CODE.FROMNAME )` leaves exactly that name on the CODE stack -/
theorem k07_reachable :
    let s : State := { Pushr.C15.emptyState with
      exec := [.list [.ident "al", .ident "pha", .instr (.name .cat), .instr (.code .fromname)]] }
    ((stepN fullExt (fun _ => 0) 5 s).code.map Item.show) = ["al pha"] ∧
    (stepN fullExt (fun _ => 0) 5 s).code.length = 1 := by decide

end Pushr.C11
