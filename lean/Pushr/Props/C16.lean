import Pushr.StackImpl
import Pushr.StackSpec
import Pushr.Lemmas.ListRev
/-! # C16 — the generic stack container behaves like a plain sequence

Refinement: for every public method `m` of `PushStack` (Layer 0: a Vec with the top at the end and
`size - (i + 1)` index arithmetic that can panic), `m` never panics and commutes with the
abstraction `abs = reverse` to the corresponding operation of a plain sequence whose position 0 is
the top (Layer 1, `Pushr.Seq`). Stated for every element type, every stack and every argument. -/
namespace Pushr.C16
open Pushr

variable {α : Type}

/-- abstraction map: the stack as a sequence with position 0 at the top -/
def abs (s : PStack α) : List α := s.elements.reverse

theorem abs_length (s : PStack α) : (abs s).length = s.size := by simp [abs, PStack.size]

/-- the index translation used by every accessor is exactly "position `i` from the top" -/
theorem slot_spec (s : PStack α) (i : Nat) (h : i < s.size) :
    s.slot i = .ok (s.size - (i + 1)) ∧ s.elements[s.size - (i + 1)]? = (abs s)[i]? := by
  constructor
  · simp [PStack.slot, Usize.sub]; omega
  · simp only [abs, PStack.size] at *
    rw [List.getElem?_reverse h]
    congr 1; omega

theorem size_refines (s : PStack α) : s.size = (abs s).length := (abs_length s).symm

theorem get_refines (s : PStack α) (i : Nat) : s.get i = .ok (Seq.get (abs s) i) := by
  unfold PStack.get Seq.get
  by_cases h : i < s.size
  · obtain ⟨h1, h2⟩ := slot_spec s i h
    have hlt : s.size - (i + 1) < s.elements.length := by simp only [PStack.size] at h ⊢; omega
    simp only [h, if_true, h1, bind, Except.bind, RVec.idx, ← h2, List.getElem?_eq_getElem hlt]
  · have : (abs s)[i]? = none := by
      apply List.getElem?_eq_none; rw [abs_length]; omega
    simp [h, this]

theorem copy_refines (s : PStack α) (i : Nat) : s.copy i = .ok (Seq.get (abs s) i) := by
  unfold PStack.copy Seq.get
  by_cases h0 : s.size = 0
  · have : (abs s)[i]? = none := by
      apply List.getElem?_eq_none; rw [abs_length]; omega
    simp [h0, this]
  · have hs : Usize.sub s.size 1 = .ok (s.size - 1) := by simp [Usize.sub]; omega
    simp only [h0, beq_iff_eq, if_false, hs, bind, Except.bind]
    by_cases h : i > s.size - 1
    · have : (abs s)[i]? = none := by
        apply List.getElem?_eq_none; rw [abs_length]; omega
      simp [h, this]
    · have hi : i < s.size := by omega
      obtain ⟨h1, h2⟩ := slot_spec s i hi
      have hlt : s.size - (i + 1) < s.elements.length := by simp only [PStack.size] at hi ⊢; omega
      simp only [h, if_false, h1, RVec.idx, ← h2, List.getElem?_eq_getElem hlt]

/-- out-of-range positions are reported as absent and never fail -/
theorem out_of_range_is_none (s : PStack α) (i : Nat) (h : s.size ≤ i) :
    s.get i = .ok none ∧ s.copy i = .ok none := by
  have : (abs s)[i]? = none := by apply List.getElem?_eq_none; rw [abs_length]; omega
  rw [get_refines, copy_refines]; simp [Seq.get, this]

theorem push_refines (s : PStack α) (x : α) : abs (s.push x) = Seq.push (abs s) x := by
  simp [abs, PStack.push, Seq.push]

theorem pushFront_refines (s : PStack α) (x : α) :
    (s.pushFront x).map abs = .ok (Seq.pushFront (abs s) x) := by
  simp [PStack.pushFront, RVec.insert, bind, Except.bind, Except.map, abs, Seq.pushFront]

theorem pop_refines (s : PStack α) :
    (s.pop).1 = (Seq.pop (abs s)).1 ∧ abs (s.pop).2 = (Seq.pop (abs s)).2 := by
  unfold PStack.pop abs
  rcases List.eq_nil_or_concat s.elements with h | ⟨l, x, h⟩
  · simp [h, Seq.pop]
  · simp [h, Seq.pop]

theorem popFront_refines (s : PStack α) :
    (s.popFront).map (fun r => (r.1, abs r.2)) = .ok (Seq.popFront (abs s)) := by
  unfold PStack.popFront abs Seq.popFront
  cases h : s.elements with
  | nil => simp [Except.map, h]
  | cons x t =>
    simp [RVec.remove, bind, Except.bind, Except.map, List.getLast?_reverse]

theorem pushVec_refines (s : PStack α) (v : List α) : abs (s.pushVec v) = Seq.pushVec (abs s) v := by
  simp [abs, PStack.pushVec, Seq.pushVec]

theorem reverse_refines (s : PStack α) : abs s.reverse = Seq.reverse (abs s) := by
  simp [abs, PStack.reverse, Seq.reverse]

theorem flush_refines (s : PStack α) : abs s.flush = Seq.flush (abs s) := by
  simp [abs, PStack.flush, Seq.flush]

theorem bottom_refines (s : PStack α) : s.bottom = Seq.bottom (abs s) := by
  unfold PStack.bottom Seq.bottom abs PStack.size
  cases h : s.elements with
  | nil => simp
  | cons x t => simp [List.getLast?_reverse]

theorem lastEq_refines (eq : α → α → Bool) (s : PStack α) (x : α) :
    s.lastEq eq x = Seq.lastEq eq (abs s) x := by
  unfold PStack.lastEq Seq.lastEq abs
  rcases List.eq_nil_or_concat s.elements with h | ⟨l, y, h⟩
  · simp [h]
  · simp [h]

/-- printing lists the items top first -/
theorem to_string_top_first (sh : α → String) (s : PStack α) :
    s.revStrings sh = Seq.strings sh (abs s) := by
  simp [PStack.revStrings, Seq.strings, abs]

theorem equalAt_refines (sh : α → String) (s : PStack α) (i : Nat) (el : α) :
    s.equalAt sh i el = .ok (Seq.equalAt sh (abs s) i el) := by
  unfold PStack.equalAt Seq.equalAt
  by_cases h : i ≥ s.size
  · have : (abs s)[i]? = none := by apply List.getElem?_eq_none; rw [abs_length]; omega
    simp [h, this]
  · have hi : i < s.size := by omega
    obtain ⟨h1, h2⟩ := slot_spec s i hi
    have hlt : s.size - (i + 1) < s.elements.length := by simp only [PStack.size] at hi ⊢; omega
    simp only [h, if_false, h1, bind, Except.bind, RVec.idx, ← h2, List.getElem?_eq_getElem hlt]


theorem remove_refines (s : PStack α) (i : Nat) :
    (s.remove i).map abs = .ok (Seq.remove (abs s) i) := by
  unfold PStack.remove Seq.remove
  by_cases h : i < s.size
  · obtain ⟨h1, _⟩ := slot_spec s i h
    have hlt : s.size - (i + 1) < s.elements.length := by simp only [PStack.size] at h ⊢; omega
    simp only [h, if_true, h1, bind, Except.bind, RVec.remove, List.getElem?_eq_getElem hlt,
      Except.map, abs]
    rw [L.reverse_eraseIdx _ _ hlt]
    congr 2; simp only [PStack.size] at h ⊢; omega
  · have : (abs s).eraseIdx i = abs s := by
      apply List.eraseIdx_of_length_le; rw [abs_length]; omega
    simp [h, Except.map, this]

/-- `replace` reports the offset past the end (`i - size + 1`) instead of failing -/
theorem replace_refines (s : PStack α) (i : Nat) (x : α) :
    (s.replace i x).map (fun r => (r.1, abs r.2)) = .ok (Seq.replace (abs s) i x) := by
  unfold PStack.replace Seq.replace
  rw [abs_length]
  by_cases h : i < s.size
  · obtain ⟨h1, _⟩ := slot_spec s i h
    have hlt : s.size - (i + 1) < s.elements.length := by simp only [PStack.size] at h ⊢; omega
    simp only [h, if_true, h1, bind, Except.bind, RVec.set, hlt, Except.map, abs]
    rw [L.reverse_set _ _ _ hlt]
    congr 3; simp only [PStack.size] at h ⊢; omega
  · simp [h, Except.map]

theorem yank_refines (s : PStack α) (i : Nat) :
    (s.yank i).map abs = .ok (Seq.yank (abs s) i) := by
  unfold PStack.yank Seq.yank
  by_cases h : i > 0 ∧ i < s.size
  · obtain ⟨h0, hi⟩ := h
    obtain ⟨h1, h2⟩ := slot_spec s i hi
    have hlt : s.size - (i + 1) < s.elements.length := by simp only [PStack.size] at hi ⊢; omega
    have hne : ¬ i = 0 := by omega
    simp only [h0, hi, and_self, if_true, h1, bind, Except.bind, RVec.remove, Except.map]
    rw [← h2, List.getElem?_eq_getElem hlt]
    simp only [hne, if_false, abs, List.reverse_append, List.reverse_cons, List.reverse_nil,
      List.nil_append, List.singleton_append]
    rw [L.reverse_eraseIdx _ _ hlt]
    congr 3; simp only [PStack.size] at hi ⊢; omega
  · simp only [h, if_false, Except.map]
    cases hg : (abs s)[i]? with
    | none => rfl
    | some x =>
      have hi : i < s.size := by
        rw [← abs_length]; exact (List.getElem?_eq_some_iff.mp hg).1
      have : i = 0 := by omega
      simp [this]

theorem shove_refines (s : PStack α) (i : Nat) :
    (s.shove i).map abs = .ok (Seq.shove (abs s) i) := by
  unfold PStack.shove Seq.shove
  rcases List.eq_nil_or_concat s.elements with h | ⟨l, x, h⟩
  · simp [h, abs, PStack.size, Except.map]
  · rw [List.concat_eq_append] at h
    have habs : abs s = x :: l.reverse := by simp [abs, h]
    have hsz : s.size = l.length + 1 := by simp [PStack.size, h]
    rw [habs]
    by_cases hc : i > 0 ∧ i < s.size
    · have hc' : 0 < i ∧ i < (x :: l.reverse).length := by simp; omega
      have hk : Usize.sub l.length i = .ok (l.length - i) := by simp [Usize.sub]; omega
      have hl : (l ++ [x]).getLast? = some x := by simp
      simp only [hc, and_self, if_true, hc', h, hl, List.dropLast_concat, hk, bind,
        Except.bind, RVec.insert, show l.length - i ≤ l.length by omega, Except.map, abs]
      rw [List.reverse_append, List.reverse_cons, List.reverse_drop, List.reverse_take,
        List.append_assoc]
      simp only [List.singleton_append]
      congr 2
      · congr 1; omega
      · congr 2; omega
    · have hc' : ¬ (0 < i ∧ i < (x :: l.reverse).length) := by simp; omega
      simp only [hc, if_false, hc', Except.map, habs]

theorem popVec_refines (s : PStack α) (n : Nat) :
    (s.popVec n).map (fun r => (r.1, abs r.2)) = .ok (Seq.popVec (abs s) n) := by
  unfold PStack.popVec Seq.popVec
  rw [abs_length, PStack.size]
  by_cases h : n > s.elements.length
  · simp [h, Except.map]
  · have hk : Usize.sub s.elements.length n = .ok (s.elements.length - n) := by
      simp [Usize.sub]; omega
    simp only [h, if_false, hk, bind, Except.bind, Except.map, abs]
    rw [List.take_reverse, List.reverse_reverse, List.reverse_take]
    congr 3
    omega

theorem copyVecLoop_spec (s : PStack α) (n : Nat) (hn : n ≤ s.size) :
    ∀ (k : Nat) (acc : List α), k ≤ n →
      s.copyVecLoop n k acc
        = .ok (acc.reverse ++ (s.elements.drop (s.size - n + (n - k))).take k) := by
  intro k
  induction k with
  | zero => intro acc _; simp [PStack.copyVecLoop]
  | succ k ih =>
    intro acc hk
    have hb : Usize.sub s.size n = .ok (s.size - n) := by simp [Usize.sub]; omega
    have hlt : s.size - n + (n - (k + 1)) < s.elements.length := by
      simp only [PStack.size] at hn ⊢; omega
    simp only [PStack.copyVecLoop, hb, bind, Except.bind, RVec.idx, List.getElem?_eq_getElem hlt]
    rw [ih _ (by omega)]
    congr 1
    rw [List.reverse_cons, List.append_assoc]
    congr 1
    rw [show s.size - n + (n - k) = (s.size - n + (n - (k + 1))) + 1 by omega]
    rw [List.singleton_append, ← List.take_succ_cons]
    congr 1
    exact (List.drop_eq_getElem_cons hlt).symm

theorem copyVec_refines (s : PStack α) (n : Nat) :
    s.copyVec n = .ok (Seq.copyVec (abs s) n) := by
  unfold PStack.copyVec Seq.copyVec
  rw [abs_length]
  by_cases h : n > s.size
  · simp [h]
  · simp only [h, if_false]
    rw [copyVecLoop_spec s n (by omega) n [] (Nat.le_refl n)]
    simp only [bind, Except.bind, List.reverse_nil, List.nil_append, Nat.sub_self, Nat.add_zero, abs]
    rw [List.take_reverse, List.reverse_reverse]
    congr 2
    apply List.take_of_length_le
    simp only [List.length_drop, PStack.size] at h ⊢; omega

/-! ## Non-vacuity: the statements are about real stacks -/
example : (⟨[1, 2, 3]⟩ : PStack Nat).yank 2 = .ok ⟨[2, 3, 1]⟩ := rfl
example : Seq.yank (abs (⟨[1, 2, 3]⟩ : PStack Nat)) 2 = [1, 3, 2] := by decide
example : (⟨[1, 2, 3]⟩ : PStack Nat).shove 2 = .ok ⟨[3, 1, 2]⟩ := rfl
example : (⟨[1, 2, 3]⟩ : PStack Nat).replace 5 9 = .ok (.error 3, ⟨[1, 2, 3]⟩) := rfl
example : (⟨[1, 2, 3]⟩ : PStack Nat).copyVec 2 = .ok (some [2, 3]) := rfl

end Pushr.C16
