import Pushr.Props.C19_Conserve
/-! # C19 (supplement) — the ADD → GET → execute round trip restores any number of items in their original order -/
namespace Pushr.C19
open Pushr

variable (X : Ext) (ρ : Oracle)

theorem execLits_ints (s : State) (xs : List Int32) :
    execLits s (xs.map Lit.int) = { s with int := xs.reverse ++ s.int } := by
  induction xs generalizing s with
  | nil => simp [execLits]
  | cons x xs ih => simp only [List.map_cons, execLits, pushLit, pushInt, ih]; simp

theorem execLits_bools (s : State) (xs : List Bool) :
    execLits s (xs.map Lit.bool) = { s with bool := xs.reverse ++ s.bool } := by
  induction xs generalizing s with
  | nil => simp [execLits]
  | cons x xs ih => simp only [List.map_cons, execLits, pushLit, pushBool, ih]; simp

theorem execLits_floats (s : State) (xs : List Float32) :
    execLits s (xs.map Lit.float) = { s with float := xs.reverse ++ s.float } := by
  induction xs generalizing s with
  | nil => simp [execLits]
  | cons x xs ih => simp only [List.map_cons, execLits, pushLit, pushFloat, ih]; simp

/-- loading `k` integers (ids `9 9 … 9`) takes the `k` top integers, top first -/
theorem loadFold_ints (k : Nat) (s : State) (acc : List Item) (xs rest : List Int32) (h : s.int = xs ++ rest)
    (hk : xs.length = k) :
    loadFold (List.replicate k 9) s acc = (acc ++ xs.map (fun x => Item.lit (.int x)), { s with int := rest }) := by
  induction k generalizing s acc xs with
  | zero =>
    have : xs = [] := List.eq_nil_of_length_eq_zero hk
    subst this
    simp only [List.nil_append] at h
    simp [loadFold, ← h]
  | succ k ih =>
    cases xs with
    | nil => simp at hk
    | cons x xs =>
      simp only [List.replicate_succ, loadFold]
      have hp : popById s 9 = some (.lit (.int x), { s with int := xs ++ rest }) := by
        simp [popById, h]
      rw [hp]
      have e := ih { s with int := xs ++ rest } (acc ++ [.lit (.int x)]) xs rfl (by simpa using hk)
      refine e.trans ?_
      simp

/-- **round trip for any number of integers**: the record LIST.ADD builds from the `k` top integers, once copied to
EXEC (LIST.GET) and executed, puts all `k` back on the INTEGER stack in their original order -/
theorem restore_order_ints (xs : List Int32) (E : List Item) (s : State) :
    stepN X ρ (1 + xs.length) { s with exec := .list (xs.map fun x => Item.lit (.int x)).reverse :: E }
      = { s with exec := E, int := xs ++ s.int } := by
  rw [C02.stepN_add]
  have h1 : stepN X ρ 1 { s with exec := .list (xs.map fun x => Item.lit (.int x)).reverse :: E }
      = { s with exec := (xs.reverse.map Lit.int).map Item.lit ++ E } := by
    simp [stepN, step, List.map_reverse]
  rw [h1]
  have h2 := exec_literals X ρ (xs.reverse.map Lit.int) E s
  simp only [List.length_map, List.length_reverse] at h2
  rw [h2, execLits_ints]
  simp

/-- LIST.ADD with the id vector `9 9 … 9` (k entries) builds exactly that record from the k top integers -/
theorem list_add_ints (s : State) (k : Nat) (l : List (List Int32)) (xs rest : List Int32)
    (hv : s.ivec = List.replicate k 9 :: l) (hi : s.int = xs ++ rest) (hk : xs.length = k) :
    semList .add s = { s with ivec := l, int := rest,
                              code := .list (xs.map fun x => Item.lit (.int x)).reverse :: s.code } := by
  rw [list_add_spec s _ l hv, loadFold_ints k { s with ivec := l } [] xs rest hi hk]
  simp [pushCode]

end Pushr.C19
