import Pushr.Props.C15
import Pushr.Props.C09
/-! # C15 (supplement) — the growth bound for the EXEC, INPUT/OUTPUT, DEFINE, LIST and vector families -/
namespace Pushr.C15
open Pushr Pushr.C09

theorem sumMap_drop_le {α : Type} (f : α → Nat) (l : List α) (k : Nat) : sumMap f (l.drop k) ≤ sumMap f l := by
  induction l generalizing k with
  | nil => simp [sumMap]
  | cons a t ih =>
    cases k with
    | zero => simp
    | succ k => have := ih k; simp [sumMap] at this ⊢; omega

/-- EXEC combinators: at most one copy of what EXEC already holds, plus the re-arming code -/
theorem exec_growth (o : ExecOp) (s : State) : weight (semExec o s) ≤ 2 * weight s + 4 := by
  cases o <;> simp only [semExec]
  case cmd =>
    split
    · omega
    · next n il hn =>
      split
      · split
        · have := sumMap_drop_le (fun n : String => 1 + n.length) s.name (n.toInt.toNat + 1)
          simp_all [weight, sumMap]; omega
        · simp_all [weight, sumMap]; omega
      · simp_all [weight, sumMap]; omega
  all_goals (repeat' split) <;> simp_all [weight, pushBool, sumMap, Item.size, Item.sizeL, instr] <;> omega

theorem sumMap_append {α : Type} (f : α → Nat) (a b : List α) : sumMap f (a ++ b) = sumMap f a + sumMap f b := by
  simp [sumMap]

theorem sumMap_tail_le2 {α : Type} (f : α → Nat) (l : List α) : sumMap f l.tail ≤ sumMap f l := by
  cases l <;> simp [sumMap]

theorem sumMap_head {α : Type} (f : α → Nat) (l : List α) (x : α) (h : l.head? = some x) : f x ≤ sumMap f l := by
  cases l with
  | nil => simp at h
  | cons a t => simp at h; subst h; simp [sumMap]

/-- INPUT / OUTPUT instructions: a copy of one queued message, or one element -/
theorem io_growth (o : IoOp) (s : State) : weight (semIo o s) ≤ 2 * weight s + 4 := by
  cases o <;> simp only [semIo]
  case available => rw [weight_pushBool]; omega
  case inDepth => rw [weight_pushInt]; omega
  case outDepth => rw [weight_pushInt]; omega
  case get =>
    (repeat' split) <;> simp_all [weight, pushBool, sumMap] <;> omega
  case next =>
    simp only [Buf.popOldest]
    split <;> simp_all [weight, sumMap] <;> omega
  case read =>
    split
    · next m hm =>
      have := sumMap_head (fun m : Msg => 2 + m.header.length + m.body.length) s.input.items m hm
      simp_all [weight, sumMap, Buf.oldest]; omega
    · omega
  case outFlush => simp [weight, sumMap, Buf.flush]; omega
  case outWrite =>
    split
    · omega
    · next body bl hb =>
      split
      · simp_all [weight, sumMap]; omega
      · next header il hh =>
        simp only [Buf.push]
        split <;> simp_all [weight, sumMap] <;> omega

theorem bindInsert_weight (k : String) (v : Item) (bs : List (String × Item)) :
    sumMap (fun p : String × Item => 1 + p.1.length + p.2.size) (bindInsert k v bs)
      ≤ sumMap (fun p : String × Item => 1 + p.1.length + p.2.size) bs + (1 + k.length + v.size) := by
  induction bs with
  | nil => simp [bindInsert, sumMap]
  | cons b bs ih =>
    obtain ⟨k', v'⟩ := b
    unfold bindInsert
    split
    · simp [sumMap]; omega
    · split
      · simp [sumMap]; omega
      · simp [sumMap] at ih ⊢; omega

/-- the eight DEFINE instructions move a value from its stack into the binding table: no growth beyond a constant -/
theorem define_growth (t : Ty) (s : State) : weight (semDefine t s) ≤ weight s + 2 := by
  cases t <;> simp only [semDefine]
  case name => omega
  all_goals
    unfold defineWith
    split
    · omega
    · next n ns hn =>
      simp only [popAs, Lens.bool, Lens.int, Lens.float, Lens.code, Lens.exec, Lens.bvec, Lens.ivec, Lens.fvec]
      split
      · next hv =>
        split at hv <;> simp_all [weight, sumMap]
        all_goals omega
      · next v s2 hv =>
        split at hv
        · simp at hv
        · next x l hx =>
          simp only [Option.some.injEq, Prod.mk.injEq] at hv
          obtain ⟨h1, rfl⟩ := hv
          have := bindInsert_weight n v s.bindings
          subst h1
          simp_all [weight, sumMap, Item.size]
          omega

/-! ## LIST records (the seven non-NEIGHBOR instructions) -/

/-- a popped item is no heavier as a code item than it was on its stack -/
theorem popById_weight (s s' : State) (sid : Int32) (it : Item) (h : popById s sid = some (it, s')) :
    weight s' + it.size ≤ weight s := by
  unfold popById at h
  repeat' split at h
  all_goals first
    | (simp only [Option.some.injEq, Prod.mk.injEq] at h
       obtain ⟨rfl, rfl⟩ := h
       simp_all [weight, sumMap, Item.size]
       omega)
    | (simp at h)

theorem loadFold_weight (ids : List Int32) (s : State) (acc : List Item) :
    weight (loadFold ids s acc).2 + Item.sizeL (loadFold ids s acc).1 ≤ weight s + Item.sizeL acc := by
  induction ids generalizing s acc with
  | nil => simp [loadFold]
  | cons sid ids ih =>
    unfold loadFold
    split
    · next it s' hp =>
      have h1 := ih s' (acc ++ [it])
      have h2 := popById_weight s s' sid it hp
      rw [sizeL_app] at h1
      simp only [Item.sizeL] at h1
      omega
    · exact ih s acc

theorem sizeL_reverse (l : List Item) : Item.sizeL l.reverse = Item.sizeL l := by
  induction l with
  | nil => rfl
  | cons a t ih => simp [sizeL_app, Item.sizeL, ih]; omega

theorem loadItems_weight (s s' : State) (r : Item) (h : loadItems s = some (r, s')) : weight s' + r.size ≤ weight s + 1 := by
  unfold loadItems at h
  split at h
  · simp at h
  · next ids l hv =>
    simp only [Option.some.injEq, Prod.mk.injEq] at h
    obtain ⟨rfl, rfl⟩ := h
    have := loadFold_weight ids { s with ivec := l } []
    simp only [Item.size, sizeL_reverse]
    have hw : weight { s with ivec := l } + (1 + ids.length) = weight s := by simp [weight, sumMap, hv]; omega
    simp only [Item.sizeL] at this
    omega

theorem sumMap_eraseIdx_le {α : Type} (f : α → Nat) (l : List α) (k : Nat) : sumMap f (l.eraseIdx k) ≤ sumMap f l := by
  induction l generalizing k with
  | nil => simp [sumMap]
  | cons a t ih =>
    cases k with
    | zero => simp [sumMap]
    | succ k => have := ih k; simp [sumMap] at this ⊢; omega

theorem sumMap_set_le {α : Type} (f : α → Nat) (l : List α) (k : Nat) (x : α) : sumMap f (l.set k x) ≤ sumMap f l + f x := by
  induction l generalizing k with
  | nil => simp [sumMap]
  | cons a t ih =>
    cases k with
    | zero => simp [sumMap]; omega
    | succ k => have := ih k; simp [sumMap] at this ⊢; omega

/-- LIST.ADD / GET / SET / REMOVE / BVAL / IVAL / FVAL: a record is built from items that leave their stacks, or
one record is copied: at most double plus a constant -/
theorem list_growth (o : ListOp) (s : State) (h : o ≠ .nbIds ∧ o ≠ .nbBvals ∧ o ≠ .nbIvals ∧ o ≠ .nbFvals) :
    weight (semList o s) ≤ 2 * weight s + 4 := by
  cases o <;> simp only [semList] <;> (try simp at h)
  case add =>
    split
    · next r s' hl =>
      have := loadItems_weight s s' r hl
      simp [weight, pushCode, sumMap] at this ⊢; omega
    · omega
  case remove =>
    split
    · omega
    · next i il hi =>
      have := sumMap_eraseIdx_le Item.size s.code (clampIdx s.code.length i)
      simp_all [weight, sumMap]; omega
  case get =>
    split
    · omega
    · next i il hi =>
      split
      · next xs hx =>
        have := sumMap_getElem_le Item.size s.code _ _ hx
        simp_all [weight, pushExec, sumMap]; omega
      · simp_all [weight, sumMap]; omega
  case bval => (repeat' split) <;> simp_all [weight, pushBool, sumMap] <;> omega
  case ival => (repeat' split) <;> simp_all [weight, pushInt, sumMap] <;> omega
  case fval => (repeat' split) <;> simp_all [weight, pushFloat, sumMap] <;> omega
  case set =>
    split
    · omega
    · next i il hi =>
      have hw : weight { s with int := il } + 1 = weight s := weight_popInt s i il hi
      split
      · omega
      · next r s2 hl =>
        have := loadItems_weight { s with int := il } s2 r hl
        split
        · omega
        · have h2 := sumMap_set_le Item.size s2.code (clampIdx s2.code.length i) r
          simp [weight, sumMap] at this h2 hw ⊢; omega


theorem notLoop_length (v : List Bool) (off : Int) : (notLoop v off).length = v.length := by
  simp [notLoop]

theorem sortBool_length (v : List Bool) : (sortBool v).length = v.length := (sortBool_perm v).length_eq
theorem sortI32_length (v : List Int32) : (sortI32 v).length = v.length := (sortI32_perm v).length_eq
theorem sortF32_length (v : List Float32) : (sortF32 v).length = v.length := (sortF32_perm v).length_eq

/-- BOOLVECTOR instructions other than ONES / ZEROS / RAND (K05): the result is never longer than an operand -/
theorem vecB_growth (br : Oracle → Nat → Int32 → Float32 → Option (List Bool × Nat)) (ρ : Oracle) (o : VecOp) (s : State)
    (h : o ≠ .ones ∧ o ≠ .zeros ∧ o ≠ .rand) : weight (semVecB br ρ o s) ≤ 2 * weight s + 4 := by
  cases o <;> simp only [semVecB] <;> (try simp at h) <;> (try omega)
  all_goals
    try simp only [elementwise, vecGet, modTop, Lens.bvec]
    (repeat' split) <;>
    simp_all [weight, sumMap, pushBool, pushInt, overlap_length, notLoop_length, vecSetAt_length, rotateIn_length,
      sortBool_length] <;> omega

theorem filterMap_zipIdx_le (v : List Bool) :
    (v.zipIdx.filterMap fun (p : Bool × Nat) => if p.1 then some (lenI32 p.2) else none).length ≤ v.length := by
  have := List.length_filterMap_le (fun (p : Bool × Nat) => if p.1 then some (lenI32 p.2) else none) v.zipIdx
  simpa using this

/-- INTVECTOR instructions other than ONES / ZEROS / RAND (K05) -/
theorem vecI_growth (ir : Oracle → Nat → Int32 → Int32 → Int32 → Option (List Int32 × Nat)) (ρ : Oracle) (o : VecOp)
    (s : State) (h : o ≠ .ones ∧ o ≠ .zeros ∧ o ≠ .rand) : weight (semVecI ir ρ o s) ≤ 2 * weight s + 4 := by
  cases o <;> simp only [semVecI] <;> (try simp at h) <;> (try omega)
  case boolindex =>
    split
    · omega
    · next v l hv =>
      have := filterMap_zipIdx_le v
      simp_all [weight, sumMap]; omega
  case fromint =>
    split
    · omega
    · next n il hi =>
      have h1 := List.length_take_le (clampIdx (il.length + 1) n) il
      have h2 : (il.drop (clampIdx (il.length + 1) n)).length ≤ il.length := by simp
      simp_all [weight, sumMap]; omega
  case remove =>
    split
    · omega
    · next v l hv =>
      split
      · omega
      · next x il hi =>
        have := List.length_filter_le (fun y => y != x) v
        simp_all [weight, sumMap]; omega
  case setInsert =>
    by_cases he : s.ivec.isEmpty = true
    · simp only [he, if_true]
      have : s.ivec = [] := by simpa using he
      (repeat' split) <;> simp_all [weight, sumMap] <;> omega
    · simp only [he, Bool.false_eq_true, if_false]
      (repeat' split) <;> simp_all [weight, sumMap] <;> omega
  all_goals
    try simp only [elementwise, vecGet, modTop, Lens.ivec]
    (repeat' split) <;>
    simp_all [weight, sumMap, pushBool, pushInt, pushFloat, overlap_length, vecSetAt_length, rotateIn_length,
      sortI32_length, Item.size, Item.sizeL] <;> omega

/-- FLOATVECTOR instructions other than ONES / ZEROS / RAND / SINE (K05) -/
theorem vecF_growth (fr : Oracle → Nat → Int32 → Float32 → Float32 → Option (List Float32 × Nat)) (ρ : Oracle)
    (o : VecOp) (s : State) (h : o ≠ .ones ∧ o ≠ .zeros ∧ o ≠ .rand ∧ o ≠ .sine) :
    weight (semVecF fr ρ o s) ≤ 2 * weight s + 4 := by
  cases o <;> simp only [semVecF] <;> (try simp at h) <;> (try omega)
  case div =>
    simp only [elementwise, Lens.fvec]
    split
    · next top second l hv =>
      split
      · simp_all [weight, sumMap]; omega
      · next off il hi =>
        split
        · next r hr =>
          have hlen : r.length = second.length := by
            simp only [divOverlap] at hr
            split at hr
            · simp at hr
            · simp only [Option.some.injEq] at hr; subst hr; exact overlap_length _ _ _ _
          simp_all [weight, sumMap]; omega
        · simp_all [weight, sumMap]; omega
    · omega
  all_goals
    try simp only [elementwise, vecGet, modTop, Lens.fvec]
    (repeat' split) <;>
    simp_all [weight, sumMap, pushBool, pushInt, pushFloat, overlap_length, vecSetAt_length, rotateIn_length,
      sortF32_length] <;> omega


/-! ## the proved part, extended -/

/-- instructions covered by `growth_bounded_partial2`: everything except the operand-sized ones (K05: ONES, ZEROS,
vector RAND, SINE, LIST.NEIGHBOR*, CODE.RAND), NAME.RAND / NAME.RANDBOUNDNAME (text from the `names` crate),
CODE.SUBST (quadratic), the three printing instructions (characters) and the GRAPH family -/
def covered2 : Instr → Bool
  | .noop | .unknown _ => true
  | .exec _ | .io _ | .define _ => true
  | .list o => o != .nbIds && o != .nbBvals && o != .nbIvals && o != .nbFvals
  | .vec .f o => o != .ones && o != .zeros && o != .rand && o != .sine
  | .vec _ o => o != .ones && o != .zeros && o != .rand
  | .graph _ => false
  | i => covered i

/-- **C15, proved part (extended)**: for 242 of the 280 registered instructions one step grows the state by at most a
copy of what it already holds plus a constant, whatever the operand values -/
theorem growth_bounded_partial2 (ρ : Oracle) (i : Instr) (s : State) (h : covered2 i = true) :
    weight (semFull ρ i s) ≤ 2 * weight s + 4 := by
  cases i with
  | noop => simp only [semFull, sem]; omega
  | unknown n => simp only [semFull, sem]; omega
  | exec o => exact exec_growth o s
  | io o => exact io_growth o s
  | define t => have := define_growth t s; simp only [semFull, sem]; omega
  | list o => exact list_growth o s (by cases o <;> simp_all [covered2])
  | vec t o =>
    cases t with
    | b => exact vecB_growth _ ρ o s (by cases o <;> simp_all [covered2])
    | i => exact vecI_growth _ ρ o s (by cases o <;> simp_all [covered2])
    | f => exact vecF_growth _ ρ o s (by cases o <;> simp_all [covered2])
  | graph o => simp [covered2] at h
  | boolean o => have := growth_bounded_partial ρ (.boolean o) s (by simpa [covered2] using h); simp only at this; omega
  | integer o => have := growth_bounded_partial ρ (.integer o) s (by simpa [covered2] using h); simp only at this; omega
  | float o => have := growth_bounded_partial ρ (.float o) s (by simpa [covered2] using h); simp only at this; omega
  | index o => have := growth_bounded_partial ρ (.index o) s (by simpa [covered2] using h); simp only at this; omega
  | stk t o => exact growth_bounded_partial ρ (.stk t o) s (by simpa [covered2] using h)
  | name o => exact growth_bounded_partial ρ (.name o) s (by simpa [covered2] using h)
  | code o => exact growth_bounded_partial ρ (.code o) s (by simpa [covered2] using h)

set_option maxRecDepth 8000 in
example : (Instr.all.filter covered2).length = 242 := by decide

end Pushr.C15
