import Pushr.Props.C10
/-! # C14 (supplement): node identifiers inside the full instruction semantics

`C14.ids_distinct` is about the allocator alone (`fetch_add` under an arbitrary schedule). Here the counter is followed
through the INSTRUCTIONS: no instruction of the registry ever lowers the counter (no id is ever given back), only
GRAPH.NODE*ADD raises it, by exactly one, and the id it hands out is the old counter value.
Hence the ids a program hands out, in any run of any length, are strictly increasing - never handed out twice. -/
open Pushr
namespace Pushr.C14

macro "nid_tac" : tactic => `(tactic| (first | rfl | (repeat' split) <;> rfl))

theorem nid_popById (s : State) (sid : Int32) (it : Item) (s' : State) (h : popById s sid = some (it, s')) :
    s'.nextId = s.nextId := by
  unfold popById at h
  repeat' split at h
  all_goals first
    | (cases h; rfl)
    | (cases h)

theorem nid_loadFold (ids : List Int32) (s : State) (acc : List Item) : (loadFold ids s acc).2.nextId = s.nextId := by
  induction ids generalizing s acc with
  | nil => rfl
  | cons sid ids ih =>
    simp only [loadFold]
    split
    · rename_i it s' h
      exact (ih s' (acc ++ [it])).trans (nid_popById s sid it s' h)
    · exact ih s acc

theorem nid_loadItems (s : State) (r : Item) (s' : State) (h : loadItems s = some (r, s')) : s'.nextId = s.nextId := by
  unfold loadItems at h
  split at h
  · cases h
  · rename_i ids l hl
    simp only [Option.some.injEq, Prod.mk.injEq] at h
    rw [← h.2]
    exact nid_loadFold ids { s with ivec := l } []

theorem nid_list (o : ListOp) (s : State) : (semList o s).nextId = s.nextId := by
  cases o
  case add =>
    simp only [semList]
    cases h : loadItems s with
    | none => rfl
    | some p =>
      obtain ⟨r, s'⟩ := p
      simp [pushCode, nid_loadItems s r s' h]
  case set =>
    simp only [semList]
    cases hi : s.int with
    | nil => rfl
    | cons i il =>
      simp only
      cases h : loadItems { s with int := il } with
      | none => rfl
      | some p =>
        obtain ⟨r, s'⟩ := p
        have hx := nid_loadItems _ r s' h
        simp only
        split <;> simp [hx]
  all_goals
    (simp only [semList, pushBool, pushInt, pushFloat, pushExec] <;> nid_tac)


theorem nid_bool (ρ : Oracle) (o : BoolOp) (s : State) : (semBool ρ o s).nextId = s.nextId := by
  cases o <;> simp only [semBool, bin2, Lens.bool, pushBool] <;> nid_tac
theorem nid_int (ρ : Oracle) (o : IntOp) (s : State) : (semInt ρ o s).nextId = s.nextId := by
  cases o <;> simp only [semInt, bin2, Lens.int, pushBool, pushInt] <;> nid_tac
theorem nid_float (ρ : Oracle) (o : FloatOp) (s : State) : (semFloat ρ o s).nextId = s.nextId := by
  cases o <;> simp only [semFloat, bin2, un1, Lens.float, pushBool, pushFloat] <;> nid_tac
theorem nid_name (ρ : Oracle) (o : NameOp) (s : State) : (semName ρ o s).nextId = s.nextId := by
  cases o <;> simp only [semName, bin2, Lens.name, pushBool, pushName] <;> nid_tac
theorem nid_index (o : IndexOp) (s : State) : (semIndex o s).nextId = s.nextId := by
  cases o <;> simp only [semIndex, pushInt] <;> nid_tac
theorem nid_io (o : IoOp) (s : State) : (semIo o s).nextId = s.nextId := by
  cases o <;> simp only [semIo, pushInt, pushBool] <;> nid_tac
theorem nid_exec (o : ExecOp) (s : State) : (semExec o s).nextId = s.nextId := by
  cases o <;> simp only [semExec, pushBool] <;> nid_tac
theorem nid_stk (t : Ty) (o : SOp) (s : State) : (semStk t o s).nextId = s.nextId := by
  cases t <;> cases o <;>
    simp only [semStk, stkOp, withIndex, Lens.bool, Lens.int, Lens.float, Lens.name, Lens.code,
      Lens.exec, Lens.bvec, Lens.ivec, Lens.fvec, pushInt] <;> nid_tac
theorem nid_define (t : Ty) (s : State) : (semDefine t s).nextId = s.nextId := by
  by_cases ht : t = .name
  · subst ht; simp [semDefine]
  · rw [C07.define_meets_spec t ht s]
    cases t <;> simp only [C07.defineSpec, C07.popTy, C07.boundItem] <;> nid_tac
theorem nid_code (rc : Oracle → State → Nat → Option (Item × Nat)) (ρ : Oracle) (o : CodeOp) (s : State) :
    (semCode rc ρ o s).nextId = s.nextId := by
  cases o <;> simp only [semCode, pushBool, pushInt, pushCode, pushName] <;> nid_tac
theorem nid_vecB (br : Oracle → Nat → Int32 → Float32 → Option (List Bool × Nat)) (ρ : Oracle) (o : VecOp)
    (s : State) : (semVecB br ρ o s).nextId = s.nextId := by
  cases o <;> simp only [semVecB, elementwise, vecGet, modTop, Lens.bvec, pushBool, pushInt] <;> nid_tac
theorem nid_vecI (ir : Oracle → Nat → Int32 → Int32 → Int32 → Option (List Int32 × Nat)) (ρ : Oracle) (o : VecOp)
    (s : State) : (semVecI ir ρ o s).nextId = s.nextId := by
  cases o <;> simp only [semVecI, elementwise, vecGet, modTop, Lens.ivec, pushBool, pushInt, pushFloat] <;> nid_tac
theorem nid_vecF (fr : Oracle → Nat → Int32 → Float32 → Float32 → Option (List Float32 × Nat)) (ρ : Oracle)
    (o : VecOp) (s : State) : (semVecF fr ρ o s).nextId = s.nextId := by
  cases o <;> simp only [semVecF, elementwise, vecGet, modTop, Lens.fvec, pushBool, pushInt, pushFloat] <;> nid_tac

/-- every graph instruction except GRAPH.NODE*ADD leaves the counter alone -/
theorem nid_graph (o : GraphOp) (s : State) (ho : o ≠ .nodeAdd) : (semGraph o s).nextId = s.nextId := by
  cases o <;> first | exact absurd rfl ho | (simp only [semGraph, modGraphTop, pushInt, pushFloat, pushName] <;> nid_tac)

/-- GRAPH.NODE*ADD: nothing happens, or the id pushed on INTEGER is the old counter value and the counter is one higher -/
theorem nodeAdd_spec (s : State) :
    semGraph .nodeAdd s = s ∨
    ((semGraph .nodeAdd s).nextId = s.nextId + 1 ∧ (semGraph .nodeAdd s).int.head? = some (lenI32 s.nextId)) := by
  simp only [semGraph]
  split
  · exact .inl rfl
  · split
    · exact .inl rfl
    · right
      simp only [modGraphTop]
      constructor <;> (repeat' split) <;> simp


/-- **No instruction lowers the counter; only GRAPH.NODE*ADD raises it.** -/
theorem sem_nextId (ρ : Oracle) (i : Instr) (s : State) :
    (semFull ρ i s).nextId = s.nextId ∨
    (i = .graph .nodeAdd ∧ (semFull ρ i s).nextId = s.nextId + 1 ∧
      (semFull ρ i s).int.head? = some (lenI32 s.nextId)) := by
  cases i with
  | noop => exact .inl rfl
  | unknown n => exact .inl rfl
  | stk t o => exact .inl (nid_stk t o s)
  | define t => exact .inl (nid_define t s)
  | boolean o => exact .inl (nid_bool ρ o s)
  | integer o => exact .inl (nid_int ρ o s)
  | float o => exact .inl (nid_float ρ o s)
  | name o => exact .inl (nid_name ρ o s)
  | code o => exact .inl (nid_code _ ρ o s)
  | exec o => exact .inl (nid_exec o s)
  | index o => exact .inl (nid_index o s)
  | io o => exact .inl (nid_io o s)
  | vec t o =>
    cases t
    · exact .inl (nid_vecB _ ρ o s)
    · exact .inl (nid_vecI _ ρ o s)
    · exact .inl (nid_vecF _ ρ o s)
  | list o => exact .inl (nid_list o s)
  | graph o =>
    by_cases ho : o = .nodeAdd
    · subst ho
      rcases nodeAdd_spec s with h | h
      · left; show (semGraph .nodeAdd s).nextId = s.nextId; rw [h]
      · exact .inr ⟨rfl, h⟩
    · exact .inl (nid_graph o s ho)

theorem step_nextId (ρ : Oracle) (s : State) :
    (stepFull ρ s).2.nextId = s.nextId ∨ (stepFull ρ s).2.nextId = s.nextId + 1 := by
  unfold stepFull step
  split
  · exact .inl rfl
  · rename_i v e _; left; cases v <;> rfl
  · left; simp only; (repeat' split) <;> rfl
  · rename_i i e _
    rcases sem_nextId ρ i { s with exec := e } with h | h
    · exact .inl h
    · exact .inr h.2.1
  · exact .inl rfl

/-- the ids handed out during the first `n` steps, oldest first -/
def issued (ρ : Oracle) : Nat → State → List Nat
  | 0, _ => []
  | n + 1, s =>
    (if (stepFull ρ s).2.nextId = s.nextId then [] else [s.nextId]) ++ issued ρ n (stepFull ρ s).2

theorem stepN_nextId_mono (ρ : Oracle) (n : Nat) (s : State) : s.nextId ≤ (stepN fullExt ρ n s).nextId := by
  induction n generalizing s with
  | zero => exact Nat.le_refl _
  | succ n ih =>
    have h1 := step_nextId ρ s
    have h2 := ih (stepFull ρ s).2
    simp only [stepN]
    show s.nextId ≤ (stepN fullExt ρ n (step fullExt ρ s).2).nextId
    have h2 : (step fullExt ρ s).2.nextId ≤ (stepN fullExt ρ n (step fullExt ρ s).2).nextId := h2
    have h1 : (step fullExt ρ s).2.nextId = s.nextId ∨ (step fullExt ρ s).2.nextId = s.nextId + 1 := h1
    omega

theorem issued_bounds (ρ : Oracle) (n : Nat) (s : State) :
    ∀ id ∈ issued ρ n s, s.nextId ≤ id ∧ id < (stepN fullExt ρ n s).nextId := by
  induction n generalizing s with
  | zero => intro id h; simp [issued] at h
  | succ n ih =>
    intro id h
    simp only [issued, List.mem_append] at h
    have h1 : (step fullExt ρ s).2.nextId = s.nextId ∨ (step fullExt ρ s).2.nextId = s.nextId + 1 := step_nextId ρ s
    have hm := stepN_nextId_mono ρ n (step fullExt ρ s).2
    simp only [stepN]
    rcases h with h | h
    · split at h
      · simp at h
      · rename_i hne
        simp at h
        have hne : ¬ (step fullExt ρ s).2.nextId = s.nextId := hne
        omega
    · have := ih (step fullExt ρ s).2 id h
      omega

/-- **C14 (identifiers, full semantics).** The node ids a program hands out - in any run, of any length, for any
oracle - are strictly increasing: no id is handed out twice. -/
theorem issued_increasing (ρ : Oracle) (n : Nat) (s : State) : (issued ρ n s).Pairwise (· < ·) := by
  induction n generalizing s with
  | zero => simp [issued]
  | succ n ih =>
    simp only [issued]
    rw [List.pairwise_append]
    refine ⟨by split <;> simp, ih _, ?_⟩
    intro a ha b hb
    split at ha
    · simp at ha
    · rename_i hne
      simp at ha
      have hb2 := issued_bounds ρ n _ b hb
      have h1 : (step fullExt ρ s).2.nextId = s.nextId ∨ (step fullExt ρ s).2.nextId = s.nextId + 1 := step_nextId ρ s
      have hne : ¬ (step fullExt ρ s).2.nextId = s.nextId := hne
      have hb2 : (step fullExt ρ s).2.nextId ≤ b := hb2.1
      omega

theorem issued_nodup (ρ : Oracle) (n : Nat) (s : State) : (issued ρ n s).Nodup :=
  (issued_increasing ρ n s).imp (fun h => Nat.ne_of_lt h)

/-- non-vacuity: add a node, duplicate the graph, add a node to the copy - two different ids -/
example :
    let g : Graph := Graph.empty
    let s : State := { (default : State) with
      graph := ({ cap := 4, items := [] } : Buf Graph).push g,
      exec := [.lit (.int 0), .instr (.graph .nodeAdd), .instr (.graph .dup), .lit (.int 0), .instr (.graph .nodeAdd)] }
    issued (fun _ => 0) 5 s = [1, 2] := by decide

end Pushr.C14
