import Pushr.Props.C15_More
/-! # C15 (supplement) — the growth bound for the GRAPH family, and the final form of the proved part -/
namespace Pushr.C15
open Pushr Pushr.Graph

/-! ## the GRAPH family -/

theorem insertKey_sum_le {β : Type} (f : Nat × β → Nat) (k : Nat) (v : β) (m : List (Nat × β)) :
    sumMap f (insertKey k v m) ≤ sumMap f m + f (k, v) := by
  induction m with
  | nil => simp [insertKey, sumMap]
  | cons p t ih =>
    obtain ⟨k', v'⟩ := p
    unfold insertKey
    split
    · simp [sumMap]; omega
    · split
      · simp [sumMap]; omega
      · simp [sumMap] at ih ⊢; omega

theorem insertKey_length_le {β : Type} (k : Nat) (v : β) (m : List (Nat × β)) :
    (insertKey k v m).length ≤ m.length + 1 := by
  induction m with
  | nil => simp [insertKey]
  | cons p t ih =>
    obtain ⟨k', v'⟩ := p
    unfold insertKey
    split
    · simp
    · split
      · simp
      · simp at ih ⊢; omega

theorem lookupKey_sum_le {β : Type} (f : Nat × β → Nat) (k : Nat) (v : β) (m : List (Nat × β))
    (h : lookupKey k m = some v) : f (k, v) ≤ sumMap f m := by
  induction m with
  | nil => simp [lookupKey] at h
  | cons p t ih =>
    obtain ⟨k', v'⟩ := p
    simp only [lookupKey] at h
    split at h
    · next hk => subst hk; simp only [Option.some.injEq] at h; subst h; simp [sumMap]
    · have := ih h; simp [sumMap] at this ⊢; omega

def eW (p : Nat × List Edge) : Nat := 1 + p.2.length

theorem graphWeight_eq (g : Graph) : graphWeight g = g.nodes.length + sumMap eW g.edges := rfl

theorem gw_addNode (g : Graph) (id : Nat) (st : Int32) : graphWeight (g.addNode id st) ≤ graphWeight g + 1 := by
  have := insertKey_length_le id st g.nodes
  simp only [graphWeight_eq, addNode]; omega

theorem gw_setState (g : Graph) (id : Nat) (st : Int32) : graphWeight (g.setState id st) ≤ graphWeight g + 1 := by
  unfold setState; split
  · have := insertKey_length_le id st g.nodes
    simp only [graphWeight_eq]; omega
  · omega

theorem gw_addEdge (g : Graph) (o d : Nat) (w : Float32) : graphWeight (g.addEdge o d w) ≤ 2 * graphWeight g + 2 := by
  unfold addEdge
  split
  · split
    · next l hl =>
      split
      · omega
      · have h1 := insertKey_sum_le eW d (l ++ [⟨o, w⟩]) g.edges
        have h2 := lookupKey_sum_le eW d l g.edges hl
        simp only [graphWeight_eq]
        simp [eW] at h1 h2; omega
    · have h1 := insertKey_sum_le eW d [⟨o, w⟩] g.edges
      simp only [graphWeight_eq]
      simp [eW] at h1; omega
  · omega

theorem gw_setWeight (g : Graph) (o d : Nat) (w : Float32) : graphWeight (g.setWeight o d w) ≤ 2 * graphWeight g + 2 := by
  unfold setWeight
  split
  · next l hl =>
    split
    · have h1 := insertKey_sum_le eW d (l.map fun e => if e.origin == o then ⟨o, w⟩ else e) g.edges
      have h2 := lookupKey_sum_le eW d l g.edges hl
      simp only [graphWeight_eq]
      simp only [eW, List.length_map] at h1 h2; omega
    · omega
  · omega

theorem gw_switch (ids : List Int32) (bs : List Bool) (on off : Int32) (g : Graph) :
    graphWeight (switchStates g ids bs on off) ≤ graphWeight g + ids.length := by
  induction ids generalizing g bs with
  | nil => simp [switchStates]
  | cons id ids ih =>
    cases bs with
    | nil => simp [switchStates]
    | cons b bs =>
      simp only [switchStates]
      have h1 := ih bs (withId id g fun n => g.setState n (if b then on else off))
      have h2 : graphWeight (withId id g fun n => g.setState n (if b then on else off)) ≤ graphWeight g + 1 := by
        unfold withId; split
        · exact gw_setState _ _ _
        · omega
      simp; omega

local notation "gW" => (fun g : Graph => 1 + graphWeight g)

/-- everything but the GRAPH buffer -/
def restW (s : State) : Nat :=
  s.bool.length + s.int.length + s.float.length
  + sumMap (fun n => 1 + n.length) s.name
  + sumMap Item.size s.code + sumMap Item.size s.exec
  + s.index.length
  + sumMap (fun v => 1 + v.length) s.bvec + sumMap (fun v => 1 + v.length) s.ivec
  + sumMap (fun v => 1 + v.length) s.fvec
  + sumMap (fun m => 2 + m.header.length + m.body.length) s.input.items
  + sumMap (fun m => 2 + m.header.length + m.body.length) s.output.items
  + sumMap (fun p => 1 + p.1.length + p.2.size) s.bindings

theorem weight_split (s : State) : weight s = restW s + sumMap gW s.graph.items := by
  simp only [weight, restW]; omega

theorem graphAt_le (s : State) (pos : Nat) (g : Graph) (h : graphAt s pos = some g) :
    1 + graphWeight g ≤ sumMap gW s.graph.items := by
  simp only [graphAt, Buf.getStack] at h
  have hm : g ∈ s.graph.items.reverse := List.mem_of_getElem? h
  have hm' : g ∈ s.graph.items := by simpa using hm
  obtain ⟨k, hk⟩ := List.getElem?_of_mem hm'
  exact sumMap_getElem_le gW _ k g hk

theorem push_items_sum (b : Buf Graph) (g : Graph) : sumMap gW (b.push g).items ≤ sumMap gW b.items + (1 + graphWeight g) := by
  unfold Buf.push; split <;> simp [sumMap]

theorem top_split (s : State) (g : Graph) (h : graphAt s 0 = some g) :
    ∃ init, s.graph.items = init ++ [g] := by
  simp only [graphAt, Buf.getStack] at h
  have : s.graph.items.getLast? = some g := by
    rw [List.getLast?_eq_head?_reverse]; cases hr : s.graph.items.reverse with
    | nil => simp [hr] at h
    | cons a t => simp [hr] at h; simp [h]
  exact List.getLast?_eq_some_iff.mp this

/-- the top graph is replaced by `f g`: the state grows by at most the growth of that one graph -/
theorem modGraphTop_weight (s : State) (f : Graph → Graph) (c : Nat)
    (hf : ∀ g, graphWeight (f g) ≤ 2 * graphWeight g + c) : weight (modGraphTop s f) ≤ 2 * weight s + c := by
  unfold modGraphTop
  split
  · next g hg =>
    obtain ⟨init, hi⟩ := List.getLast?_eq_some_iff.mp hg
    rw [weight_split, weight_split s]
    have h3 := hf g
    have : restW { s with graph := { s.graph with items := s.graph.items.dropLast ++ [f g] } } = restW s := rfl
    rw [this]
    simp only [hi, List.dropLast_concat, sumMap, List.map_append, List.sum_append, List.map_cons, List.map_nil,
      List.sum_cons, List.sum_nil]
    omega
  · omega

theorem pred_length_le (g : Graph) (id : Nat) (states : List Int32) : (g.predecessors id states).length ≤ graphWeight g := by
  unfold predecessors
  split
  · next l hl =>
    have h2 := lookupKey_sum_le eW id l g.edges hl
    refine Nat.le_trans (List.length_filterMap_le _ _) ?_
    simp only [graphWeight_eq]; simp only [eW] at h2; omega
  · simp

theorem sumMap_ge_length {α : Type} (f : α → Nat) (l : List α) (h : ∀ a, 1 ≤ f a) : l.length ≤ sumMap f l := by
  induction l with
  | nil => simp [sumMap]
  | cons a t ih => have := h a; simp [sumMap] at ih ⊢; omega

theorem succ_length_le (g : Graph) (id : Nat) (states : List Int32) : (g.successors id states).length ≤ graphWeight g := by
  unfold successors
  have h2 := sumMap_ge_length eW g.edges (fun a => by simp [eW])
  refine Nat.le_trans (List.length_filterMap_le _ _) ?_
  simp only [graphWeight_eq]; omega


theorem eW_split (m : List (Nat × List Edge)) : sumMap eW m = m.length + sumMap (fun p => p.2.length) m := by
  induction m with
  | nil => simp [sumMap]
  | cons a t ih => simp [sumMap, eW] at ih ⊢; omega

/-- predecessors come from ONE incoming list, successors from distinct incoming lists: together no more than the graph -/
theorem nb_length_le (g : Graph) (id : Nat) (states : List Int32) :
    (g.predecessors id states).length + (g.successors id states).length ≤ graphWeight g := by
  have hs : (g.successors id states).length ≤ g.edges.length := by
    unfold successors; exact List.length_filterMap_le _ _
  have hp : (g.predecessors id states).length ≤ sumMap (fun p : Nat × List Edge => p.2.length) g.edges := by
    unfold predecessors
    split
    · next l hl =>
      have h2 := lookupKey_sum_le (fun p : Nat × List Edge => p.2.length) id l g.edges hl
      exact Nat.le_trans (List.length_filterMap_le _ _) h2
    · simp
  rw [graphWeight_eq, eW_split]; omega

/-- GRAPH instructions other than NODES / NODES*HISTORY (an id is repeated once per repeated state value: quadratic)
and the two printing instructions (characters): one graph is copied or grows by one node / edge, or a query result
no larger than the graph is pushed -/
theorem graph_growth (o : GraphOp) (s : State)
    (h : o ≠ .nodes ∧ o ≠ .nodesHistory ∧ o ≠ .print ∧ o ≠ .printDiff) : weight (semGraph o s) ≤ 2 * weight s + 4 := by
  cases o <;> simp only [semGraph] <;> (try simp at h)
  case add =>
    rw [weight_split, weight_split s]
    have := push_items_sum s.graph Graph.empty
    have hr : restW { s with graph := s.graph.push Graph.empty } = restW s := rfl
    rw [hr]; simp [graphWeight_eq, Graph.empty, sumMap] at this ⊢; omega
  case dup =>
    split
    · next g hg =>
      rw [weight_split, weight_split s]
      have := push_items_sum s.graph g
      have h2 := graphAt_le s 0 g hg
      have hr : restW { s with graph := s.graph.push g } = restW s := rfl
      rw [hr]
      show restW s + sumMap gW (s.graph.push g).items ≤ _
      omega
    · omega
  case depth => rw [weight_pushInt]; omega
  case nodeAdd =>
    split
    · omega
    · split
      · omega
      · next st il hi =>
        have := modGraphTop_weight { s with int := lenI32 s.nextId :: il } (fun g => g.addNode s.nextId st) 1
          (fun g => by have := gw_addNode g s.nextId st; omega)
        have hw : weight { s with int := lenI32 s.nextId :: il } = weight s := by simp [weight, hi]
        rw [hw] at this
        have hn : ∀ (t : State) (n : Nat), weight { t with nextId := n } = weight t := fun _ _ => rfl
        rw [hn]; omega
  case nodeStateSwitch =>
    split
    · omega
    · split
      · omega
      · next ids ivl hv =>
        split
        · simp_all [weight, sumMap]; omega
        · next sw bvl hb =>
          split
          · next off on il hi =>
            let s3 : State := { s with ivec := ivl, bvec := bvl, int := il }
            have := modGraphTop_weight s3 (fun g => switchStates g ids sw on off) ids.length
              (fun g => by have := gw_switch ids sw on off g; omega)
            have hw : weight s3 + (1 + ids.length) ≤ weight s := by
              simp_all [s3, weight, sumMap]; omega
            show weight (modGraphTop s3 _) ≤ _
            omega
          · simp_all [weight, sumMap]; omega
  case nodeGetState => (repeat' split) <;> simp_all [weight, pushInt, sumMap] <;> omega
  case nodeHistory => (repeat' split) <;> simp_all [weight, pushInt, sumMap] <;> omega
  case nodeSetState =>
    split
    · omega
    · split
      · omega
      · simp_all [weight, sumMap]; omega
      · next st id il hi =>
        split
        · have := modGraphTop_weight { s with int := il } (fun g => g.setState id.toInt.toNat st) 1
            (fun g => by have := gw_setState g id.toInt.toNat st; omega)
          have hw : weight { s with int := il } ≤ weight s := by simp [weight, hi]; omega
          omega
        · simp_all [weight, sumMap]; omega
  case edgeAdd =>
    split
    · omega
    · split
      · omega
      · next w fl hf =>
        split
        · next d o il hi =>
          have hw : weight { s with float := fl, int := il } + 3 = weight s := by simp [weight, hi, hf]; omega
          refine Nat.le_trans (modGraphTop_weight _ _ 2 (fun g => ?_)) (by omega)
          split
          · exact gw_addEdge g _ _ w
          · omega
        · simp_all [weight, sumMap]; omega
  case edgeSetWeight =>
    split
    · omega
    · split
      · omega
      · next w fl hf =>
        split
        · next d o il hi =>
          have hw : weight { s with float := fl, int := il } + 3 = weight s := by simp [weight, hi, hf]; omega
          refine Nat.le_trans (modGraphTop_weight _ _ 2 (fun g => ?_)) (by omega)
          split
          · exact gw_setWeight g _ _ w
          · omega
        · simp_all [weight, sumMap]; omega
  case edgeGetWeight => (repeat' split) <;> simp_all [weight, pushFloat, sumMap] <;> omega
  case edgeHistory => (repeat' split) <;> simp_all [weight, pushFloat, sumMap] <;> omega
  case nodePredecessors =>
    split
    · omega
    · next g hg =>
      have hg' := graphAt_le s 0 g hg
      have hgw : 1 + graphWeight g ≤ weight s := by rw [weight_split]; omega
      split
      · omega
      · next states ivl hv =>
        split
        · simp_all [weight, sumMap]; omega
        · next id il hi =>
          split
          · have h1 := pred_length_le g id.toInt.toNat states
            simp_all [weight, sumMap]; omega
          · simp_all [weight, sumMap]; omega
  case nodeSuccessors =>
    split
    · omega
    · next g hg =>
      have hg' := graphAt_le s 0 g hg
      have hgw : 1 + graphWeight g ≤ weight s := by rw [weight_split]; omega
      split
      · omega
      · next states ivl hv =>
        split
        · simp_all [weight, sumMap]; omega
        · next id il hi =>
          split
          · have h1 := succ_length_le g id.toInt.toNat states
            simp_all [weight, sumMap]; omega
          · simp_all [weight, sumMap]; omega
  case nodeNeighbors =>
    split
    · omega
    · next g hg =>
      have hg' := graphAt_le s 0 g hg
      have hgw : 1 + graphWeight g ≤ weight s := by rw [weight_split]; omega
      split
      · omega
      · next states ivl hv =>
        split
        · simp_all [weight, sumMap]; omega
        · next id il hi =>
          split
          · have h1 := nb_length_le g id.toInt.toNat states
            simp_all [weight, sumMap]; omega
          · simp_all [weight, sumMap]; omega


/-- the instructions of `growth_bounded_partial3`: `covered2` plus 15 of the 19 GRAPH instructions -/
def covered3 : Instr → Bool
  | .graph o => o != .nodes && o != .nodesHistory && o != .print && o != .printDiff
  | i => covered2 i

/-- **C15, proved part (final form)**: 257 of the 280 registered instructions grow the state in one step by at most
a copy of what it already holds plus a constant, whatever the operand values. Not covered: the operand-sized ones of
finding K05 (ONES, ZEROS, vector RAND, SINE, LIST.NEIGHBOR*, CODE.RAND), NAME.RAND / RANDBOUNDNAME (text from a
crate), CODE.SUBST and GRAPH.NODES / NODES*HISTORY (quadratic), the three printing instructions (characters) -/
theorem growth_bounded_partial3 (ρ : Oracle) (i : Instr) (s : State) (h : covered3 i = true) :
    weight (semFull ρ i s) ≤ 2 * weight s + 4 := by
  cases i with
  | graph o => exact graph_growth o s (by cases o <;> simp_all [covered3])
  | noop => exact growth_bounded_partial2 ρ _ s h
  | unknown n => exact growth_bounded_partial2 ρ _ s h
  | stk t o => exact growth_bounded_partial2 ρ _ s h
  | define t => exact growth_bounded_partial2 ρ _ s h
  | boolean o => exact growth_bounded_partial2 ρ _ s h
  | integer o => exact growth_bounded_partial2 ρ _ s h
  | float o => exact growth_bounded_partial2 ρ _ s h
  | name o => exact growth_bounded_partial2 ρ _ s h
  | code o => exact growth_bounded_partial2 ρ _ s h
  | exec o => exact growth_bounded_partial2 ρ _ s h
  | index o => exact growth_bounded_partial2 ρ _ s h
  | io o => exact growth_bounded_partial2 ρ _ s h
  | vec t o => exact growth_bounded_partial2 ρ _ s h
  | list o => exact growth_bounded_partial2 ρ _ s h

set_option maxRecDepth 8000 in
example : (Instr.all.filter covered3).length = 257 := by decide

end Pushr.C15
