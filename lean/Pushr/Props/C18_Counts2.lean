import Pushr.Props.C18_Counts
namespace Pushr.C18
open Pushr Pushr.Graph

/-- with distinct origins, filtering one origin out of an incoming list removes exactly one edge when it is there -/
theorem filter_origin_length (l : List Edge) (o : Nat) (hn : (l.map (·.origin)).Nodup) :
    (l.filter (·.origin != o)).length + (if l.any (·.origin == o) then 1 else 0) = l.length := by
  induction l with
  | nil => simp
  | cons e t ih =>
    simp only [List.map_cons, List.nodup_cons] at hn
    have := ih hn.2
    by_cases he : e.origin = o
    · subst he
      have hnot : t.any (·.origin == e.origin) = false := by
        rw [List.any_eq_false]; intro x hx hxe
        exact hn.1 (List.mem_map.mpr ⟨x, hx, by simpa using hxe⟩)
      simp only [List.filter_cons, bne_self_eq_false, Bool.false_eq_true, if_false, List.any_cons, beq_self_eq_true,
        Bool.true_or, if_true, List.length_cons]
      simp only [hnot, Bool.false_eq_true, if_false, Nat.add_zero] at this
      omega
    · have h1 : (e.origin != o) = true := by simpa using he
      have h2 : (e.origin == o) = false := by simpa using he
      simp only [List.filter_cons, h1, if_true, List.any_cons, h2, Bool.false_or, List.length_cons]
      omega

/-- REMOVE EDGE: one edge fewer exactly when the ordered pair had one -/
theorem edgeSize_removeEdge (g : Graph) (hw : WF g) (o d : Nat) :
    (g.removeEdge o d).edgeSize + (if (g.getWeight o d).isSome then 1 else 0) = g.edgeSize := by
  simp only [edgeSize_eq]
  unfold removeEdge
  split
  · next l hl =>
    have hnd := (hw.2.2 d l hl).2
    have h1 := insertKey_present (fun p : Nat × List Edge => p.2.length) d (l.filter (·.origin != o)) l g.edges hw.2.1 hl
    have h2 := filter_origin_length l o hnd
    have h3 : (g.getWeight o d).isSome = l.any (·.origin == o) := by
      rw [getWeight_eq, hl]
      by_cases ha : l.any (fun e => e.origin == o) = true
      · have : ¬ wIn l o = none := by rw [wIn_none_iff]; simp [ha]
        rw [ha]
        cases hh : wIn l o with
        | none => exact absurd hh this
        | some w => simp [hh]
      · have ha' : l.any (fun e => e.origin == o) = false := by simpa using ha
        have : wIn l o = none := (wIn_none_iff l o).mpr ha'
        simp [ha', this]
    simp only [sumLen, h3]
    simp only at h1
    omega
  · next hl =>
    have : g.getWeight o d = none := by rw [getWeight_eq, hl]
    simp [this]

end Pushr.C18
