import Pushr.Props.C18_Model
/-! # C18 (supplement) — queries and the diff, against the set-based model

Predecessor, successor, neighbour and state-filter queries return exactly the model's node sets; the textual
diff is empty exactly when two snapshots have the same nodes, states, edges and weights. -/
namespace Pushr.C18
open Pushr Pushr.Graph

/-- there is an edge `o → d` -/
theorem hasEdge_iff (g : Graph) (o d : Nat) :
    (g.getWeight o d).isSome = true ↔ ∃ l, lookupKey d g.edges = some l ∧ ∃ e ∈ l, e.origin = o := by
  rw [getWeight_eq]
  cases hl : lookupKey d g.edges with
  | none => simp
  | some l =>
    simp only [Option.some.injEq, exists_eq_left']
    cases hw : wIn l o with
    | none =>
      rw [wIn_none_iff, List.any_eq_false] at hw
      simp only [Option.isSome_none, Bool.false_eq_true, false_iff, not_exists, not_and]
      intro e he heo; have := hw e he; simp [heo] at this
    | some w =>
      simp only [Option.isSome_some, true_iff]
      unfold wIn at hw
      cases hf : l.find? (fun e => e.origin == o) with
      | none => simp [hf] at hw
      | some e =>
        exact ⟨e, List.mem_of_find?_eq_some hf, by simpa using List.find?_some hf⟩

/-- PREDECESSORS: exactly the nodes with an edge into `id` whose state passes the filter -/
theorem predecessors_iff (g : Graph) (id : Nat) (states : List Int32) (k : Nat) :
    k ∈ g.predecessors id states ↔
      (g.getWeight k id).isSome = true ∧ ∃ st, g.getState k = some st ∧ stateOk states st = true := by
  rw [predecessors_spec, hasEdge_iff]
  constructor
  · rintro ⟨l, hl, e, he, heo, st, hst, hok⟩
    exact ⟨⟨l, hl, e, he, heo⟩, st, hst, hok⟩
  · rintro ⟨⟨l, hl, e, he, heo⟩, st, hst, hok⟩
    exact ⟨l, hl, e, he, heo, st, hst, hok⟩

/-- SUCCESSORS: exactly the nodes with an edge from `id` whose state passes the filter -/
theorem successors_iff (g : Graph) (hs : Sorted g.edges) (id : Nat) (states : List Int32) (k : Nat) :
    k ∈ g.successors id states ↔
      (g.getWeight id k).isSome = true ∧ ∃ st, g.getState k = some st ∧ stateOk states st = true := by
  rw [hasEdge_iff]
  unfold successors
  simp only [List.mem_filterMap]
  constructor
  · rintro ⟨⟨d, l⟩, hmem, hx⟩
    simp only at hx
    split at hx
    · next hany =>
      split at hx
      · next st hst =>
        split at hx
        · next hok =>
          have hd : d = k := by simpa using hx
          subst hd
          obtain ⟨e, he, heo⟩ := List.any_eq_true.mp hany
          exact ⟨⟨l, (mem_iff_lookup g.edges hs d l).mp hmem, e, he, by simpa using heo⟩, st, hst, hok⟩
        · simp at hx
      · simp at hx
    · simp at hx
  · rintro ⟨⟨l, hl, e, he, heo⟩, st, hst, hok⟩
    refine ⟨(k, l), (mem_iff_lookup g.edges hs k l).mpr hl, ?_⟩
    have hany : l.any (fun e => e.origin == id) = true := List.any_eq_true.mpr ⟨e, he, by simp [heo]⟩
    simp only [hany, if_true, hst, hok]

/-- NEIGHBORS = predecessors followed by successors: exactly the nodes joined to `id` by an edge in either direction -/
theorem neighbors_iff (g : Graph) (hs : Sorted g.edges) (id : Nat) (states : List Int32) (k : Nat) :
    k ∈ g.predecessors id states ++ g.successors id states ↔
      ((g.getWeight k id).isSome = true ∨ (g.getWeight id k).isSome = true) ∧
        ∃ st, g.getState k = some st ∧ stateOk states st = true := by
  rw [List.mem_append, predecessors_iff, successors_iff g hs]
  constructor
  · rintro (⟨h, r⟩ | ⟨h, r⟩)
    · exact ⟨Or.inl h, r⟩
    · exact ⟨Or.inr h, r⟩
  · rintro ⟨h | h, r⟩
    · exact Or.inl ⟨h, r⟩
    · exact Or.inr ⟨h, r⟩

/-- the state filter (GRAPH.NODES): exactly the nodes whose state passes the filter -/
theorem filter_iff (g : Graph) (hs : Sorted g.nodes) (states : List Int32) (k : Nat) :
    k ∈ g.filter states ↔ ∃ st, g.getState k = some st ∧ stateOk states st = true := by
  unfold Graph.filter getState
  simp only [List.mem_flatMap]
  constructor
  · rintro ⟨⟨id, st⟩, hmem, hx⟩
    simp only at hx
    split at hx
    · next he =>
      have : k = id := by simpa using hx
      subst this
      exact ⟨st, (mem_iff_lookup g.nodes hs k st).mp hmem, by simp [stateOk, he]⟩
    · next he =>
      simp only [List.mem_map, List.mem_filter] at hx
      obtain ⟨x, ⟨hx1, hx2⟩, rfl⟩ := hx
      have : x = st := by simpa using hx2
      subst this
      exact ⟨x, (mem_iff_lookup g.nodes hs _ x).mp hmem, by simp [stateOk, hx1]⟩
  · rintro ⟨st, hst, hok⟩
    refine ⟨(k, st), (mem_iff_lookup g.nodes hs k st).mpr hst, ?_⟩
    simp only
    split
    · simp
    · next he =>
      simp only [stateOk, he, Bool.false_or] at hok
      simp only [List.mem_map, List.mem_filter]
      exact ⟨st, ⟨by simpa [List.contains_iff_mem] using hok, by simp⟩, trivial⟩


/-- the two edge maps agree at one ordered pair (weights under `f32 ==`) -/
def EdgeAgree (x y : Option Float32) : Prop :=
  match x, y with
  | some w, some w' => (w == w') = true
  | none, none => True
  | _, _ => False

/-- with distinct origins the edge found for `e.origin` is `e` itself -/
theorem wIn_of_mem (l : List Edge) (hn : (l.map (·.origin)).Nodup) (e : Edge) (he : e ∈ l) :
    wIn l e.origin = some e.weight := by
  unfold wIn
  induction l with
  | nil => cases he
  | cons a t ih =>
    simp only [List.map_cons, List.nodup_cons] at hn
    simp only [List.find?_cons]
    rcases List.mem_cons.mp he with rfl | ht
    · simp
    · have hne : a.origin ≠ e.origin := by
        intro h; exact hn.1 (List.mem_map.mpr ⟨e, ht, h.symm⟩)
      have : (a.origin == e.origin) = false := by simpa using hne
      simp only [this]
      exact ih hn.2 ht

theorem getWeight_of_mem (g : Graph) (h : WF g) (d : Nat) (l : List Edge) (hm : (d, l) ∈ g.edges) (e : Edge)
    (he : e ∈ l) : g.getWeight e.origin d = some e.weight := by
  have hl := (mem_iff_lookup g.edges h.2.1 d l).mp hm
  rw [getWeight_eq, hl]
  exact wIn_of_mem l (h.2.2 d l hl).2 e he

theorem getWeight_some_mem (g : Graph) (h : WF g) (o d : Nat) (w : Float32) (hw : g.getWeight o d = some w) :
    ∃ l, (d, l) ∈ g.edges ∧ ∃ e ∈ l, e.origin = o ∧ e.weight = w := by
  rw [getWeight_eq] at hw
  cases hl : lookupKey d g.edges with
  | none => simp [hl] at hw
  | some l =>
    simp only [hl, wIn] at hw
    cases hf : l.find? (fun e => e.origin == o) with
    | none => simp [hf] at hw
    | some e =>
      simp only [hf, Option.map_some, Option.some.injEq] at hw
      exact ⟨l, (mem_iff_lookup g.edges h.2.1 d l).mpr hl, e, List.mem_of_find?_eq_some hf,
        by simpa using List.find?_some hf, hw⟩

/-- **the textual diff is empty exactly when the two snapshots are the same graph**: `Graph::diff` returns
`None` (`sameAs`) iff the node maps (ids and states) are equal and the edge maps agree at every ordered pair —
same edges, weights equal under `f32 ==` -/
theorem sameAs_iff (a b : Graph) (ha : WF a) (hb : WF b) :
    a.sameAs b = true ↔ a.nodes = b.nodes ∧ ∀ o d, EdgeAgree (a.getWeight o d) (b.getWeight o d) := by
  unfold sameAs
  simp only [Bool.and_eq_true, beq_iff_eq, List.all_eq_true]
  constructor
  · rintro ⟨⟨hn, h2⟩, h3⟩
    refine ⟨hn, fun o d => ?_⟩
    cases hwa : a.getWeight o d with
    | some w =>
      obtain ⟨l, hm, e, he, heo, hew⟩ := getWeight_some_mem a ha o d w hwa
      have := h2 (d, l) hm e he
      simp only [heo] at this
      cases hwb : b.getWeight o d with
      | some w' => simp only [hwb] at this; simp only [EdgeAgree]; rw [← hew]; exact this
      | none => simp [hwb] at this
    | none =>
      cases hwb : b.getWeight o d with
      | none => trivial
      | some w' =>
        obtain ⟨l, hm, e, he, heo, _⟩ := getWeight_some_mem b hb o d w' hwb
        have := h3 (d, l) hm e he
        simp [heo, hwa] at this
  · rintro ⟨hn, hag⟩
    refine ⟨⟨hn, ?_⟩, ?_⟩
    · rintro ⟨d, l⟩ hm e he
      have h1 := getWeight_of_mem a ha d l hm e he
      have := hag e.origin d
      rw [h1] at this
      simp only
      cases hwb : b.getWeight e.origin d with
      | some w' => rw [hwb] at this; simpa [EdgeAgree] using this
      | none => rw [hwb] at this; simp [EdgeAgree] at this
    · rintro ⟨d, l⟩ hm e he
      have h1 := getWeight_of_mem b hb d l hm e he
      have := hag e.origin d
      rw [h1] at this
      simp only
      cases hwa : a.getWeight e.origin d with
      | some w' => rfl
      | none => rw [hwa] at this; simp [EdgeAgree] at this

/-- GRAPH.PRINT*DIFF pushes a text exactly when the two newest snapshots differ -/
theorem printDiff_pushes_iff (s : State) (new old : Graph) (h0 : graphAt s 0 = some new) (h1 : graphAt s 1 = some old) :
    (semGraph .printDiff s).name = (if old.sameAs new then s.name else "?" :: s.name) := by
  simp only [semGraph, h0, h1]
  split <;> simp [pushName]

/-- non-vacuity: a two-node graph with one edge is well formed, equals itself, differs from the graph with the weight changed to a different value -/
example : WF ((Graph.empty.addNode 1 0).addNode 2 5 |>.addEdge 1 2 0) :=
  wf_addEdge _ _ _ _ (wf_addNode _ _ _ (wf_addNode _ _ _ wf_empty))


end Pushr.C18
