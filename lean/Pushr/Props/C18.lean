import Pushr.GraphSem
/-! # C18 — graph memory keeps its structure consistent and answers queries correctly

`GInv`: every edge connects two existing nodes and there is at most one edge per ordered node pair.
It holds for the empty graph and is preserved by every operation of the API, hence after any
sequence of operations. Stated through the *functional* view of the two maps (`lookupKey`). -/
namespace Pushr.C18
open Pushr Pushr.Graph

/-! ## the association lists behave like finite maps -/

theorem lookup_insert {β : Type} (k k' : Nat) (v : β) (m : List (Nat × β)) :
    lookupKey k' (insertKey k v m) = if k' = k then some v else lookupKey k' m := by
  induction m with
  | nil => simp [insertKey, lookupKey]
  | cons p t ih =>
    obtain ⟨k2, v2⟩ := p
    unfold insertKey
    by_cases h1 : k < k2
    · simp only [h1, if_true, lookupKey]
    · simp only [h1, if_false]
      by_cases h2 : k = k2
      · subst h2
        simp only [if_true, lookupKey]
        by_cases h : k' = k <;> simp [h]
      · simp only [h2, if_false, lookupKey, ih]
        by_cases h : k' = k
        · subst h; simp [h2]
        · simp [h]

theorem lookup_filter_ne {β : Type} (id k : Nat) (m : List (Nat × β)) :
    lookupKey k (m.filter (·.1 != id)) = if k = id then none else lookupKey k m := by
  induction m with
  | nil => simp [lookupKey]
  | cons p t ih =>
    obtain ⟨k2, v2⟩ := p
    by_cases h : k2 = id
    · subst h
      simp only [List.filter_cons, bne_self_eq_false, Bool.false_eq_true, if_false, ih, lookupKey]
      by_cases hk : k = k2 <;> simp [hk]
    · have : (k2 != id) = true := by simp [h]
      simp only [List.filter_cons, this, if_true, lookupKey, ih]
      by_cases hk : k = k2
      · subst hk; simp [h]
      · simp [hk]

theorem lookup_map {β γ : Type} (f : Nat → β → γ) (k : Nat) (m : List (Nat × β)) :
    lookupKey k (m.map fun p => (p.1, f p.1 p.2)) = (lookupKey k m).map (f k) := by
  induction m with
  | nil => rfl
  | cons p t ih =>
    obtain ⟨k2, v2⟩ := p
    simp only [List.map_cons, lookupKey, ih]
    by_cases hk : k = k2
    · subst hk; simp
    · simp [hk]

/-! ## the invariant -/

def GInv (g : Graph) : Prop :=
  ∀ d l, lookupKey d g.edges = some l →
    (g.hasNode d = true ∧ ∀ e ∈ l, g.hasNode e.origin = true) ∧ (l.map (·.origin)).Nodup

theorem empty_inv : GInv Graph.empty := by
  intro d l h; simp [Graph.empty, lookupKey] at h

theorem hasNode_addNode (g : Graph) (id : Nat) (st : Int32) (k : Nat) :
    (g.addNode id st).hasNode k = (k == id || g.hasNode k) := by
  simp only [hasNode, addNode, lookup_insert]
  by_cases h : k = id <;> simp [h]

theorem hasNode_setState (g : Graph) (id : Nat) (st : Int32) (k : Nat) :
    (g.setState id st).hasNode k = g.hasNode k := by
  unfold setState
  by_cases h : g.hasNode id = true
  · rw [if_pos h]
    simp only [hasNode, lookup_insert]
    by_cases hk : k = id
    · subst hk; simpa [hasNode] using h
    · simp [hk]
  · rw [if_neg h]

/-- adding a node (any id) preserves the invariant -/
theorem addNode_inv (g : Graph) (id : Nat) (st : Int32) (h : GInv g) : GInv (g.addNode id st) := by
  intro d l hl
  obtain ⟨⟨h1, h2⟩, h3⟩ := h d l hl
  refine ⟨⟨?_, fun e he => ?_⟩, h3⟩
  · rw [hasNode_addNode]; simp [h1]
  · rw [hasNode_addNode]; simp [h2 e he]

theorem setState_inv (g : Graph) (id : Nat) (st : Int32) (h : GInv g) : GInv (g.setState id st) := by
  intro d l hl
  have he : (g.setState id st).edges = g.edges := by unfold setState; split <;> rfl
  rw [he] at hl
  obtain ⟨⟨h1, h2⟩, h3⟩ := h d l hl
  exact ⟨⟨by rw [hasNode_setState]; exact h1, fun e hh => by rw [hasNode_setState]; exact h2 e hh⟩, h3⟩

/-- adding an edge: both end points must exist, a second edge for the same ordered pair is refused -/
theorem addEdge_inv (g : Graph) (o d : Nat) (w : Float32) (h : GInv g) : GInv (g.addEdge o d w) := by
  unfold addEdge
  by_cases hn : (g.hasNode o && g.hasNode d) = true
  · simp only [hn, if_true]
    have ho : g.hasNode o = true := by simp at hn; exact hn.1
    have hd : g.hasNode d = true := by simp at hn; exact hn.2
    cases hl : lookupKey d g.edges with
    | some l =>
      simp only
      by_cases hany : l.any (fun e => e.origin == o) = true
      · rw [if_pos hany]; exact h
      · rw [if_neg hany]
        intro d' l' hl'
        simp only [lookup_insert] at hl'
        by_cases hdd : d' = d
        · subst hdd
          simp only [if_true, Option.some.injEq] at hl'
          subst hl'
          obtain ⟨⟨h1, h2⟩, h3⟩ := h d' l hl
          refine ⟨⟨h1, ?_⟩, ?_⟩
          · intro e he
            simp only [List.mem_append, List.mem_singleton] at he
            rcases he with he | he
            · exact h2 e he
            · subst he; exact ho
          · simp only [List.map_append, List.map_cons, List.map_nil]
            rw [List.nodup_append]
            refine ⟨h3, by simp, ?_⟩
            intro a ha b hb
            simp only [List.mem_singleton] at hb
            subst hb
            intro hab; subst hab
            apply hany
            simp only [List.any_eq_true, beq_iff_eq]
            obtain ⟨e, he, rfl⟩ := List.mem_map.mp ha
            exact ⟨e, he, rfl⟩
        · simp only [hdd, if_false] at hl'
          exact h d' l' hl'
    | none =>
      simp only
      intro d' l' hl'
      simp only [lookup_insert] at hl'
      by_cases hdd : d' = d
      · subst hdd
        simp only [if_true, Option.some.injEq] at hl'
        subst hl'
        exact ⟨⟨hd, by intro e he; simp at he; subst he; exact ho⟩, by simp⟩
      · simp only [hdd, if_false] at hl'
        exact h d' l' hl'
  · simp only [hn, if_false]; exact h

theorem nodup_filter_map {α β : Type} (f : α → β) (p : α → Bool) (l : List α) (h : (l.map f).Nodup) :
    ((l.filter p).map f).Nodup := by
  induction l with
  | nil => simp
  | cons a t ih =>
    simp only [List.map_cons, List.nodup_cons] at h
    simp only [List.filter_cons]
    split
    · simp only [List.map_cons, List.nodup_cons]
      refine ⟨?_, ih h.2⟩
      intro hm
      apply h.1
      obtain ⟨x, hx, hfx⟩ := List.mem_map.mp hm
      exact List.mem_map.mpr ⟨x, (List.mem_filter.mp hx).1, hfx⟩
    · exact ih h.2

theorem removeEdge_inv (g : Graph) (o d : Nat) (h : GInv g) : GInv (g.removeEdge o d) := by
  unfold removeEdge
  cases hl : lookupKey d g.edges with
  | none => exact h
  | some l =>
    intro d' l' hl'
    simp only [lookup_insert] at hl'
    by_cases hdd : d' = d
    · subst hdd
      simp only [if_true, Option.some.injEq] at hl'
      subst hl'
      obtain ⟨⟨h1, h2⟩, h3⟩ := h d' l hl
      exact ⟨⟨h1, fun e he => h2 e (List.mem_filter.mp he).1⟩, nodup_filter_map _ _ _ h3⟩
    · simp only [hdd, if_false] at hl'
      exact h d' l' hl'

/-- removing a node removes its incoming list and every edge leaving it: no dangling edge remains -/
theorem removeNode_inv (g : Graph) (id : Nat) (h : GInv g) : GInv (g.removeNode id) := by
  intro d l hl
  simp only [removeNode] at hl
  have hmap : lookupKey d ((g.edges.filter (·.1 != id)).map fun p => (p.1, p.2.filter (·.origin != id)))
      = (lookupKey d (g.edges.filter (·.1 != id))).map (fun l => l.filter (·.origin != id)) :=
    lookup_map (fun (_ : Nat) (l : List Edge) => l.filter (·.origin != id)) d _
  rw [hmap, lookup_filter_ne] at hl
  by_cases hd : d = id
  · simp [hd] at hl
  · simp only [hd, if_false] at hl
    cases hl0 : lookupKey d g.edges with
    | none => simp [hl0] at hl
    | some l0 =>
      simp only [hl0, Option.map_some, Option.some.injEq] at hl
      subst hl
      obtain ⟨⟨h1, h2⟩, h3⟩ := h d l0 hl0
      have hn : ∀ k, k ≠ id → g.hasNode k = true → (g.removeNode id).hasNode k = true := by
        intro k hk hh
        simp only [hasNode, removeNode] at hh ⊢
        rw [lookup_filter_ne]; simp [hk]; simpa using hh
      refine ⟨⟨hn d hd h1, ?_⟩, nodup_filter_map _ _ _ h3⟩
      intro e he
      have hm := List.mem_filter.mp he
      have hne : e.origin ≠ id := by simpa using hm.2
      exact hn e.origin hne (h2 e hm.1)

theorem setWeight_inv (g : Graph) (o d : Nat) (w : Float32) (h : GInv g) : GInv (g.setWeight o d w) := by
  unfold setWeight
  cases hl : lookupKey d g.edges with
  | none => exact h
  | some l =>
    simp only
    split
    · intro d' l' hl'
      simp only [lookup_insert] at hl'
      by_cases hdd : d' = d
      · subst hdd
        simp only [if_true, Option.some.injEq] at hl'
        subst hl'
        obtain ⟨⟨h1, h2⟩, h3⟩ := h d' l hl
        have hmap : (l.map fun e => if e.origin == o then (⟨o, w⟩ : Edge) else e).map (·.origin) = l.map (·.origin) := by
          rw [List.map_map]; apply List.map_congr_left
          intro e _; simp only [Function.comp]; split <;> simp_all
        refine ⟨⟨h1, ?_⟩, by rw [hmap]; exact h3⟩
        intro e he
        obtain ⟨e0, he0, rfl⟩ := List.mem_map.mp he
        split
        · rename_i heq; have := h2 e0 he0; simp only [beq_iff_eq] at heq; rw [← heq]; exact this
        · exact h2 e0 he0
      · simp only [hdd, if_false] at hl'
        exact h d' l' hl'
    · exact h

/-! ## queries -/

/-- a weight that was set is the weight that is read -/
theorem getWeight_after_add (g : Graph) (o d : Nat) (w : Float32) (ho : g.hasNode o = true)
    (hd : g.hasNode d = true) (hnew : g.getWeight o d = none) :
    ((g.addEdge o d w).getWeight o d).isSome = true := by
  unfold addEdge getWeight at *
  simp only [ho, hd, Bool.and_self, if_true]
  cases hl : lookupKey d g.edges with
  | none => simp [lookup_insert]
  | some l =>
    simp only [hl] at hnew
    have hany : l.any (fun e => e.origin == o) = false := by
      cases hf : l.find? (fun e => e.origin == o) with
      | none => simpa [List.find?_eq_none] using hf
      | some e => simp [hf] at hnew
    simp [hany, lookup_insert, List.find?_append]

/-- predecessors are exactly the origins of the incoming edges whose state passes the filter -/
theorem predecessors_spec (g : Graph) (id : Nat) (states : List Int32) (k : Nat) :
    k ∈ g.predecessors id states ↔
      ∃ l, lookupKey id g.edges = some l ∧ ∃ e ∈ l, e.origin = k ∧
        ∃ st, g.getState k = some st ∧ stateOk states st = true := by
  unfold predecessors
  cases hl : lookupKey id g.edges with
  | none => simp
  | some l =>
    simp only [List.mem_filterMap, Option.some.injEq, exists_eq_left']
    constructor
    · rintro ⟨e, he, hk⟩
      cases hs : g.getState e.origin with
      | none => simp [hs] at hk
      | some st =>
        simp only [hs] at hk
        by_cases hok : stateOk states st = true
        · simp only [hok, if_true, Option.some.injEq] at hk
          exact ⟨e, he, hk, st, by rw [← hk]; exact hs, hok⟩
        · simp [hok] at hk
    · rintro ⟨e, he, hk, st, hs, hok⟩
      exact ⟨e, he, by subst hk; simp [hs, hok]⟩

/-- duplicating a graph takes a snapshot: a later change of the top graph produces a new value and
cannot alter the copy below it -/
theorem dup_is_snapshot (s : State) (l : List Graph) (g : Graph) (f : Graph → Graph)
    (h : s.graph.items = l ++ [g]) (hroom : s.graph.items.length < s.graph.cap) :
    (modGraphTop (semGraph .dup s) f).graph.getStack 1 = some g ∧
    (modGraphTop (semGraph .dup s) f).graph.getStack 0 = some (f g) := by
  have h0 : graphAt s 0 = some g := by simp [graphAt, Buf.getStack, h]
  have hr : l.length + 1 < s.graph.cap := by rw [h] at hroom; simpa using hroom
  simp only [semGraph, h0, Buf.push, hroom, if_true, modGraphTop, h]
  simp [Buf.getStack, hr]

/-! non-vacuity -/
example : GInv ((Graph.empty.addNode 1 0).addNode 2 5 |>.addEdge 1 2 0) :=
  addEdge_inv _ _ _ _ (addNode_inv _ _ _ (addNode_inv _ _ _ empty_inv))

end Pushr.C18
