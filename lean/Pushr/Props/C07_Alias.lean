import Pushr.Props.C07
import Pushr.Full
/-! # C07 (supplement) — aliases: a name bound to a name costs one step per alias and ends at the bound value -/
namespace Pushr.C07
open Pushr

/-- a name bound to another (unquoted) name: one step puts that other name on EXEC, nothing else changes -/
theorem alias_step (X : Ext) (ρ : Oracle) (s : State) (a b : String) (e : List Item)
    (h : s.exec = .ident a :: e) (hq : s.quote = false) (hb : bindLookup a s.bindings = some (.ident b)) :
    (step X ρ s).2 = { s with exec := .ident b :: e } := by
  simp [step, h, hq, hb, pushExec]

/-- two aliases in a row, ending at a literal: three steps put the literal's value on its stack -/
theorem alias_chain_int (X : Ext) (ρ : Oracle) (s : State) (a b : String) (v : Int32) (e : List Item)
    (h : s.exec = .ident a :: e) (hq : s.quote = false)
    (hab : bindLookup a s.bindings = some (.ident b)) (hbv : bindLookup b s.bindings = some (.lit (.int v))) :
    stepN X ρ 3 s = { s with exec := e, int := v :: s.int } := by
  simp [stepN, step, h, hq, hab, hbv, pushExec, pushLit, pushInt]

/-- a ring of aliases never leaves the step budget's control: each step only swaps one name for the next, the rest
of the state is untouched (so `run` ends with StepLimitExceeded, never hangs inside a step) -/
theorem alias_ring_step (X : Ext) (ρ : Oracle) (s : State) (a : String) (e : List Item)
    (h : s.exec = .ident a :: e) (hq : s.quote = false) (hb : bindLookup a s.bindings = some (.ident a)) :
    (step X ρ s).2 = s := by
  have := alias_step X ρ s a a e h hq hb
  rw [this]; cases s; simp_all

end Pushr.C07
