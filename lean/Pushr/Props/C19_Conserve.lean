import Pushr.Props.C19
import Pushr.Spec.C15
/-! # C19 (supplement) — loading conserves items; LIST.ADD / LIST.SET / LIST.REMOVE touch exactly the addressed record -/
namespace Pushr.C19
open Pushr

/-! ## conservation: loading moves items, it never loses or duplicates one -/

/-- total number of items on the nine stacks `load_items` can take from -/
def stackTotal (s : State) : Nat :=
  s.bool.length + s.bvec.length + s.code.length + s.exec.length + s.float.length + s.fvec.length
  + s.int.length + s.ivec.length + s.name.length

/-- a successful pop removes exactly one item -/
theorem popById_total (s s' : State) (sid : Int32) (it : Item) (h : popById s sid = some (it, s')) :
    stackTotal s = stackTotal s' + 1 := by
  unfold popById at h
  repeat' split at h
  all_goals first
    | (simp only [Option.some.injEq, Prod.mk.injEq] at h
       obtain ⟨_, rfl⟩ := h
       simp_all [stackTotal]
       omega)
    | (simp at h)

/-- **no loss, no duplication**: items in the record + items left on the stacks = items before -/
theorem loadFold_conserves (ids : List Int32) (s : State) (acc : List Item) :
    (loadFold ids s acc).1.length + stackTotal (loadFold ids s acc).2 = acc.length + stackTotal s := by
  induction ids generalizing s acc with
  | nil => simp [loadFold]
  | cons sid ids ih =>
    unfold loadFold
    split
    · next it s' hp =>
      rw [ih]
      have := popById_total s s' sid it hp
      simp; omega
    · exact ih s acc

/-- the record keeps what was accumulated before, in order: loading only appends -/
theorem loadFold_prefix (ids : List Int32) (s : State) (acc : List Item) :
    ∃ more, (loadFold ids s acc).1 = acc ++ more := by
  induction ids generalizing s acc with
  | nil => exact ⟨[], by simp [loadFold]⟩
  | cons sid ids ih =>
    unfold loadFold
    split
    · next it s' hp =>
      obtain ⟨m, hm⟩ := ih s' (acc ++ [it])
      exact ⟨it :: m, by rw [hm]; simp⟩
    · exact ih s acc

/-- at most one item per id: the record never holds more items than the id vector has entries -/
theorem loadFold_length_le (ids : List Int32) (s : State) (acc : List Item) :
    (loadFold ids s acc).1.length ≤ acc.length + ids.length := by
  induction ids generalizing s acc with
  | nil => simp [loadFold]
  | cons sid ids ih =>
    unfold loadFold
    split
    · next it s' hp => have := ih s' (acc ++ [it]); simp at this ⊢; omega
    · have := ih s acc; simp; omega

/-- LIST.ADD: the id vector is consumed, the designated items leave their stacks and ONE record holding exactly
them is pushed on CODE -/
theorem list_add_spec (s : State) (ids : List Int32) (l : List (List Int32)) (h : s.ivec = ids :: l) :
    semList .add s =
      pushCode (loadFold ids { s with ivec := l } []).2 (.list (loadFold ids { s with ivec := l } []).1.reverse) := by
  simp [semList, loadItems_record s ids l h]

/-- LIST.SET replaces exactly the addressed record: same number of CODE items, the record at the clamped address,
every other position as it was after loading -/
theorem list_set_replaces_exactly (s : State) (i : Int32) (il : List Int32) (ids : List Int32)
    (l : List (List Int32)) (hi : s.int = i :: il) (hv : s.ivec = ids :: l) :
    let loaded := loadFold ids { s with int := il, ivec := l } []
    let record := Item.list loaded.1.reverse
    let p := clampIdx loaded.2.code.length i
    (semList .set s).code.length = loaded.2.code.length ∧
    (loaded.2.code ≠ [] → (semList .set s).code[p]? = some record) ∧
    ∀ j, j ≠ p → (semList .set s).code[j]? = loaded.2.code[j]? := by
  intro loaded record p
  have hl : loadItems { s with int := il } = some (record, loaded.2) :=
    loadItems_record { s with int := il } ids l hv
  simp only [semList, hi, hl]
  by_cases he : loaded.2.code.isEmpty = true
  · simp only [he, if_true]
    have : loaded.2.code = [] := by simpa using he
    exact ⟨trivial, fun h => absurd this h, fun j _ => trivial⟩
  · simp only [he, Bool.false_eq_true, if_false]
    have hne : loaded.2.code ≠ [] := by simpa using he
    have hp : p < loaded.2.code.length :=
      record_address_clamped _ i (List.length_pos_iff.mpr hne)
    refine ⟨by simp, fun _ => ?_, fun j hj => ?_⟩
    · show (loaded.2.code.set p record)[p]? = some record
      simp [hp]
    · show (loaded.2.code.set p record)[j]? = loaded.2.code[j]?
      simp [Ne.symm hj]

/-- LIST.REMOVE: every other record keeps its relative order (positions above shift down by one) -/
theorem list_remove_others (s : State) (i : Int32) (il : List Int32) (h : s.int = i :: il) (j : Nat) :
    (semList .remove s).code[j]? =
      if j < clampIdx s.code.length i then s.code[j]? else s.code[j + 1]? := by
  rw [list_remove_exactly s i il h]
  simp [List.getElem?_eraseIdx]


/-- non-vacuity: LIST.ADD with ids `[9 1]` takes one INTEGER and one BOOLEAN and pushes one record -/
example :
    let s : State := { Pushr.C15.emptyState with ivec := [[9, 1]], int := [10, 11], bool := [true] }
    (semList .add s).code.length = 1 ∧ (semList .add s).int = [11] ∧ (semList .add s).bool = [] ∧
    (semList .add s).ivec = [] := by decide

end Pushr.C19
