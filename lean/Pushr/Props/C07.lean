import Pushr.Spec.C07
/-! # C07 — names: definition, lookup and quoting behave as documented for every type -/
namespace Pushr.C07
open Pushr

/-! ## the binding table is a function update: a later definition replaces an earlier one -/

theorem lookup_insert_self (k : String) (v : Item) (l : List (String × Item)) :
    bindLookup k (bindInsert k v l) = some v := by
  induction l with
  | nil => simp [bindInsert, bindLookup]
  | cons p t ih =>
    obtain ⟨k', v'⟩ := p
    unfold bindInsert
    split
    · simp [bindLookup]
    · split
      · simp [bindLookup]
      · rename_i h1 h2
        simp only [bindLookup, h2, if_false]; exact ih

theorem lookup_insert_other (k k' : String) (v : Item) (l : List (String × Item)) (h : k' ≠ k) :
    bindLookup k' (bindInsert k v l) = bindLookup k' l := by
  induction l with
  | nil => simp [bindInsert, bindLookup, h]
  | cons p t ih =>
    obtain ⟨k2, v2⟩ := p
    unfold bindInsert
    split
    · simp [bindLookup, h]
    · split
      · rename_i h1 h2; subst h2; simp [bindLookup, h]
      · simp only [bindLookup]; rw [ih]

/-- last write wins, over any history of definitions -/
theorem bindings_last_write_wins (k : String) (v1 v2 : Item) (l : List (String × Item)) :
    bindLookup k (bindInsert k v2 (bindInsert k v1 l)) = some v2 := lookup_insert_self k v2 _

/-! ## encountering a name -/

variable (X : Ext) (ρ : Oracle)

/-- one interpreter step on an identifier is exactly `identStep` -/
theorem ident_step (s : State) (n : String) (e : List Item) (h : s.exec = .ident n :: e) :
    step X ρ s = (false, identStep s n e) := by
  unfold step identStep table
  rw [h]
  simp only [pushName, pushExec]
  split
  · rfl
  · split <;> simp_all

theorem ident_unbound_to_name_stack (s : State) (n : String) (e : List Item) (h : s.exec = .ident n :: e)
    (hq : s.quote = false) (hb : bindLookup n s.bindings = none) :
    (step X ρ s).2 = { s with exec := e, name := n :: s.name } := by
  rw [ident_step X ρ s n e h]; simp [identStep, table, hq, hb]

theorem ident_bound_pushes_exec (s : State) (n : String) (e : List Item) (v : Item) (h : s.exec = .ident n :: e)
    (hq : s.quote = false) (hb : bindLookup n s.bindings = some v) :
    (step X ρ s).2 = { s with exec := v :: e } := by
  rw [ident_step X ρ s n e h]; simp [identStep, table, hq, hb]

/-- NAME.QUOTE makes exactly the next encountered name go to the NAME stack, bound or not, and is then cleared -/
theorem quoted_name_goes_to_name_stack (s : State) (n : String) (e : List Item) (h : s.exec = .ident n :: e)
    (hq : s.quote = true) :
    (step X ρ s).2 = { s with exec := e, name := n :: s.name, quote := false } := by
  rw [ident_step X ρ s n e h]; simp [identStep, hq]

theorem name_quote_sets_flag (s : State) : sem X ρ (.name .quote) s = { s with quote := true } := rfl

/-- the flag survives steps that execute a literal or unpack a list -/
theorem quote_survives_literal (s : State) (v : Lit) (e : List Item) (h : s.exec = .lit v :: e) :
    (step X ρ s).2.quote = s.quote := by
  unfold step; rw [h]; cases v <;> rfl

theorem quote_survives_list (s : State) (xs e : List Item) (h : s.exec = .list xs :: e) :
    (step X ρ s).2.quote = s.quote := by
  unfold step; rw [h]

/-- using a name bound to a literal puts the value back on its stack (two steps) -/
theorem use_bound_literal (s : State) (n : String) (e : List Item) (v : Lit) (h : s.exec = .ident n :: e)
    (hq : s.quote = false) (hb : bindLookup n s.bindings = some (.lit v)) :
    stepN X ρ 2 s = pushLit { s with exec := e } v := by
  have h1 := ident_bound_pushes_exec X ρ s n e (.lit v) h hq hb
  simp only [stepN, h1]
  simp [step]

/-! ## DEFINE -/

theorem defineWith_popAs {α : Type} (L : Lens α) (mk : α → Item) (s : State) (n : String) (ns : List String)
    (x : α) (l : List α) (hn : s.name = n :: ns) (hx : L.get { s with name := ns } = x :: l) :
    defineWith s (popAs L mk) =
      { (L.set { s with name := ns } l) with
        bindings := bindInsert n (mk x) (L.set { s with name := ns } l).bindings } := by
  simp [defineWith, popAs, hn, hx]

/-- `T.DEFINE` with a name and a value present: the name is bound to the top item of stack `T`,
both are consumed, every other binding is unchanged -/
theorem define_binds (t : Ty) (ht : t ≠ .name) (s : State) (n : String) (ns : List String) (v : Item)
    (hn : s.name = n :: ns) (hv : boundItem t { s with name := ns } = some v) :
    (semDefine t s).bindings = bindInsert n v s.bindings ∧ (semDefine t s).name = ns := by
  cases t
  case name => exact absurd rfl ht
  case bool =>
    cases hs : s.bool with
    | nil => simp [boundItem, hs] at hv
    | cons x l =>
      simp only [boundItem, hs, List.head?_cons, Option.map_some, Option.some.injEq] at hv; subst hv
      rw [semDefine, defineWith_popAs Lens.bool _ s n ns x l hn (by simpa [Lens.bool] using hs)]
      exact ⟨rfl, rfl⟩
  case int =>
    cases hs : s.int with
    | nil => simp [boundItem, hs] at hv
    | cons x l =>
      simp only [boundItem, hs, List.head?_cons, Option.map_some, Option.some.injEq] at hv; subst hv
      rw [semDefine, defineWith_popAs Lens.int _ s n ns x l hn (by simpa [Lens.int] using hs)]
      exact ⟨rfl, rfl⟩
  case float =>
    cases hs : s.float with
    | nil => simp [boundItem, hs] at hv
    | cons x l =>
      simp only [boundItem, hs, List.head?_cons, Option.map_some, Option.some.injEq] at hv; subst hv
      rw [semDefine, defineWith_popAs Lens.float _ s n ns x l hn (by simpa [Lens.float] using hs)]
      exact ⟨rfl, rfl⟩
  case code =>
    cases hs : s.code with
    | nil => simp [boundItem, hs] at hv
    | cons x l =>
      simp only [boundItem, hs, List.head?_cons, Option.some.injEq] at hv; subst hv
      rw [semDefine, defineWith_popAs Lens.code _ s n ns x l hn (by simpa [Lens.code] using hs)]
      exact ⟨rfl, rfl⟩
  case exec =>
    cases hs : s.exec with
    | nil => simp [boundItem, hs] at hv
    | cons x l =>
      simp only [boundItem, hs, List.head?_cons, Option.some.injEq] at hv; subst hv
      rw [semDefine, defineWith_popAs Lens.exec _ s n ns x l hn (by simpa [Lens.exec] using hs)]
      exact ⟨rfl, rfl⟩
  case bvec =>
    cases hs : s.bvec with
    | nil => simp [boundItem, hs] at hv
    | cons x l =>
      simp only [boundItem, hs, List.head?_cons, Option.map_some, Option.some.injEq] at hv; subst hv
      rw [semDefine, defineWith_popAs Lens.bvec _ s n ns x l hn (by simpa [Lens.bvec] using hs)]
      exact ⟨rfl, rfl⟩
  case ivec =>
    cases hs : s.ivec with
    | nil => simp [boundItem, hs] at hv
    | cons x l =>
      simp only [boundItem, hs, List.head?_cons, Option.map_some, Option.some.injEq] at hv; subst hv
      rw [semDefine, defineWith_popAs Lens.ivec _ s n ns x l hn (by simpa [Lens.ivec] using hs)]
      exact ⟨rfl, rfl⟩
  case fvec =>
    cases hs : s.fvec with
    | nil => simp [boundItem, hs] at hv
    | cons x l =>
      simp only [boundItem, hs, List.head?_cons, Option.map_some, Option.some.injEq] at hv; subst hv
      rw [semDefine, defineWith_popAs Lens.fvec _ s n ns x l hn (by simpa [Lens.fvec] using hs)]
      exact ⟨rfl, rfl⟩

theorem define_then_lookup (t : Ty) (ht : t ≠ .name) (s : State) (n : String) (ns : List String) (v : Item)
    (hn : s.name = n :: ns) (hv : boundItem t { s with name := ns } = some v) :
    table (semDefine t s) n = some v := by
  unfold table; rw [(define_binds t ht s n ns v hn hv).1]; exact lookup_insert_self n v _

/-- the model of every DEFINE instruction is the declarative statement -/
theorem define_meets_spec (t : Ty) (ht : t ≠ .name) (s : State) : semDefine t s = defineSpec t s := by
  cases hn : s.name with
  | nil => cases t <;> simp [semDefine, defineSpec, defineWith, hn]
  | cons n ns =>
    cases t
    case name => exact absurd rfl ht
    case bool => cases hs : s.bool <;> simp [semDefine, defineSpec, defineWith, boundItem, popAs, popTy, Lens.bool, hn, hs]
    case int => cases hs : s.int <;> simp [semDefine, defineSpec, defineWith, boundItem, popAs, popTy, Lens.int, hn, hs]
    case float => cases hs : s.float <;> simp [semDefine, defineSpec, defineWith, boundItem, popAs, popTy, Lens.float, hn, hs]
    case code => cases hs : s.code <;> simp [semDefine, defineSpec, defineWith, boundItem, popAs, popTy, Lens.code, hn, hs]
    case exec => cases hs : s.exec <;> simp [semDefine, defineSpec, defineWith, boundItem, popAs, popTy, Lens.exec, hn, hs]
    case bvec => cases hs : s.bvec <;> simp [semDefine, defineSpec, defineWith, boundItem, popAs, popTy, Lens.bvec, hn, hs]
    case ivec => cases hs : s.ivec <;> simp [semDefine, defineSpec, defineWith, boundItem, popAs, popTy, Lens.ivec, hn, hs]
    case fvec => cases hs : s.fvec <;> simp [semDefine, defineSpec, defineWith, boundItem, popAs, popTy, Lens.fvec, hn, hs]

/-- without a name nothing is defined and nothing is consumed -/
theorem define_without_name (t : Ty) (s : State) (hn : s.name = []) : semDefine t s = s := by
  cases t <;> simp [semDefine, defineWith, hn]

/-- CODE.DEFINITION returns the bound value unchanged -/
theorem code_definition_returns_binding (rc : Oracle → State → Nat → Option (Item × Nat)) (s : State)
    (n : String) (ns : List String) (v : Item) (hn : s.name = n :: ns) (hb : bindLookup n s.bindings = some v) :
    semCode rc ρ .definition s = { s with name := ns, code := v :: s.code } := by
  simp [semCode, hn, hb]

/-- ... and is a pure read: the binding table is left exactly as it was, whatever the NAME stack holds
(so every later encounter of the name still yields the value) -/
theorem code_definition_keeps_bindings (rc : Oracle → State → Nat → Option (Item × Nat)) (s : State) :
    (semCode rc ρ .definition s).bindings = s.bindings := by
  simp only [semCode]
  split
  · rfl
  · split <;> rfl

/-! non-vacuity -/
example : bindLookup "a" (bindInsert "a" (.lit (.int 2)) (bindInsert "a" (.lit (.int 1)) [])) = some (.lit (.int 2)) :=
  lookup_insert_self _ _ _

end Pushr.C07
