import Pushr.Props.C06
/-! # C06 (supplement): an INTVECTOR.LOOP body that LOOKS at the INTVECTOR stack

`intvector_loop_runs` quantifies over every body that meets the contract `BodyOkV`. This instance shows that the
contract is met by a body that inspects the INTVECTOR stack (INTVECTOR.STACKDEPTH): while the body runs the iterated
vector is not on that stack, so every iteration sees the depth the stack had below the vector. (This is the body the
`loop ivec depth` cases of the harness run.) -/
open Pushr
namespace Pushr.C06

def depthBody : Item := .instr (.stk .ivec .depth)

/-- what one iteration with the depth body does: the element stays on INTEGER, the depth goes on top of it -/
def depthF (x : Int32) (d : State) : State := { d with int := lenI32 d.ivec.length :: x :: d.int }

theorem depthBody_ok (ρ : Oracle) : BodyOkV fullExt ρ depthBody depthF := by
  intro E x d
  refine ⟨1, ?_⟩
  simp [stepN, step, depthBody, depthF, sem, semStk, stkOp, Lens.ivec, pushInt]

/-- INTVECTOR.LOOP with the depth body: every element, in order, each followed by the depth of the INTVECTOR stack
without the iterated vector; no vector and no loop code is left -/
theorem intvector_loop_depth (ρ : Oracle) (v : List Int32) (V : List (List Int32)) (E : List Item) (d : State)
    (hd : d.ivec = V) :
    ∃ k, stepN fullExt ρ k { d with exec := vloopI :: depthBody :: E, ivec := v :: V }
      = { (v.foldl (fun d x => depthF x d) d) with exec := E } :=
  intvector_loop_runs ρ depthBody depthF (depthBody_ok ρ) (fun _ _ => rfl) v V E d hd

end Pushr.C06
