import Pushr.Random
import Pushr.Full
/-! # C12 — random code has the requested size and is built from the given instructions

Every statement quantifies over **all** oracles `ρ` (streams of naturals standing for the PRNG),
which is stronger than any number of draws. -/
namespace Pushr.C12
open Pushr Pushr.Rand

/-- the size decomposition consists of positive parts summing to the request -/
theorem decompose_spec (ρ : Oracle) (i n : Nat) (hn : 1 ≤ n) :
    (decompose ρ i n).1.sum = n ∧ ∀ p ∈ (decompose ρ i n).1, 1 ≤ p ∧ p ≤ n := by
  induction n using Nat.strongRecOn generalizing i with
  | _ n ih =>
    rw [decompose]
    split
    · next h => simp; omega
    · next h =>
      have hr := draw_range ρ i 1 n (by omega)
      have := ih (n - draw ρ i 1 n) (by omega) (i + 1) (by omega)
      simp only [List.sum_cons, List.mem_cons]
      refine ⟨by omega, ?_⟩
      intro p hp
      rcases hp with rfl | hp
      · omega
      · have := this.2 p hp; omega

theorem sizeL_append (a b : List Item) : Item.sizeL (a ++ b) = Item.sizeL a + Item.sizeL b := by
  induction a with
  | nil => simp [Item.sizeL]
  | cons x a ih => simp [Item.sizeL, ih]; omega

theorem sizeL_reverse (a : List Item) : Item.sizeL a.reverse = Item.sizeL a := by
  induction a with
  | nil => rfl
  | cons x a ih => simp [List.reverse_cons, sizeL_append, Item.sizeL, ih]; omega

/-- a generated leaf is one point -/
theorem genLeaf_size (ρ : Oracle) (s : State) (instrs : List Instr) (i : Nat) :
    (genLeaf ρ s instrs i).1.size = 1 := by
  unfold genLeaf
  split
  · rfl
  · rfl
  · split <;> rfl
  · rfl
  · split <;> rfl

theorem genL_size (g : Nat → Nat → Item × Nat) (ps : List Nat) (i : Nat)
    (hg : ∀ p ∈ ps, ∀ j, (g j p).1.size = p) : Item.sizeL (genL g i ps).1 = ps.sum := by
  induction ps generalizing i with
  | nil => simp [genL, Item.sizeL]
  | cons p ps ih =>
    simp only [genL, Item.sizeL, List.sum_cons]
    rw [hg p (by simp), ih _ (fun q hq j => hg q (by simp [hq]) j)]

/-- **exact-size generation returns an item with exactly `n` points, for every `n ≥ 1` and every oracle** -/
theorem genCode_size (ρ : Oracle) (s : State) (instrs : List Instr) :
    ∀ (f points i : Nat), 1 ≤ points → points ≤ f + 1 → (genCode ρ s instrs f i points).1.size = points := by
  intro f
  induction f with
  | zero => intro points i h1 h2; simp only [genCode]; rw [genLeaf_size]; omega
  | succ f ih =>
    intro points i h1 h2
    unfold genCode
    split
    · rw [genLeaf_size]; omega
    · next hgt =>
      have hd := decompose_spec ρ i (points - 1) (by omega)
      simp only [Item.size, sizeL_reverse]
      rw [genL_size (genCode ρ s instrs f) _ _
        (fun p hp j => ih p j (hd.2 p hp).1 (by have := (hd.2 p hp).2; omega)), hd.1]
      omega

/-- generation with an upper bound: between 1 and bound-1 points for every bound ≥ 2 -/
theorem randomCode_bounds (ρ : Oracle) (s : State) (instrs : List Instr) (m : Nat) (hm : 2 ≤ m) :
    ∃ c pos, randomCode ρ s instrs m = some (c, pos) ∧ 1 ≤ c.size ∧ c.size ≤ m - 1 := by
  have hr := draw_range ρ s.rng 1 m (by omega)
  refine ⟨(genCode ρ s instrs (draw ρ s.rng 1 m) (s.rng + 1) (draw ρ s.rng 1 m)).1,
    (genCode ρ s instrs (draw ρ s.rng 1 m) (s.rng + 1) (draw ρ s.rng 1 m)).2,
    by simp [randomCode, show m > 1 by omega], ?_⟩
  rw [genCode_size ρ s instrs _ _ _ hr.1 (by omega)]
  omega

/-- … and nothing (never a failure) for smaller bounds -/
theorem randomCode_small (ρ : Oracle) (s : State) (instrs : List Instr) (m : Nat) (hm : m < 2) :
    randomCode ρ s instrs m = none := by
  simp [randomCode, show ¬ m > 1 by omega]

/-- what a leaf may be -/
def LeafOk (s : State) (instrs : List Instr) : Item → Prop
  | .instr i => i ∈ instrs ∨ (instrs = [] ∧ i = .noop)
  | .lit (.bool _) => True
  | .lit (.int _) => True
  | .lit (.float _) => True       -- in [0,1): a property of the float primitive, checked by correspondence
  | .ident _ => True
  | _ => False

/-- every generated leaf is an instruction from the supplied list (NOOP when that list is empty),
TRUE/FALSE, an integer, a float or a name -/
theorem genLeaf_kind (ρ : Oracle) (s : State) (instrs : List Instr) (i : Nat) :
    LeafOk s instrs (genLeaf ρ s instrs i).1 := by
  unfold genLeaf
  split
  · trivial
  · trivial
  · split
    · rename_i ins h
      left
      exact List.mem_of_getElem? h
    · rename_i h
      right
      refine ⟨?_, rfl⟩
      cases instrs with
      | nil => rfl
      | cons a t =>
        exfalso
        have hlt : ρ (i + 1) % (a :: t).length < (a :: t).length := Nat.mod_lt _ (by simp)
        rw [List.getElem?_eq_getElem hlt] at h
        cases h
  · trivial
  · split <;> trivial

/-- a name leaf is a currently bound name unless a new one is drawn -/
theorem boundName_is_bound (ρ : Oracle) (s : State) (h : s.bindings ≠ []) :
    ∃ v, (boundName ρ s, v) ∈ s.bindings := by
  unfold boundName
  have hlt : ρ s.rng % s.bindings.length < s.bindings.length :=
    Nat.mod_lt _ (by cases hb : s.bindings <;> simp_all)
  rw [List.getElem?_eq_getElem hlt]
  exact ⟨_, List.getElem_mem hlt⟩

/-- CODE.RAND never produces more points than `|n|` nor than max-points-in-random-expressions -/
theorem code_rand_bound (ρ : Oracle) (s : State) (n : Int32) (il : List Int32) (h : s.int = n :: il) :
    let limit := min (i32Abs n).toInt.natAbs (i32Abs s.cfg.maxPointsRand).toInt.natAbs
    (limit < 2 → semFull ρ (.code .rand) s = { s with int := il }) ∧
    (2 ≤ limit → ∃ c pos, semFull ρ (.code .rand) s = { s with int := il, code := c :: s.code, rng := pos }
        ∧ 1 ≤ c.size ∧ c.size ≤ limit - 1) := by
  intro limit
  constructor
  · intro hl
    simp only [semFull, sem, semCode, h, fullExt]
    rw [randomCode_small ρ _ _ _ hl]
  · intro hl
    obtain ⟨c, pos, hc, h1, h2⟩ := randomCode_bounds ρ { s with int := il } Instr.all limit hl
    refine ⟨c, pos, ?_, h1, h2⟩
    simp only [semFull, sem, semCode, h, fullExt]
    rw [hc]; rfl

/-! non-vacuity: an arbitrary oracle, size 10 -/
example : ∀ ρ : Oracle, (genCode ρ default [] 10 0 10).1.size = 10 :=
  fun ρ => genCode_size ρ _ _ 10 10 0 (by omega) (by omega)

end Pushr.C12
