import Pushr.Props.C20
import Pushr.ListRec
/-! # C20 (supplement) — the LIST.NEIGHBOR* instructions return exactly the neighbourhood (or the addressed values of
the records at these CODE-stack positions) after clamping their operands -/
namespace Pushr.C20
open Pushr Pushr.Topo

/-- operand clamping: size ≥ 0, the centre index inside `0..size-1`, the dimension count inside `0..size` -/
theorem nbOperands_clamped (dimsRaw indexRaw sizeRaw : Int32) :
    let r := nbOperands dimsRaw indexRaw sizeRaw
    (0 < r.1 → r.2.1 < r.1) ∧ r.2.2 ≤ r.1 ∧ (r.1 = 0 → r.2.1 = 0 ∧ r.2.2 = 0) := by
  simp only [nbOperands]
  refine ⟨fun h => by omega, by omega, fun h => by omega⟩

/-- in-range operands are used as they are -/
theorem nbOperands_id (dimsRaw indexRaw sizeRaw : Int32) (hs : 0 ≤ sizeRaw.toInt)
    (hi : 0 ≤ indexRaw.toInt ∧ indexRaw.toInt < sizeRaw.toInt) (hd : 0 ≤ dimsRaw.toInt ∧ dimsRaw.toInt ≤ sizeRaw.toInt) :
    nbOperands dimsRaw indexRaw sizeRaw = (sizeRaw.toInt.toNat, indexRaw.toInt.toNat, dimsRaw.toInt.toNat) := by
  simp only [nbOperands, Prod.mk.injEq]
  refine ⟨by omega, by omega, by omega⟩

/-- whatever the operands, a computed neighbourhood holds only valid indices, ascending, without repeats -/
theorem neighbors_valid_sorted (dims index size : Int32) (r : Float32) (ns : List Nat)
    (h : neighbors dims index size r = some ns) :
    ns.Pairwise (· < ·) ∧ ∀ i ∈ ns, i < (nbOperands dims index size).1 := by
  simp only [neighbors, findNeighbors] at h
  split at h
  · cases h
  · split at h
    · cases h
    · simp only [Option.some.injEq] at h
      subst h
      exact ⟨scan_sorted _ _ _ _ _, scan_valid _ _ _ _ _⟩

/-- LIST.NEIGHBOR*IDS consumes its four operands and pushes exactly the neighbourhood -/
theorem nbIds_spec (s : State) (size index dims : Int32) (il : List Int32) (r : Float32) (fl : List Float32)
    (hi : s.int = size :: index :: dims :: il) (hf : s.float = r :: fl) :
    semList .nbIds s = match neighbors dims index size r with
      | some ns => { s with int := il, float := fl, ivec := ns.map lenI32 :: s.ivec }
      | none => { s with int := il, float := fl } := by
  cases h : neighbors dims index size r <;> simp only [semList, hi, hf, h]

/-- LIST.NEIGHBOR*IVALS pushes the addressed INTEGER values of exactly the records that exist at the
neighbourhood's CODE-stack positions, in ascending position order -/
theorem nbIvals_spec (s : State) (pos size index dims : Int32) (il : List Int32) (r : Float32) (fl : List Float32)
    (hi : s.int = pos :: size :: index :: dims :: il) (hf : s.float = r :: fl) :
    semList .nbIvals s = match neighbors dims index size r with
      | some ns => { s with int := il, float := fl,
                            ivec := (ns.filterMap fun n => (s.code[n]?).map fun it => ivalOf it pos) :: s.ivec }
      | none => { s with int := il, float := fl } := by
  cases h : neighbors dims index size r <;> simp only [semList, hi, hf, h]

theorem nbBvals_spec (s : State) (pos size index dims : Int32) (il : List Int32) (r : Float32) (fl : List Float32)
    (hi : s.int = pos :: size :: index :: dims :: il) (hf : s.float = r :: fl) :
    semList .nbBvals s = match neighbors dims index size r with
      | some ns => { s with int := il, float := fl,
                            bvec := (ns.filterMap fun n => (s.code[n]?).map fun it => bvalOf it pos) :: s.bvec }
      | none => { s with int := il, float := fl } := by
  cases h : neighbors dims index size r <;> simp only [semList, hi, hf, h]

theorem nbFvals_spec (s : State) (pos size index dims : Int32) (il : List Int32) (r : Float32) (fl : List Float32)
    (hi : s.int = pos :: size :: index :: dims :: il) (hf : s.float = r :: fl) :
    semList .nbFvals s = match neighbors dims index size r with
      | some ns => { s with int := il, float := fl,
                            fvec := (ns.filterMap fun n => (s.code[n]?).map fun it => fvalOf it pos) :: s.fvec }
      | none => { s with int := il, float := fl } := by
  cases h : neighbors dims index size r <;> simp only [semList, hi, hf, h]

/-- the size operand is NOT clamped to the number of records: positions without a record are skipped, the
geometry is that of the requested size -/
theorem values_only_existing (code : List Item) (ns : List Nat) (f : Item → Int32) :
    (ns.filterMap fun n => (code[n]?).map f).length = (ns.filter (· < code.length)).length := by
  induction ns with
  | nil => rfl
  | cons n t ih =>
    simp only [List.filterMap_cons, List.filter_cons]
    by_cases h : n < code.length
    · simp [h, ih]
    · have : code[n]? = none := by simp; omega
      simp [h, this, ih]

example : nbOperands 2 3 9 = (9, 3, 2) := by decide
example : nbOperands 200 (-5) 9 = (9, 0, 9) := by decide

end Pushr.C20
