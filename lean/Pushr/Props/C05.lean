import Pushr.Spec.C05
import Pushr.Interp
/-! # C05 — stack manipulation acts uniformly on every stack and conserves items

* `stk_meets_spec`: for each of the nine stack types and each operation, the model equals the
  declarative position-map statement `C05.expectTy` (index taken from INTEGER first, clamped,
  position 0 = top).
* `yank_perm`, `shove_perm` (hence SWAP = SHOVE 1 and ROT = YANK 2): permutations.
* `yank_getElem?`, `shove_getElem?`: the position maps.
* `dup_adds_top`, `yankdup_adds_existing`, `pop_removes_top`, `flush_empties`, `depth_frame`.
* `clampIdx_lt`, `clampIdx_cases`: the clamp always lands inside a non-empty stack. -/
namespace Pushr.C05
open Pushr

variable {α : Type}

/-! ## the clamp -/

theorem clampIdx_lt (len : Nat) (i : Int32) (h : 0 < len) : clampIdx len i < len := by
  unfold clampIdx; omega

theorem clampIdx_cases (len : Nat) (i : Int32) (h : 0 < len) :
    (i.toInt < 0 ∧ clampIdx len i = 0) ∨
    (0 ≤ i.toInt ∧ i.toInt < len ∧ (clampIdx len i : Int) = i.toInt) ∨
    ((len : Int) ≤ i.toInt ∧ clampIdx len i = len - 1) := by
  unfold clampIdx; omega

/-! ## YANK and SHOVE are permutations -/

theorem getElem_cons_eraseIdx_perm (l : List α) (i : Nat) (x : α) (h : l[i]? = some x) :
    (x :: l.eraseIdx i).Perm l := by
  induction l generalizing i with
  | nil => simp at h
  | cons y t ih =>
    cases i with
    | zero => simp at h; subst h; simp
    | succ i =>
      simp only [List.getElem?_cons_succ] at h
      simp only [List.eraseIdx_cons_succ]
      exact (List.Perm.swap y x _).trans ((ih i h).cons y)

theorem yank_perm (l : List α) (i : Nat) : (Seq.yank l i).Perm l := by
  unfold Seq.yank
  cases h : l[i]? with
  | none => exact List.Perm.refl _
  | some x =>
    by_cases hi : i = 0
    · simp [hi]
    · simp only [hi, if_false]; exact getElem_cons_eraseIdx_perm l i x h

theorem shove_perm (l : List α) (i : Nat) : (Seq.shove l i).Perm l := by
  unfold Seq.shove
  cases l with
  | nil => exact List.Perm.refl _
  | cons x t =>
    simp only
    split
    · have := List.perm_middle (a := x) (l₁ := t.take i) (l₂ := t.drop i)
      rw [List.take_append_drop] at this
      exact this
    · exact List.Perm.refl _

/-! ## position maps -/

theorem yank_getElem? (l : List α) (k : Nat) (h0 : 0 < k) (hk : k < l.length) (j : Nat) :
    (Seq.yank l k)[j]? = if j < l.length then l[yankMap k j]? else none := by
  unfold Seq.yank
  have hne : ¬ k = 0 := by omega
  rw [List.getElem?_eq_getElem hk]
  simp only [hne, if_false]
  cases j with
  | zero =>
    have hl : 0 < l.length := by omega
    simp only [List.getElem?_cons_zero, hl, if_true, yankMap]
    exact (List.getElem?_eq_getElem hk).symm
  | succ j =>
    simp only [List.getElem?_cons_succ, List.getElem?_eraseIdx, yankMap]
    have hs : ¬ j + 1 = 0 := by omega
    simp only [hs, if_false]
    by_cases hj : j < k
    · have h2 : j + 1 ≤ k := by omega
      have h1 : j + 1 < l.length := by omega
      simp only [hj, if_true, h2, h1, Nat.add_sub_cancel]
    · have h2 : ¬ j + 1 ≤ k := by omega
      simp only [hj, if_false, h2]
      by_cases h1 : j + 1 < l.length
      · simp only [h1, if_true]
      · simp only [h1, if_false]
        apply List.getElem?_eq_none; omega

theorem shove_getElem? (l : List α) (k : Nat) (h0 : 0 < k) (hk : k < l.length) (j : Nat) :
    (Seq.shove l k)[j]? = if j < l.length then l[shoveMap k j]? else none := by
  unfold Seq.shove
  cases l with
  | nil => simp at hk
  | cons x t =>
    have hkt : k ≤ t.length := by simp at hk; omega
    have hlen : (x :: t).length = t.length + 1 := rfl
    simp only [h0, hk, and_self, if_true, shoveMap]
    by_cases hj : j < k
    · have h1 : j < (x :: t).length := by omega
      rw [List.getElem?_append_left (by rw [List.length_take]; omega)]
      simp only [hj, h1, if_true, List.getElem?_cons_succ]
      rw [List.getElem?_take]; simp only [hj, if_true]
    · by_cases hjk : j = k
      · subst hjk
        rw [List.getElem?_append_right (by rw [List.length_take]; omega)]
        simp only [List.length_take, Nat.min_eq_left hkt, Nat.sub_self, List.getElem?_cons_zero, hk, if_true,
          Nat.lt_irrefl, if_false]
      · have hgt : k < j := by omega
        rw [List.getElem?_append_right (by rw [List.length_take]; omega)]
        simp only [List.length_take, Nat.min_eq_left hkt, hj, if_false, hjk]
        obtain ⟨d, rfl⟩ : ∃ d, j = k + 1 + d := ⟨j - k - 1, by omega⟩
        rw [show k + 1 + d - k = d + 1 by omega]
        simp only [List.getElem?_cons_succ, List.getElem?_drop]
        by_cases h1 : k + 1 + d < (x :: t).length
        · have h1' : k + d + 1 < (x :: t).length := by omega
          simp only [show k + 1 + d = (k + d) + 1 by omega, List.getElem?_cons_succ, h1', if_true]
        · simp only [h1, if_false]
          apply List.getElem?_eq_none; rw [hlen] at h1; omega

theorem remapFrom_getElem? (l : List α) (f : Nat → Nat) (n start : Nat)
    (hf : ∀ j, start ≤ j → j < start + n → f j < l.length) (i : Nat) :
    (remapFrom l f n start)[i]? = if i < n then l[f (start + i)]? else none := by
  induction n generalizing start i with
  | zero => simp [remapFrom]
  | succ n ih =>
    have h0 : f start < l.length := hf start (Nat.le_refl _) (by omega)
    simp only [remapFrom, List.getElem?_eq_getElem h0]
    cases i with
    | zero => simp [List.getElem?_eq_getElem h0]
    | succ i =>
      simp only [List.getElem?_cons_succ]
      rw [ih (start + 1) (fun j h1 h2 => hf j (by omega) (by omega)) i]
      simp only [Nat.add_lt_add_iff_right, show start + 1 + i = start + (i + 1) by omega]

theorem remap_getElem? (l : List α) (f : Nat → Nat) (hf : ∀ j, j < l.length → f j < l.length) (i : Nat) :
    (remap l l.length f)[i]? = if i < l.length then l[f i]? else none := by
  unfold remap
  rw [remapFrom_getElem? l f l.length 0 (fun j _ h => hf j (by omega)) i]
  simp

theorem yank_eq_remap (l : List α) (k : Nat) (h0 : 0 < k) (hk : k < l.length) :
    Seq.yank l k = remap l l.length (yankMap k) := by
  apply List.ext_getElem?
  intro j
  rw [yank_getElem? l k h0 hk, remap_getElem? l _ (fun j hj => by unfold yankMap; split <;> (try split) <;> omega)]

theorem shove_eq_remap (l : List α) (k : Nat) (h0 : 0 < k) (hk : k < l.length) :
    Seq.shove l k = remap l l.length (shoveMap k) := by
  apply List.ext_getElem?
  intro j
  rw [shove_getElem? l k h0 hk, remap_getElem? l _ (fun j hj => by unfold shoveMap; split <;> (try split) <;> omega)]

/-! ## the model equals the declarative statement, for every stack type -/

theorem yank_target (l : List α) (k : Nat) : Seq.yank l k = target .yank l k := by
  unfold target
  by_cases h : k = 0 ∨ l.length ≤ k
  · simp only [h, if_true]
    unfold Seq.yank
    rcases h with h | h
    · subst h; cases l <;> simp
    · rw [List.getElem?_eq_none h]
  · simp only [h, if_false]
    exact yank_eq_remap l k (by omega) (by omega)

theorem shove_target (l : List α) (k : Nat) : Seq.shove l k = target .shove l k := by
  unfold target
  by_cases h : k = 0 ∨ l.length ≤ k
  · simp only [h, if_true]
    unfold Seq.shove
    cases l with
    | nil => rfl
    | cons x t =>
      have : ¬ (0 < k ∧ k < (x :: t).length) := by omega
      simp only [this, if_false]
  · simp only [h, if_false]
    exact shove_eq_remap l k (by omega) (by omega)

theorem swap_target (l : List α) : Seq.shove l 1 = target .swap l 0 := by
  unfold target
  by_cases h : l.length < 2
  · simp only [h, if_true]
    unfold Seq.shove
    cases l with
    | nil => rfl
    | cons x t =>
      have : ¬ (0 < 1 ∧ 1 < (x :: t).length) := by omega
      simp only [this, if_false]
  · simp only [h, if_false]
    exact shove_eq_remap l 1 (by omega) (by omega)

theorem rot_target (l : List α) : Seq.yank l 2 = target .rot l 0 := by
  unfold target
  by_cases h : l.length < 3
  · simp only [h, if_true]
    unfold Seq.yank
    rw [List.getElem?_eq_none (by omega)]
  · simp only [h, if_false]
    exact yank_eq_remap l 2 (by omega) (by omega)

theorem stkOp_eq_expect (L : Lens α) (hL : ∀ s, L.set s (L.get s) = s) (t : Ty) (o : SOp) (s : State) :
    stkOp L t o s = expect L t o s := by
  cases o <;> simp only [stkOp, expect, usesIndex, withIndex, if_true, if_false, Bool.false_eq_true]
  case dup =>
    simp only [target]
    cases h : L.get s with
    | nil => simp only []; rw [← h, hL]
    | cons x l => rfl
  case pop => simp [target]
  case swap => rw [swap_target]
  case rot => rw [rot_target]
  case yank => cases s.int <;> simp only [yank_target]
  case shove => cases s.int <;> simp only [shove_target]
  case yankdup => cases s.int <;> simp only [target] <;> rfl
  case flush => simp [target]

/-- **C05 (uniformity).** Each of the nine per-type instruction families is the same position map -/
theorem stk_meets_spec (t : Ty) (o : SOp) (s : State) : semStk t o s = expectTy t o s := by
  cases t <;> simp only [semStk, expectTy] <;> exact stkOp_eq_expect _ (fun _ => rfl) _ _ _

/-! ## conservation -/

/-- YANK, SHOVE, SWAP and ROT permute the target stack (after the index has been taken) -/
theorem target_perm (o : SOp) (ho : o = .yank ∨ o = .shove ∨ o = .swap ∨ o = .rot) (l : List α) (k : Nat) :
    (target o l k).Perm l := by
  rcases ho with rfl | rfl | rfl | rfl
  · rw [← yank_target]; exact yank_perm l k
  · rw [← shove_target]; exact shove_perm l k
  · have := swap_target l; unfold target at this ⊢; rw [← this]; exact shove_perm l 1
  · have := rot_target l; unfold target at this ⊢; rw [← this]; exact yank_perm l 2

/-- DUP adds exactly one copy of the top item -/
theorem dup_adds_top (x : α) (l : List α) : target .dup (x :: l) 0 = x :: x :: l := rfl
/-- YANKDUP adds exactly one copy of an existing item -/
theorem yankdup_adds_existing (l : List α) (k : Nat) (hk : k < l.length) :
    target .yankdup l k = l[k] :: l := by
  simp [target, List.getElem?_eq_getElem hk]
/-- POP removes exactly the top item -/
theorem pop_removes_top (x : α) (l : List α) : target .pop (x :: l) 0 = l := rfl
theorem flush_empties (l : List α) : target .flush l 0 = [] := rfl

/-- STACKDEPTH reports the depth (INTEGER.STACKDEPTH counts the value it pushes) and changes
nothing else -/
theorem depth_frame (t : Ty) (s : State) :
    ∃ d, semStk t .depth s = { s with int := d :: s.int } := by
  cases t <;> exact ⟨_, rfl⟩

theorem int_depth_counts_itself (s : State) :
    semStk .int .depth s = { s with int := lenI32 (s.int.length + 1) :: s.int } := rfl

/-! non-vacuity -/
example : target .yank [1, 2, 3, 4] 2 = [3, 1, 2, 4] := by decide
example : target .shove [1, 2, 3, 4] 2 = [2, 3, 1, 4] := by decide
example : target .swap [1, 2, 3] 0 = [2, 1, 3] := by decide
example : target .rot [1, 2, 3, 4] 0 = [3, 1, 2, 4] := by decide

end Pushr.C05
