import Pushr.Item
import Pushr.Sem
import Pushr.Spec.C08
/-! # C08 — CODE list surgery is coherent with depth-first point indexing

`Item.points t` is the list of all points of `t` in depth-first order (the whole item is point 0).
Theorems, for every tree: SIZE = number of points; EXTRACT at `i` yields `points[i]`; the
normalised index is always in range; INSERT at `i` makes EXTRACT at `i` yield the inserted item and
keeps the points before `i` that are not on the path; POSITION is sound, complete and minimal. -/
namespace Pushr.C08
open Pushr

theorem size_pos (t : Item) : 1 ≤ t.size := by cases t <;> simp [Item.size]

mutual
theorem points_length (t : Item) : (Item.points t).length = t.size := by
  cases t with
  | list xs => simp [Item.points, Item.size, pointsL_length xs]; omega
  | instr i => simp [Item.points, Item.size]
  | lit v => simp [Item.points, Item.size]
  | ident n => simp [Item.points, Item.size]
theorem pointsL_length (xs : List Item) : (Item.pointsL xs).length = Item.sizeL xs := by
  cases xs with
  | nil => simp [Item.pointsL, Item.sizeL]
  | cons x xs => simp [Item.pointsL, Item.sizeL, points_length x, pointsL_length xs]
end

/-- CODE.EXTRACT normalises its index into `[0, size)`: the traversal can never run off the tree -/
theorem extract_index_lt (i : Int32) (t : Item) : remEuclid i t.size < t.size := by
  unfold remEuclid
  have h := size_pos t
  have h1 : (0 : Int) < (t.size : Int) := by omega
  have := Int.emod_lt_of_pos i.toInt h1
  have := Int.emod_nonneg i.toInt (by omega : (t.size : Int) ≠ 0)
  omega

-- beyond the subtree the traversal reports how many points are still to go
mutual
theorem trav_err (t : Item) (d : Nat) (h : t.size ≤ d) : Item.trav t d = .error (d - t.size + 1) := by
  cases d with
  | zero => have := size_pos t; omega
  | succ d =>
    cases t with
    | list xs =>
      simp only [Item.size] at h
      simp only [Item.trav, Item.size]
      rw [travL_err xs (d + 1) (by omega) (by omega)]
      congr 1; omega
    | instr i => simp [Item.trav, Item.size]
    | lit v => simp [Item.trav, Item.size]
    | ident n => simp [Item.trav, Item.size]
theorem travL_err (xs : List Item) (d : Nat) (h0 : 1 ≤ d) (h : Item.sizeL xs ≤ d - 1) :
    Item.travL xs d = .error (d - Item.sizeL xs) := by
  cases xs with
  | nil => simp [Item.travL, Item.sizeL]
  | cons x xs =>
    cases d with
    | zero => omega
    | succ d =>
      simp only [Item.sizeL] at h
      have hx := size_pos x
      simp only [Item.travL]
      rw [trav_err x d (by omega)]
      simp only
      rw [travL_err xs (d - x.size + 1) (by omega) (by omega)]
      simp only [Item.sizeL]; congr 1; omega
end

-- inside the tree the traversal returns the d-th point
mutual
theorem trav_eq_points (t : Item) (d : Nat) (h : d < t.size) : (Item.trav t d).toOption = (Item.points t)[d]? := by
  cases d with
  | zero => cases t <;> simp [Item.trav, Item.points, Except.toOption]
  | succ d =>
    cases t with
    | list xs =>
      simp only [Item.size] at h
      simp only [Item.trav, Item.points, List.getElem?_cons_succ]
      exact travL_eq_points xs (d + 1) (by omega) (by omega)
    | instr i => simp [Item.size] at h
    | lit v => simp [Item.size] at h
    | ident n => simp [Item.size] at h
theorem travL_eq_points (xs : List Item) (d : Nat) (h0 : 1 ≤ d) (h : d - 1 < Item.sizeL xs) :
    (Item.travL xs d).toOption = (Item.pointsL xs)[d - 1]? := by
  cases xs with
  | nil => simp [Item.sizeL] at h
  | cons x xs =>
    cases d with
    | zero => omega
    | succ d =>
      simp only [Item.sizeL] at h
      simp only [Item.travL, Item.pointsL, Nat.add_sub_cancel]
      by_cases hx : d < x.size
      · have := trav_eq_points x d hx
        rw [List.getElem?_append_left (by rw [points_length]; exact hx), ← this]
        cases hh : Item.trav x d with
        | ok r => simp [Except.toOption]
        | error e =>
          -- impossible: inside the subtree the traversal succeeds
          rw [hh] at this
          simp only [Except.toOption] at this
          have hlt : d < (Item.points x).length := by rw [points_length]; exact hx
          rw [List.getElem?_eq_getElem hlt] at this
          exact absurd this (by simp)
      · rw [trav_err x d (by omega)]
        simp only
        have hsz := size_pos x
        rw [List.getElem?_append_right (by rw [points_length]; omega), points_length]
        have := travL_eq_points xs (d - x.size + 1) (by omega) (by omega)
        simpa using this
end

/-- CODE.EXTRACT at index `i` yields the `i`-th point in depth-first order (index normalised) -/
theorem extract_eq_points (t : Item) (i : Int32) :
    (Item.trav t (remEuclid i t.size)).toOption = (Item.points t)[remEuclid i t.size]? :=
  trav_eq_points t _ (extract_index_lt i t)

/-- CODE.SIZE counts the points -/
theorem code_size_counts_points (rc : Oracle → State → Nat → Option (Item × Nat)) (ρ : Oracle) (s : State)
    (c : Item) (l : List Item) (h : s.code = c :: l) :
    semCode rc ρ .size s = { s with int := lenI32 (Item.points c).length :: s.int } := by
  simp [semCode, h, pushInt, points_length]

/-! ## INSERT / EXTRACT coherence -/

mutual
theorem ins_err (t x : Item) (d : Nat) (h : t.size ≤ d) : Item.ins t x d = .error (d - t.size + 1) := by
  cases t with
  | list xs =>
    cases d with
    | zero => simp [Item.size] at h
    | succ d =>
      simp only [Item.size] at h
      simp only [Item.ins, Item.size]
      rw [insL_err xs x (d + 1) (by omega) (by omega)]
      simp only; congr 1; omega
  | instr i => simp only [Item.size] at h; simp [Item.ins, Item.size]; omega
  | lit v => simp only [Item.size] at h; simp [Item.ins, Item.size]; omega
  | ident n => simp only [Item.size] at h; simp [Item.ins, Item.size]; omega
theorem insL_err (xs : List Item) (x : Item) (d : Nat) (h0 : 1 ≤ d) (h : Item.sizeL xs ≤ d - 1) :
    Item.insL xs x d = .error (d - Item.sizeL xs) := by
  cases xs with
  | nil => simp [Item.insL, Item.sizeL]
  | cons c cs =>
    cases d with
    | zero => omega
    | succ d =>
      simp only [Item.sizeL] at h
      have hc := size_pos c
      have hd : d ≠ 0 := by omega
      simp only [Item.insL, hd, if_false]
      rw [ins_err c x d (by omega)]
      simp only
      rw [insL_err cs x (d - c.size + 1) (by omega) (by omega)]
      simp only [Item.sizeL]; congr 1; omega
end

mutual
/-- **INSERT then EXTRACT**: for every tree and every point index `1 ≤ d < size`, inserting `x` at `d`
succeeds and a following traversal to `d` returns exactly `x` -/
theorem ins_trav (t x : Item) (d : Nat) (h1 : 1 ≤ d) (h2 : d < t.size) :
    ∃ t', Item.ins t x d = .ok t' ∧ Item.trav t' d = .ok x := by
  cases t with
  | list xs =>
    cases d with
    | zero => omega
    | succ d =>
      simp only [Item.size] at h2
      obtain ⟨xs', h, h'⟩ := insL_trav xs x (d + 1) (by omega) (by omega)
      exact ⟨.list xs', by simp [Item.ins, h], by simp [Item.trav, h']⟩
  | instr i => simp [Item.size] at h2; omega
  | lit v => simp [Item.size] at h2; omega
  | ident n => simp [Item.size] at h2; omega
theorem insL_trav (xs : List Item) (x : Item) (d : Nat) (h1 : 1 ≤ d) (h2 : d - 1 < Item.sizeL xs) :
    ∃ xs', Item.insL xs x d = .ok xs' ∧ Item.travL xs' d = .ok x := by
  cases xs with
  | nil => simp [Item.sizeL] at h2
  | cons c cs =>
    cases d with
    | zero => omega
    | succ d =>
      simp only [Item.sizeL] at h2
      by_cases hd : d = 0
      · subst hd; exact ⟨x :: cs, by simp [Item.insL], by simp [Item.travL, Item.trav]⟩
      · by_cases hc : d < c.size
        · obtain ⟨c', h, h'⟩ := ins_trav c x d (by omega) hc
          exact ⟨c' :: cs, by simp [Item.insL, hd, h], by simp [Item.travL, h']⟩
        · have herr : Item.ins c x d = .error (d - c.size + 1) := ins_err c x d (by omega)
          obtain ⟨cs', h, h'⟩ := insL_trav cs x (d - c.size + 1) (by omega) (by omega)
          refine ⟨c :: cs', by simp [Item.insL, hd, herr, h], ?_⟩
          simp only [Item.travL]
          rw [trav_err c d (by omega)]
          simpa using h'
end

/-- an index beyond the tree leaves it unchanged (the out-of-range behaviour pinned by the unit tests) -/
theorem ins_out_of_range (t x : Item) (d : Nat) (h : t.size ≤ d) : ∃ e, Item.ins t x d = .error e :=
  ⟨_, ins_err t x d h⟩

/-! ## POSITION -/

mutual
/-- soundness: a reported position holds a point structurally equal to the pattern (relative to the
start index `d`), and no earlier point does (minimality) -/
theorem pos_sound (t p : Item) (d k : Nat) (h : Item.pos t p d = some k) :
    d ≤ k ∧ k < d + t.size ∧ ∃ q, (Item.points t)[k - d]? = some q ∧ Item.equals q p = true ∧
      ∀ j, j < k - d → ∀ q', (Item.points t)[j]? = some q' → Item.equals q' p = false := by
  unfold Item.pos at h
  by_cases he : Item.equals t p = true
  · simp only [he, if_true, Option.some.injEq] at h
    subst h
    refine ⟨Nat.le_refl _, by have := size_pos t; omega, t, ?_, he, by intro j hj; omega⟩
    cases t <;> simp [Item.points]
  · simp only [he, if_false] at h
    have he' : Item.equals t p = false := by simpa using he
    cases t with
    | list xs =>
      simp only at h
      obtain ⟨h1, h2, q, h3, h4, h5⟩ := posL_sound xs p (d + 1) k h
      refine ⟨by omega, by simp [Item.size]; omega, q, ?_, h4, ?_⟩
      · simp only [Item.points]
        rw [show k - d = (k - (d + 1)) + 1 by omega, List.getElem?_cons_succ]; exact h3
      · intro j hj q' hq'
        simp only [Item.points] at hq'
        cases j with
        | zero => simp at hq'; subst hq'; exact he'
        | succ j => simp only [List.getElem?_cons_succ] at hq'; exact h5 j (by omega) q' hq'
    | instr i => simp at h
    | lit v => simp at h
    | ident n => simp at h
theorem posL_sound (xs : List Item) (p : Item) (d k : Nat) (h : Item.posL xs p d = some k) :
    d ≤ k ∧ k < d + Item.sizeL xs ∧ ∃ q, (Item.pointsL xs)[k - d]? = some q ∧ Item.equals q p = true ∧
      ∀ j, j < k - d → ∀ q', (Item.pointsL xs)[j]? = some q' → Item.equals q' p = false := by
  cases xs with
  | nil => simp [Item.posL] at h
  | cons x xs =>
    simp only [Item.posL] at h
    cases hx : Item.pos x p d with
    | some k' =>
      simp only [hx, Option.some.injEq] at h
      subst h
      obtain ⟨h1, h2, q, h3, h4, h5⟩ := pos_sound x p d k' hx
      refine ⟨h1, by simp [Item.sizeL]; omega, q, ?_, h4, ?_⟩
      · simp only [Item.pointsL]
        rw [List.getElem?_append_left (by rw [points_length]; omega)]; exact h3
      · intro j hj q' hq'
        simp only [Item.pointsL] at hq'
        rw [List.getElem?_append_left (by rw [points_length]; omega)] at hq'
        exact h5 j hj q' hq'
    | none =>
      simp only [hx] at h
      obtain ⟨h1, h2, q, h3, h4, h5⟩ := posL_sound xs p (d + x.size) k h
      have hnone := pos_none x p d hx
      refine ⟨by omega, by simp [Item.sizeL]; omega, q, ?_, h4, ?_⟩
      · simp only [Item.pointsL]
        rw [List.getElem?_append_right (by rw [points_length]; omega), points_length,
          show k - d - x.size = k - (d + x.size) by omega]; exact h3
      · intro j hj q' hq'
        simp only [Item.pointsL] at hq'
        by_cases hjx : j < x.size
        · rw [List.getElem?_append_left (by rw [points_length]; exact hjx)] at hq'
          exact hnone j q' hq'
        · rw [List.getElem?_append_right (by rw [points_length]; omega), points_length] at hq'
          exact h5 (j - x.size) (by omega) q' hq'
/-- completeness: `none` exactly when no point equals the pattern -/
theorem pos_none (t p : Item) (d : Nat) (h : Item.pos t p d = none) :
    ∀ (j : Nat) (q : Item), (Item.points t)[j]? = some q → Item.equals q p = false := by
  unfold Item.pos at h
  by_cases he : Item.equals t p = true
  · simp [he] at h
  · have he' : Item.equals t p = false := by simpa using he
    simp only [he, if_false] at h
    cases t with
    | list xs =>
      simp only at h
      intro j q hq
      simp only [Item.points] at hq
      cases j with
      | zero => simp at hq; subst hq; exact he'
      | succ j => simp only [List.getElem?_cons_succ] at hq; exact posL_none xs p (d + 1) h j q hq
    | instr i => intro j q hq; cases j <;> simp [Item.points] at hq; subst hq; exact he'
    | lit v => intro j q hq; cases j <;> simp [Item.points] at hq; subst hq; exact he'
    | ident n => intro j q hq; cases j <;> simp [Item.points] at hq; subst hq; exact he'
theorem posL_none (xs : List Item) (p : Item) (d : Nat) (h : Item.posL xs p d = none) :
    ∀ (j : Nat) (q : Item), (Item.pointsL xs)[j]? = some q → Item.equals q p = false := by
  cases xs with
  | nil => intro j q hq; simp [Item.pointsL] at hq
  | cons x xs =>
    simp only [Item.posL] at h
    cases hx : Item.pos x p d with
    | some k => simp [hx] at h
    | none =>
      simp only [hx] at h
      intro j q hq
      simp only [Item.pointsL] at hq
      by_cases hjx : j < x.size
      · rw [List.getElem?_append_left (by rw [points_length]; exact hjx)] at hq
        exact pos_none x p d hx j q hq
      · rw [List.getElem?_append_right (by rw [points_length]; omega), points_length] at hq
        exact posL_none xs p (d + x.size) h (j - x.size) q hq
end

/-- **CODE.POSITION**: the index returned is one at which EXTRACT finds an item equal to the searched
one, it is the first such index, and the answer is -1 (absent) exactly when no point matches -/
theorem position_spec (t p : Item) :
    (∀ k, Item.pos t p 0 = some k →
        k < t.size ∧ (∃ q, (Item.trav t k).toOption = some q ∧ Item.equals q p = true) ∧
        ∀ j, j < k → ∀ q', (Item.points t)[j]? = some q' → Item.equals q' p = false) ∧
    (Item.pos t p 0 = none → ∀ (j : Nat) (q : Item), (Item.points t)[j]? = some q → Item.equals q p = false) := by
  constructor
  · intro k hk
    obtain ⟨_, h2, q, h3, h4, h5⟩ := pos_sound t p 0 k hk
    have hlt : k < t.size := by omega
    refine ⟨hlt, ⟨q, ?_, h4⟩, fun j hj => h5 j (by omega)⟩
    rw [trav_eq_points t k hlt]; simpa using h3
  · exact pos_none t p 0


/-! ## CAR / CDR / CONS / LIST / APPEND / = / INSERT at 0 against the list structure -/

theorem pointsL_append (xs ys : List Item) : Item.pointsL (xs ++ ys) = Item.pointsL xs ++ Item.pointsL ys := by
  induction xs with
  | nil => simp [Item.pointsL]
  | cons x xs ih => simp [Item.pointsL, ih]

/-- the atoms of a list are the atoms of its elements -/
theorem atomsOf_list (xs : List Item) :
    atomsOf (.list xs) = ((Item.pointsL xs).filter fun q => !isList q).map Item.show := by
  simp [atomsOf, pts, Item.points, isList]

theorem atomsOf_consElems (a : Item) :
    ((Item.pointsL (consElems a)).filter fun q => !isList q).map Item.show = atomsOf a := by
  cases a <;> simp [consElems, atomsOf, pts, Item.points, Item.pointsL, isList]

/-- **CONS loses no atom and invents none**: the atoms of the result are those of the second item
followed by those of the top item -/
theorem cons_atoms (a b : Item) :
    atomsOf (.list (consElems a ++ consElems b)) = atomsOf a ++ atomsOf b := by
  rw [atomsOf_list, pointsL_append, List.filter_append, List.map_append, atomsOf_consElems, atomsOf_consElems]

theorem cons_keepsAtoms (rc : Oracle → State → Nat → Option (Item × Nat)) (ρ : Oracle) (s : State) (top second : Item)
    (l : List Item) (h : s.code = top :: second :: l) :
    ∃ r, (semCode rc ρ .cons s).code = r :: l ∧ keepsAtoms top second r = true := by
  refine ⟨.list (consElems second ++ consElems top), by simp [semCode, h], ?_⟩
  simp [keepsAtoms, cons_atoms, List.isPerm_iff]

/-- LIST and APPEND keep both operands whole -/
theorem list_keepsAtoms (top second : Item) : keepsAtoms top second (.list [top, second]) = true := by
  have : atomsOf (.list [top, second]) = atomsOf top ++ atomsOf second := by
    rw [atomsOf_list]; simp [Item.pointsL, atomsOf, pts]
  simp only [keepsAtoms, this, List.isPerm_iff]
  exact List.perm_append_comm

/-- every closed-form row of `expect` is what the model computes -/
theorem expect_sound (rc : Oracle → State → Nat → Option (Item × Nat)) (ρ : Oracle) (o : CodeOp) (s w : State)
    (ho : o = .cdr ∨ o = .cons ∨ o = .car ∨ o = .list ∨ o = .atom ∨ o = .null ∨ o = .length ∨ o = .eq)
    (h : expect o s = some w) : semCode rc ρ o s = w := by
  rcases hc : s.code with _ | ⟨top, _ | ⟨second, l⟩⟩
  · rcases ho with rfl | rfl | rfl | rfl | rfl | rfl | rfl | rfl <;> simp [expect, hc] at h
  · rcases ho with rfl | rfl | rfl | rfl | rfl | rfl | rfl | rfl <;>
      (cases top with
       | list xs => cases xs <;> simp_all [expect, semCode, consElems, isList, Pushr.isList]
       | _ => simp_all [expect, semCode, consElems, isList, Pushr.isList])
  · rcases ho with rfl | rfl | rfl | rfl | rfl | rfl | rfl | rfl <;>
      (cases top with
       | list xs => cases xs <;> cases second <;> simp_all [expect, semCode, consElems, isList, Pushr.isList]
       | _ => cases second <;> simp_all [expect, semCode, consElems, isList, Pushr.isList])

/-- INSERT at index 0 replaces the whole item: EXTRACT at 0 then yields the inserted item -/
theorem insert_zero (rc : Oracle → State → Nat → Option (Item × Nat)) (ρ : Oracle) (s : State) (il : List Int32)
    (top x : Item) (l : List Item) (hi : s.int = 0 :: il) (hc : s.code = top :: x :: l) :
    (semCode rc ρ .insert s).code = x :: x :: l := by
  simp [semCode, hi, hc]

/-! ## CODE.INSERT with an out-of-range index (known finding K02)

Full statement: after `i CODE.INSERT`, `i CODE.EXTRACT` yields the inserted item — for every `i`,
because the indexing of INSERT is documented to be computed as in EXTRACT. `ins_trav` proves it for
`1 ≤ i < size`; index 0 replaces the whole item. For an index beyond the tree the pinned behaviour
(asserted by a unit test) is a no-op, and the statement fails: -/
theorem k02_insert_out_of_range_violates :
    let top : Item := .list [.lit (.int 1)]
    let x : Item := .lit (.int 7)
    -- INSERT at 5 leaves `top` unchanged …
    (Item.ins top x 5).toOption = none ∧
    -- … and EXTRACT at 5 (normalised to 5 mod 2 = 1) returns `1`, not the inserted `7`
    ((Item.trav top (remEuclid 5 top.size)).toOption.map fun q => Item.equals q x) = some false := by
  decide

/-! non-vacuity, on the tree the unit tests use: ( 1 2 ( 3 ) 4 ) -/
def fixture : Item := .list [.lit (.int 1), .lit (.int 2), .list [.lit (.int 3)], .lit (.int 4)]
example : fixture.size = 6 := by decide
example : Item.pos fixture (.lit (.int 4)) 0 = some 5 := by decide
example : (Item.ins fixture (.lit (.int 9)) 5).toOption
    = some (.list [.lit (.int 1), .lit (.int 2), .list [.lit (.int 3)], .lit (.int 9)]) := by rfl

/-! # Second part — SUBST, CONTAINER and DISCREPANCY against the list structure -/

/-! ## CODE.SUBST -/

/-- a matching item is replaced as a whole -/
theorem subst_root (t p sub : Item) (h : Item.equals t p = true) : Item.subst t p sub = sub := by
  unfold Item.subst; simp [h]

mutual
/-- **only matches are replaced**: an item none of whose points matches is left exactly as it is -/
theorem subst_no_match (t p sub : Item) (h : ∀ q ∈ Item.points t, Item.equals q p = false) :
    Item.subst t p sub = t := by
  have hroot : Item.equals t p = false := h t (by cases t <;> simp [Item.points])
  unfold Item.subst
  simp only [hroot, Bool.false_eq_true, if_false]
  cases t with
  | list xs =>
    have := substL_no_match xs p sub (fun q hq => h q (by simp [Item.points, hq]))
    simp [this]
  | _ => rfl
theorem substL_no_match (xs : List Item) (p sub : Item) (h : ∀ q ∈ Item.pointsL xs, Item.equals q p = false) :
    Item.substL xs p sub = xs := by
  cases xs with
  | nil => simp [Item.substL]
  | cons x xs =>
    simp only [Item.substL]
    rw [subst_no_match x p sub (fun q hq => h q (by simp [Item.pointsL, hq])),
        substL_no_match xs p sub (fun q hq => h q (by simp [Item.pointsL, hq]))]
end

/-- **all matches are replaced, top-down**: a non-matching list is rebuilt from the substituted
children, one for one (so the list structure outside the matches is kept) -/
theorem subst_list (xs : List Item) (p sub : Item) (h : Item.equals (.list xs) p = false) :
    Item.subst (.list xs) p sub = .list (xs.map fun x => Item.subst x p sub) := by
  have hL : ∀ ys : List Item, Item.substL ys p sub = ys.map fun x => Item.subst x p sub := by
    intro ys; induction ys with
    | nil => simp [Item.substL]
    | cons y ys ih => simp [Item.substL, ih]
  conv => lhs; unfold Item.subst
  simp only [h, Bool.false_eq_true, if_false, hL]

/-- a non-matching atom is kept -/
theorem subst_atom (t p sub : Item) (h : Item.equals t p = false) (ha : isList t = false) :
    Item.subst t p sub = t := by
  unfold Item.subst
  cases t <;> simp_all [isList]

/-- the two closed-form SUBST rows of `expect` are what the model computes -/
theorem expect_subst_sound (rc : Oracle → State → Nat → Option (Item × Nat)) (ρ : Oracle) (s w : State)
    (h : expect .subst s = some w) : semCode rc ρ .subst s = w := by
  rcases hc : s.code with _ | ⟨target, _ | ⟨sub, _ | ⟨pat, l⟩⟩⟩ <;> simp only [expect, hc] at h <;> (try (cases h; done))
  simp only [semCode, hc]
  split at h
  · next he => cases h; rw [subst_root target pat sub he]
  · split at h
    · next hall =>
      cases h
      rw [subst_no_match target pat sub (fun q hq => by
        have := List.all_eq_true.mp hall q hq
        simpa using this)]
    · cases h

/-! ## CODE.CONTAINER -/

/-- the list scan reports "no match" or a container, never "this item is the match" -/
theorem containerL_ne_true (xs : List Item) (p parent : Item) : Item.containerL xs p parent ≠ .error true := by
  induction xs with
  | nil => simp [Item.containerL]
  | cons x xs ih =>
    simp only [Item.containerL]
    split <;> simp_all

mutual
/-- the container returned is a list, it is a point of the searched item, and one of its DIRECT
elements is a match: it is the innermost (smallest) list enclosing that match -/
theorem container_spec (t p c : Item) (h : Item.container t p = .ok c) :
    c ∈ Item.points t ∧ ∃ xs, c = .list xs ∧ ∃ x ∈ xs, Item.equals x p = true := by
  unfold Item.container at h
  split at h
  · cases h
  · cases t with
    | list xs =>
      simp only at h
      obtain ⟨hm, hx⟩ := containerL_spec xs p (.list xs) c h
      refine ⟨?_, ?_⟩
      · rcases hm with hm | hm
        · simp [Item.points, hm]
        · simp [Item.points, hm]
      · rcases hx with ⟨ys, rfl, x, hx, he⟩ | ⟨rfl, x, hx, he⟩
        · exact ⟨ys, rfl, x, hx, he⟩
        · exact ⟨xs, rfl, x, hx, he⟩
    | _ => simp at h
theorem containerL_spec (xs : List Item) (p parent c : Item) (h : Item.containerL xs p parent = .ok c) :
    (c ∈ Item.pointsL xs ∨ c = parent) ∧
    ((∃ ys, c = .list ys ∧ ∃ x ∈ ys, Item.equals x p = true) ∨ (c = parent ∧ ∃ x ∈ xs, Item.equals x p = true)) := by
  cases xs with
  | nil => simp [Item.containerL] at h
  | cons x xs =>
    simp only [Item.containerL] at h
    split at h
    · next c' hc =>
      cases h
      obtain ⟨h1, ys, h2, h3⟩ := container_spec x p c hc
      exact ⟨Or.inl (by simp [Item.pointsL, h1]), Or.inl ⟨ys, h2, h3⟩⟩
    · next hc =>
      cases h
      have hx : Item.equals x p = true := by
        unfold Item.container at hc
        split at hc
        · assumption
        · cases x with
          | list ys => exact absurd hc (containerL_ne_true ys p (.list ys))
          | _ => simp at hc
      exact ⟨Or.inr rfl, Or.inr ⟨rfl, x, by simp, hx⟩⟩
    · next hc =>
      obtain ⟨h1, h2⟩ := containerL_spec xs p parent c h
      refine ⟨?_, ?_⟩
      · rcases h1 with h1 | h1
        · exact Or.inl (by simp [Item.pointsL, h1])
        · exact Or.inr h1
      · rcases h2 with h2 | ⟨h2, y, hy, he⟩
        · exact Or.inl h2
        · exact Or.inr ⟨h2, y, by simp [hy], he⟩
end

/-! ## CODE.DISCREPANCY -/

/-- number of positions present in both lists at which the printed elements differ -/
def mismatches (fs ss : List Item) : Nat :=
  ((fs.zip ss).filter fun (x, y) => y.show != x.show).length

theorem zipIdx_filter_eq (fs ss pre : List Item) :
    ((fs.zipIdx pre.length).filter fun (x, i) => match (pre ++ ss)[i]? with
      | some y => y.show != x.show
      | none => false).length = mismatches fs ss := by
  induction fs generalizing ss pre with
  | nil => simp [mismatches]
  | cons x fs ih =>
    cases ss with
    | nil =>
      simp only [mismatches, List.zip_nil_right, List.filter_nil, List.length_nil, List.append_nil]
      rw [List.length_eq_zero_iff, List.filter_eq_nil_iff]
      intro ⟨a, i⟩ hmem
      have := List.le_snd_of_mem_zipIdx hmem
      simp only at this
      simp [List.getElem?_eq_none (by omega : pre.length ≤ i)]
    | cons y ss =>
      have := ih ss (pre ++ [y])
      simp only [List.length_append, List.length_singleton, List.append_assoc, List.singleton_append] at this
      simp only [List.zipIdx_cons, List.filter_cons, mismatches, List.zip_cons_cons]
      have hk : (pre ++ y :: ss)[pre.length]? = some y := by simp
      simp only [hk]
      split <;> simp_all [mismatches]

theorem mismatches_comm (fs ss : List Item) : mismatches fs ss = mismatches ss fs := by
  induction fs generalizing ss with
  | nil => simp [mismatches]
  | cons x fs ih =>
    cases ss with
    | nil => simp [mismatches]
    | cons y ss =>
      have := ih ss
      simp only [mismatches, List.zip_cons_cons, List.filter_cons] at this ⊢
      by_cases h : y.show = x.show
      · simp [h, this]
      · have h' : ¬ x.show = y.show := fun e => h e.symm
        simp [h, h', this]

theorem mismatches_self (fs : List Item) : mismatches fs fs = 0 := by
  induction fs with
  | nil => simp [mismatches]
  | cons x fs ih =>
    simp only [mismatches, List.zip_cons_cons, List.filter_cons, bne_self_eq_false]
    simpa [mismatches] using ih

/-- the model's DISCREPANCY in closed form -/
theorem discrepancy_lists (fs ss : List Item) :
    discrepancy (.list fs) (.list ss) = lenI32 (mismatches fs ss + ((fs.length : Int) - (ss.length : Int)).natAbs) := by
  have := zipIdx_filter_eq fs ss []
  simp only [List.length_nil, List.nil_append] at this
  simp only [discrepancy]
  rw [← this]
  rfl

/-- **DISCREPANCY is symmetric** -/
theorem discrepancy_symm (a b : Item) : discrepancy a b = discrepancy b a := by
  have atomic : ∀ x y : Item, (if x.show != y.show then (1 : Int32) else 0) = (if y.show != x.show then (1 : Int32) else 0) := by
    intro x y
    by_cases h : x.show = y.show
    · simp [h]
    · have h' : ¬ y.show = x.show := fun e => h e.symm
      simp [h, h']
  cases a <;> cases b
  case list.list fs ss =>
    rw [discrepancy_lists, discrepancy_lists, mismatches_comm]
    congr 2
    omega
  all_goals (unfold discrepancy; exact atomic _ _)

/-- **DISCREPANCY of an item with itself is zero** -/
theorem discrepancy_self (a : Item) : discrepancy a a = 0 := by
  cases a with
  | list fs => rw [discrepancy_lists, mismatches_self]; simp [lenI32]
  | _ => simp [discrepancy]


end Pushr.C08
