import Pushr.Spec.C06
import Pushr.Props.C02
import Pushr.Full
/-! # C06 — control flow runs code in the documented order, the documented number of times -/
namespace Pushr.C06
open Pushr

variable (X : Ext) (ρ : Oracle)

/-- executing a list pushes its elements so that the first is on top (runs left to right) -/
theorem step_list (s : State) (xs e : List Item) (h : s.exec = .list xs :: e) :
    step X ρ s = (false, { s with exec := xs ++ e }) := by
  unfold step; rw [h]

/-- one step on an instruction = the instruction's semantics on the state with it popped -/
theorem step_instr (s : State) (i : Instr) (e : List Item) (h : s.exec = .instr i :: e) :
    step X ρ s = (false, sem X ρ i { s with exec := e }) := by
  unfold step; rw [h]

/-- every combinator of the table does exactly what the documentation prescribes -/
theorem ctrl_sound (i : Instr) (s s' : State) (h : ctrlSpec i s = some s') : sem X ρ i s = s' := by
  unfold ctrlSpec at h
  split at h
  all_goals (try (split at h <;> simp_all [sem, semExec, semCode, semStk, stkOp, Lens.exec, instr]; done))
  all_goals first
    | (cases hs : s.exec <;> simp_all [sem, semExec, semCode, semStk, stkOp, Lens.exec, instr]; done)
    | (cases hs : s.code <;> simp_all [sem, semExec, semCode, semStk, stkOp, Lens.exec, instr]; done)
    | (cases hs : s.index <;> simp_all [sem, semIndex]; done)
    | (cases hs : s.int <;> simp_all [sem, semIndex]; done)
    | (simp_all [sem, semIndex]; done)
    | simp at h

/-! ## EXEC.LOOP runs a well-behaved body exactly destination-many times -/

/-- the frame contract of a loop body: from EXEC = `b :: E` and loop index `(c, n)` on top of
INDEX, some number of steps later EXEC = `E`, the INDEX stack is as before and the rest of the
state is `f c` of what it was. (A body that pops the loop's own index is outside the contract.) -/
def BodyOk (b : Item) (f : Nat → State → State) : Prop :=
  ∀ (E : List Item) (c n : Nat) (I : List (Nat × Nat)) (d : State),
    ∃ k, stepN X ρ k (withEI d (b :: E) ((c, n) :: I)) = withEI (f c d) E ((c, n) :: I)

def loopI : Item := .instr (.exec .loop)

theorem exec_loop_runs (b : Item) (f : Nat → State → State) (hb : BodyOk X ρ b f) :
    ∀ (m c n : Nat), c + m = n → ∀ (E : List Item) (I : List (Nat × Nat)) (d : State),
      ∃ k, stepN X ρ k (withEI d (loopI :: b :: E) ((c, n) :: I)) = withEI (iter f c m d) E I := by
  intro m
  induction m with
  | zero =>
    intro c n h E I d
    refine ⟨1, ?_⟩
    have hlt : ¬ c < n := by omega
    simp [stepN, step, withEI, loopI, sem, semExec, hlt, iter]
  | succ m ih =>
    intro c n h E I d
    have hlt : c < n := by omega
    obtain ⟨k1, hk1⟩ := hb (.list [.instr (.index .increase), loopI, b] :: E) c n I d
    obtain ⟨k2, hk2⟩ := ih (c + 1) n (by omega) E I (f c d)
    refine ⟨1 + (k1 + (2 + k2)), ?_⟩
    rw [C02.stepN_add]
    have h1 : stepN X ρ 1 (withEI d (loopI :: b :: E) ((c, n) :: I))
        = withEI d (b :: .list [.instr (.index .increase), loopI, b] :: E) ((c, n) :: I) := by
      simp [stepN, step, withEI, loopI, sem, semExec, hlt, instr]
    rw [h1, C02.stepN_add, hk1, C02.stepN_add]
    have h2 : stepN X ρ 2 (withEI (f c d) (.list [.instr (.index .increase), loopI, b] :: E) ((c, n) :: I))
        = withEI (f c d) (loopI :: b :: E) ((c + 1, n) :: I) := by
      simp [stepN, step, withEI, loopI, sem, semIndex, hlt]
    rw [h2, hk2]
    simp [iter]

/-- `( n INDEX.DEFINE EXEC.LOOP b )`-style use: from a fresh index `(0, n)` the body runs exactly `n`
times with INDEX.CURRENT = 0 … n-1 in order, and no index or loop code is left behind -/
theorem exec_loop_runs_n (b : Item) (f : Nat → State → State) (hb : BodyOk X ρ b f) (n : Nat)
    (E : List Item) (I : List (Nat × Nat)) (d : State) :
    ∃ k, stepN X ρ k (withEI d (loopI :: b :: E) ((0, n) :: I)) = withEI (iter f 0 n d) E I :=
  exec_loop_runs X ρ b f hb n 0 n (by omega) E I d

/-- the contract is satisfiable: the body `INDEX.CURRENT` pushes the current index on INTEGER -/
theorem index_current_bodyOk :
    BodyOk X ρ (.instr (.index .current)) (fun c d => { d with int := lenI32 c :: d.int }) := by
  intro E c n I d
  exact ⟨1, by simp [stepN, step, withEI, sem, semIndex, pushInt]⟩

/-- concrete corollary: `EXEC.LOOP INDEX.CURRENT` under index `(0, n)` pushes 0, 1, …, n-1 in this order -/
theorem exec_loop_index_current (n : Nat) (E : List Item) (I : List (Nat × Nat)) (d : State) :
    ∃ k, stepN X ρ k (withEI d (loopI :: .instr (.index .current) :: E) ((0, n) :: I))
      = withEI (iter (fun c d => { d with int := lenI32 c :: d.int }) 0 n d) E I :=
  exec_loop_runs_n X ρ _ _ (index_current_bodyOk X ρ) n E I d

theorem iter_index_current_int (n c : Nat) (d : State) :
    (iter (fun c d => { d with int := lenI32 c :: d.int }) c n d).int
      = ((List.range n).map fun j => lenI32 (c + j)).reverse ++ d.int := by
  induction n generalizing c d with
  | zero => simp [iter]
  | succ n ih =>
    simp only [iter]; rw [ih]
    simp only [List.range_succ_eq_map, List.map_cons, List.map_map, List.reverse_cons, List.append_assoc,
      List.singleton_append, Nat.add_zero]
    congr 2
    apply List.map_congr_left; intro j _; simp only [Function.comp]; congr 1; omega

/-- loops nest: a whole `EXEC.LOOP` over a contract-respecting body, preceded by pushing its own
index, again respects the contract of an enclosing loop -/
theorem loop_satisfies_BodyOk (b : Item) (f : Nat → State → State) (hb : BodyOk X ρ b f) (m : Nat) :
    BodyOk X ρ (.list [.lit (.index 0 m), loopI, b]) (fun _ d => iter f 0 m d) := by
  intro E c n I d
  obtain ⟨k, hk⟩ := exec_loop_runs_n X ρ b f hb m E ((c, n) :: I) d
  refine ⟨2 + k, ?_⟩
  rw [C02.stepN_add]
  have h1 : stepN X ρ 2 (withEI d (.list [.lit (.index 0 m), loopI, b] :: E) ((c, n) :: I))
      = withEI d (loopI :: b :: E) ((0, m) :: (c, n) :: I) := by
    simp [stepN, step, withEI, pushLit]
  rw [h1, hk]

/-! ## INTVECTOR.LOOP runs its body once per element, in element order -/

/-- body contract: consumes the element pushed on INTEGER, leaves EXEC and INTVECTOR as they were -/
def BodyOkV (b : Item) (f : Int32 → State → State) : Prop :=
  ∀ (E : List Item) (x : Int32) (d : State),
    ∃ k, stepN X ρ k { d with exec := b :: E, int := x :: d.int } = { f x d with exec := E }

def vloopI : Item := .instr (.vec .i .loop)

end Pushr.C06

namespace Pushr.C06
open Pushr

variable (ρ : Oracle)

/-- INTVECTOR.LOOP executes a contract-respecting body once per element, in element order, with
that element on the INTEGER stack, and leaves no vector or loop code behind -/
theorem intvector_loop_runs (b : Item) (f : Int32 → State → State) (hb : BodyOkV fullExt ρ b f)
    (hf : ∀ x d, (f x d).ivec = d.ivec) :
    ∀ (v : List Int32) (V : List (List Int32)) (E : List Item) (d : State), d.ivec = V →
      ∃ k, stepN fullExt ρ k { d with exec := vloopI :: b :: E, ivec := v :: V }
        = { (v.foldl (fun d x => f x d) d) with exec := E } := by
  intro v
  induction v with
  | nil =>
    intro V E d hd
    refine ⟨1, ?_⟩
    subst hd
    simp [stepN, step, vloopI, sem, fullExt, semVec, semVecI]
  | cons x rest ih =>
    intro V E d hd
    obtain ⟨k1, hk1⟩ := hb (.list [.lit (.ivec rest), vloopI, b] :: E) x d
    have hV : (f x d).ivec = V := by rw [hf, hd]
    obtain ⟨k2, hk2⟩ := ih V E (f x d) hV
    refine ⟨1 + (k1 + (2 + k2)), ?_⟩
    rw [C02.stepN_add]
    have h1 : stepN fullExt ρ 1 { d with exec := vloopI :: b :: E, ivec := (x :: rest) :: V }
        = { d with exec := b :: .list [.lit (.ivec rest), vloopI, b] :: E, int := x :: d.int } := by
      subst hd
      simp [stepN, step, vloopI, sem, fullExt, semVec, semVecI]
    rw [h1, C02.stepN_add, hk1, C02.stepN_add]
    have h2 : stepN fullExt ρ 2 { f x d with exec := .list [.lit (.ivec rest), vloopI, b] :: E }
        = { f x d with exec := vloopI :: b :: E, ivec := rest :: V } := by
      simp [stepN, step, pushLit, hV]
    rw [h2, hk2]
    rfl

/-! ## CODE.LOOP (known finding K01)

The full statement — CODE.LOOP executes its body exactly destination-many times and leaves no
index or loop code behind — is FALSE on the pinned tree: the re-armed list
`( INDEX.INCREASE CODE.LOOP body )` leaves the body on EXEC and makes the next CODE.LOOP pop an
unrelated CODE item. The shape is asserted by a unit test, so it is recorded, not repaired. -/

/-- proved part: with the index already at its destination CODE.LOOP removes the body and the index -/
theorem code_loop_runs_n_partial (s : State) (body : Item) (cl : List Item) (n : Nat)
    (I : List (Nat × Nat)) (hc : s.code = body :: cl) (hi : s.index = (n, n) :: I) :
    sem fullExt ρ (.code .loop) s = { s with code := cl, index := I } := by
  simp [sem, semCode, hc, hi]

/-- witness `( CODE.QUOTE INDEX.CURRENT 3 INDEX.DEFINE CODE.LOOP )`: the run ends with the index
`1/3` still on the INDEX stack and the body executed twice, not three times -/
def k01Witness : State :=
  { (default : State) with
    exec := [.instr (.code .quote), .instr (.index .current), .lit (.int 3), .instr (.index .define),
             .instr (.code .loop)] }

theorem k01_code_loop_violates :
    (stepN fullExt (fun _ => 0) 40 k01Witness).exec = [] ∧
    (stepN fullExt (fun _ => 0) 40 k01Witness).index = [(1, 3)] ∧
    (stepN fullExt (fun _ => 0) 40 k01Witness).int.length = 2 := by
  decide

end Pushr.C06
