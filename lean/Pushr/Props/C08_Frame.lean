import Pushr.Props.C08
/-! # C08 (supplement) — CODE.INSERT changes nothing outside the replaced subtree

The tree is flattened to its token stream (`(`, `)`, atoms). Inserting `x` at a point index `1 ≤ d < size`
replaces exactly the token span of the `d`-th point by the tokens of `x`: everything before and everything after
is untouched. -/
namespace Pushr.C08
open Pushr

inductive Tk where
  | lp | rp
  | leaf (i : Item)

mutual
def flat : Item → List Tk
  | .list xs => .lp :: (flatL xs ++ [.rp])
  | .instr i => [.leaf (.instr i)]
  | .lit v => [.leaf (.lit v)]
  | .ident n => [.leaf (.ident n)]
def flatL : List Item → List Tk
  | [] => []
  | x :: xs => flat x ++ flatL xs
end

mutual
/-- **INSERT frame**: the point at `d` (call it `old`) occupies a token span `flat old` inside `flat t`; after the
insertion the stream is the same with that span replaced by `flat x` -/
theorem ins_frame (t x : Item) (d : Nat) (h1 : 1 ≤ d) (h2 : d < t.size) :
    ∃ t' old pre post, Item.ins t x d = .ok t' ∧ Item.trav t d = .ok old ∧
      flat t = pre ++ flat old ++ post ∧ flat t' = pre ++ flat x ++ post := by
  cases t with
  | list xs =>
    cases d with
    | zero => omega
    | succ d =>
      simp only [Item.size] at h2
      obtain ⟨xs', old, pre, post, h, ht, hf, hf'⟩ := insL_frame xs x (d + 1) (by omega) (by omega)
      refine ⟨.list xs', old, .lp :: pre, post ++ [.rp], by simp [Item.ins, h], by simp [Item.trav, ht], ?_, ?_⟩
      · simp [flat, hf]
      · simp [flat, hf']
  | instr i => simp [Item.size] at h2; omega
  | lit v => simp [Item.size] at h2; omega
  | ident n => simp [Item.size] at h2; omega
theorem insL_frame (xs : List Item) (x : Item) (d : Nat) (h1 : 1 ≤ d) (h2 : d - 1 < Item.sizeL xs) :
    ∃ xs' old pre post, Item.insL xs x d = .ok xs' ∧ Item.travL xs d = .ok old ∧
      flatL xs = pre ++ flat old ++ post ∧ flatL xs' = pre ++ flat x ++ post := by
  cases xs with
  | nil => simp [Item.sizeL] at h2
  | cons c cs =>
    cases d with
    | zero => omega
    | succ d =>
      simp only [Item.sizeL] at h2
      by_cases hd : d = 0
      · subst hd
        exact ⟨x :: cs, c, [], flatL cs, by simp [Item.insL], by simp [Item.travL, Item.trav], by simp [flatL], by simp [flatL]⟩
      · by_cases hc : d < c.size
        · obtain ⟨c', old, pre, post, h, ht, hf, hf'⟩ := ins_frame c x d (by omega) hc
          refine ⟨c' :: cs, old, pre, post ++ flatL cs, by simp [Item.insL, hd, h], by simp [Item.travL, ht], ?_, ?_⟩
          · simp [flatL, hf]
          · simp [flatL, hf']
        · have herr : Item.ins c x d = .error (d - c.size + 1) := ins_err c x d (by omega)
          obtain ⟨cs', old, pre, post, h, ht, hf, hf'⟩ := insL_frame cs x (d - c.size + 1) (by omega) (by omega)
          refine ⟨c :: cs', old, flat c ++ pre, post, by simp [Item.insL, hd, herr, h], ?_, ?_, ?_⟩
          · simp only [Item.travL]
            rw [trav_err c d (by omega)]
            simpa using ht
          · simp [flatL, hf]
          · simp [flatL, hf']
end

/-- the size after INSERT: the replaced subtree's points are exchanged for those of the inserted item -/
theorem flat_length_size : ∀ (t : Item), (flat t).length ≥ 1 := by
  intro t; cases t <;> simp [flat]

/-- non-vacuity: inserting `5` at point 4 of `( 1 2 ( 3 ) 4 )` (point 4 = the atom `3`) -/
example : ∃ t', Item.ins (.list [.lit (.int 1), .lit (.int 2), .list [.lit (.int 3)], .lit (.int 4)]) (.lit (.int 5)) 4 = .ok t'
    ∧ (flat t').length = 8 := by
  refine ⟨.list [.lit (.int 1), .lit (.int 2), .list [.lit (.int 5)], .lit (.int 4)], by simp [Item.ins, Item.insL], by simp [flat, flatL]⟩

end Pushr.C08
