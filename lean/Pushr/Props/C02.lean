import Pushr.Interp
import Pushr.Spec.C15
/-! # C02 — the run loop honours the step and growth limits and reports the right outcome

`run` = `copyToCode` followed by `runLoop` (the Rust loop verbatim: step-limit check, time check,
step, growth check, counter increment). The clock is abstract (`timeout : Nat → Bool`): the theorems
hold for every clock. `k` counts the executed steps. -/
namespace Pushr.C02
open Pushr

variable (X : Ext) (ρ : Oracle)

/-- a step on an empty EXEC stack reports completion and changes nothing -/
theorem step_empty (s : State) (h : s.exec = []) : step X ρ s = (true, s) := by
  simp [step, h]

/-- `step` reports completion only when EXEC was empty -/
theorem step_done_iff (s : State) : (step X ρ s).1 = true ↔ s.exec = [] := by
  unfold step
  cases h : s.exec with
  | nil => simp
  | cons x e =>
    cases x with
    | list xs => simp
    | instr i => simp
    | lit v => simp
    | ident n =>
      simp only
      split
      · simp
      · split <;> simp

theorem stepN_succ_right (n : Nat) (s : State) :
    stepN X ρ (n + 1) s = (step X ρ (stepN X ρ n s)).2 := by
  induction n generalizing s with
  | zero => rfl
  | succ n ih => rw [stepN, ih (step X ρ s).2]; rfl

theorem stepN_add (a b : Nat) (s : State) : stepN X ρ (a + b) s = stepN X ρ b (stepN X ρ a s) := by
  induction a generalizing s with
  | zero => simp [stepN]
  | succ a ih => rw [Nat.succ_add]; simp [stepN, ih]

/-- the state returned by the loop is the state reached by single-stepping `k' - k` times -/
theorem runLoop_eq_stepN (timeout : Nat → Bool) (fuel k : Nat) (s : State) :
    k ≤ (runLoop X ρ timeout fuel k s).2.1 ∧
    (runLoop X ρ timeout fuel k s).2.2 = stepN X ρ ((runLoop X ρ timeout fuel k s).2.1 - k) s := by
  induction fuel generalizing k s with
  | zero => simp [runLoop, stepN]
  | succ fuel ih =>
    unfold runLoop
    split
    · simp [stepN]
    · split
      · simp [stepN]
      · split
        · simp [stepN]
        · split
          · simp [stepN]
          · obtain ⟨h1, h2⟩ := ih (k + 1) (step X ρ s).2
            refine ⟨by omega, ?_⟩
            rw [h2]
            have : (runLoop X ρ timeout fuel (k + 1) (step X ρ s).2).2.1 - k
                = ((runLoop X ρ timeout fuel (k + 1) (step X ρ s).2).2.1 - (k + 1)) + 1 := by omega
            rw [this, Nat.add_comm, stepN]

/-- **whatever the outcome**, the state left behind by `run` is exactly the state reached by copying
the program to CODE and single-stepping it `k` times, `k` being the reported step count -/
theorem run_eq_stepN (timeout : Nat → Bool) (s : State) :
    (run X ρ timeout s).2.2 = stepN X ρ (run X ρ timeout s).2.1 (copyToCode s) := by
  unfold run
  have := (runLoop_eq_stepN X ρ timeout ((s.cfg.evalPushLimit.toInt + 2).toNat + 1) 0 (copyToCode s)).2
  simpa using this

/-- NoErrors is reported only with an empty EXEC stack -/
theorem runLoop_noErrors (timeout : Nat → Bool) (fuel k : Nat) (s : State)
    (h : (runLoop X ρ timeout fuel k s).1 = .noErrors) : (runLoop X ρ timeout fuel k s).2.2.exec = [] := by
  induction fuel generalizing k s with
  | zero => simp [runLoop] at h
  | succ fuel ih =>
    unfold runLoop at h ⊢
    split
    · rename_i h1; simp [h1] at h
    · rename_i h1
      split
      · rename_i h2; simp [h1, h2] at h
      · rename_i h2
        split
        · rename_i h3; exact (step_done_iff X ρ s).mp h3
        · rename_i h3
          split
          · rename_i h4; simp [h1, h2, h3, h4] at h
          · rename_i h4
            simp only [h1, h2, h3, h4, if_false] at h
            exact ih _ _ h

theorem run_noErrors (timeout : Nat → Bool) (s : State) (h : (run X ρ timeout s).1 = .noErrors) :
    (run X ρ timeout s).2.2.exec = [] := runLoop_noErrors X ρ timeout _ _ _ h

/-- the number of executed steps never exceeds `eval_push_limit + 1`, provided no instruction
rewrites the configuration (`hcfg`; discharged for the full instruction set in `Props/C10`) -/
theorem runLoop_steps_le (hcfg : ∀ s, (step X ρ s).2.cfg = s.cfg) (timeout : Nat → Bool)
    (fuel k : Nat) (s : State) (hk : (k : Int) ≤ max (s.cfg.evalPushLimit.toInt + 1) 0) :
    ((runLoop X ρ timeout fuel k s).2.1 : Int) ≤ max (s.cfg.evalPushLimit.toInt + 1) 0 := by
  induction fuel generalizing k s with
  | zero => simpa [runLoop] using hk
  | succ fuel ih =>
    unfold runLoop
    split
    · exact hk
    · rename_i h1
      split
      · exact hk
      · split
        · exact hk
        · split
          · simp only; omega
          · have := ih (k + 1) (step X ρ s).2 (by rw [hcfg]; omega)
            rw [hcfg] at this
            exact this

theorem run_steps_le (hcfg : ∀ s, (step X ρ s).2.cfg = s.cfg) (timeout : Nat → Bool) (s : State) :
    ((run X ρ timeout s).2.1 : Int) ≤ max (s.cfg.evalPushLimit.toInt + 1) 0 := by
  unfold run
  have := runLoop_steps_le X ρ hcfg timeout ((s.cfg.evalPushLimit.toInt + 2).toNat + 1) 0 (copyToCode s)
    (by simp; omega)
  simpa [copyToCode] using this

/-- GrowthCapExceeded is reported exactly for a step that enlarged the state by more than
`growth_cap`: the last executed step did, and it is the step the loop stopped at -/
theorem runLoop_growth (timeout : Nat → Bool) (fuel k : Nat) (s : State)
    (h : (runLoop X ρ timeout fuel k s).1 = .growthCap) :
    ∃ p : State, (runLoop X ρ timeout fuel k s).2.2 = (step X ρ p).2 ∧
      (step X ρ p).2.size > p.size + p.cfg.growthCap := by
  induction fuel generalizing k s with
  | zero => simp [runLoop] at h
  | succ fuel ih =>
    unfold runLoop at h ⊢
    split
    · rename_i h1; simp [h1] at h
    · rename_i h1
      split
      · rename_i h2; simp [h1, h2] at h
      · rename_i h2
        split
        · rename_i h3; simp [h1, h2, h3] at h
        · rename_i h3
          split
          · rename_i h4; exact ⟨s, rfl, h4⟩
          · rename_i h4
            simp only [h1, h2, h3, h4, if_false] at h
            exact ih _ _ h

/-- a program that empties EXEC after `m` steps without tripping the limits returns NoErrors with `m`
steps: one loop iteration, stated for the first step (the induction is `runLoop` itself) -/
theorem runLoop_unfold_ok (timeout : Nat → Bool) (fuel k : Nat) (s : State)
    (h1 : ¬ (k : Int) > s.cfg.evalPushLimit.toInt) (h2 : timeout k = false)
    (h3 : s.exec ≠ []) (h4 : ¬ (step X ρ s).2.size > s.size + s.cfg.growthCap) :
    runLoop X ρ timeout (fuel + 1) k s = runLoop X ρ timeout fuel (k + 1) (step X ρ s).2 := by
  have h3' : ¬ (step X ρ s).1 = true := fun hh => h3 ((step_done_iff X ρ s).mp hh)
  rw [runLoop]; simp only [h1, h2, h3', h4, if_false, Bool.false_eq_true]

theorem runLoop_done (timeout : Nat → Bool) (fuel k : Nat) (s : State)
    (h1 : ¬ (k : Int) > s.cfg.evalPushLimit.toInt) (h2 : timeout k = false) (h3 : s.exec = []) :
    runLoop X ρ timeout (fuel + 1) k s = (.noErrors, k, s) := by
  have h3' : (step X ρ s).1 = true := (step_done_iff X ρ s).mpr h3
  rw [runLoop]; simp only [h1, h2, h3', if_false, if_true, Bool.false_eq_true]

/-- the copy to CODE: the program is on the CODE stack in the same order, EXEC untouched -/
theorem copyToCode_spec (s : State) :
    (copyToCode s).code = s.exec ++ s.code ∧ (copyToCode s).exec = s.exec := ⟨rfl, rfl⟩

/-- `PushState::size` is the sum of the nine main stack depths -/
theorem size_def (s : State) :
    s.size = s.bool.length + s.float.length + s.int.length + s.name.length + s.code.length
      + s.exec.length + s.bvec.length + s.fvec.length + s.ivec.length := rfl



/-- a step from `p` enlarged the state by more than the growth cap -/
def Grows (p : State) : Prop := (step X ρ p).2.size > p.size + p.cfg.growthCap

/-- what the outcome says about the iteration `k'` at which the loop stopped in state `s'` -/
def Verdict (timeout : Nat → Bool) (L : Int) (out : Outcome) (k' : Nat) (s' prev : State) : Prop :=
  match out with
  | .noErrors => (k' : Int) ≤ L ∧ timeout k' = false ∧ s'.exec = []
  | .stepLimit => (k' : Int) > L
  | .timeLimit => (k' : Int) ≤ L ∧ timeout k' = true
  | .growthCap => Grows X ρ prev

/-- **complete characterisation of the run loop** (every clock, every configuration). Started at
iteration `k` in state `s` with enough fuel, the loop stops at some iteration `k' ≥ k` in the state reached
by `k' - k` single steps; every earlier iteration `j` was inside the step budget, before the time limit,
had a non-empty EXEC stack and (unless it is the very last one of a GrowthCapExceeded run) did not grow the
state by more than the cap; and the reported outcome names the first limit that was met at `k'`. -/
theorem runLoop_spec (hcfg : ∀ s, (step X ρ s).2.cfg = s.cfg) (timeout : Nat → Bool) (fuel k : Nat) (s : State)
    (hf : (s.cfg.evalPushLimit.toInt + 2 - k).toNat < fuel) (out : Outcome) (k' : Nat) (s' : State)
    (hr : runLoop X ρ timeout fuel k s = (out, k', s')) :
    k ≤ k' ∧ s' = stepN X ρ (k' - k) s ∧
    (∀ j, k ≤ j → j < k' →
        (j : Int) ≤ s.cfg.evalPushLimit.toInt ∧ timeout j = false ∧ (stepN X ρ (j - k) s).exec ≠ [] ∧
        (¬ Grows X ρ (stepN X ρ (j - k) s) ∨ (out = .growthCap ∧ j + 1 = k'))) ∧
    Verdict X ρ timeout s.cfg.evalPushLimit.toInt out k' s' (stepN X ρ (k' - 1 - k) s) ∧
    (out = .growthCap → k < k') := by
  induction fuel generalizing k s with
  | zero => omega
  | succ fuel ih =>
    unfold runLoop at hr
    by_cases h1 : (k : Int) > s.cfg.evalPushLimit.toInt
    · simp only [h1, if_true, Prod.mk.injEq] at hr
      obtain ⟨rfl, rfl, rfl⟩ := hr
      refine ⟨Nat.le_refl _, by simp [stepN], ?_, ?_, by simp⟩
      · intro j h h'; omega
      · simpa [Verdict] using h1
    · simp only [h1, if_false] at hr
      by_cases h2 : timeout k = true
      · simp only [h2, if_true, Prod.mk.injEq] at hr
        obtain ⟨rfl, rfl, rfl⟩ := hr
        refine ⟨Nat.le_refl _, by simp [stepN], ?_, ?_, by simp⟩
        · intro j h h'; omega
        · simp only [Verdict]; exact ⟨by omega, h2⟩
      · simp only [h2, if_false, Bool.false_eq_true] at hr
        by_cases h3 : (step X ρ s).1 = true
        · simp only [h3, if_true, Prod.mk.injEq] at hr
          obtain ⟨rfl, rfl, rfl⟩ := hr
          refine ⟨Nat.le_refl _, by simp [stepN], ?_, ?_, by simp⟩
          · intro j h h'; omega
          · simp only [Verdict]
            exact ⟨by omega, by simpa using h2, (step_done_iff X ρ s).mp h3⟩
        · simp only [h3, if_false, Bool.false_eq_true] at hr
          have hne : s.exec ≠ [] := fun hh => h3 ((step_done_iff X ρ s).mpr hh)
          by_cases h4 : (step X ρ s).2.size > s.size + s.cfg.growthCap
          · simp only [h4, if_true, Prod.mk.injEq] at hr
            obtain ⟨rfl, rfl, rfl⟩ := hr
            refine ⟨by simp, by simp [stepN], ?_, ?_, by simp⟩
            · intro j h h'
              have : j = k := by omega
              subst this
              simp only [Nat.sub_self, stepN]
              exact ⟨by omega, by simpa using h2, hne, Or.inr (by simp)⟩
            · simp only [Verdict, Nat.add_sub_cancel, Nat.sub_self, stepN]; exact h4
          · simp only [h4, if_false] at hr
            have ih' := ih (k + 1) (step X ρ s).2 (by rw [hcfg]; omega) hr
            simp only [hcfg] at ih'
            obtain ⟨a, b, c, d, e⟩ := ih'
            have hk1 : k' - k = (k' - (k + 1)) + 1 := by omega
            refine ⟨by omega, ?_, ?_, ?_, fun hg => by have := e hg; omega⟩
            · rw [b, hk1]; simp [stepN]
            · intro j hj hj'
              by_cases hjk : j = k
              · subst hjk
                simp only [Nat.sub_self, stepN]
                exact ⟨by omega, by simpa using h2, hne, Or.inl h4⟩
              · have := c j (by omega) hj'
                have hj1 : j - k = (j - (k + 1)) + 1 := by omega
                rw [hj1]; simpa [stepN] using this
            · by_cases hrk : k' = k + 1
              · cases out with
                | growthCap => have := e rfl; omega
                | noErrors => simpa [Verdict] using d
                | stepLimit => simpa [Verdict] using d
                | timeLimit => simpa [Verdict] using d
              · have h5 : k' - 1 - k = (k' - 1 - (k + 1)) + 1 := by omega
                rw [h5]
                cases out with
                | growthCap => simpa [Verdict, stepN] using d
                | noErrors => simpa [Verdict] using d
                | stepLimit => simpa [Verdict] using d
                | timeLimit => simpa [Verdict] using d

/-- `run`: the characterisation for a whole top-level run (iteration counter from 0, program copied to CODE) -/
theorem run_spec (hcfg : ∀ s, (step X ρ s).2.cfg = s.cfg) (timeout : Nat → Bool) (s : State)
    (out : Outcome) (k' : Nat) (s' : State) (hr : run X ρ timeout s = (out, k', s')) :
    s' = stepN X ρ k' (copyToCode s) ∧
    (∀ j, j < k' →
        (j : Int) ≤ s.cfg.evalPushLimit.toInt ∧ timeout j = false ∧ (stepN X ρ j (copyToCode s)).exec ≠ [] ∧
        (¬ Grows X ρ (stepN X ρ j (copyToCode s)) ∨ (out = .growthCap ∧ j + 1 = k'))) ∧
    Verdict X ρ timeout s.cfg.evalPushLimit.toInt out k' s' (stepN X ρ (k' - 1) (copyToCode s)) ∧
    (out = .growthCap → 0 < k') := by
  have := runLoop_spec X ρ hcfg timeout ((s.cfg.evalPushLimit.toInt + 2).toNat + 1) 0 (copyToCode s)
    (by simp [copyToCode]) out k' s' hr
  obtain ⟨_, b, c, d, e⟩ := this
  refine ⟨by simpa using b, ?_, by simpa [copyToCode] using d, e⟩
  intro j hj
  simpa [copyToCode] using c j (Nat.zero_le _) hj

/-- StepLimitExceeded is never reported for a program that finishes within the budget: if it is reported,
EXEC was non-empty before every one of the `eval_push_limit + 1` executed steps -/
theorem run_stepLimit_only_when_needed (hcfg : ∀ s, (step X ρ s).2.cfg = s.cfg) (timeout : Nat → Bool) (s : State)
    (k' : Nat) (s' : State) (hr : run X ρ timeout s = (.stepLimit, k', s')) :
    (k' : Int) = max (s.cfg.evalPushLimit.toInt + 1) 0 ∧
    ∀ j : Nat, (j : Int) ≤ s.cfg.evalPushLimit.toInt → (stepN X ρ j (copyToCode s)).exec ≠ [] := by
  obtain ⟨_, c, d, _⟩ := run_spec X ρ hcfg timeout s _ _ _ hr
  have hle := run_steps_le X ρ hcfg timeout s
  rw [hr] at hle
  simp only [Verdict] at d
  refine ⟨by simp only at hle; omega, fun j hj => (c j (by omega)).2.2.1⟩

/-- TimeLimitExceeded is reported only at an iteration at which the clock says the limit has passed, and no
earlier iteration saw the clock past the limit -/
theorem run_timeLimit (hcfg : ∀ s, (step X ρ s).2.cfg = s.cfg) (timeout : Nat → Bool) (s : State)
    (k' : Nat) (s' : State) (hr : run X ρ timeout s = (.timeLimit, k', s')) :
    timeout k' = true ∧ ∀ j, j < k' → timeout j = false := by
  obtain ⟨_, c, d, _⟩ := run_spec X ρ hcfg timeout s _ _ _ hr
  exact ⟨d.2, fun j hj => (c j hj).2.1⟩

/-- GrowthCapExceeded: the LAST executed step, and no earlier one, enlarged the state by more than the cap -/
theorem run_growthCap (hcfg : ∀ s, (step X ρ s).2.cfg = s.cfg) (timeout : Nat → Bool) (s : State)
    (k' : Nat) (s' : State) (hr : run X ρ timeout s = (.growthCap, k', s')) :
    0 < k' ∧ Grows X ρ (stepN X ρ (k' - 1) (copyToCode s)) ∧
    ∀ j, j + 1 < k' → ¬ Grows X ρ (stepN X ρ j (copyToCode s)) := by
  obtain ⟨_, c, d, e⟩ := run_spec X ρ hcfg timeout s _ _ _ hr
  refine ⟨e rfl, d, fun j hj => ?_⟩
  rcases (c j (by omega)).2.2.2 with h | ⟨_, h⟩
  · exact h
  · omega

/-- a program that empties EXEC after `m` steps, inside the budget, with no step growing the state by more than
the cap and the clock not past the limit, returns NoErrors after exactly `m` steps (so the loop cannot stop
early and cannot report a limit for it) -/
theorem runLoop_short (hcfg : ∀ s, (step X ρ s).2.cfg = s.cfg) (timeout : Nat → Bool) (m : Nat) :
    ∀ (fuel k : Nat) (s : State), m < fuel → ((k + m : Nat) : Int) ≤ s.cfg.evalPushLimit.toInt →
      (∀ j, j ≤ m → timeout (k + j) = false) →
      (∀ j, j < m → (stepN X ρ j s).exec ≠ [] ∧ ¬ Grows X ρ (stepN X ρ j s)) →
      (stepN X ρ m s).exec = [] →
      runLoop X ρ timeout fuel k s = (.noErrors, k + m, stepN X ρ m s) := by
  induction m with
  | zero =>
    intro fuel k s hf hk ht _ he
    obtain ⟨f, rfl⟩ : ∃ f, fuel = f + 1 := ⟨fuel - 1, by omega⟩
    exact runLoop_done X ρ timeout f k s (by simp at hk; omega) (by simpa using ht 0 (Nat.le_refl _)) (by simpa [stepN] using he)
  | succ m ih =>
    intro fuel k s hf hk ht hq he
    obtain ⟨f, rfl⟩ : ∃ f, fuel = f + 1 := ⟨fuel - 1, by omega⟩
    have h0 := hq 0 (by omega)
    simp only [stepN] at h0
    rw [runLoop_unfold_ok X ρ timeout f k s (by omega) (by simpa using ht 0 (by omega)) h0.1 h0.2]
    have := ih f (k + 1) (step X ρ s).2 (by omega) (by rw [hcfg]; omega)
      (fun j hj => by have := ht (j + 1) (by omega); rwa [show k + 1 + j = k + (j + 1) by omega])
      (fun j hj => by simpa [stepN] using hq (j + 1) (by omega))
      (by simpa [stepN] using he)
    rw [this, show k + 1 + m = k + (m + 1) by omega]
    simp [stepN]

theorem run_short_program (hcfg : ∀ s, (step X ρ s).2.cfg = s.cfg) (timeout : Nat → Bool) (m : Nat) (s : State)
    (hm : (m : Int) ≤ s.cfg.evalPushLimit.toInt) (ht : ∀ j, j ≤ m → timeout j = false)
    (hq : ∀ j, j < m → (stepN X ρ j (copyToCode s)).exec ≠ [] ∧ ¬ Grows X ρ (stepN X ρ j (copyToCode s)))
    (he : (stepN X ρ m (copyToCode s)).exec = []) :
    run X ρ timeout s = (.noErrors, m, stepN X ρ m (copyToCode s)) := by
  unfold run
  have := runLoop_short X ρ hcfg timeout m ((s.cfg.evalPushLimit.toInt + 2).toNat + 1) 0 (copyToCode s)
    (by omega) (by simpa [copyToCode] using hm) (by simpa using ht) hq he
  simpa using this


/-! non-vacuity: the hypotheses of `run_short_program` / `run_spec` are met by a concrete program -/
section examples
open Pushr.C15 in
/-- `( 1 2 INTEGER.+ )` under the default limits: NoErrors after exactly 4 steps, 3 on the INTEGER stack -/
example :
    let s : State := { Pushr.C15.emptyState with
      exec := [.list [.lit (.int 1), .lit (.int 2), .instr (.integer .add)]] }
    (runFull (fun _ => 0) (fun _ => false) s).1 = .noErrors ∧ (runFull (fun _ => 0) (fun _ => false) s).2.1 = 4
    ∧ (runFull (fun _ => 0) (fun _ => false) s).2.2.int = [3]
    ∧ (runFull (fun _ => 0) (fun _ => false) s).2.2.exec = [] := by decide
/-- the same program with a step budget of 2: StepLimitExceeded after 3 = limit + 1 steps -/
example :
    let s : State := { Pushr.C15.emptyState with
      cfg := { Pushr.C15.emptyState.cfg with evalPushLimit := 2 }
      exec := [.list [.lit (.int 1), .lit (.int 2), .instr (.integer .add)]] }
    (runFull (fun _ => 0) (fun _ => false) s).1 = .stepLimit ∧ (runFull (fun _ => 0) (fun _ => false) s).2.1 = 3 := by
  decide
/-- growth cap 1: unpacking a three-element list grows the state by 2 > 1 at the first step -/
example :
    let s : State := { Pushr.C15.emptyState with
      cfg := { Pushr.C15.emptyState.cfg with growthCap := 1 }
      exec := [.list [.lit (.int 1), .lit (.int 2), .instr (.integer .add)]] }
    (runFull (fun _ => 0) (fun _ => false) s).1 = .growthCap ∧ (runFull (fun _ => 0) (fun _ => false) s).2.1 = 1 := by
  decide
/-- a clock that is past the limit at iteration 2 -/
example :
    let s : State := { Pushr.C15.emptyState with
      exec := [.list [.lit (.int 1), .lit (.int 2), .instr (.integer .add)]] }
    (runFull (fun _ => 0) (fun k => k == 2) s).1 = .timeLimit ∧ (runFull (fun _ => 0) (fun k => k == 2) s).2.1 = 2 := by
  decide
end examples

end Pushr.C02
