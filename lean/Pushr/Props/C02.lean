import Pushr.Interp
/-! # C02 — the run loop honours the step and growth limits and reports the right outcome

`run` = `copyToCode` followed by `runLoop` (the Rust loop verbatim: step-limit check, time check,
step, growth check, counter increment). The clock is abstract (`timeout : Nat → Bool`): the theorems
hold for every clock. `k` counts the executed steps. -/
namespace Pushr.C02
open Pushr

variable (X : Ext) (ρ : Oracle)

/-- a step on an empty EXEC stack reports completion and changes nothing -/
theorem step_empty (s : State) (h : s.exec = []) : step X ρ s = (true, s) := by
  simp [step, h]

/-- `step` reports completion only when EXEC was empty -/
theorem step_done_iff (s : State) : (step X ρ s).1 = true ↔ s.exec = [] := by
  unfold step
  cases h : s.exec with
  | nil => simp
  | cons x e =>
    cases x with
    | list xs => simp
    | instr i => simp
    | lit v => simp
    | ident n =>
      simp only
      split
      · simp
      · split <;> simp

theorem stepN_succ_right (n : Nat) (s : State) :
    stepN X ρ (n + 1) s = (step X ρ (stepN X ρ n s)).2 := by
  induction n generalizing s with
  | zero => rfl
  | succ n ih => rw [stepN, ih (step X ρ s).2]; rfl

theorem stepN_add (a b : Nat) (s : State) : stepN X ρ (a + b) s = stepN X ρ b (stepN X ρ a s) := by
  induction a generalizing s with
  | zero => simp [stepN]
  | succ a ih => rw [Nat.succ_add]; simp [stepN, ih]

/-- the state returned by the loop is the state reached by single-stepping `k' - k` times -/
theorem runLoop_eq_stepN (timeout : Nat → Bool) (fuel k : Nat) (s : State) :
    k ≤ (runLoop X ρ timeout fuel k s).2.1 ∧
    (runLoop X ρ timeout fuel k s).2.2 = stepN X ρ ((runLoop X ρ timeout fuel k s).2.1 - k) s := by
  induction fuel generalizing k s with
  | zero => simp [runLoop, stepN]
  | succ fuel ih =>
    unfold runLoop
    split
    · simp [stepN]
    · split
      · simp [stepN]
      · split
        · simp [stepN]
        · split
          · simp [stepN]
          · obtain ⟨h1, h2⟩ := ih (k + 1) (step X ρ s).2
            refine ⟨by omega, ?_⟩
            rw [h2]
            have : (runLoop X ρ timeout fuel (k + 1) (step X ρ s).2).2.1 - k
                = ((runLoop X ρ timeout fuel (k + 1) (step X ρ s).2).2.1 - (k + 1)) + 1 := by omega
            rw [this, Nat.add_comm, stepN]

/-- **whatever the outcome**, the state left behind by `run` is exactly the state reached by copying
the program to CODE and single-stepping it `k` times, `k` being the reported step count -/
theorem run_eq_stepN (timeout : Nat → Bool) (s : State) :
    (run X ρ timeout s).2.2 = stepN X ρ (run X ρ timeout s).2.1 (copyToCode s) := by
  unfold run
  have := (runLoop_eq_stepN X ρ timeout ((s.cfg.evalPushLimit.toInt + 2).toNat + 1) 0 (copyToCode s)).2
  simpa using this

/-- NoErrors is reported only with an empty EXEC stack -/
theorem runLoop_noErrors (timeout : Nat → Bool) (fuel k : Nat) (s : State)
    (h : (runLoop X ρ timeout fuel k s).1 = .noErrors) : (runLoop X ρ timeout fuel k s).2.2.exec = [] := by
  induction fuel generalizing k s with
  | zero => simp [runLoop] at h
  | succ fuel ih =>
    unfold runLoop at h ⊢
    split
    · rename_i h1; simp [h1] at h
    · rename_i h1
      split
      · rename_i h2; simp [h1, h2] at h
      · rename_i h2
        split
        · rename_i h3; exact (step_done_iff X ρ s).mp h3
        · rename_i h3
          split
          · rename_i h4; simp [h1, h2, h3, h4] at h
          · rename_i h4
            simp only [h1, h2, h3, h4, if_false] at h
            exact ih _ _ h

theorem run_noErrors (timeout : Nat → Bool) (s : State) (h : (run X ρ timeout s).1 = .noErrors) :
    (run X ρ timeout s).2.2.exec = [] := runLoop_noErrors X ρ timeout _ _ _ h

/-- the number of executed steps never exceeds `eval_push_limit + 1`, provided no instruction
rewrites the configuration (`hcfg`; discharged for the full instruction set in `Props/C10`) -/
theorem runLoop_steps_le (hcfg : ∀ s, (step X ρ s).2.cfg = s.cfg) (timeout : Nat → Bool)
    (fuel k : Nat) (s : State) (hk : (k : Int) ≤ max (s.cfg.evalPushLimit.toInt + 1) 0) :
    ((runLoop X ρ timeout fuel k s).2.1 : Int) ≤ max (s.cfg.evalPushLimit.toInt + 1) 0 := by
  induction fuel generalizing k s with
  | zero => simpa [runLoop] using hk
  | succ fuel ih =>
    unfold runLoop
    split
    · exact hk
    · rename_i h1
      split
      · exact hk
      · split
        · exact hk
        · split
          · simp only; omega
          · have := ih (k + 1) (step X ρ s).2 (by rw [hcfg]; omega)
            rw [hcfg] at this
            exact this

theorem run_steps_le (hcfg : ∀ s, (step X ρ s).2.cfg = s.cfg) (timeout : Nat → Bool) (s : State) :
    ((run X ρ timeout s).2.1 : Int) ≤ max (s.cfg.evalPushLimit.toInt + 1) 0 := by
  unfold run
  have := runLoop_steps_le X ρ hcfg timeout ((s.cfg.evalPushLimit.toInt + 2).toNat + 1) 0 (copyToCode s)
    (by simp; omega)
  simpa [copyToCode] using this

/-- GrowthCapExceeded is reported exactly for a step that enlarged the state by more than
`growth_cap`: the last executed step did, and it is the step the loop stopped at -/
theorem runLoop_growth (timeout : Nat → Bool) (fuel k : Nat) (s : State)
    (h : (runLoop X ρ timeout fuel k s).1 = .growthCap) :
    ∃ p : State, (runLoop X ρ timeout fuel k s).2.2 = (step X ρ p).2 ∧
      (step X ρ p).2.size > p.size + p.cfg.growthCap := by
  induction fuel generalizing k s with
  | zero => simp [runLoop] at h
  | succ fuel ih =>
    unfold runLoop at h ⊢
    split
    · rename_i h1; simp [h1] at h
    · rename_i h1
      split
      · rename_i h2; simp [h1, h2] at h
      · rename_i h2
        split
        · rename_i h3; simp [h1, h2, h3] at h
        · rename_i h3
          split
          · rename_i h4; exact ⟨s, rfl, h4⟩
          · rename_i h4
            simp only [h1, h2, h3, h4, if_false] at h
            exact ih _ _ h

/-- a program that empties EXEC after `m` steps without tripping the limits returns NoErrors with `m`
steps: one loop iteration, stated for the first step (the induction is `runLoop` itself) -/
theorem runLoop_unfold_ok (timeout : Nat → Bool) (fuel k : Nat) (s : State)
    (h1 : ¬ (k : Int) > s.cfg.evalPushLimit.toInt) (h2 : timeout k = false)
    (h3 : s.exec ≠ []) (h4 : ¬ (step X ρ s).2.size > s.size + s.cfg.growthCap) :
    runLoop X ρ timeout (fuel + 1) k s = runLoop X ρ timeout fuel (k + 1) (step X ρ s).2 := by
  have h3' : ¬ (step X ρ s).1 = true := fun hh => h3 ((step_done_iff X ρ s).mp hh)
  rw [runLoop]; simp only [h1, h2, h3', h4, if_false, Bool.false_eq_true]

theorem runLoop_done (timeout : Nat → Bool) (fuel k : Nat) (s : State)
    (h1 : ¬ (k : Int) > s.cfg.evalPushLimit.toInt) (h2 : timeout k = false) (h3 : s.exec = []) :
    runLoop X ρ timeout (fuel + 1) k s = (.noErrors, k, s) := by
  have h3' : (step X ρ s).1 = true := (step_done_iff X ρ s).mpr h3
  rw [runLoop]; simp only [h1, h2, h3', if_false, if_true, Bool.false_eq_true]

/-- the copy to CODE: the program is on the CODE stack in the same order, EXEC untouched -/
theorem copyToCode_spec (s : State) :
    (copyToCode s).code = s.exec ++ s.code ∧ (copyToCode s).exec = s.exec := ⟨rfl, rfl⟩

/-- `PushState::size` is the sum of the nine main stack depths -/
theorem size_def (s : State) :
    s.size = s.bool.length + s.float.length + s.int.length + s.name.length + s.code.length
      + s.exec.length + s.bvec.length + s.fvec.length + s.ivec.length := rfl

end Pushr.C02
