import Pushr.Props.C14_Clean0
/-! # C14 (supplement, part 2) — static determinism: a clean program can never construct a RAND instruction, so its run
does not depend on anything outside the PushState -/
namespace Pushr.C14
open Pushr

variable (P : Instr → Bool)

/-- every instruction occurring anywhere in the program part of the state (EXEC, CODE, bound values) satisfies `P` -/
def okState (s : State) : Bool :=
  okItems P s.exec && okItems P s.code && s.bindings.all (fun p => okItem P p.2)

theorem okState_iff (s : State) : okState P s = true ↔
    okItems P s.exec = true ∧ okItems P s.code = true ∧ ∀ p ∈ s.bindings, okItem P p.2 = true := by
  simp [okState, List.all_eq_true, and_assoc]

theorem okState_congr (s s' : State) (he : s'.exec = s.exec) (hc : s'.code = s.code) (hb : s'.bindings = s.bindings) :
    okState P s' = okState P s := by simp [okState, he, hc, hb]

theorem bindLookup_ok (n : String) (bs : List (String × Item)) (v : Item)
    (h : ∀ p ∈ bs, okItem P p.2 = true) (hv : bindLookup n bs = some v) : okItem P v = true := by
  induction bs with
  | nil => simp [bindLookup] at hv
  | cons b bs ih =>
    obtain ⟨k, w⟩ := b
    simp only [bindLookup] at hv
    split at hv
    · simp at hv; subst hv; exact h (k, w) (by simp)
    · exact ih (fun p hp => h p (by simp [hp])) hv

theorem bindInsert_ok (n : String) (v : Item) (bs : List (String × Item))
    (h : ∀ p ∈ bs, okItem P p.2 = true) (hv : okItem P v = true) :
    ∀ p ∈ bindInsert n v bs, okItem P p.2 = true := by
  induction bs with
  | nil => intro p hp; simp [bindInsert] at hp; subst hp; exact hv
  | cons b bs ih =>
    obtain ⟨k, w⟩ := b
    intro p hp
    unfold bindInsert at hp
    split at hp
    · simp only [List.mem_cons] at hp
      rcases hp with rfl | rfl | hp
      · exact hv
      · exact h (k, w) (by simp)
      · exact h p (by simp [hp])
    · split at hp
      · simp only [List.mem_cons] at hp
        rcases hp with rfl | hp
        · exact hv
        · exact h p (by simp [hp])
      · simp only [List.mem_cons] at hp
        rcases hp with rfl | hp
        · exact h (k, w) (by simp)
        · exact ih (fun q hq => h q (by simp [hq])) p hp

/-! ### instruction families that touch EXEC, CODE or the bindings -/

theorem tail_ok (l : List Item) (h : okItems P l = true) : okItems P l.tail = true := by
  cases l with
  | nil => exact h
  | cons a t => simp only [okItems, Bool.and_eq_true] at h; exact h.2

/-- the generic stack manipulation on a list of items only rearranges, copies or drops items -/
theorem stkList_ok (l : List Item) (h : okItems P l = true) :
    (∀ k : Nat, okItems P (Seq.yank l k) = true) ∧ (∀ k : Nat, okItems P (Seq.shove l k) = true) ∧
    (∀ k : Nat, okItems P (match l[k]? with | some x => x :: l | none => l) = true) := by
  refine ⟨fun k => ?_, fun k => ?_, fun k => ?_⟩
  · rw [okItems_perm P (C05.yank_perm l k)]; exact h
  · rw [okItems_perm P (C05.shove_perm l k)]; exact h
  · split
    · next x hx => simp [okItems, h, okItems_mem P l h x (List.mem_of_getElem? hx)]
    · exact h

theorem stk_ok (t : Ty) (o : SOp) (s : State) (h : okState P s = true) : okState P (semStk t o s) = true := by
  rw [okState_iff] at h ⊢
  obtain ⟨hE, hC, hB⟩ := h
  have lC := stkList_ok P s.code hC
  have lE := stkList_ok P s.exec hE
  cases t <;> simp only [semStk]
  case code =>
    cases o <;> simp only [stkOp, withIndex, Lens.code, pushInt]
    case dup =>
      split
      · exact ⟨hE, hC, hB⟩
      · next x l hl =>
        refine ⟨hE, ?_, hB⟩
        simp only [hl, okItems, Bool.and_eq_true] at hC ⊢; exact ⟨hC.1, hC.1, hC.2⟩
    case pop => exact ⟨hE, tail_ok P _ hC, hB⟩
    case swap => exact ⟨hE, lC.2.1 1, hB⟩
    case rot => exact ⟨hE, lC.1 2, hB⟩
    case yank => split <;> first | exact ⟨hE, hC, hB⟩ | exact ⟨hE, lC.1 _, hB⟩
    case shove => split <;> first | exact ⟨hE, hC, hB⟩ | exact ⟨hE, lC.2.1 _, hB⟩
    case yankdup =>
      split
      · exact ⟨hE, hC, hB⟩
      · refine ⟨hE, ?_, hB⟩
        simp only
        split
        · next x hx => simp [okItems, hC, okItems_mem P s.code hC x (List.mem_of_getElem? hx)]
        · exact hC
    case flush => exact ⟨hE, by simp [okItems], hB⟩
    case depth => exact ⟨hE, hC, hB⟩
    case id => exact ⟨hE, hC, hB⟩
  case exec =>
    cases o <;> simp only [stkOp, withIndex, Lens.exec, pushInt]
    case dup =>
      split
      · exact ⟨hE, hC, hB⟩
      · next x l hl =>
        refine ⟨?_, hC, hB⟩
        simp only [hl, okItems, Bool.and_eq_true] at hE ⊢; exact ⟨hE.1, hE.1, hE.2⟩
    case pop => exact ⟨tail_ok P _ hE, hC, hB⟩
    case swap => exact ⟨lE.2.1 1, hC, hB⟩
    case rot => exact ⟨lE.1 2, hC, hB⟩
    case yank => split <;> first | exact ⟨hE, hC, hB⟩ | exact ⟨lE.1 _, hC, hB⟩
    case shove => split <;> first | exact ⟨hE, hC, hB⟩ | exact ⟨lE.2.1 _, hC, hB⟩
    case yankdup =>
      split
      · exact ⟨hE, hC, hB⟩
      · refine ⟨?_, hC, hB⟩
        simp only
        split
        · next x hx => simp [okItems, hE, okItems_mem P s.exec hE x (List.mem_of_getElem? hx)]
        · exact hE
    case flush => exact ⟨by simp [okItems], hC, hB⟩
    case depth => exact ⟨hE, hC, hB⟩
    case id => exact ⟨hE, hC, hB⟩
  all_goals
    cases o <;> simp only [stkOp, withIndex, Lens.bool, Lens.int, Lens.float, Lens.name, Lens.bvec, Lens.ivec, Lens.fvec, pushInt] <;>
      (try split) <;> exact ⟨hE, hC, hB⟩

theorem okState_def (s : State) : okState P s = (okItems P s.exec && okItems P s.code && s.bindings.all (fun p => okItem P p.2)) := rfl

/-- the re-arming code the control instructions put on EXEC -/
def RearmOk : Prop :=
  P (.stk .code .pop) = true ∧ P (.index .increase) = true ∧ P (.code .loop) = true ∧ P (.exec .loop) = true ∧
  P (.exec .y) = true ∧ P (.vec .i .loop) = true

theorem code_ok (hre : RearmOk P) (rc : Oracle → State → Nat → Option (Item × Nat)) (ρ : Oracle) (o : CodeOp) (s : State)
    (ho : o ≠ .rand) (h : okState P s = true) : okState P (semCode rc ρ o s) = true := by
  obtain ⟨r1, r2, r3, r4, r5, r6⟩ := hre
  have h' := (okState_iff P s).mp h
  obtain ⟨hE, hC, hB⟩ := h'
  cases o <;> simp only [semCode] <;> (try exact absurd rfl ho)
  case container =>
    split
    · next b a l hl =>
      simp only [hl, okItems, Bool.and_eq_true] at hC
      split
      · next c hc =>
        have := container_ok P b a c hC.1 hc
        (simp_all [okState_def, pushCode, okItems] <;> assumption)
      · (simp_all [okState_def, pushCode, okItems, okItem] <;> assumption)
    · exact h
  case definition =>
    split
    · exact h
    · split
      · next v hv =>
        have := bindLookup_ok P _ s.bindings v hB hv
        (simp_all [okState_def, okItems] <;> assumption)
      · (simp_all [okState_def] <;> assumption)
  case extract =>
    split
    · exact h
    · split
      · (simp_all [okState_def] <;> assumption)
      · next c l hl =>
        split
        · next el hel =>
          have hc : okItem P c = true := by simp_all [okItems]
          have := trav_ok P c _ el hc hel
          (simp_all [okState_def, pushCode, okItems] <;> assumption)
        · (simp_all [okState_def] <;> assumption)
  case insert =>
    split
    · exact h
    · split
      · next top x l hl =>
        have hh : okItem P top = true ∧ okItem P x = true ∧ okItems P l = true := by simp_all [okItems]
        split
        · (simp_all [okState_def, okItems] <;> assumption)
        · split
          · (simp_all [okState_def, okItems] <;> assumption)
          · split
            · next top' ht =>
              have := ins_ok P top x _ top' hh.1 hh.2.1 ht
              (simp_all [okState_def, okItems] <;> assumption)
            · (simp_all [okState_def, okItems] <;> assumption)
      · (simp_all [okState_def] <;> assumption)
  case nth =>
    split
    · exact h
    · split
      · (simp_all [okState_def] <;> assumption)
      · next c l hl =>
        have hc : okItem P c = true := by simp_all [okItems]
        split
        · (simp_all [okState_def, pushCode, okItems] <;> assumption)
        · split
          · next xs _ =>
            split
            · next x hx =>
              have : okItem P x = true := okItems_mem P xs (by simpa [okItem] using hc) x (List.mem_of_getElem? hx)
              (simp_all [okState_def, pushCode, okItems] <;> assumption)
            · (simp_all [okState_def, pushCode, okItems, okItem] <;> assumption)
          · (simp_all [okState_def, pushCode, okItems, okItem] <;> assumption)
  case cons =>
    split
    · next b a l hl =>
      have hh : okItem P b = true ∧ okItem P a = true ∧ okItems P l = true := by simp_all [okItems]
      have := consElems_ok P a hh.2.1
      have := consElems_ok P b hh.1
      (simp_all [okState_def, okItems, okItem, okItems_append] <;> assumption)
    · exact h
  case subst =>
    split
    · next target sub pat l hl =>
      have hh : okItem P target = true ∧ okItem P sub = true ∧ okItem P pat = true ∧ okItems P l = true := by
        simp_all [okItems]
      have := subst_ok P target pat sub hh.1 hh.2.1
      (simp_all [okState_def, okItems] <;> assumption)
    · exact h
  case cdr =>
    split
    · next xs l hl =>
      have : okItems P xs.tail = true := tail_ok P xs (by simp_all [okItems, okItem])
      (simp_all [okState_def, okItems, okItem] <;> assumption)
    · (simp_all [okState_def, okItems, okItem] <;> assumption)
    · exact h
  all_goals
    (repeat' split) <;>
    (simp_all [okState_def, pushBool, pushInt, pushCode, pushName, okItems, okItem, instr] <;> assumption)

theorem exec_ok (hre : RearmOk P) (o : ExecOp) (s : State) (h : okState P s = true) : okState P (semExec o s) = true := by
  obtain ⟨r1, r2, r3, r4, r5, r6⟩ := hre
  have h' := (okState_iff P s).mp h
  obtain ⟨hE, hC, hB⟩ := h'
  cases o <;> simp only [semExec]
  all_goals
    (repeat' split) <;>
    (simp_all [okState_def, pushBool, okItems, okItem, instr] <;> assumption)

theorem define_ok (t : Ty) (s : State) (h : okState P s = true) : okState P (semDefine t s) = true := by
  have h' := (okState_iff P s).mp h
  obtain ⟨hE, hC, hB⟩ := h'
  cases t <;> simp only [semDefine] <;> (try exact h)
  all_goals
    unfold defineWith
    split
    · exact h
    · next n ns hn =>
      simp only [popAs, Lens.bool, Lens.int, Lens.float, Lens.code, Lens.exec, Lens.bvec, Lens.ivec, Lens.fvec]
      split
      · next hv => split at hv <;> simp_all [okState_def] <;> assumption
      · next v s2 hv =>
        split at hv
        · simp at hv
        · next x l _ =>
          simp only [Option.some.injEq, Prod.mk.injEq] at hv
          obtain ⟨h1, rfl⟩ := hv
          rw [okState_iff]
          first
            | (subst h1
               refine ⟨hE, hC, bindInsert_ok P n _ s.bindings hB (by simp [okItem])⟩)
            | (subst h1
               have hx' : okItem P x = true ∧ okItems P l = true := by simp_all [okItems]
               exact ⟨hE, hx'.2, bindInsert_ok P n x s.bindings hB hx'.1⟩)
            | (subst h1
               have hx' : okItem P x = true ∧ okItems P l = true := by simp_all [okItems]
               exact ⟨hx'.2, hC, bindInsert_ok P n x s.bindings hB hx'.1⟩)

theorem popById_ok (s s' : State) (sid : Int32) (it : Item) (h : okState P s = true)
    (hp : popById s sid = some (it, s')) : okItem P it = true ∧ okState P s' = true := by
  have h' := (okState_iff P s).mp h
  obtain ⟨hE, hC, hB⟩ := h'
  unfold popById at hp
  repeat' split at hp
  all_goals first
    | (simp only [Option.some.injEq, Prod.mk.injEq] at hp
       obtain ⟨rfl, rfl⟩ := hp
       simp_all [okState_def, okItems, okItem] <;> assumption)
    | (simp at hp)

theorem loadFold_ok (ids : List Int32) (s : State) (acc : List Item) (h : okState P s = true)
    (ha : okItems P acc = true) :
    okItems P (loadFold ids s acc).1 = true ∧ okState P (loadFold ids s acc).2 = true := by
  induction ids generalizing s acc with
  | nil => exact ⟨ha, h⟩
  | cons sid ids ih =>
    unfold loadFold
    split
    · next it s' hp =>
      obtain ⟨h1, h2⟩ := popById_ok P s s' sid it h hp
      exact ih s' (acc ++ [it]) h2 (by simp [okItems_append, ha, okItems, h1])
    · exact ih s acc h ha

theorem loadItems_ok (s s' : State) (r : Item) (h : okState P s = true) (hl : loadItems s = some (r, s')) :
    okItem P r = true ∧ okState P s' = true := by
  unfold loadItems at hl
  split at hl
  · simp at hl
  · next ids l hv =>
    simp only [Option.some.injEq, Prod.mk.injEq] at hl
    obtain ⟨rfl, rfl⟩ := hl
    have h0 : okState P { s with ivec := l } = true := (okState_congr P s _ rfl rfl rfl).trans h
    have := loadFold_ok P ids { s with ivec := l } [] h0 (by simp [okItems])
    exact ⟨by simpa [okItem, okItems_reverse] using this.1, this.2⟩

theorem eraseIdx_ok (l : List Item) (k : Nat) (h : okItems P l = true) : okItems P (l.eraseIdx k) = true :=
  okItems_sub P _ l (fun x hx => List.mem_of_mem_eraseIdx hx) h

theorem set_ok (l : List Item) (k : Nat) (x : Item) (h : okItems P l = true) (hx : okItem P x = true) :
    okItems P (l.set k x) = true := by
  apply okItems_of_forall
  intro y hy
  rcases List.mem_or_eq_of_mem_set hy with hm | rfl
  · exact okItems_mem P l h y hm
  · exact hx

theorem list_ok (o : ListOp) (s : State) (h : okState P s = true) : okState P (semList o s) = true := by
  have h' := (okState_iff P s).mp h
  obtain ⟨hE, hC, hB⟩ := h'
  cases o <;> simp only [semList]
  case add =>
    split
    · next r s' hl =>
      obtain ⟨h1, h2⟩ := loadItems_ok P s s' r h hl
      have := (okState_iff P s').mp h2
      rw [okState_iff]; simp only [pushCode, okItems, h1, this.2.1, Bool.and_self]
      exact ⟨this.1, trivial, this.2.2⟩
    · exact h
  case remove =>
    split
    · exact h
    · rw [okState_iff]; exact ⟨hE, eraseIdx_ok P _ _ hC, hB⟩
  case get =>
    split
    · exact h
    · split
      · next xs hx =>
        have : okItem P (.list xs) = true := okItems_mem P s.code hC _ (List.mem_of_getElem? hx)
        rw [okState_iff]; simp only [pushExec, okItems, this, hE, Bool.and_self]
        exact ⟨trivial, hC, hB⟩
      · rw [okState_iff]; exact ⟨hE, hC, hB⟩
  case set =>
    split
    · exact h
    · next i il hi =>
      have h0 : okState P { s with int := il } = true := (okState_congr P s _ rfl rfl rfl).trans h
      split
      · exact h0
      · next r s2 hl =>
        obtain ⟨h1, h2⟩ := loadItems_ok P _ s2 r h0 hl
        have := (okState_iff P s2).mp h2
        split
        · exact h2
        · rw [okState_iff]; exact ⟨this.1, set_ok P _ _ _ this.2.1 h1, this.2.2⟩
  all_goals
    (repeat' split) <;>
    (simp_all [okState_def, pushBool, pushInt, pushFloat] <;> assumption)

/-- INTVECTOR.LOOP re-arms with a vector literal, itself and the body -/
theorem vec_ok (hre : RearmOk P) (ρ : Oracle) (t : VTy) (o : VecOp) (s : State) (h : okState P s = true) :
    okState P (semVec ρ t o s) = true := by
  by_cases hl : o = .loop
  · subst hl
    cases t
    · simpa [semVec, semVecB] using h
    · obtain ⟨r1, r2, r3, r4, r5, r6⟩ := hre
      have h' := (okState_iff P s).mp h
      obtain ⟨hE, hC, hB⟩ := h'
      simp only [semVec, semVecI]
      (repeat' split) <;> (simp_all [okState_def, okItems, okItem] <;> assumption)
    · simpa [semVec, semVecF] using h
  · have hf := fun f hf => C10.frame ρ (.vec t o) s f hf
    have e1 := hf .exec (by cases t <;> cases o <;> simp_all [C10.footprint, C10.vField, C10.sField])
    have e2 := hf .code (by cases t <;> cases o <;> simp [C10.footprint, C10.vField, C10.sField])
    have e3 := hf .bindings (by cases t <;> cases o <;> simp [C10.footprint, C10.vField, C10.sField])
    simp only [C10.Unchanged, semFull, sem, fullExt] at e1 e2 e3
    exact (okState_congr P s _ e1 e2 e3).trans h

/-- **every instruction except CODE.RAND preserves the syntactic invariant**: the instructions occurring anywhere in
EXEC, CODE and the bound values afterwards are instructions that occurred before, or re-arming code -/
theorem sem_ok (hre : RearmOk P) (ρ : Oracle) (i : Instr) (s : State) (hi : i ≠ .code .rand)
    (h : okState P s = true) : okState P (semFull ρ i s) = true := by
  by_cases hfp : C10.Field.exec ∉ C10.footprint i ∧ C10.Field.code ∉ C10.footprint i ∧ C10.Field.bindings ∉ C10.footprint i
  · have e1 := C10.frame ρ i s .exec hfp.1
    have e2 := C10.frame ρ i s .code hfp.2.1
    have e3 := C10.frame ρ i s .bindings hfp.2.2
    simp only [C10.Unchanged] at e1 e2 e3
    exact (okState_congr P s _ e1 e2 e3).trans h
  · cases i with
    | noop => exact h
    | unknown n => exact h
    | stk t o => exact stk_ok P t o s h
    | define t => exact define_ok P t s h
    | code o => exact code_ok P hre _ ρ o s (fun hh => hi (by rw [hh])) h
    | exec o => exact exec_ok P hre o s h
    | vec t o => exact vec_ok P hre ρ t o s h
    | list o => exact list_ok P o s h
    | boolean o => exact absurd ⟨by simp [C10.footprint], by simp [C10.footprint], by simp [C10.footprint]⟩ hfp
    | integer o => exact absurd ⟨by cases o <;> simp [C10.footprint], by cases o <;> simp [C10.footprint], by cases o <;> simp [C10.footprint]⟩ hfp
    | float o => exact absurd ⟨by cases o <;> simp [C10.footprint], by cases o <;> simp [C10.footprint], by cases o <;> simp [C10.footprint]⟩ hfp
    | name o => exact absurd ⟨by cases o <;> simp [C10.footprint], by cases o <;> simp [C10.footprint], by cases o <;> simp [C10.footprint]⟩ hfp
    | index o => exact absurd ⟨by cases o <;> simp [C10.footprint], by cases o <;> simp [C10.footprint], by cases o <;> simp [C10.footprint]⟩ hfp
    | io o => exact absurd ⟨by cases o <;> simp [C10.footprint], by cases o <;> simp [C10.footprint], by cases o <;> simp [C10.footprint]⟩ hfp
    | graph o => exact absurd ⟨by cases o <;> simp [C10.footprint], by cases o <;> simp [C10.footprint], by cases o <;> simp [C10.footprint]⟩ hfp

/-- one interpreter step preserves the invariant (a literal, a list, a name — bound or not — or an instruction) -/
theorem step_ok (hre : RearmOk P) (hr : P (.code .rand) = false) (ρ : Oracle) (s : State) (h : okState P s = true) :
    okState P (stepFull ρ s).2 = true := by
  have h' := (okState_iff P s).mp h
  obtain ⟨hE, hC, hB⟩ := h'
  simp only [stepFull, step]
  split
  · exact h
  · next v e he =>
    have : okItems P e = true := by simp_all [okItems]
    cases v <;> (simp only [pushLit, pushBool, pushInt, pushFloat]; rw [okState_iff]; exact ⟨this, hC, hB⟩)
  · next n e he =>
    have he' : okItems P e = true := by simp_all [okItems]
    split
    · rw [okState_iff]; exact ⟨he', hC, hB⟩
    · split
      · next item hl =>
        have := bindLookup_ok P n s.bindings item hB hl
        rw [okState_iff]; simp only [pushExec, okItems, this, he', Bool.and_self]; exact ⟨trivial, hC, hB⟩
      · rw [okState_iff]; exact ⟨he', hC, hB⟩
  · next i e he =>
    have hi : P i = true ∧ okItems P e = true := by simp_all [okItems, okItem]
    have h0 : okState P { s with exec := e } = true := by rw [okState_iff]; exact ⟨hi.2, hC, hB⟩
    exact sem_ok P hre ρ i _ (fun hh => by rw [hh, hr] at hi; exact absurd hi.1 (by simp)) h0
  · next xs e he =>
    have : okItems P xs = true ∧ okItems P e = true := by simp_all [okItems, okItem]
    rw [okState_iff]; simp only [okItems_append, this, Bool.and_self]; exact ⟨trivial, hC, hB⟩

theorem stepN_ok (hre : RearmOk P) (hr : P (.code .rand) = false) (ρ : Oracle) (n : Nat) (s : State)
    (h : okState P s = true) : okState P (stepN fullExt ρ n s) = true := by
  induction n generalizing s with
  | zero => exact h
  | succ n ih => simp only [stepN]; exact ih _ (step_ok P hre hr ρ s h)

/-- a program is *clean* when no RAND instruction and no GRAPH.NODE*ADD occurs anywhere in EXEC, CODE or a bound value -/
def Clean (s : State) : Bool := okState (fun i => !usesEnv i) s

/-- **static determinism**: for a clean program — a syntactic condition on the initial state only — every run, of any
length, reaches the same state for EVERY oracle: nothing outside the PushState (random source, node counter,
whatever ran earlier in the process) can influence it -/
theorem clean_deterministic (ρ₁ ρ₂ : Oracle) (n : Nat) (s : State) (h : Clean s = true) :
    stepN fullExt ρ₁ n s = stepN fullExt ρ₂ n s := by
  apply stepN_oracle_indep
  intro k _ i e he
  have hre : RearmOk (fun i => !usesEnv i) := by simp [RearmOk, usesEnv]
  have := stepN_ok (fun i => !usesEnv i) hre (by simp [usesEnv]) ρ₁ k s h
  rw [okState_iff] at this
  have h1 := this.1
  rw [he] at h1
  simp only [okItems, okItem, Bool.and_eq_true, Bool.not_eq_true'] at h1
  exact h1.1

/-- a clean program stays clean: it can never construct a RAND instruction out of its parts -/
theorem clean_invariant (ρ : Oracle) (n : Nat) (s : State) (h : Clean s = true) : Clean (stepN fullExt ρ n s) = true :=
  stepN_ok _ (by simp [RearmOk, usesEnv]) (by simp [usesEnv]) ρ n s h

/-- non-vacuity: `( 1 EXEC.Y ( INTEGER.DUP INTEGER.+ ) )` is clean -/
example : Clean { Pushr.C15.emptyState with
    exec := [.list [.lit (.int 1), .instr (.exec .y), .list [.instr (.stk .int .dup), .instr (.integer .add)]]] } = true := by
  decide
/-- `( INTEGER.RAND )` is not -/
example : Clean { Pushr.C15.emptyState with exec := [.instr (.integer .rand)] } = false := by decide

end Pushr.C14
