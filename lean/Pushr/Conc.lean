import Pushr.Interp
/-! Many interpreters in one process: each owns its `State`; the only shared mutable datum is the
node counter (an atomic fetch-add). A schedule is the list of thread indices in the order their
steps (or id allocations) happen. -/
namespace Pushr.Conc

/-- the system: one state per interpreter -/
abbrev Sys := List State

/-- thread `i` performs one interpreter step -/
def sysStep (X : Ext) (ρ : Nat → Oracle) (sys : Sys) (i : Nat) : Sys :=
  match sys[i]? with
  | some s => sys.set i (step X (ρ i) s).2
  | none => sys

def runSchedule (X : Ext) (ρ : Nat → Oracle) (sys : Sys) (sched : List Nat) : Sys :=
  sched.foldl (sysStep X ρ) sys

/-- `fetch_add(1)`: returns the old value, leaves the counter incremented — one atomic action -/
def fetchAdd (c : Nat) : Nat × Nat := (c, c + 1)

/-- ids handed out under a schedule of allocation requests: `(thread, id)` in the order of the atomic actions -/
def allocate : Nat → List Nat → List (Nat × Nat)
  | _, [] => []
  | c, t :: ts => (t, (fetchAdd c).1) :: allocate (fetchAdd c).2 ts

/-- the command-line front end: step until EXEC is empty (fuel-bounded) -/
def cliLoop (X : Ext) (ρ : Oracle) : Nat → State → State
  | 0, s => s
  | fuel + 1, s => if (step X ρ s).1 then s else cliLoop X ρ fuel (step X ρ s).2

end Pushr.Conc
