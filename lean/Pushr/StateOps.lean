import Pushr.Types
import Pushr.StackSpec
/-! Helpers on `State`: bounded buffers, bindings, stack lenses, index clamp. -/
namespace Pushr

namespace Buf
variable {α : Type}
/-- plain push: ignored when full -/
def push (b : Buf α) (x : α) : Buf α :=
  if b.items.length < b.cap then { b with items := b.items ++ [x] } else b
/-- forced push: drops the oldest when full -/
def pushForce (b : Buf α) (x : α) : Buf α :=
  if b.items.length < b.cap then { b with items := b.items ++ [x] }
  else { b with items := b.items.tail ++ [x] }
def popOldest (b : Buf α) : Option α × Buf α :=
  match b.items with
  | [] => (none, b)
  | x :: t => (some x, { b with items := t })
def popNewest (b : Buf α) : Option α × Buf α :=
  match b.items.getLast? with
  | none => (none, b)
  | some x => (some x, { b with items := b.items.dropLast })
def oldest (b : Buf α) : Option α := b.items.head?
def newest (b : Buf α) : Option α := b.items.getLast?
def size (b : Buf α) : Nat := b.items.length
def flush (b : Buf α) : Buf α := { b with items := [] }
/-- position `i` of a Stack-kind buffer: 0 = newest -/
def getStack (b : Buf α) (i : Nat) : Option α := b.items.reverse[i]?
/-- position `i` of a Queue-kind buffer: 0 = oldest -/
def getQueue (b : Buf α) (i : Nat) : Option α := b.items[i]?
end Buf

/-- `HashMap::insert` on the sorted association list -/
def bindInsert (k : String) (v : Item) : List (String × Item) → List (String × Item)
  | [] => [(k, v)]
  | (k', v') :: t =>
    if k < k' then (k, v) :: (k', v') :: t
    else if k = k' then (k, v) :: t
    else (k', v') :: bindInsert k v t

def bindLookup (k : String) : List (String × Item) → Option Item
  | [] => none
  | (k', v') :: t => if k = k' then some v' else bindLookup k t

/-- `i32::max(i32::min(len as i32 - 1, idx), 0) as usize` -/
def clampIdx (len : Nat) (i : Int32) : Nat :=
  (max (min ((len : Int) - 1) i.toInt) 0).toNat

/-- `n as i32` for a length -/
def lenI32 (n : Nat) : Int32 := Int32.ofNat n

/-- a typed stack inside the state -/
structure Lens (α : Type) where
  get : State → List α
  set : State → List α → State

def Lens.bool : Lens Bool := ⟨State.bool, fun s l => { s with bool := l }⟩
def Lens.int : Lens Int32 := ⟨State.int, fun s l => { s with int := l }⟩
def Lens.float : Lens Float32 := ⟨State.float, fun s l => { s with float := l }⟩
def Lens.name : Lens String := ⟨State.name, fun s l => { s with name := l }⟩
def Lens.code : Lens Item := ⟨State.code, fun s l => { s with code := l }⟩
def Lens.exec : Lens Item := ⟨State.exec, fun s l => { s with exec := l }⟩
def Lens.bvec : Lens (List Bool) := ⟨State.bvec, fun s l => { s with bvec := l }⟩
def Lens.ivec : Lens (List Int32) := ⟨State.ivec, fun s l => { s with ivec := l }⟩
def Lens.fvec : Lens (List Float32) := ⟨State.fvec, fun s l => { s with fvec := l }⟩

/-- stack ids (`state.rs`) -/
def Ty.id : Ty → Int32
  | .bool => 1 | .bvec => 2 | .code => 3 | .exec => 4 | .float => 5 | .fvec => 6 | .int => 9
  | .ivec => 10 | .name => 11

def pushInt (s : State) (i : Int32) : State := { s with int := i :: s.int }
def pushBool (s : State) (b : Bool) : State := { s with bool := b :: s.bool }
def pushFloat (s : State) (f : Float32) : State := { s with float := f :: s.float }
def pushName (s : State) (n : String) : State := { s with name := n :: s.name }
def pushCode (s : State) (c : Item) : State := { s with code := c :: s.code }
def pushExec (s : State) (c : Item) : State := { s with exec := c :: s.exec }

/-- `PushState::size`: the nine main stacks -/
def State.size (s : State) : Nat :=
  s.bool.length + s.float.length + s.int.length + s.name.length + s.code.length + s.exec.length
  + s.bvec.length + s.fvec.length + s.ivec.length

end Pushr
