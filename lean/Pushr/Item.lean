import Pushr.Types
import Pushr.ItemBasic
/-! `Item` functions of `item.rs` on top-first lists (index 0 = stack position 0).
`insert` and `contains` are modelled in their repaired form (DESIGN §8 F19, F20). -/
namespace Pushr

def Edge.beq (a b : Edge) : Bool := a.origin == b.origin          -- `impl PartialEq for Edge`

/-- `impl PartialEq for Graph`: `HashMap` equality with `Node == Node` iff same id and
`Edge == Edge` iff same origin. Both maps are kept sorted by key. -/
def Graph.beq (a b : Graph) : Bool :=
  a.nodes.map (·.1) == b.nodes.map (·.1)
  && a.edges.map (fun p => (p.1, p.2.map (·.origin))) == b.edges.map (fun p => (p.1, p.2.map (·.origin)))

def f32ListBeq : List Float32 → List Float32 → Bool
  | [], [] => true
  | a :: as, b :: bs => a == b && f32ListBeq as bs
  | _, _ => false

/-- `PushType::equals` -/
def Lit.equals : Lit → Lit → Bool
  | .bool a, .bool b => a == b
  | .int a, .int b => a == b
  | .index c d, .index c' d' => c == c' && d == d'
  | .float a, .float b => a == b                       -- IEEE: NaN ≠ NaN, 0.0 == -0.0
  | .bvec a, .bvec b => a == b
  | .ivec a, .ivec b => a == b
  | .fvec a, .fvec b => f32ListBeq a b
  | .graph a, .graph b => a.beq b
  | _, _ => false

mutual
/-- `Item::size`: number of points -/
def Item.size : Item → Nat
  | .list xs => 1 + Item.sizeL xs
  | _ => 1
def Item.sizeL : List Item → Nat
  | [] => 0
  | x :: xs => Item.size x + Item.sizeL xs
end

/-- `Item::shallow_size` -/
def Item.shallowSize : Item → Nat
  | .list xs => xs.length + 1
  | _ => 1

mutual
/-- `Item::equals`: deep structural comparison -/
def Item.equals : Item → Item → Bool
  | .list xs, .list ys => Item.equalsL xs ys
  | .instr a, .instr b => a == b
  | .lit a, .lit b => a.equals b
  | .ident a, .ident b => a == b
  | _, _ => false
def Item.equalsL : List Item → List Item → Bool
  | [], [] => true
  | x :: xs, y :: ys => Item.equals x y && Item.equalsL xs ys
  | _, _ => false
end

mutual
/-- `Item::traverse`: `.ok` = the point at depth-first index `d`; `.error r` = `r` more points to go -/
def Item.trav : Item → Nat → Except Nat Item
  | t, 0 => .ok t
  | .list xs, d + 1 => Item.travL xs (d + 1)
  | _, d + 1 => .error (d + 1)
def Item.travL : List Item → Nat → Except Nat Item
  | [], d => .error d
  | _ :: _, 0 => .error 0                 -- unreachable: the remaining depth is always ≥ 1 here
  | x :: xs, d + 1 =>
    match Item.trav x d with
    | .ok r => .ok r
    | .error d' => Item.travL xs d'
end

mutual
/-- `Item::insert` (repaired: replaces at the loop index), returning the modified item;
`.error r` = index beyond this subtree, `r` more points to go; depth 0 is handled by the caller -/
def Item.ins : Item → Item → Nat → Except Nat Item
  | .list xs, x, d + 1 =>
    match Item.insL xs x (d + 1) with
    | .ok xs' => .ok (.list xs')
    | .error e => .error e
  | _, _, d => .error d
def Item.insL : List Item → Item → Nat → Except Nat (List Item)
  | [], _, d => .error d
  | _ :: _, _, 0 => .error 0
  | c :: cs, x, d + 1 =>
    if d = 0 then .ok (x :: cs)
    else match Item.ins c x d with
      | .ok c' => .ok (c' :: cs)
      | .error d' =>
        match Item.insL cs x d' with
        | .ok cs' => .ok (c :: cs')
        | .error e => .error e
end

mutual
/-- `Item::contains` (repaired: a skipped sub-list advances the index by its size): depth-first index
of the first point structurally equal to `p`, counting from `d` -/
def Item.pos : Item → Item → Nat → Option Nat
  | t, p, d =>
    if Item.equals t p then some d
    else match t with
      | .list xs => Item.posL xs p (d + 1)
      | _ => none
def Item.posL : List Item → Item → Nat → Option Nat
  | [], _, _ => none
  | x :: xs, p, d =>
    match Item.pos x p d with
    | some k => some k
    | none => Item.posL xs p (d + Item.size x)
end

mutual
/-- `Item::container`: `.ok c` = smallest list containing (but not equal to) the first match;
`.error true` = this item is the match; `.error false` = no match -/
def Item.container : Item → Item → Except Bool Item
  | t, p =>
    if Item.equals t p then .error true
    else match t with
      | .list xs => Item.containerL xs p t
      | _ => .error false
def Item.containerL : List Item → Item → Item → Except Bool Item
  | [], _, _ => .error false
  | x :: xs, p, parent =>
    match Item.container x p with
    | .ok c => .ok c
    | .error true => .ok parent
    | .error false => Item.containerL xs p parent
end

mutual
/-- `Item::substitute` + the caller's replacement: every maximal point equal to `p` becomes `sub` -/
def Item.subst : Item → Item → Item → Item
  | t, p, sub =>
    if Item.equals t p then sub
    else match t with
      | .list xs => .list (Item.substL xs p sub)
      | _ => t
def Item.substL : List Item → Item → Item → List Item
  | [], _, _ => []
  | x :: xs, p, sub => Item.subst x p sub :: Item.substL xs p sub
end

mutual
/-- `Item::find`: the `n`-th point (depth-first) with the same shallow type as `p`;
`.error c` = not found, `c` matches seen so far -/
def Item.find : Item → Item → Nat → Nat → Except Nat Item
  | t, p, cnt, n =>
    if Item.shallowEq p t then
      if cnt = n then .ok t
      else match t with
        | .list xs => Item.findL xs p (cnt + 1) n
        | _ => .error (cnt + 1)
    else match t with
      | .list xs => Item.findL xs p cnt n
      | _ => .error cnt
def Item.findL : List Item → Item → Nat → Nat → Except Nat Item
  | [], _, cnt, _ => .error cnt
  | x :: xs, p, cnt, n =>
    match Item.find x p cnt n with
    | .ok r => .ok r
    | .error c => Item.findL xs p c n
end

mutual
/-- all points in depth-first order -/
def Item.points : Item → List Item
  | .list xs => .list xs :: Item.pointsL xs
  | t => [t]
def Item.pointsL : List Item → List Item
  | [] => []
  | x :: xs => Item.points x ++ Item.pointsL xs
end

end Pushr
