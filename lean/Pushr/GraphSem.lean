import Pushr.StateOps
import Pushr.Item
/-! Graph memory (`graph.rs`): the `Graph` API on sorted association lists and the GRAPH.*
instructions. GRAPH.EDGE*HISTORY is modelled in its repaired form (`pos >= 0`). -/
namespace Pushr

namespace Graph

def empty : Graph := ⟨[], []⟩

def insertKey {β : Type} (k : Nat) (v : β) : List (Nat × β) → List (Nat × β)
  | [] => [(k, v)]
  | (k', v') :: t =>
    if k < k' then (k, v) :: (k', v') :: t
    else if k = k' then (k, v) :: t
    else (k', v') :: insertKey k v t

def lookupKey {β : Type} (k : Nat) : List (Nat × β) → Option β
  | [] => none
  | (k', v') :: t => if k = k' then some v' else lookupKey k t

def hasNode (g : Graph) (id : Nat) : Bool := (lookupKey id g.nodes).isSome

/-- `add_node` with the id handed out by the global counter -/
def addNode (g : Graph) (id : Nat) (state : Int32) : Graph := { g with nodes := insertKey id state g.nodes }

/-- `remove_node`: the node, its incoming list, and its outgoing edges -/
def removeNode (g : Graph) (id : Nat) : Graph :=
  { nodes := g.nodes.filter (·.1 != id),
    edges := (g.edges.filter (·.1 != id)).map fun (d, l) => (d, l.filter (·.origin != id)) }

def addEdge (g : Graph) (o d : Nat) (w : Float32) : Graph :=
  if g.hasNode o && g.hasNode d then
    match lookupKey d g.edges with
    | some l => if l.any (·.origin == o) then g else { g with edges := insertKey d (l ++ [⟨o, w⟩]) g.edges }
    | none => { g with edges := insertKey d [⟨o, w⟩] g.edges }
  else g

def removeEdge (g : Graph) (o d : Nat) : Graph :=
  match lookupKey d g.edges with
  | some l => { g with edges := insertKey d (l.filter (·.origin != o)) g.edges }
  | none => g

def getState (g : Graph) (id : Nat) : Option Int32 := lookupKey id g.nodes

def setState (g : Graph) (id : Nat) (st : Int32) : Graph :=
  if g.hasNode id then { g with nodes := insertKey id st g.nodes } else g

def getWeight (g : Graph) (o d : Nat) : Option Float32 :=
  match lookupKey d g.edges with
  | some l => (l.find? (·.origin == o)).map (·.weight)
  | none => none

def setWeight (g : Graph) (o d : Nat) (w : Float32) : Graph :=
  match lookupKey d g.edges with
  | some l =>
    if l.any (·.origin == o) then
      { g with edges := insertKey d (l.map fun e => if e.origin == o then ⟨o, w⟩ else e) g.edges }
    else g
  | none => g

def nodeSize (g : Graph) : Nat := g.nodes.length
def edgeSize (g : Graph) : Nat := (g.edges.map (·.2.length)).sum

def stateOk (states : List Int32) (st : Int32) : Bool := states.isEmpty || states.contains st

/-- `filter`: ids of the nodes whose state is listed (every node when the list is empty); a state
listed twice yields the id twice, exactly like the Rust loop. Order: by id (Rust: hash order). -/
def filter (g : Graph) (states : List Int32) : List Nat :=
  g.nodes.flatMap fun (id, st) =>
    if states.isEmpty then [id] else (states.filter (· == st)).map fun _ => id

def predecessors (g : Graph) (id : Nat) (states : List Int32) : List Nat :=
  match lookupKey id g.edges with
  | some l => l.filterMap fun e => match g.getState e.origin with
    | some st => if stateOk states st then some e.origin else none
    | none => none
  | none => []

def successors (g : Graph) (id : Nat) (states : List Int32) : List Nat :=
  g.edges.filterMap fun (d, l) =>
    if l.any (·.origin == id) then
      match g.getState d with
      | some st => if stateOk states st then some d else none
      | none => none
    else none

/-- `diff` returns `None` exactly in this case -/
def sameAs (a b : Graph) : Bool :=
  a.nodes == b.nodes
  && (a.edges.all fun (d, l) => l.all fun e => match b.getWeight e.origin d with
        | some w => e.weight == w
        | none => false)
  && (b.edges.all fun (d, l) => l.all fun e => (a.getWeight e.origin d).isSome)

end Graph

/-- `id as usize` for an `i32`: a negative id never names a node (ids are small positive numbers) -/
def idOf (i : Int32) : Option Nat := if i < 0 then none else some i.toInt.toNat

def modGraphTop (s : State) (f : Graph → Graph) : State :=
  match s.graph.items.getLast? with
  | some g => { s with graph := { s.graph with items := s.graph.items.dropLast ++ [f g] } }
  | none => s

def graphAt (s : State) (pos : Nat) : Option Graph := s.graph.getStack pos

def withId (i : Int32) (g : Graph) (f : Nat → Graph) : Graph :=
  match idOf i with
  | some n => f n
  | none => g

/-- STATESWITCH loop -/
def switchStates (g : Graph) : List Int32 → List Bool → Int32 → Int32 → Graph
  | id :: ids, b :: bs, on, off =>
    switchStates (withId id g fun n => g.setState n (if b then on else off)) ids bs on off
  | _, _, _, _ => g

def semGraph : GraphOp → State → State
  | .add, s => { s with graph := s.graph.push Graph.empty }
  | .dup, s => match graphAt s 0 with
    | some g => { s with graph := s.graph.push g }
    | none => s
  | .nodeAdd, s => match graphAt s 0 with
    | none => s
    | some _ => match s.int with
      | [] => s
      | st :: il =>
        let id := s.nextId
        { (modGraphTop { s with int := lenI32 id :: il } fun g => g.addNode id st) with nextId := id + 1 }
  | .nodeStateSwitch, s => match graphAt s 0 with
    | none => s
    | some _ => match s.ivec with
      | [] => s
      | ids :: ivl =>
        let s1 := { s with ivec := ivl }
        match s1.bvec with
        | [] => s1
        | sw :: bvl =>
          let s2 := { s1 with bvec := bvl }
          match s2.int with
          | off :: on :: il => modGraphTop { s2 with int := il } fun g => switchStates g ids sw on off
          | _ => s2
  | .nodes, s => match graphAt s 0 with
    | none => s
    | some g => match s.ivec with
      | [] => s
      | states :: l => { s with ivec := (g.filter states).map lenI32 :: l }
  | .nodesHistory, s => match s.int with
    | [] => s
    | pos :: il =>
      let s1 := { s with int := il }
      if pos ≥ 0 then
        match graphAt s1 pos.toInt.toNat with
        | none => s1
        | some g => match s1.ivec with
          | [] => s1
          | states :: l => { s1 with ivec := (g.filter states).map lenI32 :: l }
      else s1
  | .nodeGetState, s => match graphAt s 0 with
    | none => s
    | some g => match s.int with
      | [] => s
      | id :: il =>
        let s1 := { s with int := il }
        if id > 0 then match g.getState id.toInt.toNat with
          | some st => pushInt s1 st
          | none => s1
        else s1
  | .nodeHistory, s => match s.int with
    | [] => s
    | pos :: il =>
      let s1 := { s with int := il }
      if pos ≥ 0 then
        match s1.int with
        | [] => s1
        | id :: il2 =>
          let s2 := { s1 with int := il2 }
          match graphAt s2 pos.toInt.toNat with
          | none => s2
          | some g =>
            if id ≥ 0 then match g.getState id.toInt.toNat with
              | some st => pushInt s2 st
              | none => s2
            else s2
      else s1
  -- the text depends on hash order and on the shortest-round-trip float printer: not modelled,
  -- the driver only checks that exactly one NAME is pushed
  | .print, s => match graphAt s 0 with
    | some _ => pushName s "?"
    | none => s
  | .printDiff, s => match graphAt s 0, graphAt s 1 with
    | some new, some old => if old.sameAs new then s else pushName s "?"
    | _, _ => s
  | .depth, s => pushInt s (lenI32 s.graph.size)
  | .nodeSetState, s => match graphAt s 0 with
    | none => s
    | some _ => match s.int with
      | [] => s
      | st :: [] => { s with int := [] }
      | st :: id :: il =>
        let s1 := { s with int := il }
        if id > 0 then modGraphTop s1 fun g => g.setState id.toInt.toNat st else s1
  | .edgeAdd, s => match graphAt s 0 with
    | none => s
    | some _ => match s.float with
      | [] => s
      | w :: fl =>
        let s1 := { s with float := fl }
        match s1.int with
        | d :: o :: il =>
          modGraphTop { s1 with int := il } fun g => match idOf o, idOf d with
            | some o, some d => g.addEdge o d w
            | _, _ => g
        | _ => s1
  | .nodeNeighbors, s => match graphAt s 0 with
    | none => s
    | some g => match s.ivec with
      | [] => s
      | states :: ivl =>
        let s1 := { s with ivec := ivl }
        match s1.int with
        | [] => s1
        | id :: il =>
          let s2 := { s1 with int := il }
          if id > 0 then
            let n := id.toInt.toNat
            { s2 with ivec := ((g.predecessors n states ++ g.successors n states).map lenI32) :: s2.ivec }
          else s2
  | .nodePredecessors, s => match graphAt s 0 with
    | none => s
    | some g => match s.ivec with
      | [] => s
      | states :: ivl =>
        let s1 := { s with ivec := ivl }
        match s1.int with
        | [] => s1
        | id :: il =>
          let s2 := { s1 with int := il }
          if id > 0 then { s2 with ivec := ((g.predecessors id.toInt.toNat states).map lenI32) :: s2.ivec }
          else s2
  | .nodeSuccessors, s => match graphAt s 0 with
    | none => s
    | some g => match s.ivec with
      | [] => s
      | states :: ivl =>
        let s1 := { s with ivec := ivl }
        match s1.int with
        | [] => s1
        | id :: il =>
          let s2 := { s1 with int := il }
          if id > 0 then { s2 with ivec := ((g.successors id.toInt.toNat states).map lenI32) :: s2.ivec }
          else s2
  | .edgeGetWeight, s => match graphAt s 0 with
    | none => s
    | some g => match s.int with
      | d :: o :: il =>
        let s1 := { s with int := il }
        match idOf o, idOf d with
        | some o, some d => match g.getWeight o d with
          | some w => pushFloat s1 w
          | none => s1
        | _, _ => s1
      | _ => s
  | .edgeHistory, s => match s.int with
    | [] => s
    | pos :: il =>
      let s1 := { s with int := il }
      if pos ≥ 0 then
        match graphAt s1 pos.toInt.toNat with
        | none => s1
        | some g => match s1.int with
          | d :: o :: il2 =>
            let s2 := { s1 with int := il2 }
            match idOf o, idOf d with
            | some o, some d => match g.getWeight o d with
              | some w => pushFloat s2 w
              | none => s2
            | _, _ => s2
          | _ => s1
      else s1
  | .edgeSetWeight, s => match graphAt s 0 with
    | none => s
    | some _ => match s.float with
      | [] => s
      | w :: fl =>
        let s1 := { s with float := fl }
        match s1.int with
        | d :: o :: il =>
          modGraphTop { s1 with int := il } fun g => match idOf o, idOf d with
            | some o, some d => g.setWeight o d w
            | _, _ => g
        | _ => s1

end Pushr
