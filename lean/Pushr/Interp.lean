import Pushr.Sem
/-! The interpreter: instruction dispatch, `step`, `stepN`, the bounded `run` loop. -/
namespace Pushr

/-- hooks for the instruction families defined in later files -/
structure Ext where
  randCode : Oracle → State → Nat → Option (Item × Nat)
  vec : Oracle → VTy → VecOp → State → State
  list : ListOp → State → State
  graph : GraphOp → State → State

def sem (X : Ext) (ρ : Oracle) : Instr → State → State
  | .noop, s => s
  | .stk t o, s => semStk t o s
  | .define t, s => semDefine t s
  | .boolean o, s => semBool ρ o s
  | .integer o, s => semInt ρ o s
  | .float o, s => semFloat ρ o s
  | .name o, s => semName ρ o s
  | .code o, s => semCode X.randCode ρ o s
  | .exec o, s => semExec o s
  | .index o, s => semIndex o s
  | .io o, s => semIo o s
  | .vec t o, s => X.vec ρ t o s
  | .list o, s => X.list o s
  | .graph o, s => X.graph o s
  | .unknown _, s => s           -- `get_instruction` finds nothing: ignored

/-- a literal on EXEC goes to the stack of its type -/
def pushLit (s : State) : Lit → State
  | .bool b => pushBool s b
  | .int i => pushInt s i
  | .index c d => { s with index := (c, d) :: s.index }
  | .float f => pushFloat s f
  | .bvec v => { s with bvec := v :: s.bvec }
  | .fvec v => { s with fvec := v :: s.fvec }
  | .ivec v => { s with ivec := v :: s.ivec }
  | .graph g => { s with graph := s.graph.push g }

/-- `PushInterpreter::step`: `true` = EXEC was empty (nothing done) -/
def step (X : Ext) (ρ : Oracle) (s : State) : Bool × State :=
  match s.exec with
  | [] => (true, s)
  | .lit v :: e => (false, pushLit { s with exec := e } v)
  | .ident n :: e =>
    let s1 := { s with exec := e }
    if s1.quote then (false, { pushName s1 n with quote := false })
    else match bindLookup n s1.bindings with
      | some item => (false, pushExec s1 item)
      | none => (false, pushName s1 n)
  | .instr i :: e => (false, sem X ρ i { s with exec := e })
  | .list xs :: e => (false, { s with exec := xs ++ e })

def stepN (X : Ext) (ρ : Oracle) : Nat → State → State
  | 0, s => s
  | n + 1, s => stepN X ρ n (step X ρ s).2

/-- `copy_to_code_stack` -/
def copyToCode (s : State) : State := { s with code := s.exec ++ s.code }

inductive Outcome where
  | noErrors | stepLimit | timeLimit | growthCap
  deriving DecidableEq, Repr, Inhabited

/-- the loop of `PushInterpreter::run`, from iteration `k` (= `step_counter`); `timeout k` is the
abstract clock: "the wall-clock limit has passed when iteration `k` checks it". Returns the
outcome, the number of steps that changed the state (i.e. executed with a non-empty EXEC), and
the final state. -/
def runLoop (X : Ext) (ρ : Oracle) (timeout : Nat → Bool) : Nat → Nat → State → Outcome × Nat × State
  | 0, k, s => (.stepLimit, k, s)                       -- fuel exhausted: cannot happen (see `run`)
  | fuel + 1, k, s =>
    if (k : Int) > s.cfg.evalPushLimit.toInt then (.stepLimit, k, s)
    else if timeout k then (.timeLimit, k, s)
    else if (step X ρ s).1 then (.noErrors, k, s)
    else if (step X ρ s).2.size > s.size + s.cfg.growthCap then (.growthCap, k + 1, (step X ρ s).2)
    else runLoop X ρ timeout fuel (k + 1) (step X ρ s).2

/-- `PushInterpreter::run` -/
def run (X : Ext) (ρ : Oracle) (timeout : Nat → Bool) (s : State) : Outcome × Nat × State :=
  runLoop X ρ timeout ((s.cfg.evalPushLimit.toInt + 2).toNat + 1) 0 (copyToCode s)

end Pushr
