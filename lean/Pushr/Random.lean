import Pushr.Sem
/-! `random.rs` over an arbitrary oracle (a stream of naturals). Every function returns the next
oracle position. Repaired forms: `random_code` needs `max_points > 1`; `random_bool_vector` draws
from `0..size` and rejects NaN; `random_float_vector` rejects a non-finite deviation. -/
namespace Pushr.Rand
open Pushr

/-- `gen_range(lo..hi)` for `lo < hi` -/
def draw (ρ : Oracle) (i lo hi : Nat) : Nat := lo + ρ i % (hi - lo)

theorem draw_range (ρ : Oracle) (i lo hi : Nat) (h : lo < hi) :
    lo ≤ draw ρ i lo hi ∧ draw ρ i lo hi < hi := by
  unfold draw
  have := Nat.mod_lt (ρ i) (show 0 < hi - lo by omega)
  omega

/-- `decompose`: positive parts summing to `remaining` (for `remaining ≥ 1`) -/
def decompose (ρ : Oracle) (i : Nat) (remaining : Nat) : List Nat × Nat :=
  if h : remaining ≤ 1 then ([1], i)
  else
    let k := draw ρ i 1 remaining
    have : remaining - k < remaining := by
      have := draw_range ρ i 1 remaining (by omega); omega
    let r := decompose ρ (i + 1) (remaining - k)
    (k :: r.1, r.2)
termination_by remaining

/-- a float in `[0, 1)` from one draw (24 random mantissa bits, like `rng.gen::<f32>()`) -/
def unitFloat (n : Nat) : Float32 := Float32.ofNat (n % 16777216) / 16777216

/-- leaf generation (`points == 1`): the kind is `gen_range(0..=5)`; 4 and 5 are names -/
def genLeaf (ρ : Oracle) (s : State) (instrs : List Instr) (i : Nat) : Item × Nat :=
  match ρ i % 6 with
  | 0 => (.lit (.bool (ρ (i + 1) % 2 == 1)), i + 2)
  | 1 => (.lit (.float (unitFloat (ρ (i + 1)))), i + 2)
  | 2 => match instrs[ρ (i + 1) % instrs.length]? with
    | some ins => (.instr ins, i + 2)
    | none => (.instr .noop, i + 1)
  | 3 => (.lit (.int (Int32.ofNat (ρ (i + 1)))), i + 2)
  | _ =>
    if ρ (i + 1) % 10000 < (s.cfg.newErcNameProb * 10000).toUInt32.toNat then (.ident (newName ρ (i + 2)), i + 3)
    else (.ident (boundName ρ { s with rng := i + 2 }), i + 3)

/-- sub-trees for the parts of a decomposition; `g` generates one tree of a given size -/
def genL (g : Nat → Nat → Item × Nat) : Nat → List Nat → List Item × Nat
  | i, [] => ([], i)
  | i, p :: ps =>
    let r := g i p
    let rs := genL g r.2 ps
    (r.1 :: rs.1, rs.2)

/-- `random_code_with_size` (fuel-structural; fuel ≥ points suffices) -/
def genCode (ρ : Oracle) (s : State) (instrs : List Instr) : Nat → Nat → Nat → Item × Nat
  | 0, i, _ => genLeaf ρ s instrs i
  | f + 1, i, points =>
    if points ≤ 1 then genLeaf ρ s instrs i
    else
      let d := decompose ρ i (points - 1)
      let r := genL (genCode ρ s instrs f) d.2 d.1
      -- `Item::list(items_this_level)`: the first generated item is at the bottom
      (.list r.1.reverse, r.2)

/-- `random_code`: a size in `1..max_points`, then exact-size generation; nothing for `max_points < 2` -/
def randomCode (ρ : Oracle) (s : State) (instrs : List Instr) (maxPoints : Nat) : Option (Item × Nat) :=
  if maxPoints > 1 then
    some (genCode ρ s instrs (draw ρ s.rng 1 maxPoints) (s.rng + 1) (draw ρ s.rng 1 maxPoints))
  else none

/-! ### value generators -/

/-- `(100 * min(s, 1 - s)).round() / 100` then `(sp * size as f32) as i32` -/
def activeBits (size : Int32) (sparsity : Float32) : Nat :=
  let m := if sparsity > 1 - sparsity then 1 - sparsity else sparsity
  let sp := (100 * m).round / 100
  (sp * size.toFloat32).toInt32.toInt.toNat

/-- positions of `v` that still hold `dflt` -/
def defaultPositions (v : List Bool) (dflt : Bool) : List Nat :=
  (List.range v.length).filter fun p => v[p]? == some dflt

/-- `k` successful flips. The rejection loop ("draw until a default position is hit") is modelled
by its accepted draw: a uniformly chosen default position. -/
def flipBits (ρ : Oracle) (dflt : Bool) : Nat → Nat → List Bool → List Bool × Nat
  | 0, i, v => (v, i)
  | k + 1, i, v =>
    let ps := defaultPositions v dflt
    match ps[ρ i % ps.length]? with
    | some p => flipBits ρ dflt k (i + 1) (v.set p (!dflt))
    | none => (v, i)           -- no default position left: cannot happen for k ≤ size / 2

def randBoolVec (ρ : Oracle) (i : Nat) (size : Int32) (sparsity : Float32) : Option (List Bool × Nat) :=
  if size < 0 || !(sparsity ≥ 0 && sparsity ≤ 1) then none
  else
    let dflt := sparsity > 0.5
    let n := size.toInt.toNat
    some (flipBits ρ dflt (activeBits size sparsity) i (List.replicate n dflt))

def drawsInt (ρ : Oracle) (lo hi : Int) : Nat → Nat → List Int32
  | 0, _ => []
  | n + 1, i => Int32.ofInt (drawInt ρ i lo hi) :: drawsInt ρ lo hi n (i + 1)

def randIntVec (ρ : Oracle) (i : Nat) (size mn mx : Int32) : Option (List Int32 × Nat) :=
  if size < 0 || mx ≤ mn then none
  else
    let n := size.toInt.toNat
    some (drawsInt ρ mn.toInt mx.toInt n i, i + n)

/-- one normal sample: opaque to the model (only the count of samples is specified) -/
def normalSample (ρ : Oracle) (i : Nat) (mean sd : Float32) : Float32 :=
  mean + sd * (unitFloat (ρ i) - 0.5)

def randFloatVec (ρ : Oracle) (i : Nat) (size : Int32) (mean sd : Float32) : Option (List Float32 × Nat) :=
  if size < 0 || sd < 0 || !sd.isFinite then none
  else
    let n := size.toInt.toNat
    some ((List.range n).map (fun k => normalSample ρ (i + k) mean sd), i + n)

end Pushr.Rand
