import Pushr.Types
import Pushr.Names
import Pushr.Float
/-! `Display` / `to_string` of every printable thing, as the Rust code writes them. -/
namespace Pushr

/-- Unicode `White_Space` (what `str::trim` and `split_whitespace` use) -/
def isWs (c : Char) : Bool :=
  let n := c.toNat
  (9 ≤ n && n ≤ 13) || n == 32 || n == 0x85 || n == 0xA0 || n == 0x1680 || (0x2000 ≤ n && n ≤ 0x200A)
  || n == 0x2028 || n == 0x2029 || n == 0x202F || n == 0x205F || n == 0x3000

def trimL (cs : List Char) : List Char := cs.dropWhile isWs
def trimChars (cs : List Char) : List Char := (trimL (trimL cs).reverse).reverse
/-- `str::trim` -/
def trim (s : String) : String := String.ofList (trimChars s.toList)

def showBool (b : Bool) : String := if b then "TRUE" else "FALSE"
def showI32 (i : Int32) : String := toString i.toInt

/-- `s.pop()` after the fold that appends "," to each element, inside brackets -/
def showVec (xs : List String) : String := "[" ++ String.intercalate "," xs ++ "]"

/-- Graph printing depends on `HashMap` iteration order and the shortest-round-trip float printer;
only the empty graph is modelled exactly (sorted order otherwise; see DESIGN §3.3). -/
def showGraph (g : Graph) : String :=
  let ns := String.intercalate ", " (g.nodes.map fun (id, st) =>
    "\nN[ID: " ++ toString id ++ ", STATE: " ++ showI32 st ++ "]")
  let es := g.edges.flatMap fun (d, l) => l.map fun e =>
    "\nE[" ++ toString d ++ " <= [ONID: " ++ toString e.origin ++ ", WEIGHT: ?]]"
  "\nNODES(" ++ toString g.nodes.length ++ "): " ++ ns ++ "\nEDGES(" ++ toString es.length ++ "): "
    ++ String.intercalate ", " es

def Lit.show : Lit → String
  | .bool b => showBool b
  | .int i => showI32 i
  | .index c d => toString c ++ "/" ++ toString d
  | .float f => F32.fmt3 f
  | .bvec v => showVec (v.map showBool)
  | .ivec v => showVec (v.map showI32)
  | .fvec v => showVec (v.map F32.fmt3)
  | .graph g => showGraph g

/-- `PushStack::to_string` given the element strings top first: `" a b c".trim()` -/
def showStack (xs : List String) : String :=
  trim (String.join (xs.map fun s => " " ++ s))

mutual
def Item.show : Item → String
  | .list xs => "( " ++ showStack (Item.showL xs) ++ " )"
  | .instr i => i.str
  | .lit v => v.show
  | .ident n => n
def Item.showL : List Item → List String
  | [] => []
  | x :: xs => Item.show x :: Item.showL xs
end

def Msg.show (m : Msg) : String := showVec (m.header.map showI32) ++ "&" ++ showVec (m.body.map showBool)

end Pushr
