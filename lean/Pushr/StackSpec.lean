import Pushr.Basic
/-! Layer 1: the plain sequence a stack is supposed to be. A stack is a `List α` whose HEAD is
the top; position `i` is simply `l[i]`. Every function is total. -/
namespace Pushr.Seq
variable {α : Type}

def get (l : List α) (i : Nat) : Option α := l[i]?
def push (l : List α) (x : α) : List α := x :: l
def pop (l : List α) : Option α × List α :=
  match l with
  | [] => (none, [])
  | x :: t => (some x, t)
def pushFront (l : List α) (x : α) : List α := l ++ [x]
def popFront (l : List α) : Option α × List α :=
  match l.getLast? with
  | some x => (some x, l.dropLast)
  | none => (none, l)
/-- bring the item at position `i` to the top (positions 0 and out-of-range: nothing happens) -/
def yank (l : List α) (i : Nat) : List α :=
  match l[i]? with
  | some x => if i = 0 then l else x :: l.eraseIdx i
  | none => l
/-- move the top item down to position `i` -/
def shove (l : List α) (i : Nat) : List α :=
  match l with
  | [] => []
  | x :: t => if 0 < i ∧ i < l.length then t.take i ++ x :: t.drop i else l
/-- the `n` top items, returned in Vec order (deepest first, top last) -/
def popVec (l : List α) (n : Nat) : Option (List α) × List α :=
  if n > l.length then (none, l) else (some (l.take n).reverse, l.drop n)
def copyVec (l : List α) (n : Nat) : Option (List α) :=
  if n > l.length then none else some (l.take n).reverse
/-- the last element of the argument becomes the top -/
def pushVec (l : List α) (v : List α) : List α := v.reverse ++ l
def replace (l : List α) (i : Nat) (x : α) : Except Nat Unit × List α :=
  if i < l.length then (.ok (), l.set i x) else (.error (i - l.length + 1), l)
def remove (l : List α) (i : Nat) : List α := l.eraseIdx i
def reverse (l : List α) : List α := l.reverse
def flush (_ : List α) : List α := []
def equalAt (sh : α → String) (l : List α) (i : Nat) (el : α) : Option Bool :=
  match l[i]? with
  | some x => some (sh x == sh el)
  | none => none
def lastEq (eq : α → α → Bool) (l : List α) (x : α) : Bool :=
  match l with
  | [] => false
  | y :: _ => eq x y
def bottom (l : List α) : Option α := l.getLast?
def strings (sh : α → String) (l : List α) : List String := l.map sh

end Pushr.Seq
