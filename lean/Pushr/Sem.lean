import Pushr.StateOps
import Pushr.Item
import Pushr.Print
/-! Executable semantics of the instructions (scalar, name, code, exec, index, io families here;
vectors, records and graphs in their own files). The model is the model of the tree *after* the
`fix:` commits: integer arithmetic wraps, guards are in place. -/
namespace Pushr

/-- random oracle: an arbitrary stream of naturals; theorems quantify over all of them -/
abbrev Oracle := Nat → Nat

/-! ## generic stack manipulation (one definition for all nine stack types) -/

/-- pop the INTEGER index first, then act on stack `L` of the resulting state -/
def withIndex {α : Type} (L : Lens α) (s : State) (f : List α → Nat → List α) : State :=
  match s.int with
  | [] => s
  | i :: it =>
    let s1 := { s with int := it }
    let l := L.get s1
    L.set s1 (f l (clampIdx l.length i))

def stkOp {α : Type} (L : Lens α) (t : Ty) : SOp → State → State
  | .dup, s => match L.get s with
    | [] => s
    | x :: l => L.set s (x :: x :: l)
  | .pop, s => L.set s (L.get s).tail
  | .swap, s => L.set s (Seq.shove (L.get s) 1)
  | .rot, s => L.set s (Seq.yank (L.get s) 2)
  | .yank, s => withIndex L s Seq.yank
  | .shove, s => withIndex L s Seq.shove
  | .yankdup, s => withIndex L s fun l k => match l[k]? with
    | some x => x :: l
    | none => l
  | .flush, s => L.set s []
  | .depth, s =>
    -- INTEGER.STACKDEPTH counts the value it pushes
    pushInt s (lenI32 ((L.get s).length + (if t = .int then 1 else 0)))
  | .id, s => pushInt s t.id

def semStk : Ty → SOp → State → State
  | .bool, o, s => stkOp Lens.bool .bool o s
  | .int, o, s => stkOp Lens.int .int o s
  | .float, o, s => stkOp Lens.float .float o s
  | .name, o, s => stkOp Lens.name .name o s
  | .code, o, s => stkOp Lens.code .code o s
  | .exec, o, s => stkOp Lens.exec .exec o s
  | .bvec, o, s => stkOp Lens.bvec .bvec o s
  | .ivec, o, s => stkOp Lens.ivec .ivec o s
  | .fvec, o, s => stkOp Lens.fvec .fvec o s

/-! ## DEFINE -/

/-- pops the NAME first, then the value; binds only when both were there -/
def defineWith (s : State) (val : State → Option (Item × State)) : State :=
  match s.name with
  | [] => s
  | n :: ns =>
    let s1 := { s with name := ns }
    match val s1 with
    | none => s1
    | some (v, s2) => { s2 with bindings := bindInsert n v s2.bindings }

def popAs {α : Type} (L : Lens α) (mk : α → Item) (s : State) : Option (Item × State) :=
  match L.get s with
  | [] => none
  | x :: l => some (mk x, L.set s l)

def semDefine : Ty → State → State
  | .bool, s => defineWith s (popAs Lens.bool fun b => .lit (.bool b))
  | .int, s => defineWith s (popAs Lens.int fun i => .lit (.int i))
  | .float, s => defineWith s (popAs Lens.float fun f => .lit (.float f))
  | .name, s => s
  | .code, s => defineWith s (popAs Lens.code id)
  | .exec, s => defineWith s (popAs Lens.exec id)
  | .bvec, s => defineWith s (popAs Lens.bvec fun v => .lit (.bvec v))
  | .ivec, s => defineWith s (popAs Lens.ivec fun v => .lit (.ivec v))
  | .fvec, s => defineWith s (popAs Lens.fvec fun v => .lit (.fvec v))

/-! ## BOOLEAN -/

/-- binary operator on the top two items of one stack; `a` = second item (left operand), `b` = top -/
def bin2 {α : Type} (L : Lens α) (s : State) (f : α → α → State → State) : State :=
  match L.get s with
  | b :: a :: l => f a b (L.set s l)
  | _ => s

def semBool (ρ : Oracle) : BoolOp → State → State
  | .eq, s => bin2 Lens.bool s fun a b s => pushBool s (a == b)
  | .and, s => bin2 Lens.bool s fun a b s => pushBool s (a && b)
  | .or, s => bin2 Lens.bool s fun a b s => pushBool s (a || b)
  | .not, s => match s.bool with
    | b :: l => { s with bool := (!b) :: l }
    | [] => s
  -- the operand is copied, not popped; TRUE for zero (pinned by unit tests: known finding K03)
  | .fromfloat, s => match s.float with
    | f :: _ => pushBool s (f == 0)
    | [] => s
  | .frominteger, s => match s.int with
    | i :: _ => pushBool s (i == 0)
    | [] => s
  | .rand, s => { pushBool s (ρ s.rng % 2 == 1) with rng := s.rng + 1 }

/-! ## INTEGER (wrapping arithmetic) -/

def i32Abs (i : Int32) : Int32 := if i < 0 then -i else i

/-- uniform draw from `[lo, hi)`, `lo < hi`, as `gen_range` -/
def drawInt (ρ : Oracle) (pos : Nat) (lo hi : Int) : Int := lo + (ρ pos % (hi - lo).toNat : Nat)

def semInt (ρ : Oracle) : IntOp → State → State
  | .mod, s => bin2 Lens.int s fun a b s => if b != 0 then pushInt s (a % b) else s
  | .mul, s => bin2 Lens.int s fun a b s => pushInt s (a * b)
  | .add, s => bin2 Lens.int s fun a b s => pushInt s (a + b)
  | .sub, s => bin2 Lens.int s fun a b s => pushInt s (a - b)
  | .div, s => bin2 Lens.int s fun a b s => if b != 0 then pushInt s (a / b) else s
  | .lt, s => bin2 Lens.int s fun a b s => pushBool s (a < b)
  | .eq, s => bin2 Lens.int s fun a b s => pushBool s (a == b)
  | .gt, s => bin2 Lens.int s fun a b s => pushBool s (a > b)
  | .abs, s => match s.int with
    | i :: l => { s with int := i32Abs i :: l }
    | [] => s
  | .ddup, s => match s.int with
    | b :: a :: l => { s with int := b :: a :: b :: a :: l }
    | _ => s
  | .fromboolean, s => match s.bool with
    | b :: l => pushInt { s with bool := l } (if b then 1 else 0)
    | [] => s
  | .fromfloat, s => match s.float with
    | f :: l => pushInt { s with float := l } f.toInt32
    | [] => s
  | .max, s => bin2 Lens.int s fun a b s => pushInt s (if a > b then a else b)
  | .min, s => bin2 Lens.int s fun a b s => pushInt s (if a > b then b else a)
  | .rand, s =>
    if s.cfg.minRandInt < s.cfg.maxRandInt then
      { pushInt s (Int32.ofInt (drawInt ρ s.rng s.cfg.minRandInt.toInt s.cfg.maxRandInt.toInt)) with
        rng := s.rng + 1 }
    else s

/-! ## FLOAT -/

def drawFloat (ρ : Oracle) (pos : Nat) (lo hi : Float32) : Float32 :=
  lo + (hi - lo) * (Float32.ofNat (ρ pos % 16777216) / 16777216)

def un1 {α : Type} (L : Lens α) (s : State) (f : α → α) : State :=
  match L.get s with
  | x :: l => L.set s (f x :: l)
  | [] => s

def semFloat (ρ : Oracle) : FloatOp → State → State
  | .mod, s => bin2 Lens.float s fun a b s => if b != 0 then pushFloat s (F32.fmod a b) else s
  | .mul, s => bin2 Lens.float s fun a b s => pushFloat s (a * b)
  | .add, s => bin2 Lens.float s fun a b s => pushFloat s (a + b)
  | .sub, s => bin2 Lens.float s fun a b s => pushFloat s (a - b)
  | .div, s => bin2 Lens.float s fun a b s => if b != 0 then pushFloat s (a / b) else s
  | .lt, s => bin2 Lens.float s fun a b s => pushBool s (a < b)
  | .eq, s => bin2 Lens.float s fun a b s => pushBool s (a == b)
  | .gt, s => bin2 Lens.float s fun a b s => pushBool s (a > b)
  | .cos, s => un1 Lens.float s Float32.cos
  | .exp, s => un1 Lens.float s Float32.exp
  | .sin, s => un1 Lens.float s Float32.sin
  | .tan, s => un1 Lens.float s Float32.tan
  | .fromboolean, s => match s.bool with
    | b :: l => pushFloat { s with bool := l } (if b then 1 else 0)
    | [] => s
  | .frominteger, s => match s.int with
    | i :: l => pushFloat { s with int := l } i.toFloat32
    | [] => s
  | .max, s => bin2 Lens.float s fun a b s => pushFloat s (if a > b then a else b)
  | .min, s => bin2 Lens.float s fun a b s => pushFloat s (if a > b then b else a)
  | .rand, s =>
    -- guarded by min < max and (repaired) a finite span
    if s.cfg.minRandFloat < s.cfg.maxRandFloat && (s.cfg.maxRandFloat - s.cfg.minRandFloat).isFinite then
      { pushFloat s (drawFloat ρ s.rng s.cfg.minRandFloat s.cfg.maxRandFloat) with rng := s.rng + 1 }
    else s

/-! ## NAME -/

def newName (ρ : Oracle) (pos : Nat) : String := "rnd-" ++ toString (ρ pos)

/-- `existing_random_name` -/
def boundName (ρ : Oracle) (s : State) : String :=
  match s.bindings[ρ s.rng % s.bindings.length]? with
  | some (k, _) => k
  | none => newName ρ s.rng

def semName (ρ : Oracle) : NameOp → State → State
  | .eq, s => bin2 Lens.name s fun a b s => pushBool s (a == b)
  | .cat, s => bin2 Lens.name s fun a b s => pushName s (a ++ " " ++ b)
  | .quote, s => { s with quote := true }
  | .send, s => { s with send := true }
  | .rand, s => { pushName s (newName ρ s.rng) with rng := s.rng + 1 }
  | .randbound, s => { pushName s (boundName ρ s) with rng := s.rng + 1 }

/-! ## INDEX -/

def semIndex : IndexOp → State → State
  | .current, s => match s.index with
    | (c, _) :: _ => pushInt s (lenI32 c)
    | [] => s
  | .define, s => match s.int with
    | i :: l => { s with int := l, index := (0, (max 0 i.toInt).toNat) :: s.index }
    | [] => s
  | .destination, s => match s.index with
    | (_, d) :: _ => pushInt s (lenI32 d)
    | [] => s
  | .flush, s => { s with index := [] }
  | .increase, s => match s.index with
    | (c, d) :: l => if c < d then { s with index := (c + 1, d) :: l } else s
    | [] => s
  | .pop, s => { s with index := s.index.tail }

/-! ## INPUT / OUTPUT -/

def semIo : IoOp → State → State
  | .available, s => pushBool s (s.input.size > 0)
  | .get, s => match s.int with
    | [] => s
    | i :: l =>
      let s1 := { s with int := l }
      match s1.input.oldest with
      | none => s1
      | some m =>
        match m.body[clampIdx m.body.length i]? with
        | some b => pushBool s1 b
        | none => s1                       -- empty body (repaired: no indexing)
  | .next, s => { s with input := s.input.popOldest.2 }
  | .read, s => match s.input.oldest with
    | some m => { s with bvec := m.body :: s.bvec, ivec := m.header :: s.ivec }
    | none => s
  | .inDepth, s => pushInt s (lenI32 s.input.size)
  | .outFlush, s => { s with output := s.output.flush }
  | .outDepth, s => pushInt s (lenI32 s.output.size)
  | .outWrite, s => match s.bvec with
    | [] => s
    | body :: bl =>
      let s1 := { s with bvec := bl }
      match s1.ivec with
      | [] => s1
      | header :: il => { s1 with ivec := il, output := s1.output.push ⟨header, body⟩ }

/-! ## CODE -/

def isList : Item → Bool
  | .list _ => true
  | _ => false

/-- elements contributed to a CONS result: a list contributes its elements, an atom itself -/
def consElems : Item → List Item
  | .list xs => xs
  | t => [t]

/-- CODE.DISCREPANCY as written: position-wise printed comparison for two lists, printed equality
otherwise. `fst` = second stack item, `scd` = top stack item. -/
def discrepancy (fst scd : Item) : Int32 :=
  match fst, scd with
  | .list fs, .list ss =>
    let mism := (fs.zipIdx.filter fun (x, i) => match ss[i]? with
      | some y => y.show != x.show
      | none => false).length
    let diff : Int := (fs.length : Int) - (ss.length : Int)
    lenI32 (mism + diff.natAbs)
  | _, _ => if fst.show != scd.show then 1 else 0

/-- `sub_idx.rem_euclid(n as i32)` for `n > 0` -/
def remEuclid (i : Int32) (n : Nat) : Nat := (i.toInt % (n : Int)).toNat

def instr (i : Instr) : Item := .instr i

/-- `CODE.RAND` / `random_code` is in `Random.lean`; the hook is a parameter to keep this file small -/
def semCode (randCode : Oracle → State → Nat → Option (Item × Nat)) (ρ : Oracle) : CodeOp → State → State
  | .eq, s => match s.code with
    | b :: a :: _ => pushBool s (Item.equals a b)
    | _ => s
  | .append, s => match s.code with
    | b :: a :: l => { s with code := .list [b, a] :: l }
    | _ => s
  | .atom, s => match s.code with
    | t :: _ => pushBool s (!isList t)
    | [] => s
  | .car, s => match s.code with
    | .list (x :: _) :: l => { s with code := x :: l }
    | .list [] :: l => { s with code := l }
    | _ => s
  | .cdr, s => match s.code with
    | .list xs :: l => { s with code := .list xs.tail :: l }
    | _ :: l => { s with code := .list [] :: l }
    | [] => s
  | .cons, s => match s.code with
    | b :: a :: l => { s with code := .list (consElems a ++ consElems b) :: l }
    | _ => s
  | .container, s => match s.code with
    | b :: a :: _ => match Item.container b a with
      | .ok c => pushCode s c
      | .error _ => pushCode s (.list [])
    | _ => s
  | .contains, s => match s.code with
    | b :: a :: _ => pushBool s (Item.pos b a 0).isSome
    | _ => s
  | .member, s => match s.code with
    | b :: a :: _ => pushBool s (Item.pos a b 0).isSome
    | _ => s
  | .definition, s => match s.name with
    | [] => s
    | n :: ns => match bindLookup n s.bindings with
      | some v => { s with name := ns, code := v :: s.code }
      | none => { s with name := ns }
  | .discrepancy, s => match s.code with
    | b :: a :: _ => pushInt s (discrepancy a b)
    | _ => s
  | .do_, s => match s.code with
    | c :: _ => { s with exec := c :: instr (.stk .code .pop) :: s.exec }
    | [] => s
  | .dostar, s => match s.code with
    | c :: _ => { s with exec := instr (.stk .code .pop) :: c :: s.exec }
    | [] => s
  -- as written (re-arms with the body left on EXEC: known finding K01, shape pinned by a unit test)
  | .loop, s => match s.code with
    | [] => s
    | body :: cl =>
      let s1 := { s with code := cl }
      match s1.index with
      | [] => s1
      | (c, d) :: il =>
        if c < d then
          { s1 with exec := body :: .list [instr (.index .increase), instr (.code .loop), body] :: s1.exec }
        else { s1 with index := il }
  | .extract, s => match s.int with
    | [] => s
    | i :: il =>
      let s1 := { s with int := il }
      match s1.code with
      | [] => s1
      | c :: _ => match Item.trav c (remEuclid i c.size) with
        | .ok el => pushCode s1 el
        | .error _ => s1
  | .fromboolean, s => match s.bool with
    | b :: l => pushCode { s with bool := l } (.lit (.bool b))
    | [] => s
  | .fromfloat, s => match s.float with
    | f :: l => pushCode { s with float := l } (.lit (.float f))
    | [] => s
  | .frominteger, s => match s.int with
    | i :: l => pushCode { s with int := l } (.lit (.int i))
    | [] => s
  | .fromname, s => match s.name with
    | n :: l => pushCode { s with name := l } (.ident n)
    | [] => s
  | .if_, s => match s.code with
    | b :: a :: l =>
      let s1 := { s with code := l }
      match s1.bool with
      | [] => s1
      | c :: bl => { s1 with bool := bl, exec := (if c then a else b) :: s1.exec }
    | _ => s
  -- index 0 replaces the whole item (repaired); negative / too large: nothing (pinned: K02)
  | .insert, s => match s.int with
    | [] => s
    | i :: il =>
      let s1 := { s with int := il }
      match s1.code with
      | top :: x :: l =>
        if i == 0 then { s1 with code := x :: x :: l }
        else if i < 0 then s1
        else match Item.ins top x i.toNatClampNeg with
          | .ok top' => { s1 with code := top' :: x :: l }
          | .error _ => s1
      | _ => s1
  | .length, s => match s.code with
    | .list xs :: _ => pushInt s (lenI32 xs.length)
    | _ :: _ => pushInt s 1
    | [] => s
  | .list, s => match s.code with
    | b :: a :: _ => pushCode s (.list [b, a])
    | _ => s
  | .noop, s => s
  | .nth, s => match s.int with
    | [] => s
    | i :: il =>
      let s1 := { s with int := il }
      match s1.code with
      | [] => s1
      | c :: _ =>
        let idx := remEuclid i c.shallowSize
        if idx = 0 then pushCode s1 c
        else match c with
          | .list xs => match xs[idx - 1]? with
            | some x => pushCode s1 x
            | none => pushCode s1 (.list [])
          | _ => pushCode s1 (.list [])
  | .null, s => match s.code with
    | .list [] :: _ => pushBool s true
    | _ :: _ => pushBool s false
    | [] => s
  | .position, s => match s.code with
    | b :: a :: _ => match Item.pos b a 0 with
      | some k => pushInt s (lenI32 k)
      | none => pushInt s (-1)
    | _ => s
  | .print, s => if s.code.isEmpty then s else pushName s (showStack (s.code.map Item.show))
  | .quote, s => match s.exec with
    | x :: l => { s with exec := l, code := x :: s.code }
    | [] => s
  | .rand, s => match s.int with
    | [] => s
    | i :: il =>
      let s1 := { s with int := il }
      let limit := min (i32Abs i).toInt.natAbs (i32Abs s.cfg.maxPointsRand).toInt.natAbs
      match randCode ρ s1 limit with
      | some (c, pos) => { pushCode s1 c with rng := pos }
      | none => s1
  | .size, s => match s.code with
    | c :: _ => pushInt s (lenI32 c.size)
    | [] => s
  | .subst, s => match s.code with
    | target :: sub :: pat :: l => { s with code := Item.subst target pat sub :: l }
    | _ => s

/-! ## EXEC -/

def semExec : ExecOp → State → State
  | .eq, s => match s.exec with
    | b :: a :: _ => pushBool s (a.show == b.show)
    | _ => s
  -- the command is not run by the model; operands are consumed as written
  | .cmd, s => match s.int with
    | [] => s
    | n :: il =>
      let s1 := { s with int := il }
      if n > -1 then
        let k := n.toInt.toNat + 1
        if k ≤ s1.name.length then { s1 with name := s1.name.drop k } else s1
      else s1
  | .loop, s => match s.exec with
    | [] => s
    | body :: el =>
      let s1 := { s with exec := el }
      match s1.index with
      | [] => s1
      | (c, d) :: il =>
        if c < d then
          { s1 with exec := body :: .list [instr (.index .increase), instr (.exec .loop), body] :: s1.exec }
        else { s1 with index := il }
  | .if_, s => match s.exec with
    | a :: b :: l =>
      let s1 := { s with exec := l }
      match s1.bool with
      | [] => s1
      | c :: bl => { s1 with bool := bl, exec := (if c then a else b) :: s1.exec }
    | _ => s
  | .k, s => match s.exec with
    | a :: _ :: l => { s with exec := a :: l }
    | _ => s
  | .s, s => match s.exec with
    | a :: b :: c :: l => { s with exec := a :: c :: .list [b, c] :: l }
    | _ => s
  | .y, s => match s.exec with
    | x :: l => { s with exec := x :: .list [instr (.exec .y), x] :: l }
    | [] => s

end Pushr
