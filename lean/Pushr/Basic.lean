/-! Rust partiality made explicit: `Rs α` is a computation that may panic. -/
namespace Pushr

/-- The ways a Rust operation used by pushr can panic. -/
inductive Panic where
  | oob      -- slice / Vec index out of bounds
  | arith    -- overflow (debug profile), division by zero, `MIN / -1`
  | unwrap   -- `unwrap` / `expect` on `None` / `Err`
  | range    -- empty / non-finite `gen_range`, `Uniform::from`
  | slice    -- `&s[a..b]` with `a > b` or off a char boundary
  | assert   -- `assert!` inside std (`rotate_left(k)` with `k > len`, `Vec::remove` ..)
  deriving DecidableEq, Repr, Inhabited

abbrev Rs := Except Panic

/-- Build profile: `debug` has overflow checks (this is what `cargo test` builds), `release` wraps. -/
inductive Profile where
  | debug | release
  deriving DecidableEq, Repr, Inhabited

/-- `v[i]` -/
def RVec.idx {α : Type} (v : List α) (i : Nat) : Rs α :=
  match v[i]? with
  | some x => .ok x
  | none => .error .oob

/-- `v[i] = x` -/
def RVec.set {α : Type} (v : List α) (i : Nat) (x : α) : Rs (List α) :=
  if i < v.length then .ok (v.set i x) else .error .oob

/-- `Vec::remove(i)` -/
def RVec.remove {α : Type} (v : List α) (i : Nat) : Rs (α × List α) :=
  match v[i]? with
  | some x => .ok (x, v.eraseIdx i)
  | none => .error .assert

/-- `Vec::insert(i, x)`: panics when `i > len` -/
def RVec.insert {α : Type} (v : List α) (i : Nat) (x : α) : Rs (List α) :=
  if i ≤ v.length then .ok (v.take i ++ x :: v.drop i) else .error .assert

/-- `usize - usize` (panics on underflow in debug; in release it wraps to a huge index which then
fails the following bounds check — both are failures, modelled as one). -/
def Usize.sub (a b : Nat) : Rs Nat :=
  if b ≤ a then .ok (a - b) else .error .arith

theorem RVec.idx_ok {α : Type} (v : List α) (i : Nat) (h : i < v.length) :
    RVec.idx v i = .ok v[i] := by
  simp [RVec.idx, List.getElem?_eq_getElem h]

end Pushr
