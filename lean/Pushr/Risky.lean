import Pushr.Full
/-! Layer 0 of the instructions that index, slice, divide or assert: the Rust operations as written
(after the `fix:` commits), with every possible panic explicit (`Rs`). `Props/C01.lean` proves that
none of them can fail and that each equals the total definition the interpreter model uses. -/
namespace Pushr.Risky

/-- GET: `if len > 0 { values[clamp] }` -/
def vecGet0 {α : Type} (v : List α) (i : Int32) : Rs (Option α) :=
  if v.length > 0 then do
    let x ← RVec.idx v (clampIdx v.length i)
    .ok (some x)
  else .ok none

/-- SET: `if len > 0 { values[clamp] = x }` -/
def vecSet0 {α : Type} (v : List α) (i : Int32) (x : α) : Rs (List α) :=
  if v.length > 0 then RVec.set v (clampIdx v.length i) x else .ok v

/-- one iteration of the repaired element-wise loop: `ofs = i as i64 + offset as i64`; skipped unless
`0 <= ofs < second.len()`; then `second[ofs] = op(second[ofs], top[i])` -/
def overlapStep0 {α : Type} (op : α → α → α) (off : Int) (top : List α) (acc : List α) (i : Nat) : Rs (List α) :=
  if (i : Int) + off < 0 ∨ (i : Int) + off ≥ acc.length then .ok acc
  else do
    let t ← RVec.idx top i
    let a ← RVec.idx acc ((i : Int) + off).toNat
    RVec.set acc ((i : Int) + off).toNat (op a t)

def overlapLoop0 {α : Type} (op : α → α → α) (off : Int) (top : List α) : List Nat → List α → Rs (List α)
  | [], acc => .ok acc
  | i :: is, acc => do
    let acc' ← overlapStep0 op off top acc i
    overlapLoop0 op off top is acc'

/-- ROTATE: `if n > 0 { rotate_left(1); values[n - 1] = x }` (`rotate_left(k)` asserts `k <= len`) -/
def rotate0 {α : Type} (v : List α) (x : α) : Rs (List α) :=
  if v.length > 0 then do
    if 1 > v.length then .error .assert
    else
      let r := v.drop 1 ++ v.take 1
      let k ← Usize.sub r.length 1
      RVec.set r k x
  else .ok v

/-- CODE.NTH on a list: `if idx > 0 { items.get(idx as usize - 1) }` -/
def nth0 (xs : List Item) (idx : Nat) : Rs (Option Item) :=
  if idx > 0 then do
    let k ← Usize.sub idx 1
    .ok xs[k]?
  else .ok none

/-- INPUT.GET: `if body.len() > 0 { body[clamp] }` -/
def inputGet0 (body : List Bool) (i : Int32) : Rs (Option Bool) := vecGet0 body i

/-- `a.wrapping_div(b)` / `wrapping_rem` behind the guard `b != 0`: Rust panics on a zero divisor only -/
def div0 (a b : Int32) : Rs Int32 := if b == 0 then .error .arith else .ok (a / b)
def rem0 (a b : Int32) : Rs Int32 := if b == 0 then .error .arith else .ok (a % b)

/-- INTEGER./ as written: guard, then divide -/
def intDiv0 (a b : Int32) : Rs (Option Int32) :=
  if b != 0 then do let q ← div0 a b; .ok (some q) else .ok none

/-- `sub_idx.rem_euclid(n as i32)` panics for `n = 0` (and overflows only for MIN rem -1) -/
def remEuclid0 (i : Int32) (n : Nat) : Rs Nat := if n == 0 then .error .arith else .ok (remEuclid i n)

/-- `uniform int` sampling needs a non-empty range -/
def genRange0 (lo hi : Int) : Rs Unit := if lo < hi then .ok () else .error .range

end Pushr.Risky
