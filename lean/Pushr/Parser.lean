import Pushr.Types
import Pushr.Names
import Pushr.Float
import Pushr.Print
/-! `parser.rs` (repaired form: an unmatched `)` is ignored; vector literals are sliced with
`str::get`). **Inside this file lists are in Vec order** (index 0 = bottom = `push_front` position):
`rec_push` inserts at the front of the Vec it descends into. `Item.rev` converts to the top-first
convention of the rest of the model. -/
namespace Pushr.Parse

/-! ## tokens -/

/-- `split_whitespace` on characters -/
def splitWs : List Char → List Char → List (List Char)
  | [], cur => if cur.isEmpty then [] else [cur.reverse]
  | c :: cs, cur =>
    if isWs c then (if cur.isEmpty then splitWs cs [] else cur.reverse :: splitWs cs [])
    else splitWs cs (c :: cur)

def tokenize (s : String) : List String := (splitWs s.toList []).map String.ofList

def isDigit (c : Char) : Bool := '0' ≤ c && c ≤ '9'
def digitsVal (cs : List Char) : Nat := cs.foldl (fun a c => a * 10 + (c.toNat - 48)) 0

/-- `str::parse::<i32>`: optional sign, at least one ASCII digit, no overflow -/
def parseI32 (cs : List Char) : Option Int32 :=
  let (neg, ds) := match cs with
    | '-' :: r => (true, r)
    | '+' :: r => (false, r)
    | r => (false, r)
  if ds.isEmpty || !ds.all isDigit then none
  else
    let v : Int := if neg then -(digitsVal ds : Int) else digitsVal ds
    if -2147483648 ≤ v && v ≤ 2147483647 then some (Int32.ofInt v) else none

def lower (c : Char) : Char := if 'A' ≤ c && c ≤ 'Z' then Char.ofNat (c.toNat + 32) else c

/-- `str::parse::<f32>`: sign? (inf | infinity | nan | digits [. digits] [e sign? digits]), correctly
rounded to nearest-even -/
def parseF32 (cs : List Char) : Option Float32 :=
  let (neg, r) := match cs with
    | '-' :: r => (true, r)
    | '+' :: r => (false, r)
    | r => (false, r)
  let lw := r.map lower
  if lw == "inf".toList || lw == "infinity".toList then some (F32.inf neg)
  else if lw == "nan".toList then some F32.nan
  else
    let ip := r.takeWhile isDigit
    let r1 := r.dropWhile isDigit
    let (fp, r2) := match r1 with
      | '.' :: t => (t.takeWhile isDigit, t.dropWhile isDigit)
      | t => ([], t)
    if ip.isEmpty && fp.isEmpty then none
    else
      let ex : Option Int := match r2 with
        | [] => some 0
        | e :: t =>
          if e == 'e' || e == 'E' then
            let (eneg, ds) := match t with
              | '-' :: u => (true, u)
              | '+' :: u => (false, u)
              | u => (false, u)
            if ds.isEmpty || !ds.all isDigit then none
            else some (if eneg then -(digitsVal ds : Int) else digitsVal ds)
          else none
      match ex with
      | none => none
      | some e =>
        let d := digitsVal (ip ++ fp)
        let dec : Int := e - fp.length         -- value = d * 10 ^ dec
        if d == 0 then some (F32.zero neg)
        else
          let nd : Int := (toString d).length
          if nd + dec > 45 then some (F32.inf neg)
          else if nd + dec < -60 then some (F32.zero neg)
          else if dec ≥ 0 then some (F32.ofRat neg (d * 10 ^ dec.toNat) 1)
          else some (F32.ofRat neg d (10 ^ (-dec).toNat))

/-! ## vector literals -/

def splitOn (sep : Char) : List Char → List Char → List (List Char)
  | [], cur => [cur.reverse]
  | c :: cs, cur => if c == sep then cur.reverse :: splitOn sep cs [] else splitOn sep cs (c :: cur)

/-- `token.get(k .. token.len() - 1)` for an ASCII prefix of `k` bytes: `None` when the token is too
short or its last character is multi-byte (the end is not a char boundary) -/
def innerOf (tok : List Char) (k : Nat) : Option (List Char) :=
  match tok.getLast? with
  | none => none
  | some last =>
    if last.toNat ≥ 128 then none
    else if tok.length < k + 1 then none       -- ASCII prefix: bytes = chars up to k; start k > end
    else some ((tok.drop k).dropLast)

def parseBoolEl (cs : List Char) : Option Bool :=
  if cs == "1".toList || cs == "true".toList then some true
  else if cs == "0".toList || cs == "false".toList then some false
  else none

/-- what a token stands for -/
inductive Tok where
  | lp | rp
  | atom (it : Item)
  | dropped             -- malformed vector literal: ignored
  deriving Inhabited

def startsWith (cs pre : List Char) : Bool := cs.take pre.length == pre

/-- the classification cascade of `parse_program` -/
def classify (isInstr : String → Bool) (tok : String) : Tok :=
  let cs := tok.toList
  if startsWith cs "INT[".toList then
    match innerOf cs 4 with
    | none => .dropped
    | some inner => match (splitOn ',' inner []).mapM parseI32 with
      | some v => .atom (.lit (.ivec v))
      | none => .dropped
  else if startsWith cs "FLOAT[".toList then
    match innerOf cs 6 with
    | none => .dropped
    | some inner => match (splitOn ',' inner []).mapM parseF32 with
      | some v => .atom (.lit (.fvec v))
      | none => .dropped
  else if startsWith cs "BOOL[".toList then
    match innerOf cs 5 with
    | none => .dropped
    | some inner => match (splitOn ',' inner []).mapM parseBoolEl with
      | some v => .atom (.lit (.bvec v))
      | none => .dropped
  else if tok == "(" then .lp
  else if tok == ")" then .rp
  else if isInstr tok then .atom (.instr (Instr.ofName tok))
  else match parseI32 cs with
    | some i => .atom (.lit (.int i))
    | none => match parseF32 cs with
      | some f => .atom (.lit (.float f))
      | none =>
        if tok == "TRUE" then .atom (.lit (.bool true))
        else if tok == "FALSE" then .atom (.lit (.bool false))
        else .atom (.ident tok)

/-! ## building the tree (Vec order) -/

/-- `rec_push`: front-push at the open list found by following bottom items `depth` levels down;
when the path ends in a non-list the item is lost (the function returns `false`) -/
def recPush : List Item → Item → Nat → List Item
  | st, x, 0 => x :: st
  | [], x, _ + 1 => [x]
  | .list xs :: t, x, d + 1 => .list (recPush xs x d) :: t
  | a :: t, _, _ + 1 => a :: t

/-- one token: `(stack in Vec order, depth)` -/
def parseStep (s : List Item × Nat) : Tok → List Item × Nat
  | .lp => (recPush s.1 (.list []) s.2, s.2 + 1)
  | .rp => (s.1, s.2 - 1)
  | .atom a => (recPush s.1 a s.2, s.2)
  | .dropped => s

def parseToks (toks : List Tok) (s : List Item × Nat) : List Item × Nat := toks.foldl parseStep s

mutual
/-- Vec order <-> top-first order (deep reversal; an involution) -/
def rev : Item → Item
  | .list xs => .list (revL xs [])
  | t => t
def revL : List Item → List Item → List Item
  | [], acc => acc
  | x :: xs, acc => revL xs (rev x :: acc)
end

/-- `PushParser::parse_program` on the EXEC stack (top-first in, top-first out) -/
def parseProgram (isInstr : String → Bool) (exec : List Item) (code : String) : List Item :=
  let toks := (tokenize code).map (classify isInstr)
  revL (parseToks toks (revL exec [], 0)).1 []

end Pushr.Parse
