import Pushr.Basic
/-! Layer 0: `PushStack<T>` as `stack.rs` writes it — a `Vec` with the top at the END, every
position translated with `size - (i + 1)`, every indexing operation able to panic. (`equal_at` is
modelled with the repaired bound `i >= size`.) `swap(i, j)` takes raw vector indices and is not
part of the stack abstraction (DESIGN C16). -/
namespace Pushr

structure PStack (α : Type) where
  elements : List α     -- bottom first, exactly like the Rust Vec
  deriving Inhabited

namespace PStack
variable {α : Type}

def size (s : PStack α) : Nat := s.elements.length

/-- the index arithmetic every accessor uses: `self.size() - (i + 1)` -/
def slot (s : PStack α) (i : Nat) : Rs Nat := Usize.sub s.size (i + 1)

def new : PStack α := ⟨[]⟩
def fromVec (v : List α) : PStack α := ⟨v⟩

/-- `to_string`: iterate `elements.iter().rev()`; the final `trim` is applied by the caller -/
def revStrings (sh : α → String) (s : PStack α) : List String := s.elements.reverse.map sh

def lastEq (eq : α → α → Bool) (s : PStack α) (x : α) : Bool :=
  match s.elements.getLast? with
  | some y => eq x y
  | none => false

def equalAt (sh : α → String) (s : PStack α) (i : Nat) (el : α) : Rs (Option Bool) :=
  if i ≥ s.size then .ok none
  else do
    let k ← s.slot i
    let x ← RVec.idx s.elements k
    .ok (some (sh x == sh el))

def bottom (s : PStack α) : Option α := if s.size > 0 then s.elements.head? else none

def flush (_ : PStack α) : PStack α := ⟨[]⟩

def replace (s : PStack α) (i : Nat) (x : α) : Rs (Except Nat Unit × PStack α) :=
  if i < s.size then do            -- `i.checked_sub(size) == None`
    let k ← s.slot i
    let v ← RVec.set s.elements k x
    .ok (.ok (), ⟨v⟩)
  else .ok (.error (i - s.size + 1), s)

def remove (s : PStack α) (i : Nat) : Rs (PStack α) :=
  if i < s.size then do
    let k ← s.slot i
    let (_, v) ← RVec.remove s.elements k
    .ok ⟨v⟩
  else .ok s

def reverse (s : PStack α) : PStack α := ⟨s.elements.reverse⟩

def get (s : PStack α) (i : Nat) : Rs (Option α) :=
  if i < s.size then do
    let k ← s.slot i
    let x ← RVec.idx s.elements k
    .ok (some x)
  else .ok none

def push (s : PStack α) (x : α) : PStack α := ⟨s.elements ++ [x]⟩

def pushFront (s : PStack α) (x : α) : Rs (PStack α) := do
  let v ← RVec.insert s.elements 0 x
  .ok ⟨v⟩

def yank (s : PStack α) (index : Nat) : Rs (PStack α) :=
  if index > 0 ∧ index < s.size then do
    let k ← s.slot index
    let (el, v) ← RVec.remove s.elements k
    .ok ⟨v ++ [el]⟩
  else .ok s

def shove (s : PStack α) (index : Nat) : Rs (PStack α) :=
  if index > 0 ∧ index < s.size then
    match s.elements.getLast? with
    | some el => do
      let rest := s.elements.dropLast
      let k ← Usize.sub rest.length index      -- `self.size() - index` after the pop
      let v ← RVec.insert rest k el
      .ok ⟨v⟩
    | none => .ok s
  else .ok s

def popFront (s : PStack α) : Rs (Option α × PStack α) :=
  if s.elements.isEmpty then .ok (none, s)
  else do
    let (x, v) ← RVec.remove s.elements 0
    .ok (some x, ⟨v⟩)

def pop (s : PStack α) : Option α × PStack α :=
  match s.elements.getLast? with
  | some x => (some x, ⟨s.elements.dropLast⟩)
  | none => (none, s)

/-- `split_off(len - n)`; the returned vector keeps Vec order (last = top) -/
def popVec (s : PStack α) (n : Nat) : Rs (Option (List α) × PStack α) :=
  if n > s.elements.length then .ok (none, s)
  else do
    let k ← Usize.sub s.elements.length n
    .ok (some (s.elements.drop k), ⟨s.elements.take k⟩)

def copy (s : PStack α) (i : Nat) : Rs (Option α) :=
  if s.size == 0 then .ok none
  else do
    let m ← Usize.sub s.size 1
    if i > m then .ok none
    else do
      let k ← s.slot i
      let x ← RVec.idx s.elements k
      .ok (some x)

/-- the `for i in 0..n` loop of `copy_vec`, reading `elements[size - n + i]` -/
def copyVecLoop (s : PStack α) (n : Nat) : Nat → List α → Rs (List α)
  | 0, acc => .ok acc.reverse
  | k + 1, acc => do
    let base ← Usize.sub s.size n
    let x ← RVec.idx s.elements (base + (n - (k + 1)))
    copyVecLoop s n k (x :: acc)

def copyVec (s : PStack α) (n : Nat) : Rs (Option (List α)) :=
  if n > s.size then .ok none
  else do
    let v ← copyVecLoop s n n []
    .ok (some v)

def pushVec (s : PStack α) (v : List α) : PStack α := ⟨s.elements ++ v⟩

end PStack
end Pushr
