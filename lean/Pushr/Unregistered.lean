import Pushr.Vector
import Pushr.Sem
/-! Instruction functions the crate ships but does not register (`load_vector_instructions` has their two lines
commented out): `int_vector_multiply` (README: INTVECTOR.*) and `int_vector_divide` (INTVECTOR./). A program can reach
them only after the host registered them with `InstructionSet::add`, which the README documents; they are modelled
here, outside `sem`, so that the host-registered use is covered too. -/
namespace Pushr

/-- element-wise integer division: a zero divisor inside the overlap makes the whole result invalid -/
def divOverlapI (second top : List Int32) (off : Int) : Option (List Int32) :=
  let bad := top.zipIdx.any fun (t, i) =>
    let j : Int := (i : Int) + off
    0 ≤ j && j.toNat < second.length && t == 0
  if bad then none
  else some (overlapLoop (· / ·) second top off)

/-- `int_vector_multiply` -/
def semIntVecMul (s : State) : State := elementwise Lens.ivec s fun a b off => some (overlapLoop (· * ·) a b off)
/-- `int_vector_divide` -/
def semIntVecDiv (s : State) : State := elementwise Lens.ivec s divOverlapI

/-- `input_flush` (doc comment: INPUT.FLUSH, "Empties the INPUT stack"): a third public instruction function that
`load_io_instructions` does not register -/
def semInputFlush (s : State) : State := { s with input := s.input.flush }

end Pushr
