import Pushr.StateOps
import Pushr.Item
import Pushr.Topology
/-! LIST.* records (`list.rs`). LIST.SET is modelled in its repaired form (address computed after
the items are loaded). -/
namespace Pushr

/-- pop one item from the stack with id `sid` (nothing for an empty stack or an unknown id) -/
def popById (s : State) (sid : Int32) : Option (Item × State) :=
  if sid == 1 then match s.bool with
    | x :: l => some (.lit (.bool x), { s with bool := l })
    | [] => none
  else if sid == 2 then match s.bvec with
    | x :: l => some (.lit (.bvec x), { s with bvec := l })
    | [] => none
  else if sid == 3 then match s.code with
    | x :: l => some (x, { s with code := l })
    | [] => none
  else if sid == 4 then match s.exec with
    | x :: l => some (x, { s with exec := l })
    | [] => none
  else if sid == 5 then match s.float with
    | x :: l => some (.lit (.float x), { s with float := l })
    | [] => none
  else if sid == 6 then match s.fvec with
    | x :: l => some (.lit (.fvec x), { s with fvec := l })
    | [] => none
  else if sid == 9 then match s.int with
    | x :: l => some (.lit (.int x), { s with int := l })
    | [] => none
  else if sid == 10 then match s.ivec with
    | x :: l => some (.lit (.ivec x), { s with ivec := l })
    | [] => none
  else if sid == 11 then match s.name with
    | x :: l => some (.ident x, { s with name := l })
    | [] => none
  else none

/-- the fold of `load_items` over the id vector; items accumulate in pop order -/
def loadFold : List Int32 → State → List Item → List Item × State
  | [], s, acc => (acc, s)
  | sid :: ids, s, acc =>
    match popById s sid with
    | some (it, s') => loadFold ids s' (acc ++ [it])
    | none => loadFold ids s acc

/-- `load_items`: pops the id vector, then the designated items. The record lists the items with
the last popped one on top (`Item::list(items)`). -/
def loadItems (s : State) : Option (Item × State) :=
  match s.ivec with
  | [] => none
  | ids :: l =>
    let (items, s') := loadFold ids { s with ivec := l } []
    some (.list items.reverse, s')

def litBool : Item → Bool
  | .lit (.bool b) => b
  | _ => false
def litInt : Item → Int32
  | .lit (.int i) => i
  | _ => 0
def litFloat : Item → Float32
  | .lit (.float f) => f
  | _ => 0

/-- `bval` / `ival` / `fval`: the `n`-th value of the pattern's type, depth-first; `n < 0` never matches -/
def nthOf (pat : Item) (item : Item) (n : Int32) : Option Item :=
  if n < 0 then none
  else match Item.find item pat 0 n.toInt.toNat with
    | .ok r => some r
    | .error _ => none

def bvalOf (item : Item) (n : Int32) : Bool := match nthOf (.lit (.bool false)) item n with
  | some r => litBool r
  | none => false
def ivalOf (item : Item) (n : Int32) : Int32 := match nthOf (.lit (.int 0)) item n with
  | some r => litInt r
  | none => 0
def fvalOf (item : Item) (n : Int32) : Float32 := match nthOf (.lit (.float 0)) item n with
  | some r => litFloat r
  | none => 0

/-- operand clamping shared by the four NEIGHBOR instructions: `(size, index, dims)` -/
def nbOperands (dimsRaw indexRaw sizeRaw : Int32) : Nat × Nat × Nat :=
  let size := (max sizeRaw.toInt 0).toNat
  let index := (max (min ((size : Int) - 1) indexRaw.toInt) 0).toNat
  let dims := (max (min (size : Int) dimsRaw.toInt) 0).toNat
  (size, index, dims)

/-- neighbourhood for the clamped operands and the radius `max(fval, 0.0)` -/
def neighbors (dimsRaw indexRaw sizeRaw : Int32) (r : Float32) : Option (List Nat) :=
  let (size, index, dims) := nbOperands dimsRaw indexRaw sizeRaw
  let radius : Float32 := if r > 0 then r else 0       -- `f32::max(fval, 0.0)`: NaN gives 0.0
  Topo.findNeighbors (Topo.withinF radius) false size dims index

def semList : ListOp → State → State
  | .add, s => match loadItems s with
    | some (record, s') => pushCode s' record
    | none => s
  | .remove, s => match s.int with
    | [] => s
    | i :: il =>
      let s1 := { s with int := il }
      { s1 with code := s1.code.eraseIdx (clampIdx s1.code.length i) }
  | .get, s => match s.int with
    | [] => s
    | i :: il =>
      let s1 := { s with int := il }
      match (s1.code[clampIdx s1.code.length i]? : Option Item) with
      | some (.list xs) => pushExec s1 (.list xs)
      | _ => s1
  | .bval, s => match s.int with
    | n :: i :: il =>
      let s1 := { s with int := il }
      match (s1.code[clampIdx s1.code.length i]? : Option Item) with
      | some item => pushBool s1 (bvalOf item n)
      | none => s1
    | _ => s
  | .ival, s => match s.int with
    | n :: i :: il =>
      let s1 := { s with int := il }
      match (s1.code[clampIdx s1.code.length i]? : Option Item) with
      | some item => pushInt s1 (ivalOf item n)
      | none => s1
    | _ => s
  | .fval, s => match s.int with
    | n :: i :: il =>
      let s1 := { s with int := il }
      match (s1.code[clampIdx s1.code.length i]? : Option Item) with
      | some item => pushFloat s1 (fvalOf item n)
      | none => s1
    | _ => s
  | .set, s => match s.int with
    | [] => s
    | i :: il =>
      let s1 := { s with int := il }
      match loadItems s1 with
      | none => s1
      | some (record, s2) =>
        if s2.code.isEmpty then s2
        else { s2 with code := s2.code.set (clampIdx s2.code.length i) record }
  | .nbIds, s => match s.int with
    | size :: index :: dims :: il =>
      let s1 := { s with int := il }
      match s1.float with
      | [] => s1
      | r :: fl =>
        let s2 := { s1 with float := fl }
        match neighbors dims index size r with
        | some ns => { s2 with ivec := ns.map lenI32 :: s2.ivec }
        | none => s2
    | _ => s
  | .nbBvals, s => match s.int with
    | pos :: size :: index :: dims :: il =>
      let s1 := { s with int := il }
      match s1.float with
      | [] => s1
      | r :: fl =>
        let s2 := { s1 with float := fl }
        match neighbors dims index size r with
        | some ns => { s2 with bvec := (ns.filterMap fun n => (s2.code[n]?).map fun it => bvalOf it pos) :: s2.bvec }
        | none => s2
    | _ => s
  | .nbIvals, s => match s.int with
    | pos :: size :: index :: dims :: il =>
      let s1 := { s with int := il }
      match s1.float with
      | [] => s1
      | r :: fl =>
        let s2 := { s1 with float := fl }
        match neighbors dims index size r with
        | some ns => { s2 with ivec := (ns.filterMap fun n => (s2.code[n]?).map fun it => ivalOf it pos) :: s2.ivec }
        | none => s2
    | _ => s
  | .nbFvals, s => match s.int with
    | pos :: size :: index :: dims :: il =>
      let s1 := { s with int := il }
      match s1.float with
      | [] => s1
      | r :: fl =>
        let s2 := { s1 with float := fl }
        match neighbors dims index size r with
        | some ns => { s2 with fvec := (ns.filterMap fun n => (s2.code[n]?).map fun it => fvalOf it pos) :: s2.fvec }
        | none => s2
    | _ => s

end Pushr
